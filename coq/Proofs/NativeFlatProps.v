(* The native run loops (Model/EngNative.v) simulate the machine step (Spec/MachineSpec.v):
   - gen_sim: any loop iteration assembled from a flip-word reader, a flip and a jump-word reader that meet
     the specifications of the generic helpers simulates `step` (shared by the flat, measured and paged loops);
   - the flat loop: each fast path equals the generic helper under its guard, hence flat_step simulates `step`;
   - lift to whole runs: observables of run_n = observables of MachineSpec.run. *)
From FJ Require Import Lib.Base Lib.Bits Spec.MachineSpec Model.EngNative Proofs.NativeMemProps.
Local Open Scope N_scope.

Section W.
Variable ww : N.
Hypothesis Hww : 3 <= ww <= 6.
Variable sg : list (N * N).
Hypothesis Hload : loadable_segs ww sg = true.
Variable fc : option N.

Local Notation w := (MachineSpec.w ww).
Local Notation dw := (MachineSpec.dw ww).
Local Notation in_addr := (MachineSpec.in_addr ww).
Local Notation W := (2 ^ w).
Local Notation memR := (NativeMemProps.memR ww sg fc).
Local Notation coreR := (NativeMemProps.coreR ww sg fc).
Local Notation errR := (NativeMemProps.errR ww sg fc).
Local Notation ww_cases := (NativeMemProps.ww_cases ww Hww).
Local Notation w_bounds := (NativeMemProps.w_bounds ww Hww).
Local Notation W_le_M64 := (NativeMemProps.W_le_M64 ww Hww).
Local Notation W_ge_256 := (NativeMemProps.W_ge_256 ww Hww).
Local Notation wlim_M64 := (NativeMemProps.wlim_M64 ww Hww).
Local Notation off_lt_w := (NativeMemProps.off_lt_w ww Hww).
Local Notation wa_mul_le := (NativeMemProps.wa_mul_le ww Hww).
Local Notation land_w1 := (NativeMemProps.land_w1 ww Hww).
Local Notation errR_clear := (NativeMemProps.errR_clear ww Hww sg Hload fc).
Local Notation read_word_spec := (NativeMemProps.read_word_spec ww Hww sg Hload fc).
Local Notation flip_bit_spec := (NativeMemProps.flip_bit_spec ww Hww sg Hload fc).
Local Notation write_bit_spec := (NativeMemProps.write_bit_spec ww Hww sg Hload fc).
Local Notation get_word_spec := (NativeMemProps.get_word_spec ww Hww sg Hload fc).
Local Notation flat_fetch_spec := (NativeMemProps.flat_fetch_spec ww Hww sg Hload fc).
Local Notation R_w := (NativeMemProps.R_w ww sg fc).
Local Notation R_ww := (NativeMemProps.R_ww ww sg fc).
Local Notation R_words := (NativeMemProps.R_words ww sg fc).
Local Notation R_flat := (NativeMemProps.R_flat ww sg fc).
Local Notation R_shape := (NativeMemProps.R_shape ww sg fc).

(* ---- constants of the loops ------------------------------------------------------------------------ *)
Lemma consts nm m : coreR nm m ->
  c_dw nm = dw /\ c_in_addr nm = in_addr /\ c_in_lo nm = in_addr - dw /\ c_bit_mask nm = w - 1 /\ n_w nm = w /\ n_ww nm = ww.
Proof using All.
  intros R. unfold c_in_lo, c_dw, c_in_addr, c_bit_mask. rewrite (R_w _ _ R), (R_ww _ _ R).
  destruct ww_cases as [E|[E|[E|E]]]; rewrite E; vm_compute; repeat split; reflexivity.
Qed.

Lemma small_consts : dw = 2 * w /\ in_addr = 3 * w + ww + 1 /\ 8 <= w <= 64.
Proof using Hww. clear Hload fc sg. split; [reflexivity|]. split; [reflexivity|]. apply w_bounds. Qed.

Lemma mget_word_lt mm ba v : (forall a, mget0 mm a < W) -> get_word ww sg mm ba = inr v -> v < W.
Proof using All.
  intros Hm H. unfold get_word, rdw in H.
  destruct (valid sg (N.shiftr ba ww)); [|discriminate].
  destruct (N.land ba (w - 1) =? 0).
  - inversion H; subst. apply Hm.
  - destruct (valid sg (N.shiftr ba ww + 1)); inversion H. apply land_ones_lt.
Qed.

Lemma u64_succ x : add64 (u64 x) 1 = u64 (x + 1).
Proof using Hww. clear Hload fc sg. unfold add64. rewrite !u64_mod. apply N.add_mod_idemp_l. discriminate. Qed.

(* ---- state relation ----------------------------------------------------------------------------------- *)
Definition stR (s : st) (ns : nst) : Prop :=
  ip s = s_ip ns /\ inp s = s_inp ns /\ outp s = s_out ns /\ s_ops ns = u64 (ops s) /\ memR (s_m ns) (m s).

Definition nsim (a : st + (cause * st)) (b : nst + (ncause * nst)) : Prop :=
  match a, b with
  | inl s', inl ns' => stR s' ns' /\ ip s' < W
  | inr (c, s'), inr (NC c', ns') => c = c' /\ stR s' ns'
  | _, _ => False
  end.

(* the machine step with the flip/jump tail named *)
Definition mtail (s : st) (out1 : list bool) (f : N) (mm : mem) (inp' : list bool) : st + (cause * st) :=
  let h := ip s :: hist s in
  let fw := N.shiftr f ww in
  match rdw sg mm fw with
  | None => inr (MemErr (N.shiftl fw ww), mkst (ip s) mm inp' out1 (ops s) h)
  | Some v =>
    let mm' := mset mm fw (flip_bit ww v f) in
    match get_word ww sg mm' (ip s + w) with
    | inl a => inr (MemErr a, mkst (ip s) mm' inp' out1 (ops s) h)
    | inr j =>
      let s' := mkst j mm' inp' out1 (ops s + 1) h in
      if (j =? ip s) && negb ((ip s <=? f) && (f <? ip s + dw)) then inr (Looping, s')
      else if j <? dw then inr (NullIP, s')
      else inl s'
    end
  end.

Lemma step_eq s : step ww sg s =
  match get_word ww sg (m s) (ip s) with
  | inl a => inr (MemErr a, mkst (ip s) (m s) (inp s) (outp s) (ops s) (ip s :: hist s))
  | inr f =>
    let out1 := if is_output ww f then (f =? dw + 1) :: outp s else outp s in
    if covers_input ww (ip s) then
      match inp s with
      | [] => inr (EOFc, mkst (ip s) (m s) [] out1 (ops s) (ip s :: hist s))
      | b :: rest =>
        match rdw sg (m s) (N.shiftr in_addr ww) with
        | None => inr (MemErr (N.shiftl (N.shiftr in_addr ww) ww), mkst (ip s) (m s) rest out1 (ops s) (ip s :: hist s))
        | Some v => mtail s out1 f (mset (m s) (N.shiftr in_addr ww) (set_bit ww v (N.land in_addr (w - 1)) b)) rest
        end
      end
    else mtail s out1 f (m s) (inp s)
  end.
Proof. reflexivity. Qed.

Lemma exit_sim s ns nm' mm a inp' out' :
  ip s = s_ip ns -> s_ops ns = u64 (ops s) -> errR nm' mm a ->
  nsim (inr (MemErr a, mkst (ip s) mm inp' out' (ops s) (ip s :: hist s))) (memory_error_exit ns nm' inp' out').
Proof using All.
  intros Eip Eops E. pose proof (errR_clear _ _ _ E) as MR. destruct E as (R & Ee & Ea).
  unfold memory_error_exit. rewrite Ee, Ea. cbn. split; [reflexivity|]. unfold stR; cbn. auto.
Qed.

(* ---- one loop iteration assembled from three components ---------------------------------------------- *)
Definition gen_step {X : Type} (ns : nst) (rd : nmem * option (N * X))
           (outf : nmem -> N -> list bool) (hit : nmem -> bool)
           (fl : nmem -> N -> nmem * bool) (rj : X -> nmem -> nmem * option N)
           (tl : nmem -> list bool -> list bool -> N -> N -> nst + (ncause * nst)) : nst + (ncause * nst) :=
  match rd with
  | (m1, None) => memory_error_exit ns m1 ns.(s_inp) ns.(s_out)
  | (m1, Some (f, x)) =>
    let out1 := outf m1 f in
    do_input ns m1 out1 (hit m1) (fun m2 inp' =>
      match fl m2 f with
      | (m3, false) => memory_error_exit ns m3 inp' out1
      | (m3, true) =>
        match rj x m3 with
        | (m4, None) => memory_error_exit ns m4 inp' out1
        | (m4, Some j) => tl m4 inp' out1 f j
        end
      end)
  end.

(* what the loop-specific output test, input test and termination tail have to satisfy *)
Definition out_ok (s : st) (outf : nmem -> N -> list bool) : Prop :=
  forall m1 mm f, memR m1 mm -> f < W -> outf m1 f = if is_output ww f then (f =? dw + 1) :: outp s else outp s.
Definition hit_ok (s : st) (hit : nmem -> bool) : Prop :=
  forall m1 mm, memR m1 mm -> hit m1 = covers_input ww (ip s).
Definition tail_ok (ns : nst) (tl : nmem -> list bool -> list bool -> N -> N -> nst + (ncause * nst)) : Prop :=
  forall m4 mm inp' out1 f j, memR m4 mm -> f < W -> j < W -> tl m4 inp' out1 f j = loop_tail ns m4 inp' out1 f j.

Definition flip_ok (fl : nmem -> N -> nmem * bool) : Prop :=
  forall nm mm f nm' ok, memR nm mm -> f < W -> fl nm f = (nm', ok) ->
    match rdw sg mm (N.shiftr f ww) with
    | Some v => ok = true /\ memR nm' (mset mm (N.shiftr f ww) (flip_bit ww v f))
    | None => ok = false /\ errR nm' mm (N.shiftl (N.shiftr f ww) ww)
    end /\ pages_le nm nm'.

Lemma tail_sim {X} s ns out1 f mm inp' (x : X) m1 m2 fl rj tl (JX : X -> nmem -> Prop) :
  ip s = s_ip ns -> s_ops ns = u64 (ops s) -> ip s < W -> f < W ->
  memR m2 mm -> pages_le m1 m2 -> JX x m1 -> flip_ok fl -> tail_ok ns tl ->
  (forall nm mm' nm' r, pages_le m1 nm -> memR nm mm' -> rj x nm = (nm', r) ->
     match get_word ww sg mm' (ip s + w) with
     | inr v => r = Some v /\ memR nm' mm'
     | inl a => r = None /\ errR nm' mm' a
     end) ->
  nsim (mtail s out1 f mm inp')
       (match fl m2 f with
        | (m3, false) => memory_error_exit ns m3 inp' out1
        | (m3, true) =>
          match rj x m3 with
          | (m4, None) => memory_error_exit ns m4 inp' out1
          | (m4, Some j) => tl m4 inp' out1 f j
          end
        end).
Proof using All.
  intros Eip Eops Hip Hf MR2 Hle J FL TL RJ. unfold mtail.
  destruct (fl m2 f) as [m3 ok] eqn:Efl. destruct (FL m2 mm f m3 ok MR2 Hf Efl) as [S Hle3].
  destruct (rdw sg mm (N.shiftr f ww)) as [v|] eqn:Ev; destruct S as [-> S]; [|now apply exit_sim].
  cbn zeta. set (mm' := mset mm (N.shiftr f ww) (flip_bit ww v f)) in *.
  destruct (rj x m3) as [m4 r] eqn:Erj.
  pose proof (RJ m3 mm' m4 r (pages_le_trans _ _ _ Hle Hle3) S Erj) as S4.
  destruct (get_word ww sg mm' (ip s + w)) as [a|j] eqn:Ej; destruct S4 as [-> S4]; [now apply exit_sim|].
  assert (Hj : j < W) by (eapply mget_word_lt; [apply (R_words _ _ (proj1 S))|exact Ej]).
  destruct (consts m4 mm' (proj1 S4)) as (Cdw & _).
  pose proof W_le_M64 as HW. pose proof (eq_refl : M64 = 18446744073709551616) as HM64.
  rewrite (TL m4 mm' inp' out1 f j S4 Hf Hj).
  unfold loop_tail. rewrite Cdw, <- Eip. rewrite Eops, u64_succ.
  rewrite (own_test f (ip s) dw) by lia.
  destruct (j =? ip s); cbn [andb].
  - destruct ((ip s <=? f) && (f <? ip s + dw)); cbn [negb].
    + destruct (j <? dw); cbn; unfold stR; cbn; auto 10.
    + cbn; unfold stR; cbn; auto 10.
  - destruct (j <? dw); cbn; unfold stR; cbn; auto 10.
Qed.

Lemma do_output_ok s ns : outp s = s_out ns -> out_ok s (fun m1 f => do_output m1 (s_out ns) f).
Proof using All.
  intros Eout m1 mm f MR1 Hf. pose proof W_le_M64 as HW. pose proof (eq_refl : M64 = 18446744073709551616) as HM64.
  destruct small_consts as (Edw & Ein & Hw8). destruct (consts m1 mm (proj1 MR1)) as (Cdw & _).
  unfold do_output, is_output. rewrite Cdw, Eout. rewrite out_test by lia. rewrite add64_small by lia. reflexivity.
Qed.

Lemma input_hit_ok s ns : ip s = s_ip ns -> ip s < W -> hit_ok s (fun m1 => input_hit m1 (s_ip ns)).
Proof using All.
  intros Eip Hip m1 mm MR1. pose proof W_le_M64 as HW. pose proof (eq_refl : M64 = 18446744073709551616) as HM64.
  destruct small_consts as (Edw & Ein & Hw8). destruct (consts m1 mm (proj1 MR1)) as (Cdw & Cin & Clo & _).
  unfold input_hit, covers_input. rewrite Cdw, Clo, <- Eip. rewrite in_test by lia.
  replace (in_addr - dw + dw) with in_addr by lia. rewrite andb_comm. f_equal.
  destruct (N.ltb_spec (in_addr - dw) (ip s)), (N.ltb_spec in_addr (ip s + dw)); try reflexivity; lia.
Qed.

Lemma loop_tail_ok ns : tail_ok ns (loop_tail ns).
Proof using All. intros m4 mm inp' out1 f j _ _ _. reflexivity. Qed.

Lemma gen_sim {X} s ns (rd : nmem * option (N * X)) outf hit fl rj tl (JX : X -> nmem -> Prop) :
  stR s ns -> ip s < W -> ip s + dw <= M64 ->
  match get_word ww sg (m s) (ip s) with
  | inr f => exists m1 x, rd = (m1, Some (f, x)) /\ memR m1 (m s) /\ JX x m1
  | inl a => exists m1, rd = (m1, None) /\ errR m1 (m s) a
  end ->
  out_ok s outf -> hit_ok s hit -> flip_ok fl -> tail_ok ns tl ->
  (forall x m1 nm mm' nm' r, JX x m1 -> pages_le m1 nm -> memR nm mm' -> rj x nm = (nm', r) ->
     match get_word ww sg mm' (ip s + w) with
     | inr v => r = Some v /\ memR nm' mm'
     | inl a => r = None /\ errR nm' mm' a
     end) ->
  nsim (step ww sg s) (gen_step ns rd outf hit fl rj tl).
Proof using All.
  intros (Eip & Einp & Eout & Eops & MR) Hip Htop RD OUT HIT FL TL RJ. rewrite step_eq. unfold gen_step.
  destruct (get_word ww sg (m s) (ip s)) as [a|f] eqn:Ef.
  - destruct RD as (m1 & -> & E). rewrite <- Einp, <- Eout. now apply exit_sim.
  - destruct RD as (m1 & x & -> & MR1 & J).
    assert (Hf : f < W) by (eapply mget_word_lt; [apply (R_words _ _ (proj1 MR))|exact Ef]).
    pose proof W_le_M64 as HW. pose proof (eq_refl : M64 = 18446744073709551616) as HM64. destruct small_consts as (Edw & Ein & Hw8).
    destruct (consts m1 (m s) (proj1 MR1)) as (Cdw & Cin & Clo & _).
    rewrite (OUT m1 (m s) f MR1 Hf). cbn zeta. set (out1 := if is_output ww f then (f =? dw + 1) :: outp s else outp s).
    rewrite (HIT m1 (m s) MR1).
    unfold do_input. rewrite <- Einp.
    destruct (covers_input ww (ip s)).
    + destruct (inp s) as [|b rest]; [cbn; unfold stR; cbn; auto 10|].
      destruct (mem_write_bit m1 (c_in_addr m1) b) as [m2 ok] eqn:Ewb. rewrite Cin in Ewb.
      destruct (write_bit_spec m1 (m s) in_addr b m2 ok MR1 ltac:(lia) Ewb) as [S Hle].
      destruct (rdw sg (m s) (N.shiftr in_addr ww)) as [v|]; destruct S as [-> S]; [|now apply exit_sim].
      eapply tail_sim; try eassumption. intros; eapply RJ; eassumption.
    + eapply tail_sim; try eassumption; [apply pages_le_refl|]. intros; eapply RJ; eassumption.
Qed.


(* ---- address arithmetic of an op --------------------------------------------------------------------- *)
Lemma aligned_next ba : N.land ba (w - 1) = 0 ->
  N.shiftr (ba + w) ww = N.shiftr ba ww + 1 /\ N.land (ba + w) (w - 1) = 0.
Proof using Hww. clear Hload fc sg.
  rewrite !land_w1, !shr_ww. intros H. pose proof w_bounds.
  replace (ba + w) with (ba + 1 * w) by lia. rewrite N.div_add, N.mod_add by lia. auto.
Qed.

Lemma unaligned_next ba : N.land ba (w - 1) <> 0 -> N.land (ba + w) (w - 1) <> 0.
Proof using Hww. clear Hload fc sg.
  rewrite !land_w1. intros H. pose proof w_bounds.
  replace (ba + w) with (ba + 1 * w) by lia. rewrite N.mod_add by lia. exact H.
Qed.

(* an unaligned op that ends at or below 2^64 ends strictly below it (2^64 is a multiple of w) *)
Lemma top_unaligned ip0 : ip0 + dw <= M64 -> N.land (ip0 + w) (w - 1) <> 0 -> ip0 + w + w < M64.
Proof using Hww. clear Hload fc sg.
  rewrite land_w1. unfold MachineSpec.dw, M64.
  destruct ww_cases as [E|[E|[E|E]]]; rewrite E;
    [change (MachineSpec.w 3) with 8|change (MachineSpec.w 4) with 16|change (MachineSpec.w 5) with 32|change (MachineSpec.w 6) with 64];
    lia.
Qed.

Lemma wa_plus1_small ba : ba < M64 -> N.shiftr ba ww + 1 < M64 - 1.
Proof using Hww. clear Hload fc sg.
  intros H. pose proof (wa_mul_le ba). pose proof w_bounds. unfold M64 in *.
  assert (N.shiftr ba ww * 8 <= N.shiftr ba ww * w) by (apply N.mul_le_mono_l; lia). lia.
Qed.

(* ---- the flat loop: each fast path = the generic helper under its guard ------------------------------ *)
Lemma in_flat_lt nm fa a : n_flat nm = Some fa -> a < n_flat_count nm -> in_flat nm a = true.
Proof. intros E H. unfold in_flat. rewrite E. now apply N.ltb_lt. Qed.

Lemma flat_do_flip_eq nm fa f : n_flat nm = Some fa -> flat_do_flip nm f = mem_flip_bit nm f.
Proof.
  intros Efa. unfold flat_do_flip, mem_flip_bit, c_bit_mask.
  destruct (N.leb_spec (n_flat_count nm) (N.shiftr f (n_ww nm))) as [Hc|Hc]; [reflexivity|].
  rewrite (in_flat_lt nm fa _ Efa Hc). unfold flat_fetch.
  destruct (flat_is_garbage nm (flat_rd nm (N.shiftr f (n_ww nm)))); reflexivity.
Qed.

Lemma flat_read_flip_eq nm fa ip0 : n_flat nm = Some fa ->
  add64 (N.shiftr ip0 (n_ww nm)) 1 = N.shiftr ip0 (n_ww nm) + 1 ->
  flat_read_flip nm ip0 =
  match mem_get_word_unaligned nm ip0 with
  | (m1, None) => (m1, None)
  | (m1, Some v) => (m1, Some (v, if N.land ip0 (c_bit_mask nm) =? 0 then N.shiftr ip0 (n_ww nm) else M64 - 2))
  end.
Proof.
  intros Efa Hadd. unfold flat_read_flip, mem_get_word_unaligned, c_bit_mask.
  destruct (N.land ip0 (sub64 (n_w nm) 1) =? 0); cbn [negb]; [|reflexivity].
  rewrite Hadd. destruct (N.leb_spec (n_flat_count nm) (N.shiftr ip0 (n_ww nm) + 1)) as [Hc|Hc]; [reflexivity|].
  unfold mem_read_word. rewrite (in_flat_lt nm fa (N.shiftr ip0 (n_ww nm)) Efa ltac:(lia)). unfold flat_fetch.
  destruct (flat_is_garbage nm (flat_rd nm (N.shiftr ip0 (n_ww nm)))); [|reflexivity].
  destruct (flat_garbage_check nm (N.shiftr ip0 (n_ww nm)) (flat_rd nm (N.shiftr ip0 (n_ww nm)))) as [m1 [v|]]; reflexivity.
Qed.

Lemma flat_read_jump_eq nm mm fa ip0 : memR nm mm -> n_flat nm = Some fa -> ip0 + w < M64 ->
  flat_read_jump nm ip0 (if N.land ip0 (w - 1) =? 0 then N.shiftr ip0 ww else M64 - 2) =
  mem_get_word_unaligned nm (add64 ip0 (n_w nm)).
Proof using All.
  intros [R _] Efa Hip. destruct (consts nm mm R) as (_ & _ & _ & Cbm & Cw & Cww).
  destruct (R_flat _ _ R fa Efa) as [Hcnt _]. pose proof wlim_M64 as HL. pose proof w_bounds as Hw.
  pose proof (eq_refl : M64 = 18446744073709551616) as HM64.
  assert (Hcnt2 : n_flat_count nm < M64 - 1) by nia.
  unfold flat_read_jump. rewrite Cw. rewrite (add64_small ip0 w) by lia.
  destruct (N.land ip0 (w - 1) =? 0) eqn:Eo.
  - apply N.eqb_eq in Eo. destruct (aligned_next ip0 Eo) as [En1 En2].
    pose proof (wa_plus1_small ip0 ltac:(lia)). rewrite add64_small by lia.
    destruct (N.leb_spec (n_flat_count nm) (N.shiftr ip0 ww + 1)) as [Hc|Hc]; [reflexivity|].
    unfold mem_get_word_unaligned. unfold c_bit_mask in Cbm. rewrite Cbm, Cww, En2, En1. cbn [N.eqb].
    unfold mem_read_word. rewrite (in_flat_lt nm fa _ Efa Hc). reflexivity.
  - replace (add64 (M64 - 2) 1) with (M64 - 1) by (rewrite add64_small; lia).
    destruct (N.leb_spec (n_flat_count nm) (M64 - 1)); [reflexivity|lia].
Qed.

Lemma flat_step_eq ns fa : n_flat (s_m ns) = Some fa ->
  flat_step ns = gen_step ns (flat_read_flip (s_m ns) (s_ip ns))
                          (fun m1 f => do_output m1 (s_out ns) f) (fun m1 => input_hit m1 (s_ip ns)) flat_do_flip
                          (fun wa m3 => flat_read_jump m3 (s_ip ns) wa) (loop_tail ns).
Proof. intros E. unfold flat_step. rewrite E. reflexivity. Qed.

Lemma flat_some nm mm c : fc = Some c -> memR nm mm -> exists fa, n_flat nm = Some fa.
Proof using All.
  intros Efc [R _]. pose proof (R_shape _ _ R) as S. unfold flat_shape in S. rewrite Efc in S.
  destruct (n_flat nm) as [fa|]; [now exists fa|discriminate].
Qed.

Theorem flat_sim c s ns : fc = Some c -> stR s ns -> ip s < W -> ip s + dw <= M64 ->
  nsim (step ww sg s) (flat_step ns).
Proof using All.
  intros Efc ST Hip Htop. pose proof ST as (Eip & Einp & Eout & Eops & MR).
  destruct (flat_some _ _ c Efc MR) as [fa Efa]. rewrite (flat_step_eq ns fa Efa).
  pose proof W_le_M64 as HW. pose proof w_bounds as Hw. pose proof W_ge_256 as HW2.
  pose proof (eq_refl : M64 = 18446744073709551616) as HM64.
  destruct small_consts as (Edw & _).
  destruct (consts _ _ (proj1 MR)) as (_ & _ & _ & Cbm & Cw & Cww).
  apply gen_sim with (JX := fun wa (_ : nmem) => wa = if N.land (ip s) (w - 1) =? 0 then N.shiftr (ip s) ww else M64 - 2);
    try assumption; [| now apply do_output_ok | now apply input_hit_ok | | apply loop_tail_ok | ].
  - (* the flip word *)
    rewrite <- Eip. rewrite (flat_read_flip_eq _ fa (ip s) Efa).
    2:{ rewrite Cww. apply add64_small. pose proof (wa_plus1_small (ip s) ltac:(lia)). lia. }
    destruct (mem_get_word_unaligned (s_m ns) (ip s)) as [m1 r] eqn:Eg.
    destruct (get_word_spec _ _ (ip s) m1 r MR ltac:(lia) ltac:(lia) ltac:(intros; lia) Eg) as [S _].
    destruct (get_word ww sg (m s) (ip s)) as [a|f]; destruct S as [-> S].
    + exists m1. auto.
    + exists m1. eexists. split; [reflexivity|]. split; [assumption|]. now rewrite Cbm, Cww.
  - (* the flip *)
    intros nm mm f nm' ok MRn Hf Hfl. destruct (flat_some _ _ c Efc MRn) as [fa' Efa'].
    rewrite (flat_do_flip_eq nm fa' f Efa') in Hfl. apply (flip_bit_spec nm mm f nm' ok MRn ltac:(lia) Hfl).
  - (* the jump word *)
    intros x m1 nm mm' nm' r -> _ MRn Hrj. destruct (flat_some _ _ c Efc MRn) as [fa' Efa'].
    rewrite <- Eip in Hrj. rewrite (flat_read_jump_eq nm mm' fa' (ip s) MRn Efa' ltac:(lia)) in Hrj.
    destruct (consts _ _ (proj1 MRn)) as (_ & _ & _ & _ & Cw' & _). rewrite Cw', add64_small in Hrj by lia.
    destruct (get_word_spec nm mm' (ip s + w) nm' r MRn ltac:(lia) ltac:(lia)
                (fun H => top_unaligned (ip s) Htop H) Hrj) as [S _]. exact S.
Qed.

(* ---- whole runs ---------------------------------------------------------------------------------------- *)
Definition no_top_op (a : N) : bool := a + dw <=? M64.

(* the guard of finding F1: no op of the run starts in the last 2w bits of the 64-bit address space
   (automatically true for w <= 32, where every address is below 2^32 + 2w) *)
Definition top_guard (fuel : nat) (s : st) : Prop :=
  ww <= 5 \/ forallb no_top_op (hist (snd (run ww sg fuel s))) = true.

Lemma step_hist_all s : match step ww sg s with inl s' => hist s' = ip s :: hist s | inr (_, s') => hist s' = ip s :: hist s end.
Proof using All.
  destruct (step ww sg s) as [s'|[c s']] eqn:H; unfold step in H;
  repeat match type of H with
  | context [match ?x with _ => _ end] => destruct x eqn:?
  | context [if ?x then _ else _] => destruct x eqn:?
  end; inversion H; subst; reflexivity.
Qed.

Lemma run_hist_ext fuel : forall s, exists l, hist (snd (run ww sg fuel s)) = l ++ hist s.
Proof using All.
  induction fuel as [|k IH]; intros s; cbn [run].
  - exists []. reflexivity.
  - pose proof (step_hist_all s) as H. destruct (step ww sg s) as [s'|[c s']].
    + destruct (IH s') as [l El]. exists (l ++ [ip s]). rewrite El, H, <- app_assoc. reflexivity.
    + exists [ip s]. cbn [snd]. rewrite H. reflexivity.
Qed.

Lemma guard_head k s : top_guard (S k) s -> ip s < W -> ip s + dw <= M64.
Proof using All.
  intros [Hw|Hall] Hip.
  - pose proof (eq_refl : M64 = 18446744073709551616) as HM64. unfold MachineSpec.dw.
    assert (E : ww = 3 \/ ww = 4 \/ ww = 5) by lia. revert Hip.
    destruct E as [E|[E|E]]; rewrite E;
      [change (MachineSpec.w 3) with 8|change (MachineSpec.w 4) with 16|change (MachineSpec.w 5) with 32];
      (change (2 ^ 8) with 256 || change (2 ^ 16) with 65536 || change (2 ^ 32) with 4294967296); lia.
  - cbn [run] in Hall. pose proof (step_hist_all s) as H.
    destruct (step ww sg s) as [s'|[c s']].
    + destruct (run_hist_ext k s') as [l El]. rewrite El, H, forallb_app in Hall.
      apply andb_true_iff in Hall. destruct Hall as [_ Hall]. cbn [forallb] in Hall.
      apply andb_true_iff in Hall. destruct Hall as [Hall _]. unfold no_top_op in Hall. now apply N.leb_le in Hall.
    + cbn [snd] in Hall. rewrite H in Hall. cbn [forallb] in Hall.
      apply andb_true_iff in Hall. destruct Hall as [Hall _]. unfold no_top_op in Hall. now apply N.leb_le in Hall.
Qed.

Lemma guard_step k s s' : top_guard (S k) s -> step ww sg s = inl s' -> top_guard k s'.
Proof using All. intros [Hw|Hall] E; [now left|right]. cbn [run] in Hall. now rewrite E in Hall. Qed.

Lemma run_sim stepf :
  (forall s ns, stR s ns -> ip s < W -> ip s + dw <= M64 -> nsim (step ww sg s) (stepf ns)) ->
  forall fuel s ns, stR s ns -> ip s < W -> top_guard fuel s ->
    NC (fst (run ww sg fuel s)) = fst (run_n stepf fuel ns) /\ stR (snd (run ww sg fuel s)) (snd (run_n stepf fuel ns)).
Proof using All.
  intros Hsim. induction fuel as [|k IH]; intros s ns R Hip G; cbn [run run_n].
  - split; [reflexivity|exact R].
  - specialize (Hsim s ns R Hip (guard_head k s G Hip)). unfold nsim in Hsim.
    pose proof (guard_step k s) as GS.
    destruct (step ww sg s) as [s'|[c s']], (stepf ns) as [ns'|[[c'| |] ns']]; try contradiction.
    + destruct Hsim. apply IH; auto.
    + destruct Hsim as [-> R']. split; [reflexivity|exact R'].
Qed.

Theorem flat_run_correct c fuel s ns : fc = Some c -> stR s ns -> ip s < W -> top_guard fuel s ->
  NC (fst (run ww sg fuel s)) = fst (run_n flat_step fuel ns) /\
  stR (snd (run ww sg fuel s)) (snd (run_n flat_step fuel ns)).
Proof using All. intros Efc. apply run_sim. intros; eapply flat_sim; eassumption. Qed.

End W.
