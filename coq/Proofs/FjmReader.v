From FJ Require Import Lib.Base Lib.Bytes Spec.ImageSpec Model.Fjm Proofs.FjmCodec.
(* The reader: totality (no exit other than image / read error), what _init_memory builds for a consistent
   table, and what an accepted file guarantees about its table. *)
Local Open Scope N_scope.

(* ---- memory-building loops -------------------------------------------------------------------------- *)

Lemma mget_store_plain ws : forall m a x,
  mget (store_plain m a ws) x =
  if (a <=? x) && (x <? a + N.of_nat (length ws)) then Some (nth (N.to_nat (x - a)) ws 0) else mget m x.
Proof.
  induction ws as [|v r IH]; intros m a x.
  - cbn [store_plain length]. destruct ((a <=? x) && (x <? a + N.of_nat 0)) eqn:E; [lia | reflexivity].
  - cbn [store_plain length]. rewrite IH.
    destruct ((a + 1 <=? x) && (x <? a + 1 + N.of_nat (length r))) eqn:E1;
      destruct ((a <=? x) && (x <? a + N.of_nat (S (length r)))) eqn:E2; try lia.
    + replace (N.to_nat (x - a)) with (S (N.to_nat (x - (a + 1)))) by lia. reflexivity.
    + assert (x = a) by lia. subst x. rewrite mget_mset_same.
      replace (N.to_nat (a - a)) with 0%nat by lia. reflexivity.
    + apply mget_mset_other. lia.
Qed.

Definition rel_dec (w k y : N) : N := N.land (y + k * w) (N.ones w).

Lemma mget_store_rel w n : forall ws m a x,
  length ws = (2 * n)%nat ->
  mget (store_rel w m a ws) x =
  if (a <=? x) && (x <? a + N.of_nat (2 * n))
  then Some (let v := nth (N.to_nat (x - a)) ws 0 in if N.even (x - a) then v else rel_dec w x v)
  else mget m x.
Proof.
  induction n as [|n IH]; intros ws m a x L.
  - destruct ws; [|discriminate]. cbn [store_rel].
    destruct ((a <=? x) && (x <? a + N.of_nat (2 * 0))) eqn:E; [lia | reflexivity].
  - destruct ws as [|x0 [|y0 r]]; try (cbn in L; lia).
    cbn [store_rel]. rewrite (IH r) by (cbn [length] in L; lia).
    fold (rel_dec w (a + 1) y0).
    destruct ((a + 2 <=? x) && (x <? a + 2 + N.of_nat (2 * n))) eqn:E1;
      destruct ((a <=? x) && (x <? a + N.of_nat (2 * S n))) eqn:E2; try lia.
    + replace (N.to_nat (x - a)) with (S (S (N.to_nat (x - (a + 2))))) by lia. cbn [nth].
      replace (x - a) with (x - (a + 2) + 2 * 1) by lia. rewrite N.even_add_mul_2. reflexivity.
    + assert (x = a \/ x = a + 1) as [-> | ->] by lia.
      * rewrite mget_mset_other by lia. rewrite mget_mset_same.
        replace (a - a) with 0 by lia. reflexivity.
      * rewrite mget_mset_same. replace (a + 1 - a) with 1 by lia. reflexivity.
    + rewrite !mget_mset_other by lia. reflexivity.
Qed.

Lemma mget_zero_fill n : forall m a x,
  mget (zero_fill m a n) x = if (a <=? x) && (x <? a + N.of_nat n) then Some 0 else mget m x.
Proof.
  induction n as [|n IH]; intros m a x.
  - cbn [zero_fill]. destruct ((a <=? x) && (x <? a + N.of_nat 0)) eqn:E; [lia | reflexivity].
  - cbn [zero_fill]. rewrite IH.
    destruct ((a + 1 <=? x) && (x <? a + 1 + N.of_nat n)) eqn:E1;
      destruct ((a <=? x) && (x <? a + N.of_nat (S n))) eqn:E2; try lia; try reflexivity.
    + assert (x = a) by lia. subst x. now rewrite mget_mset_same.
    + apply mget_mset_other. lia.
Qed.

Lemma nth_firstn_skipn (A : Type) (l : list A) (d : A) (s n j : nat) :
  (j < n)%nat -> nth j (firstn n (skipn s l)) d = nth (s + j) l d.
Proof.
  intros H. revert s. revert j n H.
  assert (F : forall (l : list A) j n, (j < n)%nat -> nth j (firstn n l) d = nth j l d).
  { intros l0. induction l0 as [|a l0 IH]; intros j n H.
    - rewrite firstn_nil. reflexivity.
    - destruct n; [lia|]. destruct j; [reflexivity|]. cbn [firstn nth]. apply IH. lia. }
  intros j n H s. rewrite F by exact H.
  revert l. induction s as [|s IH]; intros l; [reflexivity|].
  destruct l as [|a l]; [destruct j; reflexivity|]. cbn [skipn Nat.add nth]. apply IH.
Qed.

(* ---- one table entry -------------------------------------------------------------------------------- *)

Definition in_tseg (x : N) (t : tseg) : bool :=
  let '(ss, sl, _, _) := t in (ss <=? x) && (x <? ss + sl).
Definition seg_of (t : tseg) : N * N := (fst (fst (fst t)), snd (fst (fst t))).

(* the word the reader stores for address x of entry t, given the data pool *)
Definition seg_word (w : N) (rel : bool) (data : list N) (t : tseg) (x : N) : N :=
  let '(ss, sl, ds, dl) := t in
  let j := x - ss in
  if j <? dl then
    let v := nth (N.to_nat (ds + j)) data 0 in
    if rel && N.odd j then rel_dec w x v else v
  else 0.

Lemma even_length_half dl : N.even dl = true -> exists n, N.to_nat dl = (2 * n)%nat.
Proof.
  intros H. apply N.even_spec in H. destruct H as [k ->]. exists (N.to_nat k). lia.
Qed.

Lemma init_segment_good thr w rel data m t :
  let dlen := N.of_nat (length data) in
  tentry_ok dlen t = true ->
  exists m1 z1,
    init_segment thr w rel data dlen m t = SOk m1 z1 /\
    (forall x, in_tseg x t = false -> mget m1 x = mget m x /\ existsb (in_range x) z1 = false) /\
    (forall x, in_tseg x t = true -> mget m x = None -> word_of m1 z1 x = Some (seg_word w rel data t x)).
Proof.
  intros dlen. destruct t as [[[ss sl] ds] dl]. unfold tentry_ok. intros Hok.
  repeat (apply andb_prop in Hok; destruct Hok as [Hok ?]).
  assert (Hodd : N.odd dl = false) by (rewrite <- N.negb_even; now rewrite H0).
  unfold init_segment.
  rewrite Hodd.
  replace (dlen <? ds + dl) with false by (symmetry; lia).
  set (ws := firstn (N.to_nat dl) (skipn (N.to_nat ds) data)).
  assert (Lws : length ws = N.to_nat dl).
  { unfold ws. rewrite firstn_length, skipn_length. unfold dlen in *. lia. }
  replace (N.of_nat (length ws) <? dl) with false by (symmetry; lia).
  set (m1 := if rel then store_rel w m ss ws else store_plain m ss ws).
  assert (Hm1 : forall x, mget m1 x =
            if (ss <=? x) && (x <? ss + dl)
            then Some (let v := nth (N.to_nat (ds + (x - ss))) data 0 in if rel && N.odd (x - ss) then rel_dec w x v else v)
            else mget m x).
  { intros x. unfold m1. destruct rel.
    - destruct (even_length_half dl H0) as [n Hn].
      rewrite (mget_store_rel w n) by lia.
      replace (N.of_nat (2 * n)) with dl by lia.
      destruct ((ss <=? x) && (x <? ss + dl)) eqn:E; [|reflexivity].
      unfold ws. rewrite nth_firstn_skipn by lia.
      replace (N.to_nat ds + N.to_nat (x - ss))%nat with (N.to_nat (ds + (x - ss))) by lia.
      cbn [andb]. rewrite <- N.negb_even. destruct (N.even (x - ss)); reflexivity.
    - rewrite mget_store_plain. rewrite Lws. replace (N.of_nat (N.to_nat dl)) with dl by lia.
      destruct ((ss <=? x) && (x <? ss + dl)) eqn:E; [|reflexivity].
      unfold ws. rewrite nth_firstn_skipn by lia.
      replace (N.to_nat ds + N.to_nat (x - ss))%nat with (N.to_nat (ds + (x - ss))) by lia. reflexivity. }
  clearbody m1. unfold in_tseg, seg_word.
  destruct (dl <? sl) eqn:Etail.
  - destruct (sl - dl <? thr) eqn:Ethr.
    + (* dense tail *)
      eexists _, []. split; [reflexivity|]. split.
      * intros x Hx. rewrite mget_zero_fill, Hm1.
        replace ((ss + dl <=? x) && (x <? ss + dl + N.of_nat (N.to_nat (sl - dl)))) with false by (symmetry; lia).
        replace ((ss <=? x) && (x <? ss + dl)) with false by (symmetry; lia). split; reflexivity.
      * intros x Hx Hfresh. unfold word_of. rewrite mget_zero_fill, Hm1.
        destruct (x - ss <? dl) eqn:Ej.
        -- replace ((ss + dl <=? x) && (x <? ss + dl + N.of_nat (N.to_nat (sl - dl)))) with false by (symmetry; lia).
           replace ((ss <=? x) && (x <? ss + dl)) with true by (symmetry; lia). reflexivity.
        -- replace ((ss + dl <=? x) && (x <? ss + dl + N.of_nat (N.to_nat (sl - dl)))) with true by (symmetry; lia).
           reflexivity.
    + (* lazy tail *)
      eexists _, [(ss + dl, ss + sl)]. split; [reflexivity|]. split.
      * intros x Hx. rewrite Hm1.
        replace ((ss <=? x) && (x <? ss + dl)) with false by (symmetry; lia). split; [reflexivity|].
        cbn [existsb]; unfold in_range; cbn [fst snd]. lia.
      * intros x Hx Hfresh. unfold word_of. rewrite Hm1.
        destruct (x - ss <? dl) eqn:Ej.
        -- replace ((ss <=? x) && (x <? ss + dl)) with true by (symmetry; lia). reflexivity.
        -- replace ((ss <=? x) && (x <? ss + dl)) with false by (symmetry; lia). rewrite Hfresh.
           cbn [existsb]; unfold in_range; cbn [fst snd].
           replace ((ss + dl <=? x) && (x <? ss + sl)) with true by (symmetry; lia). reflexivity.
  - (* no tail: dl = sl *)
    eexists _, []. split; [reflexivity|]. split.
    + intros x Hx. rewrite Hm1.
      replace ((ss <=? x) && (x <? ss + dl)) with false by (symmetry; lia). split; reflexivity.
    + intros x Hx Hfresh. unfold word_of. rewrite Hm1.
      replace (x - ss <? dl) with true by (symmetry; lia).
      replace ((ss <=? x) && (x <? ss + dl)) with true by (symmetry; lia). reflexivity.
Qed.

(* ---- the whole table --------------------------------------------------------------------------------- *)

Lemma tdisjoint_not_in x t t' : tdisjoint t t' = true -> in_tseg x t = true -> in_tseg x t' = false.
Proof.
  destruct t as [[[s1 l1] a1] b1], t' as [[[s2 l2] a2] b2]. unfold tdisjoint, in_tseg. intros H1 H2. lia.
Qed.

Lemma find_none_disjoint x t T :
  forallb (tdisjoint t) T = true -> in_tseg x t = true -> find (in_tseg x) T = None.
Proof.
  induction T as [|t' T IH]; intros H Hx; [reflexivity|].
  cbn [forallb] in H. apply andb_prop in H. destruct H as [H1 H2].
  cbn [find]. rewrite (tdisjoint_not_in x t t' H1 Hx). now apply IH.
Qed.

Lemma init_memory_good thr w rel data T : forall m,
  let dlen := N.of_nat (length data) in
  forallb (tentry_ok dlen) T = true -> pairwise tdisjoint T = true ->
  (forall t x, In t T -> in_tseg x t = true -> mget m x = None) ->
  exists m' z,
    init_memory thr w rel data dlen m T = MOk (map seg_of T) m' z /\
    (forall x, find (in_tseg x) T = None -> mget m' x = mget m x /\ existsb (in_range x) z = false) /\
    (forall x t, find (in_tseg x) T = Some t -> word_of m' z x = Some (seg_word w rel data t x)).
Proof.
  intros m dlen. revert m. induction T as [|t T IH]; intros m Hok Hdis Hfresh.
  - exists m, []. split; [reflexivity|]. split; [intros; split; reflexivity | discriminate].
  - cbn [forallb] in Hok. apply andb_prop in Hok. destruct Hok as [Hok1 Hok].
    cbn [pairwise] in Hdis. apply andb_prop in Hdis. destruct Hdis as [Hdis1 Hdis].
    destruct (init_segment_good thr w rel data m t Hok1) as (m1 & z1 & E1 & Hout1 & Hin1).
    destruct (IH m1 Hok Hdis) as (m2 & z2 & E2 & Hout2 & Hin2).
    { intros t' x Ht' Hx. rewrite forallb_forall in Hdis1. specialize (Hdis1 t' Ht').
      assert (in_tseg x t = false).
      { destruct (in_tseg x t) eqn:E; [|reflexivity].
        rewrite (tdisjoint_not_in x t t' Hdis1 E) in Hx. discriminate. }
      destruct (Hout1 x H) as [-> _]. apply (Hfresh t' x); [now right | exact Hx]. }
    exists m2, (z1 ++ z2). split.
    { cbn [init_memory map]. unfold dlen in *. rewrite E1. fold (seg_of t). rewrite E2. reflexivity. }
    split.
    + intros x Hx. cbn [find] in Hx. destruct (in_tseg x t) eqn:Et; [discriminate|].
      destruct (Hout2 x Hx) as [-> Hz2]. destruct (Hout1 x Et) as [-> Hz1].
      split; [reflexivity|]. now rewrite existsb_app, Hz1, Hz2.
    + intros x t0 Hx. cbn [find] in Hx. destruct (in_tseg x t) eqn:Et.
      * injection Hx as <-.
        destruct (Hout2 x (find_none_disjoint x t T Hdis1 Et)) as [Hm2 Hz2].
        assert (Hf : mget m x = None) by (apply (Hfresh t x); [now left | exact Et]).
        specialize (Hin1 x Et Hf). unfold word_of in *. rewrite Hm2, existsb_app, Hz2, orb_false_r. exact Hin1.
      * specialize (Hin2 x t0 Hx). destruct (Hout1 x Et) as [_ Hz1].
        unfold word_of in *. rewrite existsb_app, Hz1. exact Hin2.
Qed.

(* ---- totality: the reader has no exit other than an image or the read error --------------------------- *)

Lemma init_segment_no_raw thr w rel data m t e :
  init_segment thr w rel data (N.of_nat (length data)) m t <> SRaw e.
Proof.
  destruct t as [[[ss sl] ds] dl]. unfold init_segment.
  destruct (N.odd dl); [discriminate|].
  destruct (N.of_nat (length data) <? ds + dl) eqn:E; [discriminate|].
  replace (N.of_nat (length (firstn (N.to_nat dl) (skipn (N.to_nat ds) data))) <? dl) with false.
  2:{ symmetry. rewrite firstn_length, skipn_length. lia. }
  destruct (dl <? sl); [destruct (sl - dl <? thr)|]; discriminate.
Qed.

Lemma init_memory_no_raw thr w rel data T : forall m e,
  init_memory thr w rel data (N.of_nat (length data)) m T <> MRaw e.
Proof.
  induction T as [|t T IH]; intros m e; [discriminate|].
  cbn [init_memory].
  destruct (init_segment thr w rel data (N.of_nat (length data)) m t) as [m1 z1|k|e1] eqn:E.
  - specialize (IH m1).
    destruct (init_memory thr w rel data (N.of_nat (length data)) m1 T);
      try discriminate. intros H. eapply IH. exact H.
  - discriminate.
  - exfalso. eapply init_segment_no_raw. exact E.
Qed.

Theorem read_total thr decompress b e : read_thr thr decompress b <> RRaw e.
Proof.
  unfold read_thr.
  destruct (take header_base_size b) as [[h r1]|]; [|discriminate].
  destruct (max_version <? u_at 4 8 h); [discriminate|].
  destruct (if u_at 4 8 h =? 0 then Some (0, 0, r1)
            else match take header_extension_size r1 with
                 | Some (e0, r2) => Some (u_at 0 8 e0, u_at 8 4 e0, r2) | None => None end)
    as [[[flags reserved] r2]|]; [|discriminate].
  destruct (negb (u_at 0 2 h =? FJ_MAGIC)); [discriminate|].
  destruct (negb (supported_width (u_at 2 2 h))) eqn:Ew; [discriminate|].
  destruct (negb (reserved =? 0)); [discriminate|].
  destruct (N.of_nat (length r2) <? 32 * u_at 12 8 h); [discriminate|].
  destruct (read_segs (N.to_nat (u_at 12 8 h)) r2) as [[table payload]|]; [|discriminate].
  apply negb_false_iff in Ew. destruct (word_bytes_supported _ Ew) as (wb & -> & Hwb & _).
  destruct (if u_at 4 8 h =? 3 then decompress payload else Some payload) as [fd|]; [|discriminate].
  destruct (unpack_words (length fd) wb fd) as [data| |] eqn:Eu; [|discriminate|].
  - destruct (validate_segments table); [discriminate|].
    destruct (init_memory thr (u_at 2 2 h) ((u_at 4 8 h =? 2) || (u_at 4 8 h =? 3)) data
                          (N.of_nat (length data)) (PositiveMap.empty N) table) eqn:Em; try discriminate.
    exfalso. eapply init_memory_no_raw. exact Em.
  - exfalso. eapply (unpack_no_fuel (length fd) wb fd); [exact Hwb | lia | exact Eu].
Qed.

(* ---- what an accepted file guarantees ------------------------------------------------------------------ *)

(* every entry that gets past the loop of _init_memory has an even data length and a data range inside the pool *)
Definition tentry_weak (pool_len : N) (t : tseg) : bool :=
  let '(_, _, ds, dl) := t in N.even dl && (ds + dl <=? pool_len).

Lemma init_memory_weak thr w rel data T : forall m segs m' z,
  init_memory thr w rel data (N.of_nat (length data)) m T = MOk segs m' z ->
  forallb (tentry_weak (N.of_nat (length data))) T = true /\ segs = map seg_of T.
Proof.
  induction T as [|t T IH]; intros m segs m' z H.
  - cbn in H. injection H as <- _ _. split; reflexivity.
  - cbn [init_memory] in H.
    destruct (init_segment thr w rel data (N.of_nat (length data)) m t) as [m1 z1|k|e1] eqn:E; try discriminate.
    destruct (init_memory thr w rel data (N.of_nat (length data)) m1 T)
      as [segs2 m2 z2| |] eqn:E2; try discriminate.
    injection H as <- _ _. destruct (IH _ _ _ _ E2) as [IH1 IH2]. subst segs2.
    split; [|reflexivity]. cbn [forallb]. rewrite IH1, andb_true_r.
    destruct t as [[[ss sl] ds] dl]. unfold init_segment in E. unfold tentry_weak.
    destruct (N.odd dl) eqn:Eo; [discriminate|].
    destruct (N.of_nat (length data) <? ds + dl) eqn:Ep; [discriminate|].
    rewrite <- N.negb_odd, Eo. cbn [negb andb]. lia.
Qed.

(* ---- _validate_segments: sorting the ranges and testing neighbours decides pairwise disjointness ------------ *)
Require Import Coq.Sorting.Permutation Coq.Sorting.Sorted.

Definition rdisj (a b : N * N) : bool := (snd a <=? fst b) || (snd b <=? fst a).
Definition fst_le (a b : N * N) : Prop := fst a <= fst b.
Definition rng (t : tseg) : N * N := let '(ss, sl, _, _) := t in (ss, ss + sl).

Lemma rdisj_sym a b : rdisj a b = rdisj b a.
Proof. unfold rdisj. apply orb_comm. Qed.

Lemma forallb_perm (A : Type) (f : A -> bool) l l' : Permutation l l' -> forallb f l = forallb f l'.
Proof.
  induction 1 as [| x l l' Hp IH | x y l | l l' l'' H1 IH1 H2 IH2]; cbn [forallb].
  - reflexivity.
  - now rewrite IH.
  - now rewrite !andb_assoc, (andb_comm (f y)).
  - congruence.
Qed.

Lemma pairwise_perm (A : Type) (r : A -> A -> bool) l l' :
  (forall a b, r a b = r b a) -> Permutation l l' -> pairwise r l = pairwise r l'.
Proof.
  intros S. induction 1 as [| x l l' Hp IH | x y l | l l' l'' H1 IH1 H2 IH2]; cbn [pairwise forallb].
  - reflexivity.
  - rewrite IH. now rewrite (forallb_perm _ (r x) l l' Hp).
  - rewrite (S y x). destruct (r x y), (forallb (r x) l), (forallb (r y) l), (pairwise r l); reflexivity.
  - congruence.
Qed.

Lemma pairwise_map (A B : Type) (f : A -> B) (r : B -> B -> bool) l :
  pairwise r (map f l) = pairwise (fun a b => r (f a) (f b)) l.
Proof.
  induction l as [|x l IH]; [reflexivity|]. cbn [map pairwise]. rewrite IH. f_equal. clear IH.
  induction l as [|y l IH2]; [reflexivity|]. cbn [map forallb]. now rewrite IH2.
Qed.

Lemma pairwise_ext (A : Type) (r r' : A -> A -> bool) l :
  (forall a b, r a b = r' a b) -> pairwise r l = pairwise r' l.
Proof.
  intros E. induction l as [|x l IH]; [reflexivity|]. cbn [pairwise]. rewrite IH. f_equal. clear IH.
  induction l as [|y l IH2]; [reflexivity|]. cbn [forallb]. now rewrite IH2, E.
Qed.

Lemma insert_range_perm x l : Permutation (insert_range x l) (x :: l).
Proof.
  induction l as [|y r IH]; [reflexivity|]. cbn [insert_range].
  destruct (range_leb x y); [reflexivity|]. rewrite IH. apply perm_swap.
Qed.

Lemma sort_ranges_perm l : Permutation (sort_ranges l) l.
Proof.
  induction l as [|x l IH]; [reflexivity|]. unfold sort_ranges in *. cbn [fold_right].
  rewrite insert_range_perm. now constructor.
Qed.

Lemma insert_range_sorted x l : StronglySorted fst_le l -> StronglySorted fst_le (insert_range x l).
Proof.
  induction 1 as [|y r Hr IH Hy]; cbn [insert_range].
  - constructor; constructor.
  - destruct (range_leb x y) eqn:E.
    + constructor; [constructor; assumption|]. constructor.
      * unfold fst_le, range_leb in *. lia.
      * eapply Forall_impl; [|exact Hy]. intros z Hz. unfold fst_le, range_leb in *. lia.
    + constructor; [exact IH|].
      eapply Permutation_Forall; [symmetry; apply insert_range_perm|].
      constructor; [|exact Hy]. unfold fst_le, range_leb in *. lia.
Qed.

Lemma sort_ranges_sorted l : StronglySorted fst_le (sort_ranges l).
Proof.
  induction l as [|x l IH]; [constructor|]. unfold sort_ranges in *. cbn [fold_right].
  now apply insert_range_sorted.
Qed.

Lemma adjacent_pairwise l :
  StronglySorted fst_le l -> adjacent_overlap l = false -> pairwise rdisj l = true.
Proof.
  induction 1 as [|a r Hr IH Ha]; intros H; [reflexivity|].
  cbn [pairwise]. destruct r as [|b r'].
  - reflexivity.
  - cbn [adjacent_overlap] in H. apply orb_false_elim in H. destruct H as [H1 H2].
    rewrite (IH H2), andb_true_r.
    apply forallb_forall. intros c Hc. unfold rdisj.
    assert (fst b <= fst c).
    { destruct Hc as [<- | Hc]; [lia|]. inversion Hr as [|? ? _ Hb]; subst.
      rewrite Forall_forall in Hb. apply (Hb c Hc). }
    lia.
Qed.

Lemma pairwise_adjacent l :
  StronglySorted fst_le l -> Forall (fun a => fst a < snd a) l -> pairwise rdisj l = true -> adjacent_overlap l = false.
Proof.
  induction 1 as [|a r Hr IH Ha]; intros Hne H; [reflexivity|].
  destruct r as [|b r']; [reflexivity|].
  cbn [pairwise forallb] in H. apply andb_prop in H. destruct H as [H1 H2].
  apply andb_prop in H1. destruct H1 as [Hab _].
  inversion Hne as [|? ? Hna Hne']; subst. inversion Hne' as [|? ? Hnb _]; subst.
  inversion Ha as [|? ? Hfab _]; subst.
  change (adjacent_overlap (a :: b :: r')) with ((fst b <? snd a) || adjacent_overlap (b :: r')).
  rewrite (IH Hne' H2), orb_false_r.
  unfold rdisj, fst_le in *. lia.
Qed.

Lemma tdisjoint_rng t t' : tdisjoint t t' = rdisj (rng t) (rng t').
Proof. destruct t as [[[s1 l1] a1] b1], t' as [[[s2 l2] a2] b2]. reflexivity. Qed.

Lemma validate_ok_disjoint T : validate_segments T = false -> pairwise tdisjoint T = true.
Proof.
  unfold validate_segments. intros H. apply orb_false_elim in H. destruct H as [_ H].
  fold rng in H. change (fun t : tseg => let '(ss, sl, _, _) := t in (ss, ss + sl)) with rng in H.
  apply adjacent_pairwise in H; [|apply sort_ranges_sorted].
  rewrite (pairwise_perm _ rdisj _ _ rdisj_sym (sort_ranges_perm (map rng T))) in H.
  rewrite pairwise_map in H. rewrite <- H. apply pairwise_ext. intros; apply tdisjoint_rng.
Qed.

Lemma validate_ok_shape T t : validate_segments T = false -> In t T -> seg_shape_bad t = false.
Proof.
  unfold validate_segments. intros H Ht. apply orb_false_elim in H. destruct H as [H _].
  destruct (seg_shape_bad t) eqn:E; [|reflexivity].
  assert (existsb seg_shape_bad T = true) by (apply existsb_exists; eauto). congruence.
Qed.

Lemma consistent_validate pool T : consistent_table pool T = true -> validate_segments T = false.
Proof.
  unfold consistent_table, validate_segments. intros H. apply andb_prop in H. destruct H as [He Hd].
  rewrite forallb_forall in He.
  apply orb_false_intro.
  - destruct (existsb seg_shape_bad T) eqn:E; [|reflexivity].
    apply existsb_exists in E. destruct E as (t & Ht & Hb). specialize (He t Ht).
    destruct t as [[[ss sl] ds] dl]. unfold tentry_ok in He. unfold seg_shape_bad in Hb.
    repeat (apply andb_prop in He; destruct He as [He ?]).
    rewrite <- !N.negb_even, H3, H2 in Hb. cbn [negb orb] in Hb. lia.
  - change (fun t : tseg => let '(ss, sl, _, _) := t in (ss, ss + sl)) with rng.
    apply pairwise_adjacent; [apply sort_ranges_sorted | |].
    + eapply Permutation_Forall; [symmetry; apply sort_ranges_perm|].
      apply Forall_forall. intros a Ha. apply in_map_iff in Ha. destruct Ha as (t & <- & Ht).
      specialize (He t Ht). destruct t as [[[ss sl] ds] dl]. unfold tentry_ok in He.
      repeat (apply andb_prop in He; destruct He as [He ?]). cbn [rng fst snd]. lia.
    + rewrite (pairwise_perm _ rdisj _ _ rdisj_sym (sort_ranges_perm (map rng T))).
      rewrite pairwise_map. rewrite <- Hd. apply pairwise_ext. intros; symmetry; apply tdisjoint_rng.
Qed.
