(* C16 - proofs about Model/Labels.v *)
From FJ Require Import Lib.Base Model.Labels.
Local Open Scope N_scope.

(* ---------- splitting at a delimiter ---------- *)
Lemma split_unique (d : N) : forall a b r1 r2,
  ~ In d a -> ~ In d b -> a ++ d :: r1 = b ++ d :: r2 -> a = b /\ r1 = r2.
Proof.
  induction a as [|x a IH]; destruct b as [|y b]; simpl; intros r1 r2 Ha Hb H.
  - inversion H; auto.
  - inversion H; subst. exfalso. apply Hb. now left.
  - inversion H; subst. exfalso. apply Ha. now left.
  - inversion H; subst. destruct (IH b r1 r2) as [E1 E2]; auto. now subst.
Qed.

Lemma split_end (d : N) a b r : ~ In d a -> a = b ++ d :: r -> False.
Proof. intros Ha H. apply Ha. rewrite H. apply in_or_app. right. now left. Qed.

Lemma str_eqb_eq a : forall b, str_eqb a b = true <-> a = b.
Proof.
  induction a as [|x a IH]; destruct b as [|y b]; simpl; split; intros H; try discriminate; auto.
  - apply andb_true_iff in H. destruct H as [H1 H2]. apply N.eqb_eq in H1. apply IH in H2. now subst.
  - inversion H; subst. rewrite N.eqb_refl. simpl. now apply IH.
Qed.

Lemma str_eqb_refl a : str_eqb a a = true.
Proof. now apply str_eqb_eq. Qed.

(* ---------- decimal rendering ---------- *)
Definition digit (c : N) : Prop := 48 <= c /\ c <= 57.
Definition value (ds : str) : N := fold_left (fun a c => 10 * a + (c - 48)) ds 0.

Lemma value_snoc ds d : value (ds ++ [d]) = 10 * value ds + (d - 48).
Proof. unfold value. now rewrite fold_left_app. Qed.

Lemma dec_digits_spec : forall k n acc, n < 2 ^ N.of_nat (S k) ->
  exists ds, dec_digits (S k) n acc = ds ++ acc /\ value ds = n /\ Forall digit ds /\ ds <> [].
Proof.
  induction k as [|k IH]; intros n acc H.
  - assert (n < 2) by (simpl in H; exact H).
    assert (E : n / 10 = 0) by (apply N.div_small; lia).
    simpl. rewrite E. simpl. exists [48 + n mod 10]. repeat split.
    + unfold value. simpl. rewrite N.mod_small by lia. lia.
    + constructor; [|constructor]. unfold digit. rewrite N.mod_small by lia. lia.
    + discriminate.
  - change (dec_digits (S (S k)) n acc) with
      (if n / 10 =? 0 then (48 + n mod 10) :: acc else dec_digits (S k) (n / 10) ((48 + n mod 10) :: acc)).
    assert (M : n mod 10 < 10) by (apply N.mod_lt; discriminate).
    destruct (n / 10 =? 0) eqn:E.
    + apply N.eqb_eq in E. exists [48 + n mod 10]. repeat split.
      * unfold value. simpl. pose proof (N.div_mod n 10). lia.
      * constructor; [|constructor]. unfold digit. lia.
      * discriminate.
    + assert (B : n / 10 < 2 ^ N.of_nat (S k)).
      { rewrite Nat2N.inj_succ in H. rewrite N.pow_succ_r' in H.
        apply N.div_lt_upper_bound; [discriminate|]. lia. }
      destruct (IH (n / 10) ((48 + n mod 10) :: acc) B) as (ds & E1 & E2 & E3 & E4).
      exists (ds ++ [48 + n mod 10]). repeat split.
      * rewrite E1. now rewrite <- app_assoc.
      * rewrite value_snoc, E2. pose proof (N.div_mod n 10). lia.
      * apply Forall_app. split; [exact E3|]. constructor; [|constructor]. unfold digit. lia.
      * intros C. apply app_eq_nil in C. destruct C; discriminate.
Qed.

Lemma dec_spec n : value (dec n) = n /\ Forall digit (dec n) /\ dec n <> [].
Proof.
  unfold dec.
  assert (H : n < 2 ^ N.of_nat (S (N.to_nat (N.size n)))).
  { rewrite Nat2N.inj_succ, N2Nat.id. eapply N.lt_le_trans; [apply N.size_gt|].
    apply N.pow_le_mono_r; [discriminate | lia]. }
  destruct (dec_digits_spec _ n [] H) as (ds & E1 & E2 & E3 & E4).
  rewrite app_nil_r in E1. rewrite E1. auto.
Qed.

Lemma dec_inj n m : dec n = dec m -> n = m.
Proof. intros H. rewrite <- (proj1 (dec_spec n)), <- (proj1 (dec_spec m)). now rewrite H. Qed.

Lemma dec_no (d : N) n : d < 48 \/ 57 < d -> ~ In d (dec n).
Proof.
  intros Hd Hin. destruct (dec_spec n) as (_ & F & _).
  rewrite Forall_forall in F. specialize (F d Hin). unfold digit in F. lia.
Qed.

(* ---------- names are injective ---------- *)
(* what the grammar guarantees about the pieces: identifiers ([A-Za-z_][A-Za-z_0-9]*, with dots for namespaces)
   and file short names contain none of '-' ':' '(' ')' *)
Definition clean (s : str) : Prop := ~ In 45 s /\ ~ In 58 s /\ ~ In 40 s /\ ~ In 41 s.
Definition wf_comp (c : comp) : Prop := clean (c_file c) /\ clean (c_name c).

Lemma mns_no d n a : ~ In d n -> d <> 40 -> d <> 41 -> (d < 48 \/ 57 < d) -> ~ In d (macro_name_str n a).
Proof.
  intros Hn H40 H41 Hd. unfold macro_name_str. destruct (a =? 0); [exact Hn|].
  intros H. apply in_app_or in H. destruct H as [H|H]; [auto|].
  simpl in H. destruct H as [H|H]; [congruence|].
  apply in_app_or in H. destruct H as [H|H]; [now apply (dec_no d a Hd)|].
  simpl in H. destruct H as [H|[]]. congruence.
Qed.

Lemma mns_inj n1 a n2 b : clean n1 -> clean n2 -> macro_name_str n1 a = macro_name_str n2 b -> n1 = n2 /\ a = b.
Proof.
  intros (_ & _ & P1 & _) (_ & _ & P2 & _) H. unfold macro_name_str in H.
  destruct (a =? 0) eqn:A, (b =? 0) eqn:B.
  - apply N.eqb_eq in A, B. subst. auto.
  - exfalso. eapply (split_end 40 n1); [exact P1 | exact H].
  - exfalso. eapply (split_end 40 n2); [exact P2 | symmetry; exact H].
  - destruct (split_unique 40 _ _ _ _ P1 P2 H) as [E1 E2]. split; [exact E1|].
    apply app_inj_tail in E2. destruct E2 as [E2 _]. now apply dec_inj.
Qed.

Lemma render_comp_no_dash c : wf_comp c -> ~ In 45 (render_comp c).
Proof.
  intros ((F1 & _) & (N1 & _)). unfold render_comp. intros H.
  apply in_app_or in H. destruct H as [H|H]; [auto|].
  simpl in H. destruct H as [H|[H|H]]; try discriminate.
  apply in_app_or in H. destruct H as [H|H]; [apply (dec_no 45 (c_line c)); [lia | exact H]|].
  simpl in H. destruct H as [H|H]; [discriminate|].
  destruct (c_rep c) as [i|].
  - simpl in H. destruct H as [H|[H|[H|H]]]; try discriminate.
    apply in_app_or in H. destruct H as [H|H]; [apply (dec_no 45 i); [lia | exact H]|].
    simpl in H. destruct H as [H|H]; [discriminate|].
    revert H. apply mns_no; auto; try discriminate; lia.
  - revert H. apply mns_no; auto; try discriminate; lia.
Qed.

Lemma render_comp_inj c1 c2 : wf_comp c1 -> wf_comp c2 -> render_comp c1 = render_comp c2 -> c1 = c2.
Proof.
  intros (F1 & N1) (F2 & N2) H. unfold render_comp in H.
  destruct (split_unique 58 _ _ _ _ (proj1 (proj2 F1)) (proj1 (proj2 F2)) H) as [EF H1].
  inversion H1 as [H2]. clear H1.
  assert (D : forall n, ~ In 58 (dec n)) by (intros n; apply dec_no; lia).
  destruct (split_unique 58 _ _ _ _ (D _) (D _) H2) as [EL H3].
  apply dec_inj in EL.
  assert (M : forall n a, clean n -> ~ In 58 (macro_name_str n a)).
  { intros n a (_ & C & _ & _). apply mns_no; auto; try discriminate; lia. }
  destruct c1 as [f1 l1 r1 n1 a1], c2 as [f2 l2 r2 n2 a2]. simpl in *. subst.
  destruct r1 as [i1|], r2 as [i2|].
  - inversion H3 as [H4]. destruct (split_unique 58 _ _ _ _ (D _) (D _) H4) as [EI H5].
    apply dec_inj in EI. destruct (mns_inj _ _ _ _ N1 N2 H5). now subst.
  - exfalso. eapply (split_end 58 (macro_name_str n2 a2) (114 :: 101 :: 112 :: dec i1)); [now apply M|].
    symmetry. exact H3.
  - exfalso. eapply (split_end 58 (macro_name_str n1 a1) (114 :: 101 :: 112 :: dec i2)); [now apply M|]. exact H3.
  - destruct (mns_inj _ _ _ _ N1 N2 H3). now subst.
Qed.

Fixpoint rl (p : list comp) (leaf : str) : str :=
  match p with [] => leaf | c :: r => render_comp c ++ sep ++ rl r leaf end.

Lemma render_label_rl c r leaf : render_label (c :: r) leaf = rl (c :: r) leaf.
Proof.
  unfold render_label. revert c. induction r as [|c' r IH]; intros c.
  - reflexivity.
  - change (join_path (c :: c' :: r)) with (render_comp c ++ sep ++ join_path (c' :: r)).
    rewrite <- !app_assoc. rewrite IH. reflexivity.
Qed.

Lemma rl_inj : forall p1 p2 l1 l2, Forall wf_comp p1 -> Forall wf_comp p2 -> ~ In 45 l1 -> ~ In 45 l2 ->
  rl p1 l1 = rl p2 l2 -> p1 = p2 /\ l1 = l2.
Proof.
  induction p1 as [|c1 r1 IH]; destruct p2 as [|c2 r2]; intros l1 l2 W1 W2 D1 D2 H; simpl in H.
  - auto.
  - exfalso. apply (split_end 45 l1 (render_comp c2) (45 :: 45 :: rl r2 l2) D1). exact H.
  - exfalso. apply (split_end 45 l2 (render_comp c1) (45 :: 45 :: rl r1 l1) D2). symmetry. exact H.
  - inversion W1; subst. inversion W2; subst.
    change (sep ++ rl r1 l1) with (45 :: 45 :: 45 :: rl r1 l1) in H.
    change (sep ++ rl r2 l2) with (45 :: 45 :: 45 :: rl r2 l2) in H.
    destruct (split_unique 45 _ _ _ _ (render_comp_no_dash _ H2) (render_comp_no_dash _ H4) H) as [E1 E2].
    apply render_comp_inj in E1; auto. inversion E2 as [E3].
    destruct (IH r2 l1 l2) as [E4 E5]; auto. now subst.
Qed.

(* the name of a macro-local / start label determines the expansion path and the leaf *)
Theorem render_label_inj p1 l1 p2 l2 :
  Forall wf_comp p1 -> Forall wf_comp p2 -> ~ In 45 l1 -> ~ In 45 l2 ->
  render_label p1 l1 = render_label p2 l2 -> p1 = p2 /\ l1 = l2.
Proof.
  intros W1 W2 D1 D2 H.
  assert (HD : forall c r l, wf_comp c -> render_label [] l1 = render_label (c :: r) l -> False).
  { intros c r l W E. rewrite render_label_rl in E. unfold render_label in E. simpl in E.
    pose proof (render_comp_no_dash c W) as ND.
    destruct (render_comp c) as [|x t] eqn:R.
    - unfold render_comp in R. destruct (c_file c); discriminate.
    - simpl in E. inversion E; subst. apply ND. now left. }
  destruct p1 as [|c1 r1], p2 as [|c2 r2].
  - unfold render_label in H. simpl in H. inversion H. auto.
  - exfalso. inversion W2; subst. eapply HD; eauto.
  - exfalso. inversion W1; subst.
    assert (HD2 : forall c r l, wf_comp c -> render_label [] l2 = render_label (c :: r) l -> False).
    { intros c r l W E. rewrite render_label_rl in E. unfold render_label in E. simpl in E.
      pose proof (render_comp_no_dash c W) as ND.
      destruct (render_comp c) as [|x t] eqn:R.
      - unfold render_comp in R. destruct (c_file c); discriminate.
      - simpl in E. inversion E; subst. apply ND. now left. }
    eapply HD2; eauto.
  - rewrite !render_label_rl in H. now apply rl_inj.
Qed.

(* a global label (an identifier, possibly dotted) never equals a macro-local or start label *)
Lemma global_not_local g p leaf : ~ In 45 g -> g <> render_label p leaf.
Proof.
  intros D E. apply D. rewrite E. unfold render_label. apply in_or_app. right. now left.
Qed.

Theorem render_name_inj n1 n2 :
  (match n1 with Global g => ~ In 45 g | Local p l => Forall wf_comp p /\ ~ In 45 l end) ->
  (match n2 with Global g => ~ In 45 g | Local p l => Forall wf_comp p /\ ~ In 45 l end) ->
  render_name n1 = render_name n2 -> n1 = n2.
Proof.
  destruct n1 as [g1|p1 l1], n2 as [g2|p2 l2]; simpl; intros H1 H2 E.
  - now subst.
  - exfalso. now apply (global_not_local g1 p2 l2).
  - exfalso. symmetry in E. now apply (global_not_local g2 p1 l1).
  - destruct H1, H2. destruct (render_label_inj p1 l1 p2 l2) as [-> ->]; auto.
Qed.

(* ---------- the labels dictionary ---------- *)
Lemma lookup_none_keys t k : lookup t k = None <-> ~ In k (keys t).
Proof.
  induction t as [|[n a] r IH]; simpl.
  - split; auto.
  - destruct (str_eqb n k) eqn:E.
    + apply str_eqb_eq in E. subst. split; [discriminate|]. intros H. exfalso. apply H. now left.
    + rewrite IH. split.
      * intros H [C|C]; [subst; rewrite str_eqb_refl in E; discriminate | auto].
      * intros H C. apply H. now right.
Qed.

Lemma lookup_some_keys t k a : lookup t k = Some a -> In k (keys t).
Proof.
  intros H. destruct (in_dec (list_eq_dec N.eq_dec) k (keys t)) as [I|I]; [exact I|].
  apply lookup_none_keys in I. congruence.
Qed.

Lemma has_key_false t k : has_key t k = false <-> ~ In k (keys t).
Proof. unfold has_key. rewrite <- lookup_none_keys. destruct (lookup t k); split; congruence. Qed.

Lemma lookup_snoc t n a k :
  lookup (t ++ [(n, a)]) k = match lookup t k with Some x => Some x | None => if str_eqb n k then Some a else None end.
Proof.
  induction t as [|[n0 a0] r IH]; simpl; [reflexivity|].
  destruct (str_eqb n0 k); [reflexivity | exact IH].
Qed.

Lemma keys_snoc t n a : keys (t ++ [(n, a)]) = keys t ++ [n].
Proof. unfold keys. now rewrite map_app. Qed.

Lemma NoDup_snoc (A : Type) (l : list A) x : NoDup l -> ~ In x l -> NoDup (l ++ [x]).
Proof.
  intros H N. apply NoDup_rev in H. rewrite <- (rev_involutive (l ++ [x])). apply NoDup_rev.
  rewrite rev_app_distr. simpl. constructor; [|exact H]. intros C. apply N. now apply in_rev.
Qed.

Lemma insert_label_ok s n a s' : insert_label s n a = inl s' ->
  has_key (p_tbl s) n = false /\ p_tbl s' = p_tbl s ++ [(n, a)] /\ p_pos s' = n :: p_pos s /\ p_used s' = a :: p_used s.
Proof.
  unfold insert_label. destruct (has_key (p_tbl s) n) eqn:H; [discriminate|].
  intros E. inversion E; subst. simpl. auto.
Qed.

Definition decl_names (evs : list lev) : list str :=
  flat_map (fun e => match e with Decl n _ => [n] | Silent _ _ => [] end) evs.
Definition decl_addrs (evs : list lev) : list Z :=
  flat_map (fun e => match e with Decl _ a => [a] | Silent _ _ => [] end) evs.
Definition silent_names (evs : list lev) : list str :=
  flat_map (fun e => match e with Silent n _ => [n] | Decl _ _ => [] end) evs.

Lemma mem_str_in k l : mem_str k l = true <-> In k l.
Proof.
  unfold mem_str. rewrite existsb_exists. split.
  - intros (x & I & E). apply str_eqb_eq in E. now subst.
  - intros I. exists k. split; [exact I | apply str_eqb_refl].
Qed.

Lemma mem_z_in a l : mem_z a l = true <-> In a l.
Proof.
  unfold mem_z. rewrite existsb_exists. split.
  - intros (x & I & E). apply Z.eqb_eq in E. now subst.
  - intros I. exists a. split; [exact I | apply Z.eqb_refl].
Qed.

(* invariant of the preprocessor's label state *)
Record inv (s : pstate) : Prop := mkinv {
  i_nodup : NoDup (keys (p_tbl s));
  i_pos : forall l, In l (p_pos s) -> In l (keys (p_tbl s));
  i_used : forall a, In a (p_used s) -> exists l, In l (p_pos s) /\ lookup (p_tbl s) l = Some a
}.

Lemma inv_init : inv (mkp [] [] []).
Proof. constructor; simpl; [constructor | tauto | tauto]. Qed.

Lemma inv_insert s n a s' : inv s -> insert_label s n a = inl s' -> inv s'.
Proof.
  intros [I1 I2 I3] H. destruct (insert_label_ok _ _ _ _ H) as (K & T & P & U).
  apply has_key_false in K.
  constructor.
  - rewrite T, keys_snoc. now apply NoDup_snoc.
  - rewrite T, P, keys_snoc. intros l [E|E]; apply in_or_app; [right; subst; now left | left; auto].
  - rewrite T, P, U. intros x [E|E].
    + subst. exists n. split; [now left|]. rewrite lookup_snoc.
      apply lookup_none_keys in K. rewrite K. now rewrite str_eqb_refl.
    + destruct (I3 x E) as (l & L1 & L2). exists l. split; [now right|]. rewrite lookup_snoc. now rewrite L2.
Qed.

Lemma inv_silent s n a : inv s -> has_key (p_tbl s) n = false ->
  inv (mkp (p_tbl s ++ [(n, a)]) (p_pos s) (p_used s)).
Proof.
  intros [I1 I2 I3] K. apply has_key_false in K. constructor; simpl.
  - rewrite keys_snoc. now apply NoDup_snoc.
  - intros l L. rewrite keys_snoc. apply in_or_app. left. auto.
  - intros x X. destruct (I3 x X) as (l & L1 & L2). exists l. split; [exact L1|]. rewrite lookup_snoc. now rewrite L2.
Qed.

(* run_events: the table only grows, by entries whose key was absent *)
Lemma run_events_inv : forall evs s s',
  run_events evs s = inl s' -> inv s ->
  inv s' /\
  (forall n a, lookup (p_tbl s) n = Some a -> lookup (p_tbl s') n = Some a) /\
  (forall n a, In (Decl n a) evs -> lookup (p_tbl s') n = Some a) /\
  (forall a, In a (p_used s) \/ In a (decl_addrs evs) -> In a (p_used s')) /\
  (forall l, In l (keys (p_tbl s')) -> In l (keys (p_tbl s)) \/ In l (decl_names evs) \/ In l (silent_names evs)).
Proof.
  induction evs as [|e r IH]; intros s s' H I.
  - simpl in H. inversion H; subst. simpl. split; [exact I|]. split; [auto|]. split; [intros n a []|].
    split; [intros a [A|[]]; exact A | intros l L; now left].
  - destruct e as [n a|n a]; simpl in H.
    + destruct (insert_label s n a) as [s1|err] eqn:IL; [|discriminate].
      destruct (insert_label_ok _ _ _ _ IL) as (K & T & P & U).
      destruct (IH s1 s' H (inv_insert _ _ _ _ I IL)) as (J1 & J2 & J3 & J4 & J5).
      split; [exact J1|]. split; [|split; [|split]].
      * intros n0 a0 L. apply J2. rewrite T, lookup_snoc. now rewrite L.
      * intros n0 a0 [E|E]; [|now apply J3].
        inversion E; subst. apply J2. rewrite T, lookup_snoc.
        apply has_key_false, lookup_none_keys in K. rewrite K. now rewrite str_eqb_refl.
      * intros x X. apply J4. rewrite U. simpl in *. destruct X as [X|[X|X]]; auto.
      * intros l L. destruct (J5 l L) as [X|[X|X]].
        -- rewrite T, keys_snoc in X. apply in_app_or in X. destruct X as [X|[X|[]]]; [auto|]. subst. right. left. now left.
        -- right. left. now right.
        -- right. right. exact X.
    + destruct (has_key (p_tbl s) n) eqn:K; [discriminate|].
      destruct (IH _ s' H (inv_silent s n a I K)) as (J1 & J2 & J3 & J4 & J5).
      split; [exact J1|]. split; [|split; [|split]].
      * intros n0 a0 L. apply J2. simpl. rewrite lookup_snoc. now rewrite L.
      * intros n0 a0 [E|E]; [discriminate | now apply J3].
      * intros x X. apply J4. simpl. exact X.
      * intros l L. destruct (J5 l L) as [X|[X|X]].
        -- simpl in X. rewrite keys_snoc in X. apply in_app_or in X. destruct X as [X|[X|[]]]; [auto|].
           subst. right. right. now left.
        -- auto.
        -- right. right. now right.
Qed.

(* run_starts *)
Lemma run_starts_inv : forall rs s s', run_starts rs s = inl s' -> inv s ->
  inv s' /\ (forall n a, lookup (p_tbl s) n = Some a -> lookup (p_tbl s') n = Some a) /\
  (forall a, In a (p_used s) -> In a (p_used s')) /\
  (forall n a, In (n, a) rs -> In a (p_used s')) /\
  (forall n a', lookup (p_tbl s) n = None -> lookup (p_tbl s') n = Some a' -> In (n, a') rs /\ ~ In a' (p_used s)).
Proof.
  induction rs as [|[n0 a0] r IH]; intros s s' H I.
  - simpl in H. inversion H; subst.
    split; [exact I|]. split; [auto|]. split; [auto|]. split; [intros n a []|].
    intros n a' H0 H1. congruence.
  - simpl in H. destruct (mem_z a0 (p_used s)) eqn:M.
    + destruct (IH s s' H I) as (J1 & J2 & J3 & J4 & J5). apply mem_z_in in M.
      split; [exact J1|]. split; [exact J2|]. split; [exact J3|]. split.
      * intros n a [E|E]; [inversion E; subst; auto | eauto].
      * intros n a' H0 H1. destruct (J5 n a' H0 H1). split; [now right | auto].
    + destruct (insert_label s n0 a0) as [s1|err] eqn:IL; [|discriminate].
      destruct (insert_label_ok _ _ _ _ IL) as (K & T & P & U).
      destruct (IH s1 s' H (inv_insert _ _ _ _ I IL)) as (J1 & J2 & J3 & J4 & J5).
      assert (NM : ~ In a0 (p_used s)).
      { intros C. apply mem_z_in in C. congruence. }
      split; [exact J1|]. split; [|split; [|split]].
      * intros n a L. apply J2. rewrite T, lookup_snoc. now rewrite L.
      * intros a A. apply J3. rewrite U. now right.
      * intros n a [E|E]; [inversion E; subst; apply J3; rewrite U; now left | eauto].
      * intros n a' H0 H1. destruct (str_eqb n0 n) eqn:E.
        -- apply str_eqb_eq in E. subst n0.
           assert (X : lookup (p_tbl s') n = Some a0).
           { apply J2. rewrite T, lookup_snoc, H0. now rewrite str_eqb_refl. }
           assert (a' = a0) by congruence. subst a'. split; [now left | exact NM].
        -- assert (X : lookup (p_tbl s1) n = None) by (rewrite T, lookup_snoc, H0; now rewrite E).
           destruct (J5 n a' X H1) as [Y1 Y2]. split; [now right|].
           intros C. apply Y2. rewrite U. now right.
Qed.

Lemma in_decl_names n a evs : In (Decl n a) evs -> In n (decl_names evs) /\ In a (decl_addrs evs).
Proof.
  intros H. unfold decl_names, decl_addrs. rewrite !in_flat_map. split; exists (Decl n a); simpl; auto.
Qed.

Lemma nodup_fst_functional (A B : Type) (l : list (A * B)) k v1 v2 :
  NoDup (map fst l) -> In (k, v1) l -> In (k, v2) l -> v1 = v2.
Proof.
  induction l as [|[k0 v0] r IH]; simpl; intros N I1 I2; [destruct I1|].
  inversion N as [|? ? N1 N2]; subst.
  destruct I1 as [E1|I1], I2 as [E2|I2].
  - congruence.
  - inversion E1; subst. exfalso. apply N1. apply (in_map fst) in I2. exact I2.
  - inversion E2; subst. exfalso. apply N1. apply (in_map fst) in I1. exact I1.
  - now apply IH.
Qed.

(* The table as built by the preprocessor:
   1. keys are unique; 2. every declared label maps to the address of its declaration;
   3. a start label that made it into the table sits at its expansion's start address and no declared label has that
      address (start names are pairwise distinct and differ from every declared and segment label - C16_unique);
   4. every expansion start address carries a label. *)
Theorem table_exact evs starts t :
  build evs starts = BOk t ->
  NoDup (keys t) /\
  (forall n a, In (Decl n a) evs -> lookup t n = Some a) /\
  (NoDup (map fst starts) ->
   (forall n, In n (map fst starts) -> ~ In n (decl_names evs) /\ ~ In n (silent_names evs)) ->
   forall n a a', In (n, a) starts -> lookup t n = Some a' -> a' = a /\ ~ In a (decl_addrs evs)) /\
  (forall n a, In (n, a) starts -> exists l, lookup t l = Some a).
Proof.
  unfold build. intros H.
  destruct (run_events evs (mkp [] [] [])) as [s1|e1] eqn:R1; [|destruct e1; discriminate].
  destruct (run_starts (rev starts) s1) as [s2|e2] eqn:R2; [|destruct e2; discriminate].
  inversion H; subst. clear H.
  destruct (run_events_inv _ _ _ R1 inv_init) as (I1 & _ & D1 & U1 & K1).
  destruct (run_starts_inv _ _ _ R2 I1) as (I2 & L2 & U2 & S2 & N2).
  split; [apply (i_nodup _ I2)|]. split; [|split].
  - intros n a D. apply L2. now apply D1.
  - intros ND FR n a a' IS L.
    assert (LN : lookup (p_tbl s1) n = None).
    { apply lookup_none_keys. intros C. apply (in_map fst) in IS. simpl in IS.
      destruct (FR n IS) as [F1 F2]. destruct (K1 n C) as [X|[X|X]]; [destruct X | auto | auto]. }
    destruct (N2 n a' LN L) as [X Y]. apply in_rev in X.
    assert (a' = a) by (eapply nodup_fst_functional; eauto). subst a'.
    split; [reflexivity|]. intros C. apply Y. apply U1. now right.
  - intros n a IS. apply in_rev in IS. pose proof (S2 n a IS) as X.
    destruct (i_used _ I2 a X) as (l & _ & L). now exists l.
Qed.

(* a second declaration of a name is an error exit, whichever of the two is the segment label:
   when the table is built, all declared and segment label names are pairwise distinct *)
Definition ev_name (e : lev) : str := match e with Decl n _ => n | Silent n _ => n end.

Lemma run_events_keys : forall evs s s',
  run_events evs s = inl s' -> keys (p_tbl s') = keys (p_tbl s) ++ map ev_name evs.
Proof.
  induction evs as [|e r IH]; intros s s' H.
  - simpl in H. inversion H; subst. simpl. now rewrite app_nil_r.
  - destruct e as [n a|n a]; simpl in H.
    + destruct (insert_label s n a) as [s1|err] eqn:IL; [|discriminate].
      destruct (insert_label_ok _ _ _ _ IL) as (K & T & P & U).
      rewrite (IH s1 s' H), T, keys_snoc. simpl. now rewrite <- app_assoc.
    + destruct (has_key (p_tbl s) n) eqn:K; [discriminate|].
      rewrite (IH _ s' H). simpl. rewrite keys_snoc. now rewrite <- app_assoc.
Qed.

Theorem names_distinct evs starts t : build evs starts = BOk t -> NoDup (map ev_name evs).
Proof.
  unfold build. intros H.
  destruct (run_events evs (mkp [] [] [])) as [s1|e1] eqn:R1; [|destruct e1; discriminate].
  destruct (run_events_inv _ _ _ R1 inv_init) as (I1 & _).
  pose proof (i_nodup _ I1) as N. rewrite (run_events_keys _ _ _ R1) in N. exact N.
Qed.

(* ---------- save / load ---------- *)
Section SaveLoad.
Variable bytes : Type.
Variable json_dumps : table -> bytes.
Variable json_loads : bytes -> option table.
Variable lzma_compress : bytes -> bytes.
Variable lzma_decompress : bytes -> option bytes.
(* json.loads(json.dumps(d)) == d for a str->int dictionary (keys unique, order kept); raw LZMA2 is lossless *)
Hypothesis json_roundtrip : forall t, NoDup (keys t) -> json_loads (json_dumps t) = Some t.
Hypothesis lzma_roundtrip : forall b, lzma_decompress (lzma_compress b) = Some b.

Lemma roundtrip t : NoDup (keys t) ->
  load_labels bytes json_loads lzma_decompress (save_labels bytes json_dumps lzma_compress t) = Some t.
Proof. intros H. unfold load_labels, save_labels. rewrite lzma_roundtrip. now apply json_roundtrip. Qed.
End SaveLoad.

(* ---------- breakpoints ---------- *)
Lemma prefix_of_spec s : forall l, prefix_of s l = true <-> exists post, l = s ++ post.
Proof.
  induction s as [|x s IH]; intros l; simpl.
  - split; [intros _; now exists l | auto].
  - destruct l as [|y l].
    + split; [discriminate | intros (p & E); discriminate].
    + rewrite andb_true_iff, N.eqb_eq, IH. split.
      * intros (-> & p & ->). now exists p.
      * intros (p & E). inversion E; subst. split; [reflexivity | now exists p].
Qed.

(* `s in l` : s occurs in l as a contiguous substring *)
Lemma substr_spec s : forall l, substr s l = true <-> exists pre post, l = pre ++ s ++ post.
Proof.
  induction l as [|y l IH].
  - simpl. rewrite orb_false_r, prefix_of_spec. split.
    + intros (p & E). now exists [], p.
    + intros (pre & post & E). destruct pre; [now exists post|discriminate].
  - simpl. rewrite orb_true_iff, prefix_of_spec, IH. split.
    + intros [(p & E)|(pre & post & E)]; [now exists [], p | subst; now exists (y :: pre), post].
    + intros (pre & post & E). destruct pre as [|z pre].
      * left. now exists post.
      * right. inversion E; subst. now exists pre, post.
Qed.

Lemma bset_dom d k v a : In a (map fst (bset d k v)) <-> a = k \/ In a (map fst d).
Proof.
  induction d as [|[x y] r IH]; simpl.
  - split; [intros [E|[]]; now left | intros [E|[]]; now left].
  - destruct (x =? k)%Z eqn:E; simpl.
    + apply Z.eqb_eq in E. subst. intuition congruence.
    + rewrite IH. intuition congruence.
Qed.

Lemma fold_dom (E : Type) (f : bdict -> E -> bdict) (P : E -> Prop) a :
  (forall d e, In a (map fst (f d e)) <-> P e \/ In a (map fst d)) ->
  forall l d, In a (map fst (fold_left f l d)) <-> (exists e, In e l /\ P e) \/ In a (map fst d).
Proof.
  intros H. induction l as [|e l IH]; intros d; simpl.
  - split; [auto | intros [(e & [] & _)|X]; exact X].
  - rewrite IH, H. split.
    + intros [(e' & I & p)|[p|X]]; [left; exists e'; auto | left; exists e; auto | auto].
    + intros [(e' & [I|I] & p)|X]; [subst; auto | left; exists e'; auto | auto].
Qed.

(* dom (get_breakpoints A L S tbl) = A  U  { tbl l | l in L, l in dom tbl }  U  { a | (l, a) in tbl, some s in S occurs in l } *)
Theorem breakpoints_dom A Ls Sub t a :
  In a (map fst (get_breakpoints A Ls Sub t)) <->
  In a A \/ (exists l, In l Ls /\ lookup t l = Some a) \/
  (exists l s, In (l, a) t /\ In s Sub /\ substr s l = true).
Proof.
  unfold get_breakpoints, bp_exact, bp_contains, bp_addresses.
  rewrite (fold_dom str _ (fun bl => lookup t bl = Some a)).
  2:{ intros d e. destruct (lookup t e) as [x|]; [rewrite bset_dom|]; split.
      - intros [X|X]; [left; now subst | auto].
      - intros [X|X]; [left; congruence | auto].
      - auto.
      - intros [X|X]; [discriminate | exact X]. }
  rewrite (fold_dom (str * Z) _ (fun la => snd la = a /\ exists s, In s Sub /\ substr s (fst la) = true)).
  2:{ intros d e.
      rewrite (fold_dom str _ (fun bcl => snd e = a /\ substr bcl (fst e) = true)).
      - split.
        + intros [(s & I & X & Y)|X]; [left; split; [exact X | now exists s] | auto].
        + intros [(X & s & I & Y)|X]; [left; exists s; auto | auto].
      - intros d0 s. destruct (substr s (fst e)); [rewrite bset_dom|]; split.
        + intros [X|X]; [left; split; [now subst | reflexivity] | auto].
        + intros [[X _]|X]; [left; now subst | auto].
        + auto.
        + intros [[_ X]|X]; [discriminate | exact X]. }
  rewrite (fold_dom Z _ (fun x => x = a)).
  2:{ intros d e. rewrite bset_dom. split; intros [X|X]; auto. }
  simpl. split.
  - intros [(l & I & X)|[((l, x) & I & X & s & J & Y)|[(x & I & X)|[]]]].
    + right. left. now exists l.
    + right. right. simpl in *. subst. exists l, s. split; [now apply in_rev|auto].
    + left. now subst.
  - intros [X|[(l & I & X)|(l & s & I & J & Y)]].
    + right. right. left. now exists a.
    + left. now exists l.
    + right. left. exists (l, a). split; [now apply in_rev in I || (apply in_rev; now rewrite rev_involutive)|].
      simpl. split; [reflexivity | now exists s].
Qed.

Lemma bp_warnings_spec Ls t l : In l (bp_warnings Ls t) <-> In l Ls /\ lookup t l = None.
Proof.
  unfold bp_warnings. rewrite filter_In. unfold has_key. destruct (lookup t l); simpl; split; intros [X Y]; auto; discriminate.
Qed.
