From FJ Require Import Lib.Base.
(* C02: the sharing-table (wflips_dict) invariant of insert_wflip_ops: every wflip statement of an assembled program
   has a stored chain in the final image (wflip_chain_ok), hence C02_sound.

   Plan.  `hw st a v` = word address a HOLDS v in state st and will not change: it is already emitted, or it sits in a
   slot of fj_words that is not an available pad hole, or in wflip_words.  Statements only append words, write into
   holes they pop, and patch the open link of the chain they are building, so hw is preserved from one statement to
   the next and every held word is in the final image (run_chains, clause T).  A table entry is a chain of held words
   (entry_ok); entries are never removed and held words never change, so a stale entry of an earlier segment is still a
   valid chain when it is reused.  Every auxiliary op gets a `:wflips:k` label when it is allocated; the placement facts
   (aux_ok, not on the input cell, >= 2w) are proved per label (clause AUX). *)
From FJ Require Import Spec.MachineSpec Model.Ast Spec.DenoteSpec Model.DenoteCheck Model.Layout.
From FJ Require Import Proofs.DenoteProps Proofs.LayoutProps.
From Coq Require Import Permutation.
Local Open Scope Z_scope.

Section Chains.
Variable ww : N.
Variable ver : N.
Notation wd := (wd ww).
Notation dwd := (dwd ww).
Notation M := (2 ^ wd).

Lemma wd_pos' : 0 < wd.
Proof. apply wz_pos. Qed.

(* ---------- slots and held words ---------- *)
Definition slot := (wlist * nat)%type.

(* the address of the first wflip word of the open source segment *)
Definition wsb (st : bstate) : Z := b_nextw st - wd * Z.of_nat (List.length (b_wf st)).

Definition slot_ok (st : bstate) (r : slot) : Prop :=
  match fst r with
  | FJ => (snd r < List.length (b_fj st))%nat /\ ~ hole_slot (b_pads st) (snd r)
  | WF => (snd r < List.length (b_wf st))%nat
  end.
Definition saddr (st : bstate) (r : slot) : Z :=
  match fst r with FJ => b_first st / wd + Z.of_nat (snd r) | WF => wsb st / wd + Z.of_nat (snd r) end.
Definition sget (st : bstate) (r : slot) : option Z :=
  match fst r with FJ => nth_error (b_fj st) (snd r) | WF => nth_error (b_wf st) (snd r) end.

Definition eok (wr : wstate) (a v : Z) : Prop := emitted ww ver wr a v /\ in_memory ww v = true.

(* held, except possibly the slots in ex *)
Definition hwx (ex : list slot) (st : bstate) (a v : Z) : Prop :=
  eok (b_wr st) a v \/ exists r, ~ In r ex /\ slot_ok st r /\ a = saddr st r /\ sget st r = Some v.
Definition hw := hwx [].

Lemma hwx_weaken ex st a v : hwx ex st a v -> hw st a v.
Proof. intros [H|(r & _ & H)]; [now left|right; exists r; split; [intros []|exact H]]. Qed.

Lemma eok_mono wr wr' a v : wr_le ww ver wr wr' -> eok wr a v -> eok wr' a v.
Proof. intros L [E I]. split; [eapply emitted_mono; eauto|exact I]. Qed.

(* ---------- chains over a holding predicate ---------- *)
Definition zchain := list (Z * Z).
Definition znext (rest : zchain) (R : Z) : Z := match rest with [] => R | (x, _) :: _ => x end.

Fixpoint ch (H : Z -> Z -> Prop) (cs : zchain) (R : Z) : Prop :=
  match cs with
  | [] => True
  | (x, f) :: rest => x mod wd = 0 /\ H (x / wd) f /\ H (x / wd + 1) (znext rest R) /\ ch H rest R
  end.

Lemma ch_mono (H H' : Z -> Z -> Prop) cs R : (forall a v, H a v -> H' a v) -> ch H cs R -> ch H' cs R.
Proof.
  intros Hi. induction cs as [|[x f] rest IH]; [auto|]. cbn [ch]. intros (A & B & C & D). auto.
Qed.

(* an auxiliary op address is registered under a `:wflips:k` label *)
Definition reg (l : labels) (x : Z) : Prop := exists k, lookup l (wflip_label k) = Some x.
Lemma reg_mono l l' x : extends l l' -> reg l x -> reg l' x.
Proof. intros E [k H]. exists k. now apply E. Qed.

(* a sharing-table entry: a complete chain from its address through the flips of its key to its return address *)
Definition entry_ok (H : Z -> Z -> Prop) (l : labels) (e : (Z * list Z) * Z) : Prop :=
  exists cs, cs <> [] /\ znext cs (fst (fst e)) = snd e /\ map snd cs = snd (fst e)
             /\ ch H cs (fst (fst e)) /\ Forall (reg l) (map fst cs).

Lemma entry_ok_mono (H H' : Z -> Z -> Prop) l l' e :
  (forall a v, H a v -> H' a v) -> extends l l' -> entry_ok H l e -> entry_ok H' l' e.
Proof.
  intros Hi He (cs & A & B & C & D & E). exists cs. repeat split; auto.
  - eapply ch_mono; eauto.
  - eapply Forall_impl; [|exact E]. intros x. now apply reg_mono.
Qed.

(* ---------- set_ref ---------- *)
Lemma set_nth_same l : forall i v, (i < List.length l)%nat -> nth_error (set_nth l i v) i = Some v.
Proof. induction l as [|x l IH]; intros [|i] v H; cbn in *; try lia; [reflexivity|apply IH; lia]. Qed.

Lemma hwx_incl ex ex' st a v : (forall r, In r ex' -> In r ex) -> hwx ex st a v -> hwx ex' st a v.
Proof. intros Hi [H|(r & N & H)]; [now left|right; exists r; split; [auto|exact H]]. Qed.

Lemma slot_eq_dec (r r' : slot) : {r = r'} + {r <> r'}.
Proof. decide equality; [apply Nat.eq_dec|decide equality]. Qed.

Lemma set_ref_struct st r x :
  b_first (set_ref st r x) = b_first st /\ b_cur (set_ref st r x) = b_cur st /\ b_nextw (set_ref st r x) = b_nextw st
  /\ b_pads (set_ref st r x) = b_pads st /\ b_dict (set_ref st r x) = b_dict st
  /\ List.length (b_fj (set_ref st r x)) = List.length (b_fj st)
  /\ List.length (b_wf (set_ref st r x)) = List.length (b_wf st).
Proof. unfold set_ref. destruct (fst r); cbn; rewrite ?set_nth_length; auto 10. Qed.

Lemma set_ref_wsb st r x : wsb (set_ref st r x) = wsb st.
Proof. unfold wsb. destruct (set_ref_struct st r x) as (_ & _ & -> & _ & _ & _ & ->). reflexivity. Qed.

Lemma set_ref_slot_ok st r x r' : slot_ok (set_ref st r x) r' <-> slot_ok st r'.
Proof.
  unfold slot_ok. destruct (set_ref_struct st r x) as (_ & _ & _ & -> & _ & -> & ->). reflexivity.
Qed.

Lemma set_ref_saddr st r x r' : saddr (set_ref st r x) r' = saddr st r'.
Proof.
  unfold saddr. rewrite set_ref_wsb. destruct (set_ref_struct st r x) as (-> & _). reflexivity.
Qed.

Lemma set_ref_sget_other st r x r' : r' <> r -> sget (set_ref st r x) r' = sget st r'.
Proof.
  destruct r as [wl i], r' as [wl' i']. unfold sget, set_ref. cbn [fst snd]. intros Hne.
  destruct wl, wl'; cbn [b_fj b_wf]; try reflexivity; apply set_nth_other; congruence.
Qed.

Lemma set_ref_sget_same st r x : slot_ok st r -> sget (set_ref st r x) r = Some x.
Proof.
  destruct r as [wl i]. unfold sget, set_ref, slot_ok. cbn [fst snd].
  destruct wl; cbn [b_fj b_wf]; intros H; apply set_nth_same; tauto.
Qed.

Lemma set_ref_hwx ex st r x a v : hwx (r :: ex) st a v -> hwx ex (set_ref st r x) a v.
Proof.
  intros [H|(r' & N & S & A & G)].
  - left. now destruct (set_ref_frame st r x) as (_ & _ & ->).
  - right. exists r'. split; [intros X; apply N; now right|]. split; [now apply set_ref_slot_ok|].
    split; [now rewrite set_ref_saddr|]. rewrite set_ref_sget_other; [exact G|]. intros ->. apply N. now left.
Qed.

Lemma set_ref_holds ex st r x : slot_ok st r -> ~ In r ex -> hwx ex (set_ref st r x) (saddr st r) x.
Proof.
  intros S N. right. exists r. split; [exact N|]. split; [now apply set_ref_slot_ok|].
  split; [now rewrite set_ref_saddr|now apply set_ref_sget_same].
Qed.

(* ---------- get_wflip_spot ---------- *)
Definition psorted := Sorted.StronglySorted (fun a b : nat => (S (S b) <= a)%nat).

Record lst (first cur ws : Z) (wr : wstate) (nfj : nat) (st : bstate) : Prop := {
  l_first : b_first st = first;
  l_cur : b_cur st = cur;
  l_wr : b_wr st = wr;
  l_ws : wsb st = ws;
  l_len : List.length (b_fj st) = nfj;
  l_pads : Forall (fun h => (S h < nfj)%nat) (b_pads st);
  l_sorted : psorted (b_pads st)
}.

Lemma pop_hole_sorted first pads : forall r rest,
  pop_hole ww first pads = (r, rest) -> psorted pads ->
  psorted rest /\ (forall h, In h rest -> In h pads)
  /\ match r with
     | Some (i, a) => In i pads /\ a = first + wd * Z.of_nat i /\ covers_input_bit ww a = false
                      /\ Forall (fun h => (S (S h) <= i)%nat) rest
     | None => rest = []
     end.
Proof.
  induction pads as [|i pads IH]; intros r rest H Hs; cbn [pop_hole] in H.
  - injection H as <- <-. repeat split; auto.
  - apply Sorted.StronglySorted_inv in Hs. destruct Hs as [Hs Hf].
    destruct (covers_input_bit ww (first + wd * Z.of_nat i)) eqn:E.
    + destruct (IH _ _ H Hs) as (A & B & C). split; [exact A|]. split; [intros h Hh; right; auto|].
      destruct r as [[j a]|]; [|exact C]. destruct C as (C1 & C2). split; [now right|exact C2].
    + injection H as <- <-. split; [exact Hs|]. split; [intros h Hh; now right|].
      split; [now left|]. split; [reflexivity|]. split; [exact E|exact Hf].
Qed.

Lemma skip_input_op_ext : forall fuel nextw wf nw wf',
  skip_input_op ww fuel nextw wf = (nw, wf') -> exists z, wf' = wf ++ z /\ nextw <= nw.
Proof.
  pose proof wd_pos' as Hw.
  induction fuel as [|k IH]; intros nextw wf nw wf' H; cbn [skip_input_op] in H.
  - injection H as <- <-. exists []. rewrite app_nil_r. split; [reflexivity|lia].
  - destruct (covers_input_bit ww nextw).
    + apply IH in H. destruct H as (z & -> & Hle). exists ([0; 0] ++ z). rewrite app_assoc. split; [reflexivity|].
      unfold Layout.dwd in Hle. lia.
    + injection H as <- <-. exists []. rewrite app_nil_r. split; [reflexivity|lia].
Qed.

Definition is_hole_alloc (st : bstate) (wl : wlist) (idx : nat) (addr : Z) (st1 : bstate) : Prop :=
  wl = FJ /\ In idx (b_pads st) /\ addr = b_first st + wd * Z.of_nat idx /\ b_nextw st1 = b_nextw st.
Definition is_wf_alloc (st : bstate) (wl : wlist) (addr : Z) (st1 : bstate) : Prop :=
  wl = WF /\ b_nextw st <= addr /\ b_nextw st1 = addr + dwd.

Lemma spot_spec first cur ws wr nfj st st1 wl idx addr :
  get_wflip_spot ww st = (st1, (wl, idx, addr)) -> lst first cur ws wr nfj st ->
  first mod wd = 0 -> ws mod wd = 0 ->
  lst first cur ws wr nfj st1
  /\ slot_ok st1 (wl, idx) /\ slot_ok st1 (wl, S idx) /\ ~ slot_ok st (wl, idx) /\ ~ slot_ok st (wl, S idx)
  /\ (forall r, slot_ok st r -> slot_ok st1 r /\ sget st1 r = sget st r)
  /\ (forall r, saddr st1 r = saddr st r)
  /\ addr mod wd = 0 /\ addr / wd = saddr st1 (wl, idx) /\ covers_input_bit ww addr = false
  /\ b_labels st1 = b_labels st /\ b_wcount st1 = b_wcount st /\ b_dict st1 = b_dict st
  /\ (is_hole_alloc st wl idx addr st1 \/ is_wf_alloc st wl addr st1)
  /\ (forall h, In h (b_pads st1) -> In h (b_pads st)).
Proof.
  pose proof wd_pos' as Hw.
  unfold get_wflip_spot. intros H [C1 C2 C3 C4 C5 C6 C7] Hal Hwsal.
  destruct (pop_hole ww (b_first st) (b_pads st)) as [[[i a]|] rest] eqn:Ep.
  - injection H as <- <- <- <-.
    destruct (pop_hole_sorted _ _ _ _ Ep C7) as (S1 & Hincl & Hi & Ha & Hnc & Hgap).
    rewrite Forall_forall in C6, Hgap. pose proof (C6 _ Hi) as Hlt.
    split; [constructor; cbn [b_first b_cur b_wr b_fj b_pads]; auto; apply Forall_forall; auto|].
    assert (Hnh : forall k, (k = i \/ k = S i) -> ~ hole_slot rest k).
    { intros k Hk (h & Hh & E). specialize (Hgap _ Hh). lia. }
    split; [split; cbn [fst snd b_fj b_pads]; [lia|apply Hnh; auto]|].
    split; [split; cbn [fst snd b_fj b_pads]; [lia|apply Hnh; auto]|].
    split; [intros [_ X]; apply X; exists i; auto|].
    split; [intros [_ X]; apply X; exists i; auto|].
    split.
    { intros [[|] k]; unfold slot_ok, sget; cbn [fst snd b_fj b_wf b_pads]; intros S0; [|auto].
      split; [|reflexivity]. split; [tauto|]. intros X. apply (proj2 S0). eapply hole_slot_incl; eauto. }
    split; [intros [[|] k]; reflexivity|].
    subst a. unfold saddr. cbn [fst snd b_first]. rewrite C1 in *.
    split; [now apply mod_first_add|]. split; [now apply div_first_add|]. split; [exact Hnc|].
    cbn [b_labels b_wcount b_dict b_pads]. repeat split; auto. left. unfold is_hole_alloc. rewrite C1. repeat split; auto.
  - destruct (skip_input_op ww 2 (b_nextw st) (b_wf st)) as [nw wf] eqn:Es.
    injection H as <- <- <- <-.
    pose proof (skip_input_op_spec _ _ _ _ _ _ Es) as Hsp.
    destruct (skip_input_op_ext _ _ _ _ _ Es) as (z & -> & Hge).
    pose proof (skip_input_op_nc _ _ _ _ _ Es) as Hnc.
    assert (Hws1 : nw + dwd - wd * Z.of_nat (List.length ((b_wf st ++ z) ++ [0; 0])) = ws).
    { rewrite <- C4. unfold wsb. rewrite (app_length (b_wf st ++ z)). cbn [List.length]. unfold Layout.dwd. lia. }
    split; [constructor; cbn [b_first b_cur b_wr b_fj b_pads]; auto; try exact Hws1; constructor|].
    split; [red; cbn [fst snd b_wf]; rewrite (app_length (b_wf st ++ z)); cbn; lia|].
    split; [red; cbn [fst snd b_wf]; rewrite (app_length (b_wf st ++ z)); cbn; lia|].
    split; [unfold slot_ok; cbn [fst snd]; rewrite app_length; lia|].
    split; [unfold slot_ok; cbn [fst snd]; rewrite app_length; lia|].
    split.
    { intros [[|] k]; unfold slot_ok, sget; cbn [fst snd b_fj b_wf b_pads]; intros S0.
      - split; [|reflexivity]. split; [tauto|]. intros (h & [] & _).
      - split; [rewrite !app_length; lia|]. rewrite <- app_assoc. now apply nth_error_app1. }
    split; [intros [[|] k]; unfold saddr, wsb; cbn [fst snd b_first b_nextw b_wf]; [reflexivity|];
            fold (wsb st); rewrite Hws1, C4; reflexivity|].
    assert (Ea : nw = ws + wd * Z.of_nat (List.length (b_wf st ++ z))) by (rewrite <- C4; unfold wsb; lia).
    unfold saddr, wsb. cbn [fst snd b_nextw b_wf]. rewrite Hws1. rewrite Ea at 1 2.
    split; [now apply mod_first_add|]. split; [now apply div_first_add|]. split; [exact Hnc|].
    cbn [b_labels b_wcount b_dict b_pads]. repeat split; auto.
    + right. repeat split; auto.
    + intros h [].
Qed.

(* ---------- one allocation of the `while flip_addresses:` loop ---------- *)
Lemma lst_set_ref first cur ws wr nfj st r x : lst first cur ws wr nfj st -> lst first cur ws wr nfj (set_ref st r x).
Proof.
  intros [C1 C2 C3 C4 C5 C6 C7]. destruct (set_ref_struct st r x) as (E1 & E2 & E3 & E4 & E5 & E6 & E7).
  destruct (set_ref_frame st r x) as (_ & _ & E8).
  constructor; rewrite ?E1, ?E2, ?E4, ?E6, ?E8, ?set_ref_wsb; auto.
Qed.

Definition alloc_at (first : Z) (pads : list nat) (nw0 nw1 : Z) (x : Z) : Prop :=
  covers_input_bit ww x = false /\ x mod wd = 0
  /\ ((exists h, In h pads /\ x = first + wd * Z.of_nat h) \/ (nw0 <= x /\ x + dwd <= nw1)).

Lemma alloc_step first cur ws wr nfj st ret key x last st1 wl idx addr :
  get_wflip_spot ww st = (st1, (wl, idx, addr)) -> lst first cur ws wr nfj st -> good ww st ->
  first mod wd = 0 -> ws mod wd = 0 -> slot_ok st last ->
  let st5 := set_ref (dict_add (set_ref (insert_wflip_label st1 addr) last addr) ret key addr) (wl, idx) x in
  lst first cur ws wr nfj st5 /\ good ww st5 /\ slot_ok st5 (wl, S idx)
  /\ (forall a v, hwx [last] st a v -> hwx [(wl, S idx)] st5 a v)
  /\ hwx [(wl, S idx)] st5 (saddr st last) addr
  /\ hwx [(wl, S idx)] st5 (addr / wd) x
  /\ saddr st5 (wl, S idx) = addr / wd + 1
  /\ b_dict st5 = b_dict st ++ [((ret, key), addr)]
  /\ b_labels st5 = dict_set (b_labels st) (wflip_label (b_wcount st)) addr
  /\ extends (b_labels st) (b_labels st5)
  /\ alloc_at first (b_pads st) (b_nextw st) (b_nextw st5) addr
  /\ b_nextw st <= b_nextw st5 /\ (forall h, In h (b_pads st5) -> In h (b_pads st))
  /\ (forall r, saddr st5 r = saddr st r).
Proof.
  intros Es Hl Hg Hal Hwsal Hlast. pose proof wd_pos' as Hw.
  destruct (spot_spec _ _ _ _ _ _ _ _ _ _ Es Hl Hal Hwsal)
    as (L1 & S0 & S1 & NS0 & NS1 & Hold & Hsa & Amod & Adiv & Anc & El & Ec & Ed & Hkind & Hpads).
  set (s0 := (wl, idx)) in *. set (s1 := (wl, S idx)) in *.
  set (st2 := insert_wflip_label st1 addr).
  set (st3 := set_ref st2 last addr).
  set (st4 := dict_add st3 ret key addr).
  intros st5. fold st2 st3 st4 in st5.
  assert (Hne0 : last <> s0) by (intros ->; contradiction).
  assert (Hne1 : last <> s1) by (intros ->; contradiction).
  assert (G1 : good ww st1).
  { destruct Hg as [Gw Gl]. pose proof (spot_frame ww st) as F. rewrite Es in F. cbn [fst] in F.
    destruct F as (F1 & F2 & F3). unfold good, linv. rewrite F1, F2, F3. split; assumption. }
  destruct (insert_wflip_label_good ww st1 addr G1) as [G2 X2]. fold st2 in G2, X2.
  assert (L2 : lst first cur ws wr nfj st2) by (destruct L1; constructor; auto).
  pose proof (lst_set_ref _ _ _ _ _ _ last addr L2) as L3. fold st3 in L3.
  assert (L4 : lst first cur ws wr nfj st4) by (destruct L3; constructor; auto).
  pose proof (lst_set_ref _ _ _ _ _ _ s0 x L4) as L5. fold st5 in L5.
  assert (T1 : forall a v, hwx [last] st a v -> hwx [last; s0; s1] st2 a v).
  { intros a v [H|(r & N & S & A & G)].
    - left. change (b_wr st2) with (b_wr st1). destruct L1 as [_ _ -> _ _ _ _]. now destruct Hl as [_ _ <- _ _ _ _].
    - right. exists r. destruct (Hold _ S) as [S' G']. split.
      + intros [<-|[<-|[<-|[]]]]; [apply N; now left|contradiction|contradiction].
      + split; [exact S'|]. split; [change (saddr st2 r) with (saddr st1 r); now rewrite Hsa|].
        change (sget st2 r) with (sget st1 r). now rewrite G'. }
  assert (T3 : forall a v, hwx [last; s0; s1] st2 a v -> hwx [s0; s1] st4 a v).
  { intros a v H. apply (set_ref_hwx [s0; s1] st2 last addr) in H. exact H. }
  assert (T5 : forall a v, hwx [s0; s1] st4 a v -> hwx [s1] st5 a v).
  { intros a v H. now apply (set_ref_hwx [s1] st4 s0 x) in H. }
  assert (Slast2 : slot_ok st2 last) by (apply (Hold _ Hlast)).
  split; [exact L5|].
  split.
  { destruct (set_ref_frame st4 s0 x) as (A1 & A2 & A3). destruct (set_ref_frame st2 last addr) as (B1 & B2 & B3).
    unfold good, linv. fold st5 in A1, A2, A3. fold st3 in B1, B2, B3. rewrite A1, A2, A3.
    change (b_labels st4) with (b_labels st3). change (b_wcount st4) with (b_wcount st3). change (b_wr st4) with (b_wr st3).
    rewrite B1, B2, B3. exact G2. }
  split; [apply set_ref_slot_ok; change (slot_ok st3 s1); apply set_ref_slot_ok; exact S1|].
  split; [intros a v H; apply T5, T3, T1, H|].
  split.
  { apply T5. change (hwx [s0; s1] st3 (saddr st last) addr). rewrite <- Hsa.
    change (saddr st1 last) with (saddr st2 last). apply set_ref_holds; [exact Slast2|].
    intros [E|[E|[]]]; congruence. }
  split.
  { rewrite Adiv.
    replace (saddr st1 s0) with (saddr st4 s0)
      by (change (saddr st4 s0) with (saddr st3 s0); unfold st3; rewrite set_ref_saddr; reflexivity).
    apply set_ref_holds.
    - change (slot_ok st3 s0). apply set_ref_slot_ok. exact S0.
    - intros [E|[]]. unfold s0, s1 in E. injection E. lia. }
  split.
  { unfold st5. rewrite set_ref_saddr. change (saddr st4 s1) with (saddr st3 s1). unfold st3. rewrite set_ref_saddr.
    change (saddr st2 s1) with (saddr st1 s1). rewrite Adiv. unfold saddr, s0, s1. cbn [fst snd]. destruct wl; lia. }
  destruct (set_ref_struct st4 s0 x) as (_ & _ & N5 & P5 & D5 & _). fold st5 in N5, P5, D5.
  destruct (set_ref_struct st2 last addr) as (_ & _ & N3 & P3 & D3 & _). fold st3 in N3, P3, D3.
  destruct (set_ref_frame st4 s0 x) as (A1 & _). fold st5 in A1.
  destruct (set_ref_frame st2 last addr) as (B1 & _). fold st3 in B1.
  assert (Elab : b_labels st5 = dict_set (b_labels st) (wflip_label (b_wcount st)) addr).
  { rewrite A1. change (b_labels st4) with (b_labels st3). rewrite B1. unfold st2, insert_wflip_label. cbn [b_labels].
    now rewrite El, Ec. }
  assert (Enw : b_nextw st5 = b_nextw st1) by (rewrite N5; change (b_nextw st4) with (b_nextw st3); now rewrite N3).
  assert (Epd : b_pads st5 = b_pads st1) by (rewrite P5; change (b_pads st4) with (b_pads st3); now rewrite P3).
  split; [rewrite D5; unfold st4, dict_add; cbn [b_dict]; rewrite D3; unfold st2, insert_wflip_label; cbn [b_dict];
          now rewrite Ed|].
  split; [exact Elab|].
  split; [rewrite A1; change (b_labels st4) with (b_labels st3); rewrite B1, <- El; exact X2|].
  assert (Hf : b_first st = first) by now destruct Hl.
  split.
  { split; [exact Anc|]. split; [exact Amod|]. rewrite Enw.
    destruct Hkind as [(_ & K2 & K3 & _)|(_ & K2 & K3)]; [left; exists idx; rewrite <- Hf; auto|right; lia]. }
  split; [rewrite Enw; destruct Hkind as [(_ & _ & _ & K)|(_ & K2 & K3)]; unfold Layout.dwd in *; lia|].
  split; [rewrite Epd; exact Hpads|].
  intros r. unfold st5. rewrite set_ref_saddr. change (saddr st4 r) with (saddr st3 r). unfold st3. rewrite set_ref_saddr.
  change (saddr st2 r) with (saddr st1 r). apply Hsa.
Qed.

(* ---------- the sharing table ---------- *)
Lemma zlist_eqb_eq a : forall b, zlist_eqb a b = true -> a = b.
Proof.
  induction a as [|x a IH]; intros [|y b] H; cbn in H; try discriminate; [reflexivity|].
  apply andb_true_iff in H. destruct H as [H1 H2]. apply Z.eqb_eq in H1. f_equal; auto.
Qed.

Lemma dict_find_in D ret key e : dict_find D ret key = Some e -> In ((ret, key), e) D.
Proof.
  induction D as [|[[r k] v] D IH]; cbn [dict_find]; [discriminate|].
  destruct ((r =? ret) && zlist_eqb k key) eqn:E.
  - intros H. injection H as <-. apply andb_true_iff in E. destruct E as [E1 E2].
    apply Z.eqb_eq in E1. apply zlist_eqb_eq in E2. subst. now left.
  - intros H. right. auto.
Qed.

Lemma dict_find_app D N ret key e :
  dict_find (D ++ N) ret key = Some e ->
  (forall en, In en N -> (List.length key < List.length (snd (fst en)))%nat) ->
  dict_find D ret key = Some e.
Proof.
  intros H HN. induction D as [|[[r k] v] D IH]; cbn [app dict_find] in *.
  - apply dict_find_in in H. apply HN in H. cbn in H. lia.
  - destruct ((r =? ret) && zlist_eqb k key); [exact H|auto].
Qed.

Definition dentry := ((Z * list Z) * Z)%type.

Record loop_res (first : Z) (ret : Z) (rest : list Z) (la : Z) (st st' : bstate) (D N : list dentry) : Prop := {
  r_good : good ww st';
  r_ext : extends (b_labels st) (b_labels st');
  r_nw : b_nextw st <= b_nextw st';
  r_pads : forall h, In h (b_pads st') -> In h (b_pads st);
  r_chain : exists cs, map snd cs = rest /\ hw st' la (znext cs ret) /\ ch (hw st') cs ret
                       /\ Forall (reg (b_labels st')) (map fst cs);
  r_dict : exists N', b_dict st' = D ++ N ++ N' /\ Forall (entry_ok (hw st') (b_labels st')) N';
  r_new : forall k x, lookup (b_labels st') (wflip_label k) = Some x ->
                      lookup (b_labels st) (wflip_label k) = Some x
                      \/ alloc_at first (b_pads st) (b_nextw st) (b_nextw st') x
}.

Lemma alloc_at_mono first pads pads' a b a' b' x :
  (forall h, In h pads -> In h pads') -> a' <= a -> b <= b' ->
  alloc_at first pads a b x -> alloc_at first pads' a' b' x.
Proof.
  intros Hp Ha Hb (A & B & [(h & H1 & H2)|C]); split; auto; split; auto; [left; exists h; auto|right; lia].
Qed.

Lemma wflip_loop_spec first cur ws wr nfj ret :
  first mod wd = 0 -> ws mod wd = 0 -> forall rest st last D N,
  lst first cur ws wr nfj st -> good ww st -> slot_ok st last -> b_dict st = D ++ N ->
  Forall (entry_ok (hwx [last] st) (b_labels st)) D ->
  (forall en, In en N -> (List.length rest < List.length (snd (fst en)))%nat) ->
  lst first cur ws wr nfj (wflip_loop ww st ret rest last)
  /\ (forall a v, hwx [last] st a v -> hw (wflip_loop ww st ret rest last) a v)
  /\ loop_res first ret rest (saddr st last) st (wflip_loop ww st ret rest last) D N.
Proof.
  intros Hal Hwsal. induction rest as [|x rest IH]; intros st last D N Hl Hg Hlast Hd HD HN; cbn [wflip_loop].
  - (* connect to the return address *)
    destruct (set_ref_frame st last ret) as (E1 & E2 & E3). destruct (set_ref_struct st last ret) as (_ & _ & F3 & F4 & F5 & _).
    split; [now apply lst_set_ref|]. split; [intros a v; apply set_ref_hwx|].
    constructor; rewrite ?E1, ?F3, ?F4.
    + unfold good, linv. rewrite E1, E2, E3. exact Hg.
    + apply extends_refl.
    + lia.
    + auto.
    + exists []. cbn [map znext ch]. repeat split; auto. apply set_ref_holds; auto.
    + exists []. rewrite F5, Hd, app_nil_r. auto.
    + auto.
  - destruct (dict_find (b_dict st) ret (x :: rest)) as [e|] eqn:Ef.
    + (* reuse an existing chain *)
      rewrite Hd in Ef. apply dict_find_app in Ef; [|exact HN]. apply dict_find_in in Ef.
      rewrite Forall_forall in HD. destruct (HD _ Ef) as (cs & K1 & K2 & K3 & K4 & K5). cbn [fst snd] in *.
      destruct (set_ref_frame st last e) as (E1 & E2 & E3). destruct (set_ref_struct st last e) as (_ & _ & F3 & F4 & F5 & _).
      split; [now apply lst_set_ref|]. split; [intros a v; apply set_ref_hwx|].
      constructor; rewrite ?E1, ?F3, ?F4.
      * unfold good, linv. rewrite E1, E2, E3. exact Hg.
      * apply extends_refl.
      * lia.
      * auto.
      * exists cs. split; [exact K3|]. rewrite K2. split; [apply set_ref_holds; auto|]. split; [|exact K5].
        eapply ch_mono; [|exact K4]. intros a v. apply set_ref_hwx.
      * exists []. rewrite F5, Hd, app_nil_r. auto.
      * auto.
    + (* a new chain op *)
      destruct (get_wflip_spot ww st) as [st1 [[wl idx] addr]] eqn:Es.
      destruct (alloc_step _ _ _ _ _ _ ret (x :: rest) x last _ _ _ _ Es Hl Hg Hal Hwsal Hlast)
        as (L5 & G5 & S5 & T5 & Hlink & Hflip & Hsa1 & Ed5 & Elab & X5 & Hall & Hnw & Hpads & Hsa).
      set (st5 := set_ref (dict_add (set_ref (insert_wflip_label st1 addr) last addr) ret (x :: rest) addr) (wl, idx) x) in *.
      destruct (IH st5 (wl, S idx) D (N ++ [((ret, x :: rest), addr)]) L5 G5 S5) as (L' & T' & R').
      { rewrite Ed5, Hd. now rewrite app_assoc. }
      { eapply Forall_impl; [|exact HD]. intros en. apply entry_ok_mono; [exact T5|exact X5]. }
      { intros en Hin. apply in_app_or in Hin. destruct Hin as [Hin|[<-|[]]].
        - apply HN in Hin. cbn [List.length] in Hin. lia.
        - cbn. lia. }
      set (st' := wflip_loop ww st5 ret rest (wl, S idx)) in *.
      destruct R' as [Rg Rx Rn Rp (cs & C1 & C2 & C3 & C4) (N' & D1 & D2) Rnew].
      assert (Hreg : reg (b_labels st') addr).
      { exists (b_wcount st). apply Rx. rewrite Elab. apply lookup_dict_set_same. }
      assert (Hch : ch (hw st') ((addr, x) :: cs) ret).
      { cbn [ch]. destruct Hall as (_ & Hm & _). split; [exact Hm|]. split; [apply T', Hflip|].
        split; [rewrite <- Hsa1; exact C2|exact C3]. }
      split; [exact L'|]. split; [intros a v H; apply T', T5, H|].
      constructor.
      * exact Rg.
      * eapply extends_trans; eassumption.
      * lia.
      * auto.
      * exists ((addr, x) :: cs). cbn [map fst snd znext]. split; [now rewrite C1|]. split; [apply T', Hlink|].
        split; [exact Hch|]. constructor; assumption.
      * exists (((ret, x :: rest), addr) :: N'). split; [rewrite D1, <- !app_assoc; reflexivity|].
        constructor; [|exact D2]. exists ((addr, x) :: cs). cbn [fst snd map znext].
        split; [discriminate|]. split; [reflexivity|]. split; [now rewrite C1|]. split; [exact Hch|].
        constructor; assumption.
      * intros k y Hk. destruct (Rnew _ _ Hk) as [Hk5|Ha].
        -- rewrite Elab in Hk5. destruct (N.eq_dec k (b_wcount st)) as [->|Hne].
           ++ rewrite lookup_dict_set_same in Hk5. injection Hk5 as <-. right.
              eapply alloc_at_mono; [| | |exact Hall]; auto; lia.
           ++ rewrite lookup_dict_set_other in Hk5; [now left|]. intros E. apply wflip_label_inj in E. congruence.
        -- right. eapply alloc_at_mono; [| | |exact Ha]; auto; lia.
Qed.

(* ---------- insert_fj_op ---------- *)
Lemma fj_op_lst first cur ws wr n st f j :
  lst first cur ws wr n st -> lst first (cur + dwd) ws wr (n + 2) (insert_fj_op ww st f j).
Proof.
  intros [C1 C2 C3 C4 C5 C6 C7]. unfold insert_fj_op.
  constructor; cbn [b_first b_cur b_wr b_fj b_pads]; auto.
  all: try (now rewrite C2).
  all: try (rewrite app_length, C5; cbn; lia).
  eapply Forall_impl; [|exact C6]. cbn. lia.
Qed.

Lemma fj_op_hw first cur ws wr n st f j ex a v :
  lst first cur ws wr n st -> (forall r, In r ex -> fst r = FJ /\ (n <= snd r)%nat) ->
  hw st a v -> hwx ex (insert_fj_op ww st f j) a v.
Proof.
  intros Hl Hex [H|(r & _ & S & A & G)]; [now left|]. right. exists r.
  destruct Hl as [C1 C2 C3 C4 C5 C6 C7]. destruct r as [[|] i]; unfold slot_ok, saddr, sget in *; cbn [fst snd] in *.
  - split; [intros X; apply Hex in X; cbn in X; lia|]. unfold insert_fj_op. cbn [b_fj b_pads b_first].
    split; [split; [rewrite app_length; lia|tauto]|]. split; [exact A|]. rewrite nth_error_app1; [exact G|tauto].
  - split; [intros X; apply Hex in X; cbn in X; destruct X; discriminate|]. auto.
Qed.

Lemma fj_op_new first cur ws wr n st f j ex k v :
  lst first cur ws wr n st -> ~ In (FJ, (n + k)%nat) ex -> nth_error [f; j] k = Some v ->
  hwx ex (insert_fj_op ww st f j) (first / wd + Z.of_nat (n + k)) v.
Proof.
  intros [C1 C2 C3 C4 C5 C6 C7] Hex Hk. right. exists (FJ, (n + k)%nat).
  assert (Hlt : (k < 2)%nat) by (destruct k as [|[|k]]; [lia|lia|destruct k; discriminate]).
  unfold slot_ok, saddr, sget, insert_fj_op. cbn [fst snd b_fj b_pads b_first].
  split; [exact Hex|]. split; [split; [rewrite app_length; cbn; lia|]|].
  - intros (h & Hh & E). rewrite Forall_forall in C6. specialize (C6 _ Hh). lia.
  - split; [now rewrite C1|]. rewrite nth_error_app2 by lia. now replace (n + k - List.length (b_fj st))%nat with k by lia.
Qed.

(* ---------- insert_wflip_ops ---------- *)
Definition model_flips (A V : Z) : list Z :=
  if V =? 0 then [0] else map (fun i => A + i) (filter (Z.testbit V) (bit_list ww)).

Lemma wflip_ops_spec first cur ws wr n st st' A V R :
  insert_wflip_ops ww st A V R = Ok st' -> lst first cur ws wr n st -> good ww st ->
  first mod wd = 0 -> ws mod wd = 0 -> cur = first + wd * Z.of_nat n ->
  Forall (entry_ok (hw st) (b_labels st)) (b_dict st) ->
  lst first (cur + dwd) ws wr (n + 2) st' /\ good ww st' /\ extends (b_labels st) (b_labels st')
  /\ b_nextw st <= b_nextw st' /\ (forall h, In h (b_pads st') -> In h (b_pads st))
  /\ (forall a v, hw st a v -> hw st' a v)
  /\ Forall (entry_ok (hw st') (b_labels st')) (b_dict st')
  /\ (exists cs, cs <> [] /\ znext cs R = cur /\ ch (hw st') cs R /\ map snd cs = model_flips A V
                 /\ Forall (reg (b_labels st')) (tl (map fst cs)))
  /\ (forall k x, lookup (b_labels st') (wflip_label k) = Some x ->
                  lookup (b_labels st) (wflip_label k) = Some x
                  \/ alloc_at first (b_pads st) (b_nextw st) (b_nextw st') x).
Proof.
  unfold insert_wflip_ops, model_flips. intros H Hl Hg Hal Hwsal Hcur HD. pose proof wd_pos' as Hw.
  assert (Hdiv : cur / wd = first / wd + Z.of_nat n) by (rewrite Hcur; now apply div_first_add).
  assert (Hmod : cur mod wd = 0) by (rewrite Hcur; now apply mod_first_add).
  destruct (V =? 0) eqn:EV.
  - injection H as <-. set (st1 := insert_fj_op ww st 0 R).
    assert (T : forall a v, hw st a v -> hw st1 a v).
    { intros a v. apply (fj_op_hw _ _ _ _ _ _ 0 R [] a v Hl). intros r []. }
    split; [now apply fj_op_lst|]. split; [exact Hg|]. split; [apply extends_refl|]. split; [cbn; lia|].
    split; [auto|]. split; [exact T|].
    split; [eapply Forall_impl; [|exact HD]; intros en; apply entry_ok_mono; [exact T|apply extends_refl]|].
    split; [|auto].
    exists [(cur, 0)]. cbn [znext map fst snd tl ch]. split; [discriminate|]. split; [reflexivity|].
    split; [|split; [reflexivity|constructor]]. split; [exact Hmod|]. rewrite Hdiv.
    pose proof (fj_op_new _ _ _ _ _ _ 0 R [] 0%nat 0 Hl ltac:(intros []) eq_refl) as H0.
    pose proof (fj_op_new _ _ _ _ _ _ 0 R [] 1%nat R Hl ltac:(intros []) eq_refl) as H1.
    rewrite Nat.add_0_r in H0. split; [exact H0|]. split; [|exact I].
    replace (first / wd + Z.of_nat n + 1) with (first / wd + Z.of_nat (n + 1)) by lia. exact H1.
  - destruct (negb (in_memory ww V)) eqn:Emem; [discriminate|]. apply negb_false_iff in Emem. apply Z.eqb_neq in EV.
    pose proof (bits_nonempty ww A V EV Emem) as Hne.
    destruct (map (fun i => A + i) (filter (Z.testbit V) (bit_list ww))) as [|x rest] eqn:Em; [congruence|].
    injection H as <-. set (st1 := insert_fj_op ww st x 0) in *.
    pose proof (fj_op_lst _ _ _ _ _ _ x 0 Hl) as L1. fold st1 in L1.
    assert (Elen : (List.length (b_fj st ++ [x; 0%Z]) - 1 = n + 1)%nat)
      by (rewrite app_length; destruct Hl as [_ _ _ _ -> _ _]; cbn; lia).
    rewrite Elen. set (last := (FJ, (n + 1)%nat)).
    assert (Slast : slot_ok st1 last).
    { unfold last. split; cbn [fst snd]; [destruct L1 as [_ _ _ _ -> _ _]; lia|]. intros (h & Hh & E).
      destruct Hl as [_ _ _ _ _ C6 _]. rewrite Forall_forall in C6. change (b_pads st1) with (b_pads st) in Hh.
      specialize (C6 _ Hh). cbn [snd] in E. lia. }
    assert (T1 : forall a v, hw st a v -> hwx [last] st1 a v).
    { intros a v. apply (fj_op_hw _ _ _ _ _ _ x 0 [last] a v Hl). intros r [<-|[]]. cbn. split; [reflexivity|lia]. }
    destruct (wflip_loop_spec first (cur + dwd) ws wr (n + 2) R Hal Hwsal rest st1 last (b_dict st) [] L1 Hg Slast)
      as (L' & T' & R').
    { change (b_dict st1) with (b_dict st). now rewrite app_nil_r. }
    { eapply Forall_impl; [|exact HD]. intros en. apply entry_ok_mono; [exact T1|apply extends_refl]. }
    { intros en []. }
    set (st' := wflip_loop ww st1 R rest last) in *.
    destruct R' as [Rg Rx Rn Rp (cs & C1 & C2 & C3 & C4) (N' & D1 & D2) Rnew].
    assert (T : forall a v, hw st a v -> hw st' a v) by (intros a v Hh; apply T', T1, Hh).
    split; [exact L'|]. split; [exact Rg|]. split; [exact Rx|]. split; [exact Rn|]. split; [exact Rp|]. split; [exact T|].
    split.
    { rewrite D1. cbn [app]. apply Forall_app. split; [|exact D2].
      eapply Forall_impl; [|exact HD]. intros en. apply entry_ok_mono; [exact T|exact Rx]. }
    split; [|exact Rnew].
    exists ((cur, x) :: cs). cbn [znext map fst snd tl ch]. split; [discriminate|]. split; [reflexivity|].
    split; [|split; [now rewrite C1|exact C4]].
    split; [exact Hmod|]. rewrite Hdiv.
    pose proof (fj_op_new _ _ _ _ _ _ x 0 [last] 0%nat x Hl) as H0. rewrite Nat.add_0_r in H0.
    split; [apply T', H0; [intros [E|[]]; unfold last in E; injection E; lia|reflexivity]|].
    split; [|exact C3].
    replace (first / wd + Z.of_nat n + 1) with (saddr st1 last); [exact C2|].
    unfold saddr, last. cbn [fst snd]. destruct L1 as [-> _ _ _ _ _ _]. lia.
Qed.

(* ---------- insert_padding ---------- *)
Lemma pad_sorted k : forall base pads,
  Forall (fun h => (S h < base)%nat) pads -> psorted pads ->
  psorted (rev (map (fun i => (base + 2 * i)%nat) (seq 0 k)) ++ pads).
Proof.
  induction k as [|k IH]; intros base pads Hf Hs; [exact Hs|].
  rewrite seq_S, map_app, rev_app_distr. cbn [map rev app]. constructor; [now apply IH|].
  apply Forall_app. split.
  - apply Forall_forall. intros h Hh. rewrite <- in_rev in Hh. apply in_map_iff in Hh.
    destruct Hh as (i & <- & Hi). apply in_seq in Hi. lia.
  - eapply Forall_impl; [|exact Hf]. cbn. lia.
Qed.

Lemma padding_spec first cur ws wr n st k :
  0 <= k -> lst first cur ws wr n st ->
  lst first (cur + k * dwd) ws wr (n + 2 * Z.to_nat k) (insert_padding ww st k)
  /\ (forall a v, hw st a v -> hw (insert_padding ww st k) a v)
  /\ (forall h, In h (b_pads (insert_padding ww st k)) ->
                In h (b_pads st) \/ exists i, (i < Z.to_nat k)%nat /\ h = (n + 2 * i)%nat).
Proof.
  intros Hk [C1 C2 C3 C4 C5 C6 C7]. unfold insert_padding. split; [|split].
  - constructor; cbn [b_first b_cur b_wr b_fj b_pads]; auto.
    + now rewrite C2.
    + rewrite app_length, repeat_length. lia.
    + apply Forall_app. split.
      * apply Forall_forall. intros h Hh. rewrite <- in_rev in Hh. apply in_map_iff in Hh.
        destruct Hh as (i & <- & Hi). apply in_seq in Hi. lia.
      * eapply Forall_impl; [|exact C6]. cbn. lia.
    + apply pad_sorted; [rewrite C5; exact C6|exact C7].
  - intros a v [H|(r & _ & S & A & G)]; [now left|]. right. exists r. split; [intros []|].
    destruct r as [[|] i]; unfold slot_ok, saddr, sget in *; cbn [fst snd b_fj b_pads b_first b_wf] in *; [|auto].
    split; [split; [rewrite app_length; lia|]|split; [exact A|rewrite nth_error_app1; [exact G|tauto]]].
    intros (h & Hh & E). apply in_app_or in Hh. destruct Hh as [Hh|Hh].
    + rewrite <- in_rev in Hh. apply in_map_iff in Hh. destruct Hh as (j & <- & _). lia.
    + apply (proj2 S). exists h. auto.
  - cbn [b_pads]. intros h Hh. apply in_app_or in Hh. destruct Hh as [Hh|Hh]; [right|now left].
    rewrite <- in_rev in Hh. apply in_map_iff in Hh. destruct Hh as (i & <- & Hi). apply in_seq in Hi.
    exists i. rewrite C5. split; [lia|reflexivity].
Qed.

(* ---------- emission ---------- *)
Lemma add_segment_inmem wr first last fj wf wr' :
  add_segment_to_fjm ww ver wr first last fj wf = Ok (wr', true) -> forallb (in_memory ww) (fj ++ wf) = true.
Proof.
  unfold add_segment_to_fjm. destruct (validate_addresses ww first last); [discriminate|].
  destruct (first =? last); [discriminate|].
  destruct (forallb (in_memory ww) (fj ++ wf)); [reflexivity|discriminate].
Qed.

Lemma add_segment_eok wr first last fj wf wr' i v :
  add_segment_to_fjm ww ver wr first last fj wf = Ok (wr', true) -> wr_inv ww wr ->
  nth_error (fj ++ wf) i = Some v -> eok wr' (first / wd + Z.of_nat i) v.
Proof.
  intros H Hinv Hn. pose proof (add_segment_inmem _ _ _ _ _ _ H) as Him.
  destruct (add_segment_words _ _ _ _ _ _ _ _ _ H Hinv) as (_ & _ & _ & _ & _ & Hb).
  cbn zeta in Hb. destruct Hb as (Eseg & Hdl & _ & _ & _ & Hrb).
  assert (Hi : (i < List.length (fj ++ wf))%nat) by (apply nth_error_Some; congruence).
  split.
  - exists (first / wd), ((last - first) / wd), (Z.of_nat (List.length (w_data wr))), (Z.of_nat (List.length (fj ++ wf))),
      (Z.of_nat i).
    split; [rewrite Eseg; apply in_or_app; right; now left|].
    split; [lia|]. split; [reflexivity|]. rewrite Hrb by lia. rewrite Nat2Z.id. f_equal. now apply nth_error_nth.
  - rewrite forallb_forall in Him. apply Him. eapply nth_error_In; eauto.
Qed.

(* ---------- writer segments that cover a bit range ---------- *)
Definition cov (sgs : list seg) (lo hi : Z) : Prop :=
  exists s l ds dl, In (s, l, ds, dl) sgs /\ s * wd <= lo /\ hi <= (s + l) * wd.

Lemma pairwise_app_disj (A G : list seg) a g : pairwise (A ++ G) -> In a A -> In g G -> seg_disj a g.
Proof.
  induction A as [|y A IH]; intros Hp Ha Hg; [contradiction|].
  cbn [app pairwise] in Hp. destruct Hp as [Hf Hp]. destruct Ha as [<-|Ha]; [|auto].
  rewrite Forall_forall in Hf. apply Hf. apply in_or_app. now right.
Qed.

Lemma cov_disj (A G : list seg) lo hi lo' hi' :
  pairwise (A ++ G) -> cov A lo hi -> cov G lo' hi' -> lo < hi -> lo' < hi' -> hi <= lo' \/ hi' <= lo.
Proof.
  intros Hp (s & l & ds & dl & Hin & H1 & H2) (s' & l' & ds' & dl' & Hin' & H1' & H2') Hlt Hlt'.
  pose proof (pairwise_app_disj _ _ _ _ Hp Hin Hin') as D. cbn in D. pose proof wd_pos' as Hw. nia.
Qed.

Lemma cov_mono sgs lo hi lo' hi' : cov sgs lo hi -> lo <= lo' -> hi' <= hi -> cov sgs lo' hi'.
Proof. intros (s & l & ds & dl & H & A & B) H1 H2. exists s, l, ds, dl. repeat split; auto; lia. Qed.

Lemma cov_app_r A G lo hi : cov G lo hi -> cov (A ++ G) lo hi.
Proof. intros (s & l & ds & dl & H & X). exists s, l, ds, dl. split; [apply in_or_app; now right|exact X]. Qed.
Lemma cov_app_l A G lo hi : cov A lo hi -> cov (A ++ G) lo hi.
Proof. intros (s & l & ds & dl & H & X). exists s, l, ds, dl. split; [apply in_or_app; now left|exact X]. Qed.

(* what a successful add_segment_to_fjm adds *)
Lemma add_segment_cov wr first last fj wf wr' b :
  add_segment_to_fjm ww ver wr first last fj wf = Ok (wr', b) -> wr_inv ww wr ->
  0 <= first /\ first mod wd = 0 /\ last mod wd = 0
  /\ if b then exists sg, w_segs wr' = w_segs wr ++ [sg] /\ cov [sg] first last /\ first < last
     else first = last /\ wr' = wr.
Proof.
  intros H Hinv. destruct (add_segment_words _ _ _ _ _ _ _ _ _ H Hinv) as (W1 & W2 & W3 & _ & _ & Wb).
  split; [exact W3|]. split; [exact W1|]. split; [exact W2|]. destruct b; [|exact Wb].
  cbn zeta in Wb. destruct Wb as (Eseg & _ & Hlt & Es & El & _).
  eexists. split; [exact Eseg|]. split; [|exact Hlt]. eexists _, _, _, _. split; [now left|]. lia.
Qed.

(* ================= the run over the statements ================= *)
Section Run.
Variable Lall : list placed.
Variable stF : bstate.
Notation wrF := (b_wr stF).
Notation lF := (b_labels stF).

Definition disj (x : Z) (p : placed) : Prop := x + dwd <= pl_addr p \/ pl_next p <= x.
Definition covnew (wr0 : wstate) (lo hi : Z) : Prop := exists G, w_segs wrF = w_segs wr0 ++ G /\ cov G lo hi.

Definition holefact (wr0 : wstate) (first : Z) (Lpre : list placed) (x : Z) : Prop :=
  (exists q, In q Lall /\ is_pad q = true /\ first <= pl_addr q /\ pl_addr q <= x /\ x + dwd <= pl_next q)
  /\ forall p, In p Lpre -> occupies p = true -> cov (w_segs wr0) (pl_addr p) (pl_next p) \/ disj x p.

Record jinv (Lpre : list placed) (ws : Z) (st : bstate) : Prop := {
  j_lst : lst (b_first st) (b_cur st) ws (b_wr st) (List.length (b_fj st)) st;
  j_inv : wr_inv ww (b_wr st);
  j_al : b_first st mod wd = 0;
  j_wsal : ws mod wd = 0;
  j_cur : b_cur st = b_first st + wd * Z.of_nat (List.length (b_fj st));
  j_good : good ww st;
  j_dict : Forall (entry_ok (hw st) (b_labels st)) (b_dict st);
  j_pi : forall p, In p Lpre -> occupies p = true ->
         cov (w_segs (b_wr st)) (pl_addr p) (pl_next p) \/ (b_first st <= pl_addr p /\ pl_next p <= b_cur st);
  j_hi : forall h, In h (b_pads st) -> holefact (b_wr st) (b_first st) Lpre (b_first st + wd * Z.of_nat h);
  j_last : b_cur st = last (map pl_next Lpre) 0
}.

Definition Rr (st : bstate) (x : Z) : Prop :=
  cov (w_segs (b_wr st)) x (x + dwd) \/ (b_first st <= x /\ x + dwd <= b_cur st)
  \/ (wsb st <= x /\ x + dwd <= b_nextw st).

Definition auxP (x : Z) : Prop :=
  x mod wd = 0 /\ dwd <= x /\ covers_input_bit ww x = false
  /\ (forall p, In p Lall -> occupies p = true -> disj x p)
  /\ ((exists q, In q Lall /\ is_pad q = true /\ pl_addr q <= x /\ x + dwd <= pl_next q)
      \/ (exists e, In e (code_ends Lall) /\ cov (w_segs wrF) e (x + dwd) /\ e <= x)).

Definition chain_fin (p : placed) : Prop :=
  match pl_stmt p with
  | SWordFlip ea ev er _ =>
    exists A V R cs,
      eval_expr (env_at lF (pl_next p)) ea = Some A /\ eval_expr (env_at lF (pl_next p)) ev = Some V
      /\ eval_expr (env_at lF (pl_next p)) er = Some R
      /\ in_memory ww V = true /\ in_memory ww R = true /\ (V = 0 \/ in_memory ww A = true)
      /\ cs <> [] /\ znext cs R = pl_addr p /\ ch (eok wrF) cs R /\ map snd cs = model_flips A V
      /\ Forall (reg lF) (tl (map fst cs))
  | _ => True
  end.

Record cres (st : bstate) (L : list placed) : Prop := {
  c_T : forall a v, hw st a v -> eok wrF a v;
  c_pre : exists G, w_segs wrF = w_segs (b_wr st) ++ G;
  c_le : wr_le ww ver (b_wr st) wrF;
  c_f : b_first st < b_cur st -> covnew (b_wr st) (b_first st) (b_cur st);
  c_w : wsb st < b_nextw st -> covnew (b_wr st) (wsb st) (b_nextw st);
  c_0 : b_first st < b_cur st \/ wsb st < b_nextw st -> 0 <= b_first st;
  c_2 : Forall (fun p => occupies p = true -> forall x, Rr st x -> disj x p) L;
  c_aux : forall k x, lookup lF (wflip_label k) = Some x ->
                      lookup (b_labels st) (wflip_label k) = Some x \/ auxP x;
  c_ch : Forall chain_fin L;
  c_ext : extends (b_labels st) lF
}.

(* ---------- closing a piece at the end of the code of its segment ---------- *)
Lemma jinv_ws Lpre ws st : jinv Lpre ws st -> wsb st = ws /\ b_nextw st = ws + wd * Z.of_nat (List.length (b_wf st)).
Proof. intros J. destruct (j_lst _ _ _ J) as [_ _ _ C4 _ _ _]. unfold wsb in *. split; lia. Qed.

Lemma close_spec Lpre ws st stc :
  close_and_add_segment ww ver st = Ok stc -> jinv Lpre ws st -> ws = b_cur st ->
  wr_inv ww (b_wr stc) /\ wr_le ww ver (b_wr st) (b_wr stc)
  /\ (exists G, w_segs (b_wr stc) = w_segs (b_wr st) ++ G
        /\ (b_first st < b_cur st -> cov G (b_first st) (b_cur st))
        /\ (wsb st < b_nextw st -> cov G (wsb st) (b_nextw st)))
  /\ (b_first st < b_cur st \/ wsb st < b_nextw st -> 0 <= b_first st)
  /\ (forall a v, hw st a v -> eok (b_wr stc) a v)
  /\ b_fj stc = [] /\ b_wf stc = [] /\ b_labels stc = b_labels st /\ b_wcount stc = b_wcount st
  /\ b_dict stc = b_dict st.
Proof.
  unfold close_and_add_segment. intros H J Hws. pose proof wd_pos' as Hw.
  destruct (jinv_ws _ _ _ J) as [Ews Enw]. pose proof (j_cur _ _ _ J) as Hcur. pose proof (j_inv _ _ _ J) as Hinv.
  set (n := List.length (b_fj st)) in *. set (m := List.length (b_wf st)) in *.
  destruct (b_nextw st =? b_first st) eqn:E.
  - apply Z.eqb_eq in E. injection H as <-.
    assert (Hz : n = 0%nat /\ m = 0%nat) by nia. destruct Hz as [Z1 Z2].
    split; [exact Hinv|]. split; [apply wr_le_refl|].
    split; [exists []; rewrite app_nil_r; split; [reflexivity|split; intros; lia]|].
    split; [intros; lia|].
    split.
    { intros a v [Hh|(r & _ & S & _)]; [exact Hh|]. destruct r as [[|] i]; unfold slot_ok in S; cbn [fst snd] in S.
      - fold n in S. lia.
      - fold m in S. lia. }
    split; [now apply length_zero_iff_nil|]. split; [now apply length_zero_iff_nil|]. auto.
  - apply Z.eqb_neq in E.
    destruct (add_segment_to_fjm ww ver (b_wr st) (b_first st) (b_nextw st) (b_fj st) (b_wf st)) as [[wr c]| |] eqn:Ea;
      cbn [bind] in H; try discriminate.
    injection H as <-. cbn [b_wr b_fj b_wf b_labels b_wcount b_dict].
    destruct (add_segment_cov _ _ _ _ _ _ _ Ea Hinv) as (W0 & _ & _ & Wb).
    destruct c; [|destruct Wb as [Wb _]; congruence].
    destruct Wb as (sg & Eseg & Hcov & Hlt).
    pose proof (add_segment_le _ _ _ _ _ _ _ _ _ Ea Hinv) as Hle.
    split; [eapply add_segment_inv; eauto|]. split; [exact Hle|].
    split.
    { exists [sg]. split; [exact Eseg|]. split; intros X; (eapply cov_mono; [exact Hcov| |]); lia. }
    split; [intros; exact W0|].
    split; [|auto 6].
    intros a v [Hh|(r & _ & S & A & G)]; [eapply eok_mono; eauto|]. subst a.
    destruct r as [[|] i]; unfold slot_ok, saddr, sget in *; cbn [fst snd] in *.
    + eapply add_segment_eok; eauto. rewrite nth_error_app1; [exact G|tauto].
    + rewrite Ews, Hws, Hcur, div_first_add by (apply (j_al _ _ _ J)).
      replace (b_first st / wd + Z.of_nat n + Z.of_nat i) with (b_first st / wd + Z.of_nat (n + i)) by lia.
      eapply add_segment_eok; eauto. rewrite nth_error_app2 by (fold n; lia). fold n.
      now replace (n + i - n)%nat with i by lia.
Qed.

(* ---------- where the code of the open segment ends ---------- *)
Lemma code_end_facts L : forall ops a,
  ops_rel ww L ops -> chain a L -> Forall res_nonneg L -> a mod wd = 0 ->
  a <= code_end a L /\ code_end a L mod wd = 0.
Proof.
  pose proof wd_pos' as Hw.
  induction L as [|p L IH]; intros ops a Hrel Hch Hres Hmod; cbn [code_end]; [split; [lia|exact Hmod]|].
  cbn [chain] in Hch. destruct Hch as [Ha Hch]. pose proof (Forall_inv Hres) as Hr. pose proof (Forall_inv_tail Hres) as Hres'.
  cbn [ops_rel] in Hrel. unfold is_segment, res_nonneg in *.
  assert (Hadd : forall k, (a + k * wd) mod wd = 0) by (intros k; rewrite Z.mod_add by lia; exact Hmod).
  destruct (pl_stmt p) as [f j ?|ea ev er ?|e ?|name ?|? ? ?|? ? ? ? ?|e ?|e ?] eqn:Est; try contradiction.
  - destruct Hrel as (f' & j' & r & _ & _ & Hn & _ & Hrel).
    destruct (IH _ _ Hrel Hch Hres') as [I1 I2]; [rewrite Hn, Ha; unfold Layout.dwd; rewrite <- (Hadd 2); f_equal; lia|].
    split; [unfold Layout.dwd in *; lia|exact I2].
  - destruct Hrel as (a' & v' & r' & r & _ & _ & _ & Hn & _ & Hrel).
    destruct (IH _ _ Hrel Hch Hres') as [I1 I2]; [rewrite Hn, Ha; unfold Layout.dwd; rewrite <- (Hadd 2); f_equal; lia|].
    split; [unfold Layout.dwd in *; lia|exact I2].
  - destruct Hrel as (k & r & Hk & Hn & _ & Hrel).
    destruct (IH _ _ Hrel Hch Hres') as [I1 I2]; [rewrite Hn, Ha; unfold Layout.dwd; rewrite <- (Hadd (2 * k)); f_equal; lia|].
    split; [unfold Layout.dwd in *; nia|exact I2].
  - destruct Hrel as (Hn & Hrel). destruct (IH _ _ Hrel Hch Hres') as [I1 I2]; [now rewrite Hn, Ha|].
    split; [lia|exact I2].
  - split; [lia|now rewrite Ha].
  - destruct Hrel as (r & _ & Hn & _ & Hrel).
    destruct (IH _ _ Hrel Hch Hres') as [I1 I2].
    { replace (pl_next p) with (pl_addr p + (pl_next p - pl_addr p)) by lia. rewrite Z.add_mod, Hn, Ha, Hmod by lia.
      reflexivity. }
    split; [lia|exact I2].
Qed.

Lemma last_app_one {A} (l : list A) x d : last (l ++ [x]) d = x.
Proof. induction l as [|y l IH]; [reflexivity|]. cbn [app]. destruct (l ++ [x]) eqn:E; [destruct l; discriminate|exact IH]. Qed.

Lemma code_end_in L : forall Lpre a,
  a = last (map pl_next Lpre) 0 -> In (code_end a L) (code_ends (Lpre ++ L)).
Proof.
  induction L as [|p L IH]; intros Lpre a Ha; cbn [code_end].
  - rewrite app_nil_r. unfold code_ends. apply in_or_app. right. left. now symmetry.
  - destruct (is_segment p) eqn:Es.
    + unfold code_ends. apply in_or_app. left. apply in_map. apply filter_In. split; [|exact Es].
      apply in_or_app. right. now left.
    + replace (Lpre ++ p :: L) with ((Lpre ++ [p]) ++ L) by (rewrite <- app_assoc; reflexivity).
      apply IH. rewrite map_app. cbn [map]. now rewrite last_app_one.
Qed.

(* ---------- a statement that stays in the open piece: op, wflip, pad ---------- *)
Hypothesis HinvF : wr_inv ww wrF.

Lemma covnew_disj wr0 lo hi lo' hi' :
  cov (w_segs wr0) lo hi -> covnew wr0 lo' hi' -> lo < hi -> lo' < hi' -> hi <= lo' \/ hi' <= lo.
Proof.
  intros H (G & E & H') L1 L2. destruct HinvF as [_ Hp]. rewrite E in Hp. eapply cov_disj; eauto.
Qed.

Lemma covnew_mono wr0 lo hi lo' hi' : covnew wr0 lo hi -> lo <= lo' -> hi' <= hi -> covnew wr0 lo' hi'.
Proof. intros (G & E & H) A B. exists G. split; [exact E|eapply cov_mono; eauto]. Qed.

Lemma same_piece_cres st st' p L :
  b_wr st' = b_wr st -> b_first st' = b_first st -> wsb st' = wsb st ->
  b_cur st <= b_cur st' -> b_nextw st <= b_nextw st' ->
  (forall a v, hw st a v -> hw st' a v) -> extends (b_labels st) (b_labels st') ->
  pl_addr p = b_cur st -> pl_next p = b_cur st' -> b_first st <= b_cur st -> pl_next p <= wsb st ->
  (forall k x, lookup (b_labels st') (wflip_label k) = Some x ->
               lookup (b_labels st) (wflip_label k) = Some x \/ auxP x) ->
  chain_fin p ->
  cres st' L -> cres st (p :: L).
Proof.
  intros Ewr Ef Ews Hc Hn Hhw Hext Ha Hnx Hfc Hws Hnew Hchp [T Pre Le F W Z0 C2 Aux Ch Ext].
  pose proof wd_pos' as Hw. rewrite Ewr, Ef, Ews in *.
  constructor.
  - auto.
  - exact Pre.
  - exact Le.
  - intros X. eapply covnew_mono; [apply F; lia|lia|lia].
  - intros X. eapply covnew_mono; [apply W; lia|lia|lia].
  - intros X. apply Z0. lia.
  - assert (HR : forall x, Rr st x -> Rr st' x).
    { intros x [X|[X|X]]; unfold Rr; rewrite Ewr, Ef, Ews; [left; exact X|right; left; lia|right; right; lia]. }
    constructor.
    + intros Hocc x HRx.
      assert (Hext' : pl_addr p < pl_next p).
      { unfold occupies in Hocc. destruct (pl_stmt p); try discriminate; now apply Z.ltb_lt. }
      unfold disj. destruct HRx as [X|[X|X]]; [|lia|lia].
      assert (Hcn : covnew (b_wr st) (pl_addr p) (pl_next p)) by (eapply covnew_mono; [apply F; lia|lia|lia]).
      destruct (covnew_disj _ _ _ _ _ X Hcn); unfold Layout.dwd in *; lia.
    + eapply Forall_impl; [|exact C2]. intros q Hq Ho x Hx. apply Hq; auto.
  - intros k x Hk. destruct (Aux _ _ Hk) as [H1|H1]; [apply Hnew in H1; exact H1|now right].
  - constructor; assumption.
  - eapply extends_trans; eassumption.
Qed.

Lemma jinv_same_piece Lpre ws st st' p :
  jinv Lpre ws st ->
  lst (b_first st) (b_cur st') ws (b_wr st) (List.length (b_fj st')) st' ->
  b_cur st' = b_first st + wd * Z.of_nat (List.length (b_fj st')) -> b_cur st <= b_cur st' ->
  good ww st' -> Forall (entry_ok (hw st') (b_labels st')) (b_dict st') ->
  pl_addr p = b_cur st -> pl_next p = b_cur st' ->
  (forall h, In h (b_pads st') ->
             In h (b_pads st) \/ holefact (b_wr st) (b_first st) (Lpre ++ [p]) (b_first st + wd * Z.of_nat h)) ->
  jinv (Lpre ++ [p]) ws st'.
Proof.
  intros J L' Hcur' Hle Hg HD Ha Hn Hpads. pose proof wd_pos' as Hw.
  pose proof L' as [E1 _ E3 _ _ _ _].
  constructor; rewrite ?E1, ?E3; auto.
  - apply (j_inv _ _ _ J).
  - apply (j_al _ _ _ J).
  - apply (j_wsal _ _ _ J).
  - intros q Hq Ho. apply in_app_or in Hq. destruct Hq as [Hq|[<-|[]]].
    + destruct (j_pi _ _ _ J q Hq Ho) as [X|X]; [now left|right; lia].
    + right. pose proof (j_cur _ _ _ J). lia.
  - intros h Hh. destruct (Hpads h Hh) as [Hold|Hnew]; [|exact Hnew].
    destruct (j_hi _ _ _ J h Hold) as [Q D]. split; [exact Q|].
    intros q Hq Ho. apply in_app_or in Hq. destruct Hq as [Hq|[<-|[]]]; [auto|].
    right. left. destruct (j_lst _ _ _ J) as [_ _ _ _ _ C6 _]. rewrite Forall_forall in C6. specialize (C6 _ Hold).
    pose proof (j_cur _ _ _ J). unfold Layout.dwd. nia.
  - rewrite map_app. cbn [map]. now rewrite last_app_one.
Qed.

(* ---------- the placement facts of a newly allocated auxiliary op ---------- *)
Variable env : string -> option Z.
Hypothesis HnextAll : Forall (fun p => next_addr ww env (pl_stmt p) (pl_addr p) = Some (pl_next p)) Lall.

Lemma pad_ge q : In q Lall -> is_pad q = true -> 0 <= pl_addr q -> pl_addr q < pl_next q -> dwd <= pl_addr q.
Proof.
  intros Hin Hp H0 Hlt. pose proof wd_pos' as Hw. rewrite Forall_forall in HnextAll. specialize (HnextAll _ Hin).
  unfold is_pad in Hp. destruct (pl_stmt q); try discriminate. cbn [next_addr] in HnextAll.
  destruct (eval_expr env _) as [n|]; [|discriminate].
  destruct ((0 <? n) && (pl_addr q mod dwz ww =? 0)) eqn:E; [|discriminate]. injection HnextAll as Hn.
  apply andb_true_iff in E. destruct E as [E1 E2]. apply Z.ltb_lt in E1. apply Z.eqb_eq in E2.
  change (dwz ww) with dwd in *. unfold Layout.dwd in *.
  destruct (Z.eq_dec (pl_addr q) 0) as [E0|Ne].
  - exfalso. rewrite E0 in Hn. unfold round_up in Hn. rewrite Z.div_small in Hn by nia. lia.
  - apply Z.mod_divide in E2; [|lia]. destruct E2 as [c Ec].
    assert (1 <= c) by (destruct (Z_le_gt_dec c 0); [nia|lia]). nia.
Qed.

Lemma covnew_cov wr0 lo hi : covnew wr0 lo hi -> cov (w_segs wrF) lo hi.
Proof. intros (G & E & H). rewrite E. now apply cov_app_r. Qed.

Lemma alloc_auxP Lpre L ws st st' p x :
  Lall = Lpre ++ p :: L -> jinv Lpre ws st -> cres st' L ->
  b_wr st' = b_wr st -> b_first st' = b_first st -> wsb st' = ws -> b_nextw st <= b_nextw st' ->
  pl_addr p = b_cur st -> pl_next p = b_cur st + dwd -> b_cur st' = b_cur st + dwd -> pl_next p <= ws ->
  In ws (code_ends Lall) ->
  alloc_at (b_first st) (b_pads st) (b_nextw st) (b_nextw st') x -> auxP x.
Proof.
  intros EL J [T Pre Le F W Z0 C2 Aux Ch Ext] Ewr Ef Ews Hnw Ha Hn Hc' Hws Hce (Anc & Amod & Hkind).
  pose proof wd_pos' as Hw. rewrite Ewr, Ef, Ews, Hc' in *.
  pose proof (j_cur _ _ _ J) as Hcur. destruct (jinv_ws _ _ _ J) as [Ews0 Enw0].
  assert (H0 : 0 <= b_first st) by (apply Z0; left; unfold Layout.dwd; lia).
  assert (Hocc : forall q, occupies q = true -> pl_addr q < pl_next q).
  { intros q Ho. unfold occupies in Ho. destruct (pl_stmt q); try discriminate; now apply Z.ltb_lt. }
  rewrite Forall_forall in C2.
  destruct Hkind as [(h & Hh & ->)|[K1 K2]].
  - (* a pad hole *)
    destruct (j_hi _ _ _ J h Hh) as [(q & Q1 & Q2 & Q3 & Q4 & Q5) D].
    destruct (j_lst _ _ _ J) as [_ _ _ _ _ C6 _]. rewrite Forall_forall in C6. specialize (C6 _ Hh).
    set (x := b_first st + wd * Z.of_nat h) in *.
    assert (Hx : x + dwd <= b_cur st) by (unfold x, Layout.dwd; nia).
    assert (Hcn : covnew (b_wr st) x (x + dwd)).
    { eapply covnew_mono; [apply F; unfold Layout.dwd; lia|unfold x; nia|unfold Layout.dwd in *; lia]. }
    split; [exact Amod|]. split; [pose proof (pad_ge q Q1 Q2); unfold Layout.dwd in *; lia|]. split; [exact Anc|]. split.
    + intros q' Hq' Ho. rewrite EL in Hq'. apply in_app_or in Hq'. destruct Hq' as [Hq'|[<-|Hq']].
      * destruct (D _ Hq' Ho) as [X|X]; [|exact X]. pose proof (Hocc _ Ho).
        destruct (covnew_disj _ _ _ _ _ X Hcn); unfold disj, Layout.dwd in *; lia.
      * left. lia.
      * apply (C2 _ Hq' Ho). right. left. unfold x at 1. unfold Layout.dwd in *. nia.
    + left. exists q. repeat split; auto.
  - (* the wflip area *)
    assert (Hcn : covnew (b_wr st) x (x + dwd)) by (eapply covnew_mono; [apply W; unfold Layout.dwd in *; lia|lia|lia]).
    split; [exact Amod|]. split; [unfold Layout.dwd in *; lia|]. split; [exact Anc|]. split.
    + intros q' Hq' Ho. rewrite EL in Hq'. apply in_app_or in Hq'. destruct Hq' as [Hq'|[<-|Hq']].
      * pose proof (Hocc _ Ho). destruct (j_pi _ _ _ J _ Hq' Ho) as [X|X]; [|right; unfold Layout.dwd in *; lia].
        destruct (covnew_disj _ _ _ _ _ X Hcn); unfold disj, Layout.dwd in *; lia.
      * right. lia.
      * apply (C2 _ Hq' Ho). right. right. lia.
    + right. exists ws. split; [exact Hce|]. split; [|lia].
      eapply cov_mono; [apply (covnew_cov (b_wr st)), W; unfold Layout.dwd in *; lia|lia|lia].
Qed.

(* ---------- reserve: the open piece is emitted, the wflip words stay pending ---------- *)
Lemma occ_lt q : occupies q = true -> pl_addr q < pl_next q.
Proof. unfold occupies. destruct (pl_stmt q); try discriminate; apply Z.ltb_lt. Qed.

Lemma reserve_step Lpre ws st st' p L :
  jinv Lpre ws st -> insert_reserve_bits ww ver st (pl_next p) = Ok st' ->
  pl_addr p = b_cur st -> b_cur st <= pl_next p -> pl_next p <= ws -> chain_fin p ->
  jinv (Lpre ++ [p]) ws st' /\ (cres st' L -> cres st (p :: L)).
Proof.
  intros J H Ha Hle Hws Hchp. pose proof wd_pos' as Hw. unfold insert_reserve_bits in H.
  destruct (add_segment_to_fjm ww ver (b_wr st) (b_first st) (pl_next p) (b_fj st) []) as [[wr c]| |] eqn:Ea;
    cbn [bind] in H; try discriminate.
  injection H as <-. pose proof (j_inv _ _ _ J) as Hinv. pose proof (j_cur _ _ _ J) as Hcur.
  destruct (jinv_ws _ _ _ J) as [Ews Enw].
  destruct (add_segment_cov _ _ _ _ _ _ _ Ea Hinv) as (W0 & _ & W2 & Wb).
  pose proof (add_segment_le _ _ _ _ _ _ _ _ _ Ea Hinv) as Hwle.
  pose proof (add_segment_inv _ _ _ _ _ _ _ _ _ Ea Hinv) as Hinv'.
  set (n := List.length (b_fj st)) in *.
  assert (Hfj : (if c then [] else b_fj st) = []).
  { destruct c; [reflexivity|]. destruct Wb as [Wb _]. apply length_zero_iff_nil. fold n. nia. }
  rewrite Hfj. set (st' := mkb _ _ _ _ _ _ _ _ _ _).
  assert (HG : exists G, w_segs wr = w_segs (b_wr st) ++ G
                         /\ (b_first st < pl_next p -> cov G (b_first st) (pl_next p))).
  { destruct c.
    - destruct Wb as (sg & E & Hc & _). exists [sg]. auto.
    - destruct Wb as [E ->]. exists []. rewrite app_nil_r. split; [reflexivity|lia]. }
  destruct HG as (G0 & EG & HcovG).
  assert (Hcovm : forall lo hi, cov (w_segs (b_wr st)) lo hi -> cov (w_segs wr) lo hi)
    by (intros lo hi X; rewrite EG; now apply cov_app_l).
  assert (Hpend : forall lo hi, b_first st <= lo -> lo < hi -> hi <= pl_next p -> cov (w_segs wr) lo hi).
  { intros lo hi A B C. rewrite EG. apply cov_app_r. eapply cov_mono; [apply HcovG; lia|lia|lia]. }
  assert (Thw : forall a v, hw st a v -> hw st' a v).
  { intros a v [Hh|(r & _ & S & A & Gt)]; [left; eapply eok_mono; eauto|]. subst a.
    destruct r as [[|] i]; unfold slot_ok, saddr, sget in *; cbn [fst snd] in *.
    - left. destruct c; [|destruct Wb as [Wb _]; fold n in S; nia].
      eapply add_segment_eok; eauto. rewrite app_nil_r. exact Gt.
    - right. exists (WF, i). split; [intros []|]. unfold slot_ok, saddr, sget, st', wsb. cbn [fst snd b_wf b_nextw].
      fold (wsb st). auto. }
  split.
  - constructor; cbn [st' b_first b_cur b_wr b_fj b_pads b_labels b_dict List.length]; auto.
    + constructor; cbn [st' b_first b_cur b_wr b_fj b_pads List.length]; auto; try constructor.
    + apply (j_wsal _ _ _ J).
    + lia.
    + destruct (j_good _ _ _ J) as [_ Gl]. split; [exact Hinv'|exact Gl].
    + eapply Forall_impl; [|apply (j_dict _ _ _ J)]. intros en. apply entry_ok_mono; [exact Thw|apply extends_refl].
    + intros q Hq Ho. pose proof (occ_lt _ Ho) as Hlt. left. apply in_app_or in Hq. destruct Hq as [Hq|[<-|[]]].
      * destruct (j_pi _ _ _ J q Hq Ho) as [X|X]; [auto|apply Hpend; lia].
      * apply Hpend; lia.
    + intros h [].
    + rewrite map_app. cbn [map]. now rewrite last_app_one.
  - intros [T Pre Le F W Z0 C2 Aux Ch Ext]. cbn [st' b_first b_cur b_wr b_nextw b_labels] in *.
    assert (Ews' : wsb st' = wsb st) by reflexivity. rewrite Ews' in *.
    destruct Pre as (G' & EG').
    assert (Hnew : forall lo hi, covnew wr lo hi -> covnew (b_wr st) lo hi).
    { intros lo hi (G1 & E1 & X). exists (G0 ++ G1). rewrite E1, EG, app_assoc. split; [reflexivity|now apply cov_app_r]. }
    assert (Hpn : forall lo hi, b_first st <= lo -> lo < hi -> hi <= pl_next p -> covnew (b_wr st) lo hi).
    { intros lo hi A B C. exists (G0 ++ G'). rewrite EG', EG, app_assoc. split; [reflexivity|].
      apply cov_app_l. eapply cov_mono; [apply HcovG; lia|lia|lia]. }
    constructor.
    + auto.
    + exists (G0 ++ G'). now rewrite EG', EG, app_assoc.
    + eapply wr_le_trans; eassumption.
    + intros X. apply Hpn; lia.
    + intros X. apply Hnew, W, X.
    + intros _. exact W0.
    + constructor.
      * intros Ho x HR. pose proof (occ_lt _ Ho) as Hlt. unfold disj. destruct HR as [X|[X|X]]; [|lia|lia].
        assert (Hcn : covnew (b_wr st) (pl_addr p) (pl_next p)) by (apply Hpn; lia).
        destruct (covnew_disj _ _ _ _ _ X Hcn); unfold Layout.dwd in *; lia.
      * eapply Forall_impl; [|exact C2]. intros q Hq Ho x Hx. apply Hq; [exact Ho|].
        destruct Hx as [X|[X|X]]; [left; auto|left; apply Hpend; unfold Layout.dwd in *; lia|right; right; exact X].
    + exact Aux.
    + constructor; assumption.
    + exact Ext.
Qed.

(* ---------- segment: the open piece and its wflip words are emitted ---------- *)
Lemma segment_step Lpre ws ws' st st' p L :
  jinv Lpre ws st -> insert_new_segment ww ver st (pl_next p) ws' = Ok st' ->
  pl_addr p = b_cur st -> ws = b_cur st -> pl_next p mod wd = 0 -> ws' mod wd = 0 ->
  occupies p = false -> chain_fin p ->
  jinv (Lpre ++ [p]) ws' st' /\ (cres st' L -> cres st (p :: L)).
Proof.
  intros J H Ha Hws Hal' Hwsal' Hnocc Hchp. pose proof wd_pos' as Hw. unfold insert_new_segment in H.
  destruct (close_and_add_segment ww ver st) as [stc| |] eqn:Ec; cbn [bind] in H; try discriminate.
  destruct (negb (in_memory ww _)); [discriminate|].
  injection H as <-.
  destruct (close_spec _ _ _ _ Ec J Hws) as (Hinv' & Hwle & (G0 & EG & HcF & HcW) & H0 & Thw & F1 & F2 & F3 & F4 & F5).
  rewrite F1, F2, F3, F4, F5. set (st' := mkb _ _ _ _ _ _ _ _ _ _).
  assert (Hcovm : forall lo hi, cov (w_segs (b_wr st)) lo hi -> cov (w_segs (b_wr stc)) lo hi)
    by (intros lo hi X; rewrite EG; now apply cov_app_l).
  assert (HR : forall x, Rr st x -> cov (w_segs (b_wr stc)) x (x + dwd)).
  { intros x [X|[X|X]]; [auto| |]; rewrite EG; apply cov_app_r; unfold Layout.dwd in *.
    - eapply cov_mono; [apply HcF; lia|lia|lia].
    - eapply cov_mono; [apply HcW; lia|lia|lia]. }
  assert (Thw' : forall a v, hw st a v -> hw st' a v) by (intros a v X; left; now apply Thw).
  split.
  - constructor; cbn [st' b_first b_cur b_wr b_fj b_pads b_labels b_dict List.length]; auto.
    + constructor; cbn [st' b_first b_cur b_wr b_fj b_pads List.length]; auto; try constructor.
      unfold wsb. cbn [st' b_nextw b_wf List.length]. lia.
    + lia.
    + destruct (j_good _ _ _ J) as [_ Gl]. split; [exact Hinv'|exact Gl].
    + eapply Forall_impl; [|apply (j_dict _ _ _ J)]. intros en. apply entry_ok_mono; [exact Thw'|apply extends_refl].
    + intros q Hq Ho. pose proof (occ_lt _ Ho) as Hlt. left. apply in_app_or in Hq. destruct Hq as [Hq|[<-|[]]]; [|congruence].
      destruct (j_pi _ _ _ J q Hq Ho) as [X|X]; [auto|].
      rewrite EG. apply cov_app_r. eapply cov_mono; [apply HcF; lia|lia|lia].
    + intros h [].
    + rewrite map_app. cbn [map]. now rewrite last_app_one.
  - intros [T Pre Le F W Z0 C2 Aux Ch Ext]. cbn [st' b_first b_cur b_wr b_nextw b_labels] in *.
    destruct Pre as (G' & EG').
    assert (Hcn : forall lo hi, cov G0 lo hi -> covnew (b_wr st) lo hi).
    { intros lo hi X. exists (G0 ++ G'). rewrite EG', EG, app_assoc. split; [reflexivity|now apply cov_app_l]. }
    constructor.
    + intros a v X. eapply eok_mono; [exact Le|now apply Thw].
    + exists (G0 ++ G'). now rewrite EG', EG, app_assoc.
    + eapply wr_le_trans; eassumption.
    + intros X. apply Hcn, HcF, X.
    + intros X. apply Hcn, HcW, X.
    + exact H0.
    + constructor; [intros Ho; congruence|].
      eapply Forall_impl; [|exact C2]. intros q Hq Ho x Hx. apply Hq; [exact Ho|]. left. now apply HR.
    + exact Aux.
    + constructor; assumption.
    + exact Ext.
Qed.

(* ---------- the statement cases ---------- *)
Lemma jinv_first_le Lpre ws st : jinv Lpre ws st -> b_first st <= b_cur st.
Proof. intros J. pose proof (j_cur _ _ _ J). pose proof wd_pos'. nia. Qed.

Lemma label_case Lpre ws st p L :
  jinv Lpre ws st -> occupies p = false -> chain_fin p -> pl_next p = b_cur st ->
  (jinv (Lpre ++ [p]) ws st -> cres st L) -> cres st (p :: L).
Proof.
  intros J Hno Hchp Hn IH.
  assert (J' : jinv (Lpre ++ [p]) ws st).
  { destruct J as [J1 J2 J3 J4 J5 J6 J7 J8 J9 J10]. constructor; auto.
    - intros q Hq Ho. apply in_app_or in Hq. destruct Hq as [Hq|[<-|[]]]; [auto|congruence].
    - intros h Hh. destruct (J9 h Hh) as [Q D]. split; [exact Q|].
      intros q Hq Ho. apply in_app_or in Hq. destruct Hq as [Hq|[<-|[]]]; [auto|congruence].
    - rewrite map_app. cbn [map]. now rewrite last_app_one. }
  destruct (IH J') as [T Pre Le F W Z0 C2 Aux Ch Ext]. constructor; auto.
  constructor; [intros Ho; congruence|exact C2].
Qed.

Lemma op_case Lpre ws st p L vf vj :
  jinv Lpre ws st -> occupies p = true -> chain_fin p ->
  pl_addr p = b_cur st -> pl_next p = b_cur st + dwd -> pl_next p <= ws ->
  (jinv (Lpre ++ [p]) ws (insert_fj_op ww st vf vj) -> cres (insert_fj_op ww st vf vj) L) -> cres st (p :: L).
Proof.
  intros J Ho Hchp Ha Hn Hws IH. pose proof wd_pos' as Hw. set (st' := insert_fj_op ww st vf vj) in *.
  pose proof (j_lst _ _ _ J) as Hl. pose proof (j_cur _ _ _ J) as Hcur. destruct (jinv_ws _ _ _ J) as [Ews _].
  pose proof (fj_op_lst _ _ _ _ _ _ vf vj Hl) as L'. fold st' in L'.
  assert (T : forall a v, hw st a v -> hw st' a v).
  { intros a v. apply (fj_op_hw _ _ _ _ _ _ vf vj [] a v Hl). intros r []. }
  assert (Elen : List.length (b_fj st') = (List.length (b_fj st) + 2)%nat) by now destruct L'.
  assert (Ecur : b_cur st' = b_cur st + dwd) by now destruct L'.
  assert (J' : jinv (Lpre ++ [p]) ws st').
  { apply jinv_same_piece with (st := st); auto.
    - rewrite Elen, Ecur. exact L'.
    - rewrite Elen, Ecur, Hcur. unfold Layout.dwd. lia.
    - rewrite Ecur. unfold Layout.dwd. lia.
    - apply (j_good _ _ _ J).
    - eapply Forall_impl; [|apply (j_dict _ _ _ J)]. intros en. apply entry_ok_mono; [exact T|apply extends_refl]. }
  apply (same_piece_cres st st'); auto.
  - rewrite Ecur. unfold Layout.dwd. lia.
  - cbn. lia.
  - apply extends_refl.
  - eapply jinv_first_le; eauto.
  - now rewrite Ews.
Qed.

Lemma pad_case Lpre ws st p L k :
  jinv Lpre ws st -> Lall = Lpre ++ p :: L -> is_pad p = true -> chain_fin p ->
  pl_addr p = b_cur st -> 0 <= k -> pl_next p = b_cur st + k * dwd -> pl_next p <= ws ->
  (jinv (Lpre ++ [p]) ws (insert_padding ww st k) -> cres (insert_padding ww st k) L) -> cres st (p :: L).
Proof.
  intros J EL Hpad Hchp Ha Hk Hn Hws IH. pose proof wd_pos' as Hw. set (st' := insert_padding ww st k) in *.
  pose proof (j_lst _ _ _ J) as Hl. pose proof (j_cur _ _ _ J) as Hcur. destruct (jinv_ws _ _ _ J) as [Ews _].
  destruct (padding_spec _ _ _ _ _ _ k Hk Hl) as (L' & T & Hpads). fold st' in L', T, Hpads.
  set (n := List.length (b_fj st)) in *.
  assert (Elen : List.length (b_fj st') = (n + 2 * Z.to_nat k)%nat) by now destruct L'.
  assert (Ecur : b_cur st' = b_cur st + k * dwd) by now destruct L'.
  assert (Hno : occupies p = false) by (unfold occupies, is_pad in *; destruct (pl_stmt p); congruence).
  assert (J' : jinv (Lpre ++ [p]) ws st').
  { apply jinv_same_piece with (st := st); auto.
    - rewrite Elen, Ecur. exact L'.
    - rewrite Elen, Ecur, Hcur. unfold Layout.dwd. lia.
    - rewrite Ecur. unfold Layout.dwd. nia.
    - apply (j_good _ _ _ J).
    - eapply Forall_impl; [|apply (j_dict _ _ _ J)]. intros en. apply entry_ok_mono; [exact T|apply extends_refl].
    - intros h Hh. destruct (Hpads h Hh) as [Hold|(i & Hi & ->)]; [now left|]. right.
      assert (Ex : b_first st + wd * Z.of_nat (n + 2 * i) = b_cur st + Z.of_nat i * dwd) by (rewrite Hcur; unfold Layout.dwd; lia).
      rewrite Ex. split.
      + exists p. split; [rewrite EL; apply in_or_app; right; now left|]. split; [exact Hpad|].
        pose proof (jinv_first_le _ _ _ J). unfold Layout.dwd in *. repeat split; nia.
      + intros q Hq Hoq. apply in_app_or in Hq. destruct Hq as [Hq|[<-|[]]]; [|congruence].
        destruct (j_pi _ _ _ J q Hq Hoq) as [X|X]; [now left|]. right. right. unfold Layout.dwd. nia. }
  apply (same_piece_cres st st'); auto.
  - rewrite Ecur. unfold Layout.dwd. nia.
  - cbn. lia.
  - apply extends_refl.
  - eapply jinv_first_le; eauto.
  - now rewrite Ews.
Qed.

Lemma wflip_case Lpre ws st st' p L A V R :
  jinv Lpre ws st -> Lall = Lpre ++ p :: L -> insert_wflip_ops ww st A V R = Ok st' ->
  pl_addr p = b_cur st -> pl_next p = b_cur st + dwd -> pl_next p <= ws -> In ws (code_ends Lall) ->
  (forall cs, cs <> [] -> znext cs R = pl_addr p -> ch (eok wrF) cs R -> map snd cs = model_flips A V ->
              Forall (reg lF) (tl (map fst cs)) -> extends (b_labels st) lF -> chain_fin p) ->
  (jinv (Lpre ++ [p]) ws st' -> cres st' L) -> cres st (p :: L).
Proof.
  intros J EL Hops Ha Hn Hws Hce Hk IH. pose proof wd_pos' as Hw.
  pose proof (j_lst _ _ _ J) as Hl. pose proof (j_cur _ _ _ J) as Hcur. destruct (jinv_ws _ _ _ J) as [Ews _].
  destruct (wflip_ops_spec _ _ _ _ _ _ _ _ _ _ Hops Hl (j_good _ _ _ J) (j_al _ _ _ J) (j_wsal _ _ _ J) Hcur (j_dict _ _ _ J))
    as (L' & G' & X' & Hnw & Hpads & T & D' & (cs & C1 & C2 & C3 & C4 & C5) & Hnewl).
  set (n := List.length (b_fj st)) in *.
  assert (Elen : List.length (b_fj st') = (n + 2)%nat) by now destruct L'.
  assert (Ecur : b_cur st' = b_cur st + dwd) by now destruct L'.
  assert (Ef : b_first st' = b_first st) by now destruct L'.
  assert (Ewr : b_wr st' = b_wr st) by now destruct L'.
  assert (Ews' : wsb st' = ws) by now destruct L'.
  assert (J' : jinv (Lpre ++ [p]) ws st').
  { apply jinv_same_piece with (st := st); auto.
    - rewrite Elen, Ecur. exact L'.
    - rewrite Elen, Ecur, Hcur. unfold Layout.dwd. lia.
    - rewrite Ecur. unfold Layout.dwd. lia.
    - now rewrite Ecur. }
  pose proof (IH J') as C'.
  apply (same_piece_cres st st'); auto.
  - now rewrite Ews.
  - rewrite Ecur. unfold Layout.dwd. lia.
  - now rewrite Ecur.
  - eapply jinv_first_le; eauto.
  - now rewrite Ews.
  - intros k x Hkx. destruct (Hnewl _ _ Hkx) as [Hold|Hal]; [now left|]. right.
    eapply (alloc_auxP Lpre L ws st st' p x); eauto.
  - apply (Hk cs); auto.
    + rewrite C2. now symmetry.
    + eapply ch_mono; [|exact C3]. apply (c_T _ _ C').
    + eapply Forall_impl; [|exact C5]. intros y. apply reg_mono. apply (c_ext _ _ C').
    + eapply extends_trans; [exact X'|apply (c_ext _ _ C')].
Qed.

(* ---------- the induction over the statements ---------- *)
Lemma eval_final (l : labels) d e e' v :
  eval_new (Some d) e = Some e' -> exact_eval l e' = Some v -> extends l lF -> eval_expr (env_at lF d) e = Some v.
Proof.
  intros E1 E2 X. eapply eval_mono_at; [exact X|]. unfold exact_eval in E2.
  now rewrite (eval_new_correct (Some d) l e e' E1) in E2.
Qed.

Lemma in_memory_0 : in_memory ww 0 = true.
Proof. unfold in_memory. pose proof (M_pos ww). apply andb_true_iff. split; [apply Z.leb_le|apply Z.ltb_lt]; lia. Qed.

Lemma run_chains L : forall Lpre ops st st1 ws,
  Lall = Lpre ++ L ->
  resolve_loop ww ver true st ops = Ok st1 -> close_and_add_segment ww ver st1 = Ok stF ->
  ops_rel ww L ops -> chain (b_cur st) L -> ws = code_end (b_cur st) L -> Forall res_nonneg L ->
  jinv Lpre ws st -> cres st L.
Proof.
  pose proof wd_pos' as Hw.
  induction L as [|p L IH]; intros Lpre ops st st1 ws EL Hrun Hclose Hrel Hch Hws Hres J.
  - cbn in Hrel. subst ops. cbn in Hrun. injection Hrun as <-. cbn [code_end] in Hws.
    destruct (close_spec _ _ _ _ Hclose J Hws) as (Hinv' & Hwle & (G0 & EG & HcF & HcW) & H0 & Thw & F1 & F2 & F3 & F4 & F5).
    constructor; auto.
    + exists G0. exact EG.
    + intros X. exists G0. auto.
    + intros X. exists G0. auto.
    + intros k x Hk. left. now rewrite <- F3.
    + rewrite F3. apply extends_refl.
  - cbn [chain] in Hch. destruct Hch as [Ha Hch]. pose proof (Forall_inv Hres) as Hr. pose proof (Forall_inv_tail Hres) as Hres'.
    pose proof (j_cur _ _ _ J) as Hcur. pose proof (j_al _ _ _ J) as Hal.
    assert (Hcmod : b_cur st mod wd = 0) by (rewrite Hcur; now apply mod_first_add).
    assert (EL' : Lall = (Lpre ++ [p]) ++ L) by (rewrite <- app_assoc; exact EL).
    assert (Hce : In ws (code_ends Lall)) by (rewrite Hws, EL; apply code_end_in; apply (j_last _ _ _ J)).
    cbn [ops_rel] in Hrel. cbn [code_end] in Hws. unfold is_segment, res_nonneg in *.
    destruct (pl_stmt p) as [f j ?|ea ev er ?|e ?|name ?|? ? ?|? ? ? ? ?|e ?|e ?] eqn:Est; try contradiction.
    + (* op *)
      destruct Hrel as (f' & j' & r & Ef & Ej & Hn & -> & Hrel).
      cbn [resolve_loop bind resolve_step] in Hrun.
      destruct (exact_eval (b_labels st) f') as [vf|] eqn:Evf; [|discriminate].
      destruct (exact_eval (b_labels st) j') as [vj|] eqn:Evj; [|discriminate].
      destruct (in_memory ww vf && in_memory ww vj) eqn:Em; cbn [andb negb] in Hrun; [|discriminate].
      assert (Hnm : pl_next p mod wd = 0) by (rewrite Hn, Ha; unfold Layout.dwd; rewrite <- (Z.mod_add _ 2 wd) in Hcmod by lia; rewrite <- Hcmod; f_equal; lia).
      destruct (code_end_facts _ _ _ Hrel Hch Hres' Hnm) as [Hge _].
      apply (op_case Lpre ws st p L vf vj); auto.
      * unfold occupies. rewrite Est. apply Z.ltb_lt. unfold Layout.dwd in *. lia.
      * unfold chain_fin. now rewrite Est.
      * lia.
      * lia.
      * intros J'. apply (IH (Lpre ++ [p]) r _ st1 ws EL' Hrun Hclose Hrel); [| |exact Hres'|exact J'];
          cbn [insert_fj_op b_cur]; rewrite <- Ha, <- Hn; assumption.
    + (* wflip *)
      destruct Hrel as (a' & v' & r' & r & Ea & Ev & Er & Hn & -> & Hrel).
      cbn [resolve_loop bind] in Hrun.
      destruct (resolve_step ww ver true st (LWordFlip a' v' r')) as [st'| |] eqn:Estep; try discriminate.
      cbn [resolve_step] in Estep.
      destruct (exact_eval (b_labels st) a') as [A|] eqn:EA; [|discriminate].
      destruct (exact_eval (b_labels st) v') as [V|] eqn:EV; [|discriminate].
      destruct (exact_eval (b_labels st) r') as [R|] eqn:ER; [|discriminate].
      destruct (true && negb _) eqn:Estrict; [discriminate|].
      cbn [andb] in Estrict. apply negb_false_iff in Estrict.
      assert (Hnm : pl_next p mod wd = 0) by (rewrite Hn, Ha; unfold Layout.dwd; rewrite <- (Z.mod_add _ 2 wd) in Hcmod by lia; rewrite <- Hcmod; f_equal; lia).
      destruct (code_end_facts _ _ _ Hrel Hch Hres' Hnm) as [Hge _].
      assert (Hcur' : forall J' : jinv (Lpre ++ [p]) ws st', b_cur st' = pl_next p).
      { intros J'. rewrite (j_last _ _ _ J'), map_app. cbn [map]. now rewrite last_app_one. }
      apply (wflip_case Lpre ws st st' p L A V R); auto; try lia.
      * intros cs K1 K2 K3 K4 K5 X. unfold chain_fin. rewrite Est. exists A, V, R, cs.
        split; [eapply eval_final; eauto|]. split; [eapply eval_final; eauto|]. split; [eapply eval_final; eauto|].
        assert (Hm : in_memory ww V = true /\ in_memory ww R = true /\ (V = 0 \/ in_memory ww A = true)).
        { destruct (V =? 0) eqn:E0.
          - apply Z.eqb_eq in E0. subst V. split; [apply in_memory_0|]. split; [exact Estrict|now left].
          - unfold insert_wflip_ops in Estep. rewrite E0 in Estep.
            destruct (in_memory ww V) eqn:EmV; cbn [negb] in Estep; [|discriminate]. cbn [negb orb] in Estrict.
            apply andb_true_iff in Estrict. destruct Estrict as [Es1 Es2]. apply andb_true_iff in Es1. destruct Es1 as [Es1 _].
            auto. }
        destruct Hm as (M1 & M2 & M3). repeat split; auto.
      * intros J'. apply (IH (Lpre ++ [p]) r st' st1 ws EL' Hrun Hclose Hrel); [| |exact Hres'|exact J'];
          rewrite (Hcur' J'); assumption.
    + (* pad *)
      destruct Hrel as (k & r & Hk & Hn & -> & Hrel).
      cbn [resolve_loop bind resolve_step] in Hrun.
      assert (Hnm : pl_next p mod wd = 0) by (rewrite Hn, Ha; unfold Layout.dwd; rewrite <- (Z.mod_add _ (2 * k) wd) in Hcmod by lia; rewrite <- Hcmod; f_equal; lia).
      destruct (code_end_facts _ _ _ Hrel Hch Hres' Hnm) as [Hge _].
      apply (pad_case Lpre ws st p L k); auto; try lia.
      * unfold is_pad. now rewrite Est.
      * unfold chain_fin. now rewrite Est.
      * intros J'. apply (IH (Lpre ++ [p]) r _ st1 ws EL' Hrun Hclose Hrel); [| |exact Hres'|exact J'];
          cbn [insert_padding b_cur]; rewrite <- Ha, <- Hn; assumption.
    + (* label *)
      destruct Hrel as (Hn & Hrel).
      apply (label_case Lpre ws st p L); auto.
      * unfold occupies. now rewrite Est.
      * unfold chain_fin. now rewrite Est.
      * lia.
      * intros J'. apply (IH (Lpre ++ [p]) ops st st1 ws EL' Hrun Hclose Hrel); [| |exact Hres'|exact J'];
          rewrite <- Ha, <- Hn; assumption.
    + (* segment *)
      destruct Hrel as (r & Hn & -> & Hrel).
      cbn [resolve_loop bind] in Hrun.
      destruct (resolve_step ww ver true st (LNewSeg (pl_next p) (code_end (pl_next p) L))) as [st'| |] eqn:Estep;
        try discriminate.
      cbn [resolve_step] in Estep.
      destruct (code_end_facts _ _ _ Hrel Hch Hres' Hn) as [_ Hwsm].
      destruct (segment_step Lpre ws (code_end (pl_next p) L) st st' p L J Estep Ha) as [J' Hc]; auto; try lia.
      * unfold occupies. now rewrite Est.
      * unfold chain_fin. now rewrite Est.
      * assert (Hcur' : b_cur st' = pl_next p).
        { rewrite (j_last _ _ _ J'), map_app. cbn [map]. now rewrite last_app_one. }
        apply Hc. apply (IH (Lpre ++ [p]) r st' st1 (code_end (pl_next p) L) EL' Hrun Hclose Hrel); [| |exact Hres'|exact J'];
          rewrite Hcur'; [assumption|reflexivity].
    + (* reserve *)
      destruct Hrel as (r & _ & Hn & -> & Hrel).
      cbn [resolve_loop bind] in Hrun.
      destruct (resolve_step ww ver true st (LReserve (pl_next p))) as [st'| |] eqn:Estep; try discriminate.
      cbn [resolve_step] in Estep.
      assert (Hnm : pl_next p mod wd = 0).
      { replace (pl_next p) with (pl_addr p + (pl_next p - pl_addr p)) by lia. rewrite Z.add_mod, Hn, Ha, Hcmod by lia.
        reflexivity. }
      destruct (code_end_facts _ _ _ Hrel Hch Hres' Hnm) as [Hge _].
      destruct (reserve_step Lpre ws st st' p L J Estep Ha) as [J' Hc]; try lia.
      * unfold chain_fin. now rewrite Est.
      * assert (Hcur' : b_cur st' = pl_next p).
        { rewrite (j_last _ _ _ J'), map_app. cbn [map]. now rewrite last_app_one. }
        apply Hc. apply (IH (Lpre ++ [p]) r st' st1 ws EL' Hrun Hclose Hrel); [| |exact Hres'|exact J'];
          rewrite Hcur'; assumption.
Qed.

End Run.

(* ================= from the final writer state to the image ================= *)
Section Final.
Variable wrF : wstate.
Hypothesis HinvF : wr_inv ww wrF.
Notation imgF := (image_of (read_segments wrF) (read_words ww ver wrF)).
Notation wN := (w ww).

Lemma wd_wN : wd = Z.of_N wN.
Proof. reflexivity. Qed.

Lemma eok_word a v : eok wrF a v -> word_is ww imgF a v.
Proof.
  pose proof wd_pos' as Hw. pose proof (M_pos ww) as HM.
  intros [(s & l & ds & dl & i & Hs & Hi & Ha & Hrb) Hm].
  unfold in_memory in Hm. apply andb_true_iff in Hm. destruct Hm as [M1 M2]. apply Z.leb_le in M1. apply Z.ltb_lt in M2.
  assert (Hn : norm ww ver a v = v).
  { unfold norm. destruct (_ && _); [|reflexivity]. apply Z.mod_small. lia. }
  rewrite Hn in Hrb. pose proof HinvF as [Hok _]. rewrite Forall_forall in Hok. pose proof (Hok _ Hs) as O. cbn in O.
  unfold word_is, image_of, segs, mem0. cbn [i_segs i_mem]. subst a.
  split; [lia|]. split; [eapply final_valid; eauto; lia|]. split; [unfold Layout.wd in *; lia|].
  rewrite <- Hrb. eapply final_word; eauto. lia.
Qed.

Definition zn (xf : Z * Z) : N * N := (Z.to_N (fst xf), Z.to_N (snd xf)).

Lemma to_N_div x : 0 <= x -> x mod wd = 0 -> (Z.to_N x mod wN = 0 /\ Z.to_N x / wN = Z.to_N (x / wd))%N.
Proof.
  intros H0 Hm. pose proof wd_pos' as Hw. rewrite wd_wN in *.
  assert (Hq : x = (x / Z.of_N wN) * Z.of_N wN).
  { pose proof (Z.div_mod x (Z.of_N wN) ltac:(lia)). lia. }
  assert (Hq0 : 0 <= x / Z.of_N wN) by (apply Z.div_pos; lia).
  assert (Hwn : (wN <> 0)%N) by lia.
  rewrite Hq at 1 2. rewrite Z2N.inj_mul, N2Z.id by lia.
  split; [now apply N.mod_mul|now apply N.div_mul].
Qed.

Lemma chain_convert cs R :
  ch (eok wrF) cs R -> (cs = [] \/ in_memory ww R = true) ->
  chain_in ww (read_segments wrF) (mem_of_list (read_words ww ver wrF)) (map zn cs) (Z.to_N R)
  /\ Forall (fun x => 0 <= x) (map fst cs).
Proof.
  induction cs as [|[x f] rest IH]; intros H HR; [split; [exact I|constructor]|].
  cbn [ch] in H. destruct H as (Hm & Hf & Hj & Hrest).
  destruct IH as [IH1 IH2]; [exact Hrest|destruct HR as [HR|HR]; [discriminate|now right]|].
  pose proof (eok_word _ _ Hf) as (F0 & F1 & F2 & F3). pose proof (eok_word _ _ Hj) as (J0 & J1 & J2 & J3).
  unfold segs, mem0 in *. cbn [i_segs i_mem image_of] in *.
  pose proof wd_pos' as Hw.
  assert (Hx0 : 0 <= x) by (pose proof (Z.div_mod x wd ltac:(lia)); nia).
  destruct (to_N_div x Hx0 Hm) as [D1 D2].
  split; [|constructor; [exact Hx0|exact IH2]].
  cbn [map chain_in zn fst snd]. split; [|exact IH1].
  assert (Hnx : next_of (map zn rest) (Z.to_N R) = Z.to_N (znext rest R)) by (destruct rest as [|[y g] r]; reflexivity).
  unfold op_in. rewrite D2, Hnx.
  replace (Z.to_N (x / wd) + 1)%N with (Z.to_N (x / wd + 1)) by lia. auto.
Qed.

End Final.

Section Final2.
Variable Lall : list placed.
Variable stF : bstate.
Hypothesis HinvF : wr_inv ww (b_wr stF).
Notation imgF := (image_of (read_segments (b_wr stF)) (read_words ww ver (b_wr stF))).

Lemma aux_convert x :
  auxP Lall stF x ->
  aux_ok ww imgF Lall (Z.to_N x) = true /\ covers_input ww (Z.to_N x) = false /\ (dw ww <= Z.to_N x)%N.
Proof.
  intros (Hm & Hge & Hnc & Hdisj & Hpl). pose proof wd_pos' as Hw.
  assert (Hx0 : 0 <= x) by (unfold Layout.dwd in Hge; lia).
  split; [|split].
  - unfold aux_ok. rewrite Z2N.id by exact Hx0. change (wz ww) with wd. change (dwz ww) with dwd.
    apply andb_true_iff. split; [apply andb_true_iff; split|].
    + now apply Z.eqb_eq.
    + apply forallb_forall. intros p Hp. destruct (occupies p) eqn:Ho; [|reflexivity]. cbn [negb orb].
      destruct (Hdisj p Hp Ho) as [D|D]; apply orb_true_iff; [left|right]; now apply Z.leb_le.
    + apply orb_true_iff. destruct Hpl as [(q & Q1 & Q2 & Q3 & Q4)|(e & E1 & (s & l & ds & dl & Hs & C1 & C2) & E3)].
      * left. apply existsb_exists. exists q. split; [exact Q1|]. rewrite Q2. cbn [andb].
        apply andb_true_iff. split; now apply Z.leb_le.
      * right. apply existsb_exists. exists e. split; [exact E1|]. apply existsb_exists.
        exists (Z.to_N s, Z.to_N l). split.
        -- unfold segs, image_of, read_segments. cbn [i_segs]. apply in_map_iff. exists (s, l, ds, dl). auto.
        -- cbn [fst snd]. destruct HinvF as [Hok _]. rewrite Forall_forall in Hok. specialize (Hok _ Hs). cbn in Hok.
           rewrite N2Z.inj_add, !Z2N.id by lia.
           apply andb_true_iff. split; [apply andb_true_iff; split|]; apply Z.leb_le; lia.
  - rewrite covers_input_bit_eq by exact Hx0. exact Hnc.
  - unfold dw. unfold Layout.dwd, Layout.wd, wz in Hge. lia.
Qed.

End Final2.

End Chains.


(* ================= every wflip statement has a stored chain in the final image ================= *)
Lemma chain_fin_ok ww ver (L : list placed) (stF : bstate) (p : placed) :
  wr_inv ww (b_wr stF) ->
  (forall x, reg (b_labels stF) x -> auxP ww L stF x) ->
  chain_fin ww ver stF p ->
  wflip_chain_ok ww (image_of (read_segments (b_wr stF)) (read_words ww ver (b_wr stF))) L (b_labels stF) p.
Proof.
  intros Hinv Haux H. unfold chain_fin, wflip_chain_ok in *.
  destruct (pl_stmt p) as [| ea ev er ?| | | | | |]; auto.
  destruct H as (A & V & R & cs & E1 & E2 & E3 & M1 & M2 & M3 & Hne & Hnx & Hch & Hfl & Hreg).
  destruct (chain_convert ww ver _ Hinv cs R Hch (or_intror M2)) as [Hci Hpos].
  pose proof (wd_pos' ww) as Hw.
  unfold in_memory in M1, M2. apply andb_true_iff in M1, M2. destruct M1 as [V0 V1], M2 as [R0 R1].
  apply Z.leb_le in V0, R0. apply Z.ltb_lt in V1, R1.
  destruct cs as [|[x0 f0] rest]; [congruence|]. cbn [znext] in Hnx. subst x0.
  cbn [ch] in Hch. destruct Hch as (Hm0 & _). inversion Hpos as [|? ? Ha0 Hpos']; subst.
  exists A, V, R, (map zn ((pl_addr p, f0) :: rest)).
  split; [exact E1|]. split; [exact E2|]. split; [exact E3|].
  split.
  { cbn [fst] in Ha0. repeat split; auto.
    destruct M3 as [M3|M3]; [now left|right]. unfold in_memory in M3. apply andb_true_iff in M3. destruct M3 as [M3 _].
    now apply Z.leb_le. }
  split; [discriminate|]. split; [reflexivity|]. split; [exact Hci|].
  split.
  - rewrite map_map. cbn [zn snd]. rewrite <- (map_map snd Z.to_N), Hfl. unfold model_flips.
    destruct (V =? 0) eqn:EV.
    + apply Z.eqb_eq in EV. subst V. reflexivity.
    + apply Z.eqb_neq in EV. destruct M3 as [M3|M3]; [contradiction|].
      unfold in_memory in M3. apply andb_true_iff in M3. destruct M3 as [M3 _]. apply Z.leb_le in M3.
      apply model_flips_eq; lia.
  - intros x Hx. rewrite map_map in Hx. cbn [map tl zn fst] in Hx. cbn [map tl fst] in Hreg.
    apply in_map_iff in Hx. destruct Hx as ([y g] & <- & Hin). cbn [fst].
    rewrite Forall_forall in Hreg. apply (aux_convert ww ver L stF Hinv). apply Haux. apply Hreg.
    apply in_map_iff. exists (y, g). auto.
Qed.

(* C02_wflip_chain_invariant *)
Theorem assemble_chains ww ver P segs words lbls :
  assemble_model ww ver true P = Ok (segs, words, lbls) ->
  lexical_labels P = true ->
  forall L, place ww (lookup lbls) P 0 = Some L -> Forall (wflip_chain_ok ww (image_of segs words) L lbls) L.
Proof.
  unfold assemble_model. intros H Hlex L HplL.
  pose proof (wd_pos' ww) as Hw.
  destruct (resolve_macros ww P) as [[ops l0]| |] eqn:Er; cbn [bind] in H; try discriminate.
  destruct (labels_resolve ww ver true ops l0) as [stF| |] eqn:El; cbn [bind] in H; try discriminate.
  destruct (negb (first_op_assembled (b_wr stF))); [discriminate|].
  destruct (negb (packable ww (b_wr stF))); [discriminate|].
  injection H as <- <- <-.
  destruct (resolve_macros_spec ww P ops l0 l0 Er Hlex (extends_refl l0)) as (L0 & r0 & _ & Hops & _ & _ & Hkeys).
  subst ops. unfold labels_resolve in El.
  destruct (resolve_loop ww ver true _ r0) as [st1| |] eqn:Eloop; cbn [bind] in El; try discriminate.
  set (st0 := mkb 0 (code_end 0 L0) 0 [] [] [] [] l0 0%N (mkw [] [])) in *.
  assert (G0 : good ww st0).
  { split; [split; constructor|]. intros i _. cbn [b_labels st0].
    destruct (lookup l0 (wflip_label i)) as [v|] eqn:E; [|reflexivity]. now elim (Hkeys _ _ i E). }
  destruct (resolve_loop_good _ _ _ _ _ _ Eloop G0) as [G1 X1]. cbn [b_labels st0] in X1.
  destruct (close_good _ _ _ _ El G1) as [[HinvF _] E2].
  assert (Hext : extends l0 (b_labels stF)) by (rewrite E2; exact X1).
  destruct (resolve_macros_spec ww P _ l0 (b_labels stF) Er Hlex Hext) as (L' & r & Hpl & Hops & Hrel & Hlab & _).
  rewrite HplL in Hpl. injection Hpl as <-.
  injection Hops as Hce Hr0. subst r.
  pose proof (ops_rel_res_nonneg ww L r0 Hrel) as Hresn.
  pose proof (place_chain ww _ _ _ _ HplL) as Hchain.
  assert (Hmod0 : 0 mod wd ww = 0) by (apply Z.mod_0_l; lia).
  destruct (code_end_facts ww L r0 0 Hrel Hchain Hresn Hmod0) as [_ Hwsm].
  assert (J0 : jinv ww ver L [] (code_end 0 L0) st0).
  { constructor; cbn [st0 b_first b_cur b_wr b_fj b_pads b_dict b_labels List.length map last]; auto.
    - constructor; cbn [st0 b_first b_cur b_wr b_fj b_pads List.length]; auto; try constructor.
      unfold wsb. cbn [st0 b_nextw b_wf List.length]. lia.
    - split; constructor.
    - now rewrite Hce.
    - intros p [].
    - intros h []. }
  pose proof (run_chains ww ver L stF HinvF (lookup (b_labels stF)) (place_next ww _ _ _ _ HplL) L [] r0 st0 st1
                (code_end 0 L0) eq_refl Eloop El Hrel Hchain Hce Hresn J0) as C.
  assert (Haux : forall x, reg (b_labels stF) x -> auxP ww L stF x).
  { intros x [k Hk]. destruct (c_aux _ _ _ _ _ _ C k x Hk) as [Hbad|Hok]; [|exact Hok].
    cbn [st0 b_labels] in Hbad. now elim (Hkeys _ _ k Hbad). }
  eapply Forall_impl; [|exact (c_ch _ _ _ _ _ _ C)]. intros p. now apply chain_fin_ok.
Qed.

(* C02_sound: the image the current assembler produces for a macro-free program is the program's denotation *)
Theorem assemble_sound ww ver P segs words lbls :
  assemble_model ww ver true P = Ok (segs, words, lbls) ->
  lexical_labels P = true ->
  Denotes ww (image_of segs words) P lbls.
Proof.
  intros H Hlex. apply (assemble_sound_modulo_chains ww ver P segs words lbls H Hlex).
  now apply (assemble_chains ww ver).
Qed.
