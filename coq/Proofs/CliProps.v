From FJ Require Import Lib.Base Model.Cli.
From Coq Require Import String.
(* C20 - proofs about the option plumbing (Model/Cli.v). *)
Local Open Scope Z_scope.
Local Open Scope string_scope.

Section Props.
  Variable stl_paths : list path.
  Variable is_file : path -> bool.
  Variable suffix_of : path -> string.
  Variable absolute : path -> path.
  Variable io_modes : list string.
  Variable render_nat : nat -> string.
  Hypothesis absolute_idempotent : forall p, absolute (absolute p) = absolute p.

  (* the two-step flow can express the request: an output file is named, "-d" (if used) names its file, and
     breakpoints (which make the one-step flow create a temporary debug file) come with "-d PATH" *)
  Definition twostep_expressible (u : uopts) : Prop :=
    uo_outfile u <> None /\
    (uo_debug u = None /\ uo_breakpoints u = [] /\ uo_breakpoints_contains u = [] \/ exists p, uo_debug u = Some (Some p) /\ p <> "").

  Notation onestep_asm d := (onestep_asm d stl_paths is_file suffix_of io_modes render_nat).
  Notation twostep_asm d := (twostep_asm d stl_paths is_file suffix_of io_modes render_nat).
  Notation onestep_run d := (onestep_run d is_file suffix_of io_modes).
  Notation twostep_run d := (twostep_run d is_file suffix_of io_modes).
  Notation api_assemble d := (api_assemble d stl_paths absolute render_nat).
  Notation norm_asm := (norm_asm absolute).

  Lemma eqb_nonempty p : p <> "" -> String.eqb p "" = false.
  Proof. intros H. destruct (String.eqb p "") eqn:E; [apply String.eqb_eq in E; contradiction | reflexivity]. Qed.

  (* ---- one step and two steps: the same calls, for any table of defaults ---- *)
  Theorem onestep_twostep_same_asm d u tmp1 tmp2 :
    twostep_expressible u -> onestep_asm d u tmp1 = twostep_asm d u tmp2.
  Proof.
    intros (Ho & Hd). unfold Cli.onestep_asm, Cli.twostep_asm, parse_args.
    destruct (negb (zmem (dflt (uo_width u) (c_width d)) (c_width_choices d))); [reflexivity|].
    destruct (negb (zmem (dflt (uo_preset u) (c_preset d)) (c_preset_choices d))); [reflexivity|].
    destruct (negb (existsb (String.eqb (dflt (uo_io u) (c_io d))) io_modes)); [reflexivity|].
    unfold cli_asm_part, get_files_paths, get_fjm_file_path, get_debug_file_path; simpl.
    destruct (uo_outfile u) as [o|]; [|congruence]. simpl.
    destruct (ends_with ".fjm" o); simpl; [|reflexivity].
    destruct Hd as [(D & B1 & B2)|(p & D & Pn)]; rewrite D; simpl.
    - rewrite B1, B2. simpl. reflexivity.
    - rewrite (eqb_nonempty p Pn). reflexivity.
  Qed.

  Theorem onestep_twostep_same_run d u tmp1 tmp2 :
    twostep_expressible u -> (forall o, uo_outfile u = Some o -> ends_with ".fjm" o = true) ->
    onestep_run d u tmp1 = twostep_run d u tmp2.
  Proof.
    intros (Ho & Hd) Hsuf. unfold Cli.onestep_run, Cli.twostep_run, parse_args.
    destruct (uo_outfile u) as [o|] eqn:EO; [|congruence]. specialize (Hsuf o eq_refl).
    destruct (negb (zmem (dflt (uo_width u) (c_width d)) (c_width_choices d))); [reflexivity|].
    destruct (negb (zmem (dflt (uo_preset u) (c_preset d)) (c_preset_choices d))); [reflexivity|].
    destruct (negb (existsb (String.eqb (dflt (uo_io u) (c_io d))) io_modes)); [reflexivity|].
    unfold cli_run_part, get_files_paths, get_fjm_file_path, get_debug_file_path; simpl.
    rewrite Hsuf. simpl.
    destruct Hd as [(D & B1 & B2)|(p & D & Pn)]; rewrite D; simpl.
    - rewrite B1, B2. simpl. reflexivity.
    - rewrite (eqb_nonempty p Pn). reflexivity.
  Qed.

  (* ---- the command line and the API ---- *)
  Lemma number_from_map {A B} (f : A -> B) prefix : forall (l : list A) i,
    map (fun t => (fst t, f (snd t))) (number_from prefix render_nat i l) = number_from prefix render_nat i (map f l).
  Proof. induction l as [|x r IH]; intros i; simpl; [reflexivity | now rewrite IH]. Qed.

  Lemma norm_tuples files no_stl :
    map (fun t => (fst t, absolute (snd t))) (get_file_tuples stl_paths render_nat (map absolute files) no_stl)
    = map (fun t => (fst t, absolute (snd t))) (get_file_tuples stl_paths render_nat files no_stl).
  Proof.
    unfold get_file_tuples. rewrite !map_app, !number_from_map, map_map. f_equal.
    f_equal. apply map_ext. intros p. apply absolute_idempotent.
  Qed.

  Ltac finish_api F P ED u :=
    unfold get_version; simpl;
    let f := fresh "f" in let q := fresh "q" in let v' := fresh "v" in
    let EF := fresh "EF" in let EP := fresh "EP" in let EV := fresh "EV" in
    destruct (uo_flags u) as [f|] eqn:EF; simpl in F; [apply Z.eqb_eq in F; subst f|];
    (destruct (uo_preset u) as [q|] eqn:EP; simpl in P; [apply Z.eqb_eq in P; subst q|];
     (destruct (uo_version u) as [v'|] eqn:EV; simpl;
      [match goal with |- context [if ?b then inl _ else inr Err_invalid_version] => destruct b; [|discriminate] end|];
      (let H := fresh in intros H; inversion H; subst; clear H;
       unfold Cli.norm_asm, Cli.api_assemble; simpl; rewrite norm_tuples, ?EF, ?EP, ?EV, ?ED; simpl;
       rewrite ?orb_false_r, ?andb_true_r; destruct (uo_no_stl u); reflexivity))).

  Theorem cli_api_same_asm u tmp o c :
    uo_outfile u = Some o -> api_expressible model_defs u = true ->
    onestep_asm model_defs u tmp = inl (Some c) ->
    norm_asm c = norm_asm (api_assemble model_defs u o).
  Proof.
    intros EO Hx. unfold Cli.onestep_asm, parse_args.
    destruct (negb (zmem (dflt (uo_width u) (c_width model_defs)) (c_width_choices model_defs))); [discriminate|].
    destruct (negb (zmem (dflt (uo_preset u) (c_preset model_defs)) (c_preset_choices model_defs))); [discriminate|].
    destruct (negb (existsb (String.eqb (dflt (uo_io u) (c_io model_defs))) io_modes)); [discriminate|].
    unfold cli_asm_part, get_files_paths, get_fjm_file_path, get_debug_file_path; simpl. rewrite EO. simpl.
    destruct (ends_with ".fjm" o); simpl; [|discriminate].
    unfold api_expressible in Hx. simpl in Hx. rewrite !andb_true_iff in Hx. destruct Hx as ((((F & P) & B1) & B2) & D).
    destruct (uo_breakpoints u); [|discriminate]. destruct (uo_breakpoints_contains u); [|discriminate]. simpl.
    assert (HD : forall dbg, (match uo_debug u with None => inl None | Some None => inr Err_asm_debug_without_path
                                                  | Some (Some p) => inl (Some p) end = (inl dbg : option path + cli_error)) ->
                             dbg = match uo_debug u with Some (Some p) => Some p | _ => None end).
    { intros dbg. destruct (uo_debug u) as [[p|]|]; intros H; inversion H; reflexivity. }
    unfold cli_assemble. simpl.
    destruct (uo_debug u) as [[p|]|] eqn:ED; simpl; try discriminate.
    - destruct (String.eqb p "") eqn:Ep; simpl.
      + (* "-d ''" is the same as "-d": a temporary debug file, which the API cannot ask for *)
        discriminate D.
      + destruct (verify_fj_files _ _ _); [discriminate|]. finish_api F P ED u.
    - destruct (verify_fj_files _ _ _); [discriminate|]. finish_api F P ED u.
  Qed.

  Notation api_run d := (api_run d).

  Theorem cli_api_same_run u tmp o c :
    uo_outfile u = Some o -> api_expressible model_defs u = true ->
    onestep_run model_defs u tmp = inl (Some c) ->
    c = api_run model_defs u o.
  Proof.
    intros EO Hx. unfold Cli.onestep_run, parse_args.
    destruct (negb (zmem (dflt (uo_width u) (c_width model_defs)) (c_width_choices model_defs))); [discriminate|].
    destruct (negb (zmem (dflt (uo_preset u) (c_preset model_defs)) (c_preset_choices model_defs))); [discriminate|].
    destruct (negb (existsb (String.eqb (dflt (uo_io u) (c_io model_defs))) io_modes)); [discriminate|].
    unfold cli_run_part, get_files_paths, get_fjm_file_path, get_debug_file_path; simpl. rewrite EO. simpl.
    destruct (ends_with ".fjm" o); simpl; [|discriminate].
    unfold api_expressible in Hx. simpl in Hx. rewrite !andb_true_iff in Hx. destruct Hx as ((((F & P) & B1) & B2) & D).
    destruct (uo_breakpoints u) eqn:EB1; [|discriminate]. destruct (uo_breakpoints_contains u) eqn:EB2; [|discriminate].
    simpl. unfold cli_run, Cli.api_run.
    destruct (uo_debug u) as [[p|]|] eqn:ED; simpl; try discriminate.
    - destruct (String.eqb p "") eqn:Ep; simpl; [discriminate D|].
      destruct (negb (is_file o)); [discriminate|]. destruct (negb (String.eqb (suffix_of o) ".fjm")); [discriminate|].
      destruct (negb (is_file p)); [discriminate|].
      intros H; inversion H; subst; clear H. simpl. rewrite ?orb_false_r, ?andb_true_r.
      destruct (uo_debug_ops u); destruct (uo_flat_max_words u); destruct (uo_io u); reflexivity.
    - destruct (negb (is_file o)); [discriminate|]. destruct (negb (String.eqb (suffix_of o) ".fjm")); [discriminate|].
      intros H; inversion H; subst; clear H. simpl. rewrite ?orb_false_r, ?andb_true_r.
      destruct (uo_debug_ops u); destruct (uo_flat_max_words u); destruct (uo_io u); reflexivity.
  Qed.

  (* ---- the documented defaults ---- *)
  Theorem default_width u tmp c :
    uo_width u = None ->
    (onestep_asm model_defs u tmp = inl (Some c) \/ twostep_asm model_defs u tmp = inl (Some c)
     \/ exists o, c = api_assemble model_defs u o) ->
    ac_width c = 64.
  Proof.
    intros EW [H|[H|(o & H)]]; [| |subst c; unfold Cli.api_assemble; simpl; rewrite EW; reflexivity];
      revert H; unfold Cli.onestep_asm, Cli.twostep_asm, parse_args; rewrite EW;
      (destruct (negb (zmem _ _)); [discriminate|]); (destruct (negb (zmem _ _)); [discriminate|]);
      (destruct (negb (existsb _ _)); [discriminate|]);
      unfold cli_asm_part;
      match goal with |- context [get_files_paths ?a ?t] => destruct (get_files_paths a t) as [[[dbg i] out]|e] end;
      simpl; try discriminate; unfold cli_assemble;
      (destruct (verify_fj_files _ _ _); [discriminate|]);
      (destruct (get_version _ _ _); [|discriminate]); intros H; inversion H; reflexivity.
  Qed.

  Theorem default_version_onestep u tmp c :
    uo_version u = None -> onestep_asm model_defs u tmp = inl (Some c) ->
    ac_version c = match uo_outfile u with Some _ => 3 | None => 1 end.
  Proof.
    intros EV. unfold Cli.onestep_asm, parse_args. rewrite EV.
    destruct (negb (zmem _ _)); [discriminate|]. destruct (negb (zmem _ _)); [discriminate|].
    destruct (negb (existsb _ _)); [discriminate|]. unfold cli_asm_part.
    match goal with |- context [get_files_paths ?a ?t] => destruct (get_files_paths a t) as [[[dbg i] out]|e] end;
      simpl; [|discriminate].
    unfold cli_assemble. simpl. destruct (verify_fj_files _ _ _); [discriminate|].
    destruct (uo_outfile u); simpl; intros H; inversion H; reflexivity.
  Qed.

  Theorem default_version_twostep u tmp c :
    uo_version u = None -> twostep_asm model_defs u tmp = inl (Some c) -> ac_version c = 3.
  Proof.
    intros EV. unfold Cli.twostep_asm, parse_args. rewrite EV.
    destruct (negb (zmem _ _)); [discriminate|]. destruct (negb (zmem _ _)); [discriminate|].
    destruct (negb (existsb _ _)); [discriminate|]. unfold cli_asm_part, get_files_paths, get_fjm_file_path. simpl.
    destruct (uo_outfile u) as [o|]; simpl; [|discriminate].
    destruct (ends_with ".fjm" o); simpl; [|discriminate].
    match goal with |- context [get_debug_file_path ?a ?t] => destruct (get_debug_file_path a t) as [dbg|e] end;
      simpl; [|discriminate].
    unfold cli_assemble. simpl. destruct (verify_fj_files _ _ _); [discriminate|].
    simpl. intros H; inversion H; reflexivity.
  Qed.

  Theorem default_version_api u o : uo_version u = None -> ac_version (api_assemble model_defs u o) = 3.
  Proof. intros EV. unfold Cli.api_assemble. simpl. now rewrite EV. Qed.

  (* the standard library is included unless disabled: the input files are s1..sn (the stl, in conf.json order)
     followed by f1..fm *)
  Theorem default_stl u tmp c :
    (onestep_asm model_defs u tmp = inl (Some c) \/ twostep_asm model_defs u tmp = inl (Some c)) ->
    ac_files c = ((if uo_no_stl u then [] else number_from "s" render_nat 1 stl_paths)
                  ++ number_from "f" render_nat 1 (uo_files u))%list.
  Proof.
    intros [H|H]; revert H; unfold Cli.onestep_asm, Cli.twostep_asm, parse_args;
      (destruct (negb (zmem _ _)); [discriminate|]); (destruct (negb (zmem _ _)); [discriminate|]);
      (destruct (negb (existsb _ _)); [discriminate|]); unfold cli_asm_part;
      match goal with |- context [get_files_paths ?a ?t] => destruct (get_files_paths a t) as [[[dbg i] out]|e] end;
      simpl; try discriminate; unfold cli_assemble;
      (destruct (verify_fj_files _ _ _); [discriminate|]);
      (destruct (get_version _ _ _); [|discriminate]); intros H; inversion H; simpl;
      unfold get_file_tuples; rewrite orb_false_r; reflexivity.
  Qed.

  Theorem default_stl_api u o :
    ac_files (api_assemble model_defs u o) =
    ((if uo_no_stl u then [] else number_from "s" render_nat 1 stl_paths)
     ++ number_from "f" render_nat 1 (map absolute (uo_files u)))%list.
  Proof. unfold Cli.api_assemble, get_file_tuples. simpl. rewrite andb_true_r, negb_involutive. reflexivity. Qed.

  (* assemble_and_run is the one-step command with "-d" (temporary debug file) and "-v 3" *)
  Theorem assemble_and_run_is_onestep_d_v3 u tmp c :
    api_expressible model_defs u = true -> uo_outfile u = None -> uo_debug u = None ->
    uo_profile u = false -> uo_flat_max_words u = None ->
    onestep_asm model_defs
      (mkuo (uo_files u) (uo_width u) (Some (dflt (uo_version u) 3)) (uo_flags u) (uo_no_stl u) None (Some None)
            (uo_werror u) (uo_preset u) (uo_silent u) (uo_max_depth u) (uo_stats u) (uo_trace u) (uo_profile u)
            (uo_debug_ops u) (uo_flat_max_words u) (uo_io u) (uo_breakpoints u) (uo_breakpoints_contains u)) tmp
      = inl (Some c) ->
    norm_asm c = norm_asm (fst (api_assemble_and_run model_defs stl_paths absolute render_nat u tmp)).
  Proof.
    intros Hx EO ED EPr EFl. unfold Cli.onestep_asm, parse_args.
    destruct (negb (zmem _ _)); [discriminate|]. destruct (negb (zmem _ _)); [discriminate|].
    destruct (negb (existsb _ _)); [discriminate|].
    unfold cli_asm_part, get_files_paths, get_fjm_file_path, get_debug_file_path; simpl.
    unfold api_expressible in Hx. simpl in Hx. rewrite !andb_true_iff in Hx. destruct Hx as ((((F & P) & B1) & B2) & D).
    destruct (uo_breakpoints u) eqn:EB1; [|discriminate]. destruct (uo_breakpoints_contains u) eqn:EB2; [|discriminate].
    simpl. unfold cli_assemble. simpl. destruct (verify_fj_files _ _ _); [discriminate|].
    unfold get_version. simpl.
    match goal with |- context [if ?b then inl _ else inr Err_invalid_version] => destruct b; [|discriminate] end.
    destruct (uo_flags u) as [f|] eqn:EF; simpl in F; [apply Z.eqb_eq in F; subst f|];
      (destruct (uo_preset u) as [q|] eqn:EP; simpl in P; [apply Z.eqb_eq in P; subst q|];
       (intros H; inversion H; subst; clear H; unfold Cli.norm_asm, api_assemble_and_run; simpl;
        rewrite norm_tuples, ?EF, ?EP; simpl; rewrite ?orb_false_r, ?andb_true_r; destruct (uo_no_stl u); reflexivity)).
  Qed.
End Props.

(* the warning mode is NOT a shared default: the command line does not treat warnings as errors unless --werror is
   given, flipjump_quickstart.assemble does unless warning_as_errors=False is passed (recorded, not part of C20) *)
Lemma werror_defaults_differ : c_werror model_defs = false /\ q_werror model_defs = true.
Proof. split; reflexivity. Qed.
