From FJ Require Import Lib.Base Lib.Bits Model.NativeSafe Proofs.NativeSafeTbl.
(* C11 - the well-formedness invariant of the Memory object and its preservation by the memory helpers
   (pages, cache, segments, validity search, flat/paged word access). *)
Local Open Scope N_scope.

(* ---------------------------------------------------------------- postconditions of monadic computations *)

Definition post {A} (r : res (out A * st)) (Q : A -> st -> Prop) (R : st -> Prop) : Prop :=
  match r with Ok (Val a, s') => Q a s' | Ok (Raise _, s') => R s' | _ => False end.

Lemma post_bind {A B} (c : M A) (k : A -> M B) s Q1 Q R :
  post (c s) Q1 R -> (forall a s', Q1 a s' -> post (k a s') Q R) -> post (bind c k s) Q R.
Proof.
  unfold post, bind. destruct (c s) as [[[a|e] s']| |]; intros H Hk; try contradiction; [now apply Hk|assumption].
Qed.

Lemma post_bind_w {A B} (c : M A) (k : A -> M B) s Q1 R1 Q (R : st -> Prop) :
  post (c s) Q1 R1 -> (forall s', R1 s' -> R s') -> (forall a s', Q1 a s' -> post (k a s') Q R) -> post (bind c k s) Q R.
Proof.
  unfold post, bind. destruct (c s) as [[[a|e] s']| |]; intros H HR Hk; try contradiction; [now apply Hk|now apply HR].
Qed.

Lemma post_weaken {A} (r : res (out A * st)) (Q Q' : A -> st -> Prop) (R R' : st -> Prop) :
  post r Q R -> (forall a s, Q a s -> Q' a s) -> (forall s, R s -> R' s) -> post r Q' R'.
Proof. unfold post. destruct r as [[[a|e] s']| |]; intros H HQ HR; auto. Qed.

Lemma bind_gets {A B} (f : st -> A) (k : A -> M B) s : bind (gets f) k s = k (f s) s.
Proof. reflexivity. Qed.
Lemma bind_ret {A B} (a : A) (k : A -> M B) s : bind (ret a) k s = k a s.
Proof. reflexivity. Qed.
Lemma bind_modify {B} f (k : unit -> M B) s : bind (modify f) k s = k tt (f s).
Proof. reflexivity. Qed.
Lemma bind_lift_ok {A B} (a : A) (k : A -> M B) s : bind (lift (Ok a)) k s = k a s.
Proof. reflexivity. Qed.
Lemma post_ret {A} (a : A) s (Q : A -> st -> Prop) R : Q a s -> post (ret a s) Q R.
Proof. intros H; exact H. Qed.
Lemma post_raise {A} e s (Q : A -> st -> Prop) (R : st -> Prop) : R s -> post (@raise A e s) Q R.
Proof. intros H; exact H. Qed.
Lemma post_lift_ok {A} (a : A) s (Q : A -> st -> Prop) R : Q a s -> post (lift (Ok a) s) Q R.
Proof. intros H; exact H. Qed.
Lemma post_modify f s (Q : unit -> st -> Prop) R : Q tt (f s) -> post (modify f s) Q R.
Proof. intros H; exact H. Qed.
Lemma post_gets {A} (f : st -> A) s (Q : A -> st -> Prop) R : Q (f s) s -> post (gets f s) Q R.
Proof. intros H; exact H. Qed.

Lemma post_for {X R} (Inv : N -> X -> st -> Prop) (QR : R -> st -> Prop) (Rx : st -> Prop) (body : N -> X -> M (X + R)) :
  forall k i x s, Inv i x s ->
    (forall j x s, i <= j < i + N.of_nat k -> Inv j x s ->
       post (body j x s) (fun r s' => match r with inl x' => Inv (j + 1) x' s' | inr v => QR v s' end) Rx) ->
    post (for_ k i body x s) (fun r s' => match r with inl x' => Inv (i + N.of_nat k) x' s' | inr v => QR v s' end) Rx.
Proof.
  induction k as [|k IH]; intros i x s Hinv Hbody.
  - cbn. now rewrite N.add_0_r.
  - cbn [for_]. eapply post_bind; [apply Hbody; [lia|exact Hinv]|].
    intros [x'|v] s' H; cbn beta iota.
    + replace (i + N.of_nat (S k)) with (i + 1 + N.of_nat k) by lia.
      apply IH; [assumption|]. intros j x0 s0 Hj. apply Hbody. lia.
    + exact H.
Qed.

(* ---------------------------------------------------------------- the invariant *)

Definition npages (s : st) : N := alen (m_pages s).
Definition valid_ptr (np : N) (p : ptr) : Prop := exists i, p = Some i /\ i < np.

Definition wf_cfg (c : cfg) : Prop :=
  ((c_w c = 8 /\ c_ww c = 3) \/ (c_w c = 16 /\ c_ww c = 4) \/ (c_w c = 32 /\ c_ww c = 5) \/ (c_w c = 64 /\ c_ww c = 6))
  /\ c_mask c < U64.

Definition wf_page (pg : page) : Prop := alen (p_words pg) = PAGE_WORDS /\ p_ve pg <= PAGE_WORDS.
Definition wf_pages (pgs : arr page) : Prop := forall i, i < alen pgs -> wf_page (adat pgs i).

Definition wf_cache (c : cache) (np : N) : Prop :=
  alen (c_key c) = 16 /\ alen (c_page c) = 16 /\ alen (c_words c) = 16 /\ alen (c_vs c) = 16 /\ alen (c_ve c) = 16
  /\ forall k, k < 16 ->
       (adat (c_key c) k <> 0 -> valid_ptr np (adat (c_page c) k))                                        (* a key match returns a live Page* *)
       /\ (adat (c_ve c) k <> 0 -> valid_ptr np (adat (c_words c) k) /\ adat (c_ve c) k <= PAGE_WORDS).    (* a passed range test uses live words *)

Definition wf_sg (g : segt) : Prop :=
  match sg_arr g with None => sg_cap g = 0 /\ sg_sorted g = true | Some a => alen a = sg_cap g end
  /\ sg_count g <= sg_cap g /\ sg_cap g * 16 <= PTRDIFF_MAX.

Definition wf_fl (f : flt) : Prop :=
  match f_arr f with None => f_count f = 0 | Some a => alen a = f_count f /\ f_count f * 8 <= PTRDIFF_MAX end.

Definition wf (s : st) : Prop :=
  wf_cfg (m_cfg s) /\ wf_tbl (valid_ptr (npages s)) (m_tbl s) /\ wf_cache (m_cache s) (npages s)
  /\ wf_sg (m_sg s) /\ wf_fl (m_fl s) /\ wf_pages (m_pages s).

Definition fshape (s : st) : option N := match f_arr (m_fl s) with Some a => Some (alen a) | None => None end.

(* the invariant of everything that runs inside a loop or a callback: n page objects stay allocated,
   the flat array keeps its identity and length, the configuration stays *)
Definition I (n : N) (fo : option N) (c : cfg) (s : st) : Prop := wf s /\ n <= npages s /\ fshape s = fo /\ m_cfg s = c.

Lemma I_weaken n n' fo c s : I n' fo c s -> n <= n' -> I n fo c s.
Proof. unfold I. intuition lia. Qed.

Lemma I_top n fo c s : I n fo c s -> I (npages s) fo c s.
Proof. unfold I. intuition lia. Qed.

Lemma I_ghost n p fo c s : I n fo c s -> p < npages s -> I (N.max n (p + 1)) fo c s.
Proof. unfold I. intuition lia. Qed.

Lemma valid_ptr_mono np np' p : np <= np' -> valid_ptr np p -> valid_ptr np' p.
Proof. intros H [i [-> Hi]]. exists i. split; [reflexivity|lia]. Qed.

Ltac inv_I H := let Hwf := fresh "Hwf" in let Hn := fresh "Hn" in let Hf := fresh "Hf" in let Hc := fresh "Hc" in
  destruct H as (Hwf & Hn & Hf & Hc).
Ltac inv_wf H := let H1 := fresh "Wcfg" in let H2 := fresh "Wtbl" in let H3 := fresh "Wca" in let H4 := fresh "Wsg" in
  let H5 := fresh "Wfl" in let H6 := fresh "Wpg" in destruct H as (H1 & H2 & H3 & H4 & H5 & H6).

(* state updates that leave most of the invariant alone *)
Lemma I_set_err n fo c s b a : I n fo c s -> I n fo c (set_err b a s).
Proof. intros H; exact H. Qed.
Lemma I_set_nalloc n fo c s v : I n fo c s -> I n fo c (set_nalloc v s).
Proof. intros H; exact H. Qed.
Lemma I_set_decided n fo c s v : I n fo c s -> I n fo c (set_decided v s).
Proof. intros H; exact H. Qed.

Lemma I_set_sg n fo c s g : I n fo c s -> wf_sg g -> I n fo c (set_sg g s).
Proof. intros H Hg. unfold I, wf, npages, fshape in *. cbn in *. tauto. Qed.

Lemma I_set_cache n fo c s ca : I n fo c s -> wf_cache ca (npages s) -> I n fo c (set_cache ca s).
Proof. intros H Hg. unfold I, wf, npages, fshape in *. cbn in *. tauto. Qed.

Lemma I_set_tbl n fo c s t : I n fo c s -> wf_tbl (valid_ptr (npages s)) t -> I n fo c (set_tbl t s).
Proof. intros H Hg. unfold I, wf, npages, fshape in *. cbn in *. tauto. Qed.

Lemma I_set_pages n fo c s pgs : I n fo c s -> wf_pages pgs -> alen pgs = alen (m_pages s) -> I n fo c (set_pages pgs s).
Proof. intros H Hg Hl. unfold I, wf, npages, fshape in *. cbn in *. rewrite Hl. tauto. Qed.

(* ---------------------------------------------------------------- allocation *)

Lemma try_alloc_ok al bytes s n fo c :
  I n fo c s -> post (try_alloc al bytes s)
                     (fun ok s' => s' = set_nalloc (m_nalloc s + 1) s /\ I n fo c s' /\ (ok = true -> bytes <= PTRDIFF_MAX)) (I n fo c).
Proof.
  intros H. unfold try_alloc, post. split; [reflexivity|]. split; [exact H|].
  intros Hok. apply andb_true_iff in Hok. destruct Hok as [Hle _]. now apply N.leb_le in Hle.
Qed.

(* ---------------------------------------------------------------- the page heap *)

Lemma deref_page_ok p s n fo c :
  I n fo c s -> p < n -> post (deref_page p s) (fun pg s' => s' = s /\ pg = adat (m_pages s) p /\ wf_page pg) (I n fo c).
Proof.
  intros H Hp. pose proof H as H0. inv_I H. inv_wf Hwf. unfold deref_page. rewrite bind_gets.
  unfold npages in *. rewrite aget_ok by lia. apply post_lift_ok. repeat split; apply Wpg; lia.
Qed.

Lemma wf_pages_upd pgs p pg : wf_pages pgs -> wf_page pg -> wf_pages (aupd pgs p pg).
Proof.
  intros H Hpg i Hi. rewrite aupd_len in Hi. destruct (N.eq_dec i p) as [->|Hne]; [now rewrite aupd_same|].
  rewrite aupd_other by assumption. now apply H.
Qed.

Lemma store_page_ok p pg s n fo c :
  I n fo c s -> p < n -> wf_page pg ->
  post (store_page p pg s) (fun _ s' => I n fo c s' /\ m_tbl s' = m_tbl s /\ npages s' = npages s /\ m_sg s' = m_sg s) (I n fo c).
Proof.
  intros H Hp Hpg. pose proof H as H0. inv_I H. inv_wf Hwf. unfold store_page. rewrite bind_gets.
  unfold npages in *. rewrite aset_ok by lia. rewrite bind_lift_ok. apply post_modify.
  split; [|repeat split; reflexivity].
  apply I_set_pages; [assumption| now apply wf_pages_upd | reflexivity].
Qed.

Lemma page_read_ok p off s n fo c :
  I n fo c s -> p < n -> off < PAGE_WORDS -> post (page_read p off s) (fun v s' => s' = s /\ v < U64) (I n fo c).
Proof.
  intros H Hp Hoff. unfold page_read. eapply post_bind; [apply (deref_page_ok p s n fo c H Hp)|].
  intros pg s' (-> & _ & [Hl _]). rewrite aget_ok by lia. rewrite bind_lift_ok. apply post_ret.
  split; [reflexivity|]. apply N.mod_lt. lia.
Qed.

Lemma page_write_ok p off v s n fo c :
  I n fo c s -> p < n -> off < PAGE_WORDS -> post (page_write p off v s) (fun _ s' => I n fo c s') (I n fo c).
Proof.
  intros H Hp Hoff. unfold page_write. eapply post_bind; [apply (deref_page_ok p s n fo c H Hp)|].
  intros pg s' (-> & _ & [Hl Hve]). rewrite aset_ok by lia. rewrite bind_lift_ok.
  eapply post_weaken; [apply (store_page_ok p _ s n fo c H Hp); split; assumption|cbv beta; intros a s' Hx; apply Hx|auto].
Qed.

Lemma wf_cache_mono ca np np' : np <= np' -> wf_cache ca np -> wf_cache ca np'.
Proof.
  intros Hle (H1 & H2 & H3 & H4 & H5 & H6). do 5 (split; [assumption|]). intros k Hk. destruct (H6 k Hk) as [A B]. split.
  - intros Hkey. eapply valid_ptr_mono; [eassumption|now apply A].
  - intros Hve. destruct (B Hve). split; [eapply valid_ptr_mono; eassumption|assumption].
Qed.

Lemma heap_alloc_ok pg s n fo c :
  I n fo c s -> wf_page pg ->
  post (heap_alloc pg s) (fun p s' => I (N.max n (p + 1)) fo c s' /\ p = npages s /\ npages s' = npages s + 1 /\ m_tbl s' = m_tbl s) (I n fo c).
Proof.
  intros H Hpg. inv_I H. inv_wf Hwf. unfold heap_alloc. rewrite bind_gets, bind_modify. apply post_ret.
  unfold I, wf, npages in *. cbn. split; [|split; [reflexivity|split; reflexivity]]. split; [|split; [lia|split; assumption]].
  split; [assumption|]. split; [|split; [|split; [assumption|split; [assumption|]]]].
  - eapply wf_tbl_mono; [|exact Wtbl]. intros v. apply valid_ptr_mono. lia.
  - eapply wf_cache_mono; [|exact Wca]. lia.
  - intros i Hi. cbn in Hi. cbn. destruct (N.eqb_spec i (alen (m_pages s))); [assumption|]. apply Wpg. lia.
Qed.

(* ---------------------------------------------------------------- segments: sort, binary search, validity *)

Lemma ensure_sorted_ok s n fo c :
  I n fo c s -> post (mem_ensure_segments_sorted s)
                     (fun _ s' => I n fo c s' /\ sg_count (m_sg s') = sg_count (m_sg s) /\ m_tbl s' = m_tbl s /\ m_pages s' = m_pages s) (I n fo c).
Proof.
  intros H. pose proof H as H0. inv_I H. inv_wf Hwf. unfold mem_ensure_segments_sorted. rewrite bind_gets.
  destruct (sg_sorted (m_sg s)) eqn:Hs; [apply post_ret; auto|].
  destruct Wsg as (Ha & Hcnt & Hcap). unfold qsort_checked.
  destruct (sg_arr (m_sg s)) as [a|] eqn:Ea; [|destruct Ha; congruence].
  destruct (N.leb_spec (sg_count (m_sg s)) (alen a)); [|lia]. rewrite bind_lift_ok. apply post_modify.
  split; [|repeat split; reflexivity]. apply I_set_sg; [assumption|]. unfold wf_sg. cbn. auto.
Qed.

Lemma bsearch_ok (a : arr seg) wa cnt :
  cnt <= alen a -> cnt * 16 <= PTRDIFF_MAX ->
  forall fuel lo hi, (0 <= lo)%Z -> (hi < Z.of_N cnt)%Z -> (lo <= hi + 1)%Z -> (hi - lo + 1 < Z.of_nat fuel)%Z ->
    exists b, bsearch fuel a wa lo hi = Ok b.
Proof.
  intros Hlen Hsz. induction fuel as [|fuel IH]; intros lo hi Hlo Hhi Hord Hf.
  - lia.
  - cbn [bsearch]. destruct (Z.leb_spec lo hi) as [Hle|]; [|eauto].
    destruct (Z.ltb_spec (lo + hi) 9223372036854775808); [|lia]. cbn [rbind].
    assert (Hq : (lo <= Z.quot (lo + hi) 2 <= hi)%Z).
    { rewrite Z.quot_div_nonneg by lia. split; [apply Z.div_le_lower_bound|apply Z.div_le_upper_bound]; lia. }
    unfold agetz. destruct (Z.ltb_spec (Z.quot (lo + hi) 2) 0); [lia|].
    rewrite aget_ok by lia. cbn [rbind].
    destruct (wa <? fst (adat a (Z.to_N (Z.quot (lo + hi) 2)))); [apply IH; lia|].
    destruct (snd (adat a (Z.to_N (Z.quot (lo + hi) 2))) <=? wa); [apply IH; lia|eauto].
Qed.

Lemma word_is_valid_ok wa s n fo c :
  I n fo c s -> post (word_is_valid wa s) (fun _ s' => I n fo c s') (I n fo c).
Proof.
  intros H. unfold word_is_valid. rewrite bind_gets.
  eapply post_bind; [apply (ensure_sorted_ok s n fo c H)|]. intros _ s' (H' & Hcnt & _ & _).
  rewrite bind_gets. pose proof H' as H0. inv_I H'. inv_wf Hwf. destruct Wsg as (Ha & Hc1 & Hc2).
  destruct (sg_arr (m_sg s')) as [a|] eqn:Ea; cbn [oarr].
  - destruct (bsearch_ok a wa (sg_count (m_sg s')) ltac:(lia) ltac:(lia) (S (N.to_nat (sg_count (m_sg s')))) 0
                (Z.of_N (sg_count (m_sg s)) - 1) ltac:(lia) ltac:(lia) ltac:(lia) ltac:(lia)) as [b Hb].
    rewrite Hb. now apply post_lift_ok.
  - destruct Ha as [Hcap _]. assert (Hz : sg_count (m_sg s') = 0) by lia. rewrite Hz, <- Hcnt, Hz. cbn. exact H0.
Qed.

Lemma oarr_seg_len (g : segt) : wf_sg g -> sg_count g <= alen (oarr dseg (sg_arr g)).
Proof. intros (Ha & Hc & _). destruct (sg_arr g); cbn; [lia|]. destruct Ha. lia. Qed.

Lemma page_compute_validity_ok pi s n fo c :
  I n fo c s -> post (page_compute_validity pi s)
                     (fun v s' => I n fo c s' /\ snd v <= PAGE_WORDS /\ m_tbl s' = m_tbl s /\ m_pages s' = m_pages s) (I n fo c).
Proof.
  intros H. unfold page_compute_validity.
  eapply post_bind; [apply (ensure_sorted_ok s n fo c H)|]. intros _ s' (H' & _ & Ft & Fp).
  rewrite bind_gets. pose proof H' as H0. inv_I H'. inv_wf Hwf. pose proof (oarr_seg_len _ Wsg) as Hlen.
  eapply post_bind.
  - apply (post_for (fun _ _ s1 => s1 = s') (fun v s1 => s1 = s' /\ snd v <= PAGE_WORDS)); [reflexivity|].
    intros j [] s1 Hj ->. rewrite aget_ok by lia. rewrite bind_lift_ok.
    set (se := adat (oarr dseg (sg_arr (m_sg s'))) j).
    pose proof (ushl_lt pi PAGE_BITS) as Hps. set (ps := ushl pi PAGE_BITS) in *. unfold uadd.
    destruct (N.leb_spec (snd se) ps); cbn [orb]; [apply post_ret; reflexivity|].
    destruct (N.leb_spec ((ps + PAGE_WORDS) mod U64) (fst se)); [apply post_ret; reflexivity|].
    apply post_ret. split; [reflexivity|]. cbn [snd].
    destruct (N.ltb_spec (snd se) ((ps + PAGE_WORDS) mod U64)); lia.
  - intros [[]|v] s1; cbn beta iota.
    + intros ->. apply post_ret. split; [assumption|cbn; split; [lia|split; assumption]].
    + intros [-> Hv]. apply post_ret. split; [assumption|split; [assumption|split; assumption]].
Qed.

Lemma flat_seg_contains_ok wa s n fo c :
  I n fo c s -> post (flat_seg_contains wa s) (fun _ s' => s' = s) (I n fo c).
Proof.
  intros H. unfold flat_seg_contains. rewrite bind_gets. pose proof H as H0. inv_I H. inv_wf Hwf.
  pose proof (oarr_seg_len _ Wsg) as Hlen.
  eapply post_bind.
  - apply (post_for (fun _ _ s1 => s1 = s) (fun _ s1 => s1 = s)); [reflexivity|].
    intros j [] s1 Hj ->. rewrite aget_ok by lia. rewrite bind_lift_ok.
    destruct ((fst _ <=? wa) && (wa <? snd _)); apply post_ret; reflexivity.
  - intros [[]|[]] s1 ->; apply post_ret; reflexivity.
Qed.

(* ---------------------------------------------------------------- the page cache *)

Lemma cache_set_ok cslot key pp pw vs ve s n fo c :
  I n fo c s -> cslot < 16 -> valid_ptr n pp -> valid_ptr n pw -> ve <= PAGE_WORDS ->
  post (cache_set cslot key pp pw vs ve s) (fun _ s' => I n fo c s') (I n fo c).
Proof.
  intros H Hc Hpp Hpw Hve. pose proof H as H0. inv_I H. inv_wf Hwf.
  destruct Wca as (L1 & L2 & L3 & L4 & L5 & Hv).
  unfold cache_set. rewrite bind_gets.
  rewrite !aset_ok by lia. rewrite !bind_lift_ok. apply post_modify. apply I_set_cache; [assumption|].
  unfold wf_cache. cbn [c_key c_page c_words c_vs c_ve].
  split; [exact L1|]. split; [exact L2|]. split; [exact L3|]. split; [exact L4|]. split; [exact L5|].
  intros k Hk. destruct (N.eq_dec k cslot) as [->|Hne].
  - rewrite !aupd_same. split; [intros _|intros _; split]; [eapply valid_ptr_mono; [|eassumption]; assumption..|assumption].
  - rewrite !aupd_other by assumption. apply Hv; assumption.
Qed.

Lemma page_cache_fill_ok cslot key p s n fo c :
  I n fo c s -> cslot < 16 -> p < n ->
  post (page_cache_fill cslot key p s) (fun _ s' => I n fo c s') (I n fo c).
Proof.
  intros H Hc Hp. unfold page_cache_fill. eapply post_bind; [apply (deref_page_ok p s n fo c H Hp)|].
  intros pg s' (-> & _ & [_ Hve]). apply cache_set_ok; try assumption; exists p; split; (reflexivity || assumption).
Qed.

(* ---------------------------------------------------------------- mem_grow_slots, mem_get_page *)

Lemma wf_tbl_new_count (t : tbl ptr) valid : wf_tbl valid t -> exists nc, tbl_new_count 64 t = Ok nc.
Proof.
  unfold wf_tbl, tbl_new_count. destruct (t_slots t).
  - intros [(Hl & _ & _ & Hsz & _) _]. destruct (t_count t =? 0); [eauto|]. unfold nowrap.
    destruct (N.ltb_spec (t_count t * 2) U64); [eauto|lia].
  - intros [-> _]. cbn. eauto.
Qed.

Lemma pow2_64 : pow2 64. Proof. exists 6. reflexivity. Qed.
Lemma pow2_65536 : pow2 65536. Proof. exists 16. reflexivity. Qed.

Lemma mem_grow_slots_ok al ov s n fo c :
  I n fo c s -> t_count (m_tbl s) <= t_used (m_tbl s) * 2 ->
  post (mem_grow_slots al ov s)
       (fun _ s' => I n fo c s' /\ t_used (m_tbl s') * 2 < t_count (m_tbl s') /\ exists a, t_slots (m_tbl s') = Some a) (I n fo c).
Proof.
  intros H Hfull. pose proof H as H0. inv_I H. inv_wf Hwf. unfold mem_grow_slots. rewrite bind_gets.
  destruct (wf_tbl_new_count _ _ Wtbl) as [nc Hnc]. rewrite Hnc, bind_lift_ok.
  eapply post_bind; [apply (try_alloc_ok al (nc * 16) s n fo c H0)|].
  intros ok s' (-> & H' & Hok). destruct ok; [|apply post_raise; assumption].
  destruct (tbl_grow_ok None (valid_ptr (npages s)) ov 64 (m_tbl s) nc Wtbl pow2_64 ltac:(lia) Hnc (Hok eq_refl) Hfull)
    as (t' & Hr & Hwt & Hld & _ & Hsome).
  cbn [m_tbl set_nalloc]. rewrite Hr, bind_lift_ok. apply post_modify. split; [|split; assumption].
  apply I_set_tbl; assumption.
Qed.

Lemma land_15_lt x : N.land x 15 < 16.
Proof. change 15 with (N.ones 4). apply (land_ones_lt x 4). Qed.

Lemma shiftr_page_lt wa : wa < U64 -> N.shiftr wa PAGE_BITS < 1125899906842624.
Proof. intros H. apply (shiftr_lt wa 50 14). exact H. Qed.

Lemma mem_get_page_ok al ov wa s n fo c :
  I n fo c s -> wa < U64 ->
  post (mem_get_page al ov wa s) (fun p s' => I (N.max n (p + 1)) fo c s') (I n fo c).
Proof.
  intros H Hwa. pose proof H as H0. inv_I H. inv_wf Hwf. unfold mem_get_page.
  pose proof (shiftr_page_lt wa Hwa) as Hpi. set (pi := N.shiftr wa PAGE_BITS) in *.
  pose proof (land_15_lt pi) as Hcs. set (cslot := N.land pi 15) in *.
  rewrite (uadd_small pi 1) by lia.
  rewrite bind_gets. pose proof Wca as (L1 & L2 & L3 & L4 & L5 & Hv).
  rewrite aget_ok by lia. rewrite bind_lift_ok.
  destruct (N.eqb_spec (pi + 1) (adat (c_key (m_cache s)) cslot)) as [Hk|Hk].
  - rewrite aget_ok by lia. rewrite bind_lift_ok.
    destruct (proj1 (Hv cslot Hcs) ltac:(lia)) as [p [Hp Hlt]]. rewrite Hp. apply post_ret. now apply I_ghost.
  - rewrite bind_gets.
    (* the load-factor test and the growth *)
    assert (Hu2 : exists u2, tbl_needs_grow (m_tbl s) = Ok (t_count (m_tbl s) <=? u2) /\ u2 = t_used (m_tbl s) * 2).
    { assert (Hlt2 : t_used (m_tbl s) * 2 < U64).
      { unfold wf_tbl in Wtbl. destruct (t_slots (m_tbl s)); [destruct Wtbl as [(_ & _ & _ & Hsz & _) Hld]|destruct Wtbl as [_ Hu0]]; lia. }
      unfold tbl_needs_grow, nowrap. destruct (N.ltb_spec (t_used (m_tbl s) * 2) U64); [|lia]. cbn. eauto. }
    destruct Hu2 as (u2 & -> & ->). rewrite bind_lift_ok.
    eapply (post_bind _ _ _ (fun _ s1 => I n fo c s1 /\ t_used (m_tbl s1) * 2 < t_count (m_tbl s1) /\ exists a, t_slots (m_tbl s1) = Some a)).
    { destruct (N.leb_spec (t_count (m_tbl s)) (t_used (m_tbl s) * 2)) as [Hfull|Hfree].
      - apply mem_grow_slots_ok; assumption.
      - apply post_ret. split; [assumption|]. split; [assumption|].
        unfold wf_tbl in Wtbl. destruct (t_slots (m_tbl s)); [eauto|]. destruct Wtbl. lia. }
    intros _ s1 (H1 & Hld & [a Ha]). rewrite bind_gets.
    pose proof H1 as H1'. inv_I H1. inv_wf Hwf. pose proof Wtbl0 as Wt. unfold wf_tbl in Wt. rewrite Ha in Wt. destruct Wt as [Wsl Hle].
    assert (Hlt1 : t_used (m_tbl s1) < t_count (m_tbl s1)) by lia.
    destruct (tbl_probe_ok None (valid_ptr (npages s1)) ov (m_tbl s1) (pi + 1) a Ha Wsl Hlt1) as [r [Hr Hres]].
    rewrite Hr, bind_lift_ok. destruct r as [h pp|h].
    + destruct Hres as (Hh & Hat & Hkey).
      destruct Wsl as (_ & _ & _ & _ & _ & Hval). specialize (Hval h Hh). unfold ptr in *. rewrite Hat in Hval. cbn in Hval.
      destruct (Hval Hkey) as [p [-> Hp]].
      apply (I_ghost n p fo c s1 H1') in Hp.
      eapply post_bind_w; [apply (page_cache_fill_ok cslot (pi + 1) p s1 _ fo c Hp Hcs); lia|intros s2 Hs2; eapply I_weaken; [exact Hs2|lia]|].
      intros [] s2 H2. apply post_ret. exact H2.
    + destruct Hres as (Hh & Hz).
      eapply post_bind; [apply (try_alloc_ok al 24 s1 n fo c H1')|]. intros ok1 s2 (-> & H2 & _).
      destruct ok1; cbn [negb]; [|apply post_raise; assumption].
      eapply post_bind; [apply (try_alloc_ok al (PAGE_WORDS * 8) _ n fo c H2)|]. intros ok2 s3 (-> & H3 & _).
      destruct ok2; cbn [negb]; [|apply post_raise; assumption].
      eapply post_bind; [apply (page_compute_validity_ok pi _ n fo c H3)|]. intros v s4 (H4 & Hve & Ft & Fp).
      eapply post_bind; [apply (heap_alloc_ok (mkPage (anew PAGE_WORDS 0) (fst v) (snd v)) s4 n fo c H4); split; [reflexivity|exact Hve]|].
      intros p s5 (H5 & Hp5 & Hnp5 & Ft5). rewrite bind_gets.
      assert (Et : m_tbl s5 = m_tbl s1) by (rewrite Ft5, Ft; reflexivity).
      assert (Hnp : npages s5 = npages s1 + 1) by (rewrite Hnp5; unfold npages; rewrite Fp; reflexivity).
      assert (Hp1 : p = npages s1) by (rewrite Hp5; unfold npages; rewrite Fp; reflexivity).
      rewrite Et.
      assert (Wsl5 : wf_slots (valid_ptr (npages s5)) a (t_count (m_tbl s1)) (t_used (m_tbl s1))).
      { destruct Wsl as (A1 & A2 & A3 & A4 & A5 & A6). repeat split; try assumption.
        intros q Hq Hnz. eapply valid_ptr_mono; [|apply A6; assumption]. lia. }
      destruct (tbl_insert_ok None (valid_ptr (npages s5)) (m_tbl s1) a h (pi + 1) (Some p) Ha Wsl5 Hld Hh Hz
                  ltac:(exists p; split; [reflexivity|lia])) as (t' & Hins & Hwt' & _ & _).
      rewrite Hins, bind_lift_ok, bind_modify.
      eapply post_bind_w; [apply (page_cache_fill_ok cslot (pi + 1) p _ _ fo c (I_set_tbl _ _ _ _ _ H5 Hwt') Hcs); lia|intros s6 Hs6; eapply I_weaken; [exact Hs6|lia]|].
      intros [] s6 H6. apply post_ret. exact H6.
Qed.

(* ---------------------------------------------------------------- configuration facts *)

Lemma I_cfg n fo c s : I n fo c s -> wf_cfg c.
Proof. intros (Hwf & _ & _ & <-). apply Hwf. Qed.

Lemma land_w_lt c x : wf_cfg c -> N.land x (usub (c_w c) 1) < 64.
Proof.
  intros [[[-> _]|[[-> _]|[[-> _]|[-> _]]]] _].
  - change (usub 8 1) with (N.ones 3). pose proof (land_ones_lt x 3). change (2 ^ 3) with 8 in H. lia.
  - change (usub 16 1) with (N.ones 4). pose proof (land_ones_lt x 4). change (2 ^ 4) with 16 in H. lia.
  - change (usub 32 1) with (N.ones 5). pose proof (land_ones_lt x 5). change (2 ^ 5) with 32 in H. lia.
  - change (usub 64 1) with (N.ones 6). pose proof (land_ones_lt x 6). change (2 ^ 6) with 64 in H. lia.
Qed.

Lemma shiftr_ww_lt c ba : wf_cfg c -> ba < U64 -> N.shiftr ba (c_ww c) < 2305843009213693952.
Proof.
  intros [[[_ ->]|[[_ ->]|[[_ ->]|[_ ->]]]] _] H.
  - apply (shiftr_lt ba 61 3). exact H.
  - pose proof (shiftr_lt ba 60 4 H). change (2 ^ 60) with 1152921504606846976 in H0. lia.
  - pose proof (shiftr_lt ba 59 5 H). change (2 ^ 59) with 576460752303423488 in H0. lia.
  - pose proof (shiftr_lt ba 58 6 H). change (2 ^ 58) with 288230376151711744 in H0. lia.
Qed.

Lemma shl1_ok c x : wf_cfg c -> exists b, shl1 (N.land x (usub (c_w c) 1)) = Ok b.
Proof. intros H. unfold shl1. pose proof (land_w_lt c x H). destruct (N.ltb_spec (N.land x (usub (c_w c) 1)) 64); [eauto|lia]. Qed.

Lemma land_mask_lt c x : wf_cfg c -> N.land x (c_mask c) < U64.
Proof. intros [_ H]. rewrite N.land_comm. apply (land_lt_l (c_mask c) x 64). exact H. Qed.

(* ---------------------------------------------------------------- the flat array *)

Lemma I_set_fl n fo c s f : I n fo c s -> wf_fl f -> match f_arr f with Some a => Some (alen a) | None => None end = fo -> I n fo c (set_fl f s).
Proof. intros H Hg Hs. unfold I, wf, npages, fshape in *. cbn in *. tauto. Qed.

Lemma flat_shape n fc c s : I n (Some fc) c s -> exists a, f_arr (m_fl s) = Some a /\ alen a = fc /\ f_count (m_fl s) = fc.
Proof.
  intros H. inv_I H. inv_wf Hwf. unfold fshape, wf_fl in *. destruct (f_arr (m_fl s)) as [a|]; [|discriminate].
  injection Hf as <-. exists a. intuition.
Qed.

Lemma flat_has_ok wa s n fo c :
  I n fo c s -> post (flat_has wa s) (fun h s' => s' = s /\ (h = true -> exists fc, fo = Some fc /\ wa < fc)) (I n fo c).
Proof.
  intros H. unfold flat_has. rewrite bind_gets. apply post_ret. split; [reflexivity|].
  inv_I H. inv_wf Hwf. unfold fshape, wf_fl in *. destruct (f_arr (m_fl s)) as [a|]; [|discriminate].
  intros Hlt. apply N.ltb_lt in Hlt. exists (alen a). split; [congruence|]. destruct Wfl. lia.
Qed.

Lemma flat_read_ok wa s n fc c :
  I n (Some fc) c s -> wa < fc -> post (flat_read wa s) (fun v s' => s' = s /\ v < U64) (I n (Some fc) c).
Proof.
  intros H Hwa. destruct (flat_shape _ _ _ _ H) as (a & Ha & Hl & _). unfold flat_read. rewrite bind_gets, Ha, bind_lift_ok.
  rewrite aget_ok by lia. rewrite bind_lift_ok. apply post_ret. split; [reflexivity|apply N.mod_lt; lia].
Qed.

Lemma flat_write_ok wa v s n fc c :
  I n (Some fc) c s -> wa < fc -> post (flat_write wa v s) (fun _ s' => I n (Some fc) c s') (I n (Some fc) c).
Proof.
  intros H Hwa. destruct (flat_shape _ _ _ _ H) as (a & Ha & Hl & Hcn). unfold flat_write. rewrite bind_gets, Ha, bind_lift_ok.
  rewrite aset_ok by lia. rewrite bind_lift_ok. apply post_modify. apply I_set_fl; [assumption| |cbn; congruence].
  inv_I H. inv_wf Hwf. unfold wf_fl in *. rewrite Ha in Wfl. cbn. exact Wfl.
Qed.

Lemma flat_garbage_ok ov wa s n fo c : I n fo c s -> post (flat_garbage ov wa s) (fun _ s' => I n fo c s') (I n fo c).
Proof.
  intros H. unfold flat_garbage. rewrite bind_gets. destruct (negb (c_gstop (m_cfg s))); [apply post_ret; assumption|].
  unfold set_error. rewrite bind_modify. apply post_ret. now apply I_set_err.
Qed.

Lemma flat_garbage_check_ok ov wa v s n fo c :
  I n fo c s -> v < U64 ->
  post (flat_garbage_check ov wa v s) (fun r s' => I n fo c s' /\ forall x, r = Some x -> x < U64) (I n fo c).
Proof.
  intros H Hv. unfold flat_garbage_check. rewrite bind_gets.
  eapply (post_bind _ _ _ (fun _ s' => s' = s)).
  { destruct (32 <? c_w (m_cfg s)); [apply (flat_seg_contains_ok wa s n fo c H)|apply post_ret; reflexivity]. }
  intros inseg s' ->. destruct inseg; [apply post_ret; split; [assumption|intros x [= <-]; assumption]|].
  eapply post_bind; [apply (flat_garbage_ok ov wa s n fo c H)|]. intros g s' H'.
  destruct g; apply post_ret; (split; [assumption|]); intros x [= <-]; lia.
Qed.

Lemma flat_value_ok ov wa s n fc c :
  I n (Some fc) c s -> wa < fc ->
  post (flat_value ov wa s) (fun r s' => I n (Some fc) c s' /\ forall x, r = Some x -> x < U64) (I n (Some fc) c).
Proof.
  intros H Hwa. unfold flat_value. rewrite bind_gets.
  eapply post_bind; [apply (flat_read_ok wa s n fc c H Hwa)|]. intros v s' [-> Hv].
  destruct (flat_is_garbage (m_cfg s) v); [now apply flat_garbage_check_ok|].
  apply post_ret. split; [assumption|intros x [= <-]; assumption].
Qed.

(* ---------------------------------------------------------------- page-backed access *)

Lemma access_check_ok ov p wa s n fo c :
  I n fo c s -> p < n -> post (access_check ov p wa s) (fun _ s' => I n fo c s') (I n fo c).
Proof.
  intros H Hp. unfold access_check. eapply post_bind; [apply (deref_page_ok p s n fo c H Hp)|].
  intros pg s' (-> & _ & _). destruct ((p_vs pg <=? N.land wa PAGE_MASK) && (N.land wa PAGE_MASK <? p_ve pg)); [apply post_ret; assumption|].
  eapply post_bind; [apply (word_is_valid_ok wa s n fo c H)|]. intros v s' H'.
  destruct v; [apply post_ret; assumption|]. rewrite bind_gets.
  destruct (negb (c_gstop (m_cfg s'))); [apply post_ret; assumption|].
  unfold set_error. rewrite bind_modify. apply post_ret. now apply I_set_err.
Qed.

Definition Iopt n fo c (r : option N) (s : st) : Prop :=
  match r with Some p => I (N.max n (p + 1)) fo c s | None => I n fo c s end.

Lemma paged_access_ok al ov wa s n fo c :
  I n fo c s -> wa < U64 -> post (paged_access al ov wa s) (Iopt n fo c) (I n fo c).
Proof.
  intros H Hwa. unfold paged_access. eapply post_bind; [apply (mem_get_page_ok al ov wa s n fo c H Hwa)|].
  intros p s' H'. eapply post_bind_w; [apply (access_check_ok ov p wa s' _ fo c H'); lia|intros s2 H2; eapply I_weaken; [exact H2|lia]|].
  intros okc s2 H2. destruct okc; apply post_ret; cbn; [assumption|]. eapply I_weaken; [exact H2|lia].
Qed.

Lemma land_page_mask_lt x : N.land x PAGE_MASK < PAGE_WORDS.
Proof. change PAGE_MASK with (N.ones 14). apply (land_ones_lt x 14). Qed.

Definition Ival n fo c (r : option N) (s : st) : Prop := I n fo c s /\ forall x, r = Some x -> x < U64.

Lemma mem_read_word_ok al ov wa s n fo c :
  I n fo c s -> wa < U64 -> post (mem_read_word al ov wa s) (Ival n fo c) (I n fo c).
Proof.
  intros H Hwa. unfold mem_read_word. eapply post_bind; [apply (flat_has_ok wa s n fo c H)|].
  intros h s' [-> Hh]. destruct h.
  - destruct (Hh eq_refl) as (fc & -> & Hlt). now apply flat_value_ok.
  - eapply post_bind; [apply (paged_access_ok al ov wa s n fo c H Hwa)|]. intros [p|] s' H'; cbn in H'.
    + eapply post_bind_w; [apply (page_read_ok p (N.land wa PAGE_MASK) s' _ fo c H'); [lia|apply land_page_mask_lt]|intros s2 H2; eapply I_weaken; [exact H2|lia]|].
      intros v s2 [-> Hv]. apply post_ret. split; [eapply I_weaken; [exact H'|lia]|intros x [= <-]; assumption].
    + apply post_ret. split; [assumption|discriminate].
Qed.

Lemma mem_flip_bit_ok al ov ba s n fo c :
  I n fo c s -> ba < U64 -> post (mem_flip_bit al ov ba s) (fun _ s' => I n fo c s') (I n fo c).
Proof.
  intros H Hba. pose proof (I_cfg _ _ _ _ H) as Wc. pose proof H as (_ & _ & _ & Ec).
  unfold mem_flip_bit. rewrite bind_gets, Ec.
  destruct (shl1_ok c ba Wc) as [bit ->]. rewrite bind_lift_ok.
  pose proof (shiftr_ww_lt c ba Wc Hba) as Hwa. set (wa := N.shiftr ba (c_ww c)) in *.
  eapply post_bind; [apply (flat_has_ok wa s n fo c H)|].
  intros h s' [-> Hh]. destruct h.
  - destruct (Hh eq_refl) as (fc & -> & Hlt).
    eapply post_bind; [apply (flat_value_ok ov wa s n fc c H Hlt)|]. intros [v|] s' [H' _]; [|apply post_ret; assumption].
    eapply post_bind; [apply (flat_write_ok wa _ s' n fc c H' Hlt)|]. intros [] s2 H2. apply post_ret. assumption.
  - eapply post_bind; [apply (paged_access_ok al ov wa s n fo c H); lia|]. intros [p|] s' H'; cbn in H'; [|apply post_ret; assumption].
    eapply post_bind_w; [apply (page_read_ok p (N.land wa PAGE_MASK) s' _ fo c H'); [lia|apply land_page_mask_lt]|intros s2 H2; eapply I_weaken; [exact H2|lia]|].
    intros v s2 [-> Hv].
    eapply post_bind_w; [apply (page_write_ok p (N.land wa PAGE_MASK) (N.lxor v bit) s' _ fo c H'); [lia|apply land_page_mask_lt]|intros s2 H2; eapply I_weaken; [exact H2|lia]|].
    intros [] s2 H2. apply post_ret. eapply I_weaken; [exact H2|lia].
Qed.

Lemma mem_write_bit_ok al ov ba b s n fo c :
  I n fo c s -> ba < U64 -> post (mem_write_bit al ov ba b s) (fun _ s' => I n fo c s') (I n fo c).
Proof.
  intros H Hba. pose proof (I_cfg _ _ _ _ H) as Wc. pose proof H as (_ & _ & _ & Ec).
  unfold mem_write_bit. rewrite bind_gets, Ec.
  destruct (shl1_ok c ba Wc) as [bit ->]. rewrite bind_lift_ok.
  pose proof (shiftr_ww_lt c ba Wc Hba) as Hwa. set (wa := N.shiftr ba (c_ww c)) in *.
  eapply post_bind; [apply (flat_has_ok wa s n fo c H)|].
  intros h s' [-> Hh]. destruct h.
  - destruct (Hh eq_refl) as (fc & -> & Hlt).
    eapply post_bind; [apply (flat_value_ok ov wa s n fc c H Hlt)|]. intros [v|] s' [H' _]; [|apply post_ret; assumption].
    eapply post_bind; [apply (flat_write_ok wa _ s' n fc c H' Hlt)|]. intros [] s2 H2. apply post_ret. assumption.
  - eapply post_bind; [apply (paged_access_ok al ov wa s n fo c H); lia|]. intros [p|] s' H'; cbn in H'; [|apply post_ret; assumption].
    eapply post_bind_w; [apply (page_read_ok p (N.land wa PAGE_MASK) s' _ fo c H'); [lia|apply land_page_mask_lt]|intros s2 H2; eapply I_weaken; [exact H2|lia]|].
    intros v s2 [-> Hv].
    eapply post_bind_w; [apply (page_write_ok p (N.land wa PAGE_MASK) _ s' _ fo c H'); [lia|apply land_page_mask_lt]|intros s2 H2; eapply I_weaken; [exact H2|lia]|].
    intros [] s2 H2. apply post_ret. eapply I_weaken; [exact H2|lia].
Qed.

Lemma mem_get_word_unaligned_ok al ov ba s n fo c :
  I n fo c s -> ba < U64 -> post (mem_get_word_unaligned al ov ba s) (Ival n fo c) (I n fo c).
Proof.
  intros H Hba. pose proof (I_cfg _ _ _ _ H) as Wc. pose proof H as (_ & _ & _ & Ec).
  unfold mem_get_word_unaligned. rewrite bind_gets, Ec.
  pose proof (shiftr_ww_lt c ba Wc Hba) as Hwa. set (wa := N.shiftr ba (c_ww c)) in *.
  destruct (N.land ba (usub (c_w c) 1) =? 0); [apply mem_read_word_ok; [assumption|lia]|].
  destruct (wa =? c_mask c).
  { unfold set_error. rewrite bind_modify. apply post_ret. split; [now apply I_set_err|discriminate]. }
  eapply post_bind; [apply (mem_read_word_ok al ov wa s n fo c H); lia|]. intros [lsw|] s1 [H1 _]; [|apply post_ret; split; [assumption|discriminate]].
  unfold nowrap. destruct (N.ltb_spec (wa + 1) U64); [|lia]. rewrite bind_lift_ok.
  eapply post_bind; [apply (mem_read_word_ok al ov (wa + 1) s1 n fo c H1); lia|]. intros [msw|] s2 [H2 _]; [|apply post_ret; split; [assumption|discriminate]].
  apply post_ret. split; [assumption|]. intros x [= <-]. now apply land_mask_lt.
Qed.
