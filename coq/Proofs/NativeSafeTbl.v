From FJ Require Import Lib.Base Lib.Bits Model.NativeSafe.
(* C11 - arrays, u64 arithmetic and the open-addressing tables: the probe loops terminate within slot_count steps
   and stay in range because the load factor stays below 1/2. *)
Local Open Scope N_scope.

(* ---------------------------------------------------------------- arithmetic *)

Lemma usub_small a b : b <= a -> a < U64 -> usub a b = a - b.
Proof. intros. unfold usub. rewrite (N.mod_small b) by lia. replace (a + U64 - b) with (a - b + 1 * U64) by lia. rewrite N.mod_add by lia. apply N.mod_small. lia. Qed.

Lemma uadd_small a b : a + b < U64 -> uadd a b = a + b.
Proof. intros. unfold uadd. now apply N.mod_small. Qed.

Lemma uadd_lt a b : uadd a b < U64.
Proof. unfold uadd. apply N.mod_lt. lia. Qed.

Lemma usub_lt a b : usub a b < U64.
Proof. unfold usub. apply N.mod_lt. lia. Qed.

Lemma ushl_lt a b : ushl a b < U64.
Proof. unfold ushl. apply N.mod_lt. lia. Qed.

Lemma wrapv_lt ov x v : wrapv ov x v < U64.
Proof. unfold wrapv. destruct (N.ltb_spec v U64); [assumption|]. apply N.mod_lt. lia. Qed.

Definition pow2 (n : N) := exists k, n = 2 ^ k.

Lemma land_pow2_lt x n : pow2 n -> n < U64 -> N.land x (usub n 1) < n.
Proof.
  intros [k ->] Hn. assert (0 < 2 ^ k) by (apply N.neq_0_lt_0; now apply N.pow_nonzero).
  rewrite usub_small by lia. replace (2 ^ k - 1) with (N.ones k) by (rewrite N.ones_equiv; lia).
  apply land_ones_lt.
Qed.

Lemma land_pow2_mod x n : pow2 n -> n < U64 -> N.land x (usub n 1) = x mod n.
Proof.
  intros [k ->] Hn. assert (0 < 2 ^ k) by (apply N.neq_0_lt_0; now apply N.pow_nonzero).
  rewrite usub_small by lia. replace (2 ^ k - 1) with (N.ones k) by (rewrite N.ones_equiv; lia).
  apply N.land_ones.
Qed.

Lemma pow2_even n : pow2 n -> 2 <= n -> exists m, n = 2 * m.
Proof.
  intros [k ->] H. destruct k as [|k] using N.peano_ind. { cbn in H. lia. }
  exists (2 ^ k). now rewrite N.pow_succ_r'.
Qed.

Lemma pow2_double n : pow2 n -> pow2 (n * 2).
Proof. intros [k ->]. exists (N.succ k). rewrite N.pow_succ_r'. lia. Qed.

(* ---------------------------------------------------------------- arrays *)

Lemma aget_ok {A} x (a : arr A) i : i < alen a -> aget x a i = Ok (adat a i).
Proof. intros H. unfold aget. destruct (N.ltb_spec i (alen a)); [reflexivity|lia]. Qed.

Lemma aset_ok {A} x (a : arr A) i v : i < alen a -> aset x a i v = Ok (aupd a i v).
Proof. intros H. unfold aset. destruct (N.ltb_spec i (alen a)); [reflexivity|lia]. Qed.

Lemma aupd_len {A} (a : arr A) i v : alen (aupd a i v) = alen a.
Proof. reflexivity. Qed.

Lemma aupd_same {A} (a : arr A) i v : adat (aupd a i v) i = v.
Proof. cbn. now rewrite N.eqb_refl. Qed.

Lemma aupd_other {A} (a : arr A) i j v : j <> i -> adat (aupd a i v) j = adat a j.
Proof. intros H. cbn. destruct (N.eqb_spec j i); [contradiction|reflexivity]. Qed.

(* ---------------------------------------------------------------- tables *)

Section TableProofs.
  Context {V : Type} (dflt : V) (valid : V -> Prop).

  Definition occ_ok (a : arr (N * V)) (cnt : N) (occ : list N) : Prop :=
    NoDup occ /\ forall p, In p occ <-> (p < cnt /\ fst (adat a p) <> 0).

  Definition wf_slots (a : arr (N * V)) (cnt used : N) : Prop :=
    alen a = cnt /\ pow2 cnt /\ 2 <= cnt /\ cnt * 16 <= PTRDIFF_MAX
    /\ (exists occ, occ_ok a cnt occ /\ N.of_nat (length occ) <= used)
    /\ (forall p, p < cnt -> fst (adat a p) <> 0 -> valid (snd (adat a p))).

  Definition wf_tbl (t : tbl V) : Prop :=
    match t_slots t with
    | None => t_count t = 0 /\ t_used t = 0
    | Some a => wf_slots a (t_count t) (t_used t) /\ t_used t * 2 <= t_count t
    end.

  (* a table with fewer occupied slots than slots has an empty slot *)
  Lemma nseq_length k i : length (nseq k i) = k.
  Proof. revert i; induction k; intros; cbn; [reflexivity|now rewrite IHk]. Qed.

  Lemma nseq_in k i p : In p (nseq k i) <-> i <= p < i + N.of_nat k.
  Proof.
    revert i; induction k; intros; cbn [nseq In].
    - lia.
    - rewrite IHk. lia.
  Qed.

  Lemma nseq_nodup k i : NoDup (nseq k i).
  Proof.
    revert i; induction k; intros; cbn; constructor.
    - rewrite nseq_in. lia.
    - apply IHk.
  Qed.

  Lemma has_empty (a : arr (N * V)) cnt occ : occ_ok a cnt occ -> N.of_nat (length occ) < cnt -> exists p, p < cnt /\ fst (adat a p) = 0.
  Proof.
    intros [Hnd Hin] Hlen.
    destruct (List.existsb (fun p => fst (adat a p) =? 0) (nseq (N.to_nat cnt) 0)) eqn:E.
    - apply existsb_exists in E. destruct E as [p [Hp Hz]]. apply nseq_in in Hp. apply N.eqb_eq in Hz. exists p. split; [lia|assumption].
    - exfalso.
      assert (Hall : incl (nseq (N.to_nat cnt) 0) occ).
      { intros p Hp. apply Hin. pose proof Hp as Hp'. apply nseq_in in Hp'. split; [lia|].
        intros Hz. assert (List.existsb (fun p => fst (adat a p) =? 0) (nseq (N.to_nat cnt) 0) = true).
        { apply existsb_exists. exists p. split; [assumption|]. now apply N.eqb_eq. }
        congruence. }
      apply (NoDup_incl_length (nseq_nodup _ _)) in Hall. rewrite nseq_length in Hall. lia.
  Qed.

  Lemma next_slot_mod h cnt : pow2 cnt -> 2 <= cnt -> cnt < U64 -> h < cnt -> next_slot h cnt = (h + 1) mod cnt.
  Proof. intros. unfold next_slot. rewrite uadd_small by lia. now apply land_pow2_mod. Qed.

  Lemma hash_lt ov key cnt : pow2 cnt -> cnt < U64 -> hash ov key cnt < cnt.
  Proof. intros. unfold hash. now apply land_pow2_lt. Qed.

  Lemma walk_mod h0 k cnt : 0 < cnt -> ((h0 + k) mod cnt + 1) mod cnt = (h0 + (k + 1)) mod cnt.
  Proof. intros. rewrite N.add_mod_idemp_l by lia. f_equal. lia. Qed.

  (* every position is reached from h0 within cnt steps *)
  Lemma walk_covers h0 p cnt : h0 < cnt -> p < cnt -> exists i, i < cnt /\ (h0 + i) mod cnt = p.
  Proof.
    intros. destruct (N.le_gt_cases h0 p).
    - exists (p - h0). split; [lia|]. replace (h0 + (p - h0)) with p by lia. now apply N.mod_small.
    - exists (p + cnt - h0). split; [lia|]. replace (h0 + (p + cnt - h0)) with (p + 1 * cnt) by lia.
      rewrite N.mod_add by lia. now apply N.mod_small.
  Qed.

  Lemma probe_find_ok (a : arr (N * V)) cnt key h0 :
    alen a = cnt -> pow2 cnt -> 2 <= cnt -> cnt < U64 -> h0 < cnt ->
    (exists p, p < cnt /\ fst (adat a p) = 0) ->
    forall fuel k, N.of_nat fuel + k = cnt ->
      (forall i, i < k -> fst (adat a ((h0 + i) mod cnt)) <> 0) ->
      exists r, probe_find fuel a cnt key ((h0 + k) mod cnt) = Ok r /\
                match r with
                | Found h v => h < cnt /\ adat a h = (key, v) /\ key <> 0
                | Empty h => h < cnt /\ fst (adat a h) = 0
                end.
  Proof.
    intros Hlen Hp2 H2 H64 Hh0 [pe [Hpe Hze]].
    induction fuel as [|fuel IH]; intros k Hk Hvis.
    - exfalso. destruct (walk_covers h0 pe cnt Hh0 Hpe) as [i [Hi Heq]].
      apply (Hvis i); [cbn in Hk; lia|]. now rewrite Heq.
    - assert (Hlt : (h0 + k) mod cnt < cnt) by (apply N.mod_lt; lia).
      cbn [probe_find]. rewrite aget_ok by lia. cbn [rbind].
      destruct (N.eqb_spec (fst (adat a ((h0 + k) mod cnt))) 0) as [Hz|Hnz].
      + eexists; split; [reflexivity|]. split; assumption.
      + destruct (N.eqb_spec (fst (adat a ((h0 + k) mod cnt))) key) as [Hk'|Hnk].
        * eexists; split; [reflexivity|]. split; [assumption|]. split; [|congruence].
          destruct (adat a ((h0 + k) mod cnt)); cbn in *; congruence.
        * rewrite next_slot_mod by assumption. rewrite walk_mod by lia.
          apply IH; [lia|]. intros i Hi. destruct (N.eq_dec i k) as [->|]; [assumption|]. apply Hvis. lia.
  Qed.

  Lemma probe_empty_ok x (a : arr (N * V)) cnt h0 :
    alen a = cnt -> pow2 cnt -> 2 <= cnt -> cnt < U64 -> h0 < cnt ->
    (exists p, p < cnt /\ fst (adat a p) = 0) ->
    forall fuel k, N.of_nat fuel + k = cnt ->
      (forall i, i < k -> fst (adat a ((h0 + i) mod cnt)) <> 0) ->
      exists h, probe_empty fuel x a cnt ((h0 + k) mod cnt) = Ok h /\ h < cnt /\ fst (adat a h) = 0.
  Proof.
    intros Hlen Hp2 H2 H64 Hh0 [pe [Hpe Hze]].
    induction fuel as [|fuel IH]; intros k Hk Hvis.
    - exfalso. destruct (walk_covers h0 pe cnt Hh0 Hpe) as [i [Hi Heq]].
      apply (Hvis i); [cbn in Hk; lia|]. now rewrite Heq.
    - assert (Hlt : (h0 + k) mod cnt < cnt) by (apply N.mod_lt; lia).
      cbn [probe_empty]. rewrite aget_ok by lia. cbn [rbind].
      destruct (N.eqb_spec (fst (adat a ((h0 + k) mod cnt))) 0) as [Hz|Hnz].
      + eexists; split; [reflexivity|]. split; assumption.
      + rewrite next_slot_mod by assumption. rewrite walk_mod by lia.
        apply IH; [lia|]. intros i Hi. destruct (N.eq_dec i k) as [->|]; [assumption|]. apply Hvis. lia.
  Qed.

  (* C11_probe_terminates, table level: with slots_used * 2 < slot_count the lookup probe finishes within its fuel *)
  Lemma tbl_probe_ok ov t key a :
    t_slots t = Some a -> wf_slots a (t_count t) (t_used t) -> t_used t < t_count t ->
    exists r, tbl_probe dflt ov t key = Ok r /\
              match r with
              | Found h v => h < t_count t /\ adat a h = (key, v) /\ key <> 0
              | Empty h => h < t_count t /\ fst (adat a h) = 0
              end.
  Proof.
    intros Hs (Hlen & Hp2 & H2 & Hsz & [occ [Hocc Hl]] & _) Hload.
    unfold tbl_probe. rewrite Hs. cbn [oarr].
    assert (H64 : t_count t < U64) by lia.
    pose proof (hash_lt ov key (t_count t) Hp2 H64) as Hh.
    pose proof (probe_find_ok a (t_count t) key (hash ov key (t_count t)) Hlen Hp2 H2 H64 Hh
                  (has_empty a _ occ Hocc ltac:(lia)) (N.to_nat (t_count t)) 0 ltac:(lia) ltac:(intros; lia)) as H.
    rewrite N.add_0_r, N.mod_small in H by assumption. exact H.
  Qed.

  (* inserting a key at an empty slot *)
  Lemma occ_insert (a : arr (N * V)) cnt occ h key v :
    occ_ok a cnt occ -> h < cnt -> fst (adat a h) = 0 ->
    exists occ', occ_ok (aupd a h (key, v)) cnt occ' /\ (length occ' <= S (length occ))%nat.
  Proof.
    intros [Hnd Hin] Hh Hz.
    destruct (N.eq_dec key 0) as [->|Hk].
    - exists occ. split; [|lia]. split; [assumption|]. intros p. rewrite Hin.
      destruct (N.eq_dec p h) as [->|Hne]; [rewrite aupd_same; cbn; intuition congruence|now rewrite aupd_other].
    - exists (h :: occ). split; [|cbn; lia]. split.
      + constructor; [|assumption]. rewrite Hin. intuition.
      + intros p. cbn [In]. rewrite Hin.
        destruct (N.eq_dec p h) as [->|Hne]; [rewrite aupd_same; cbn; intuition|rewrite aupd_other by assumption; intuition congruence].
  Qed.

  Lemma tbl_insert_ok t a h key v :
    t_slots t = Some a -> wf_slots a (t_count t) (t_used t) -> t_used t * 2 < t_count t ->
    h < t_count t -> fst (adat a h) = 0 -> valid v ->
    exists t', tbl_insert dflt t h key v = Ok t' /\ wf_tbl t' /\ t_count t' = t_count t /\ t_used t' = t_used t + 1.
  Proof.
    intros Hs (Hlen & Hp2 & H2 & Hsz & [occ [Hocc Hl]] & Hval) Hload Hh Hz Hv.
    unfold tbl_insert. rewrite Hs. cbn [oarr]. rewrite aset_ok by lia. cbn [rbind].
    unfold nowrap. destruct (N.ltb_spec (t_used t + 1) U64); [|lia]. cbn [rbind].
    eexists; split; [reflexivity|]. cbn. split; [|split; reflexivity].
    destruct (pow2_even _ Hp2 H2) as [m Hm].
    split; [|lia]. repeat split; try assumption.
    - destruct (occ_insert a _ occ h key v Hocc Hh Hz) as [occ' [Hocc' Hl']]. exists occ'. split; [assumption|lia].
    - intros p Hp. destruct (N.eq_dec p h) as [->|Hne]; [rewrite aupd_same; cbn; intros; assumption|rewrite aupd_other by assumption; now apply Hval].
  Qed.

  (* overwriting the payload of an occupied slot *)
  Lemma tbl_set_val_ok t a h key v v0 :
    t_slots t = Some a -> wf_slots a (t_count t) (t_used t) -> t_used t * 2 <= t_count t ->
    h < t_count t -> adat a h = (key, v0) -> key <> 0 -> valid v ->
    exists t', tbl_set_val dflt t h key v = Ok t' /\ wf_tbl t'.
  Proof.
    intros Hs (Hlen & Hp2 & H2 & Hsz & [occ [[Hnd Hin] Hl]] & Hval) Hload Hh Hat Hk Hv.
    unfold tbl_set_val. rewrite Hs. cbn [oarr]. rewrite aset_ok by lia. cbn [rbind].
    eexists; split; [reflexivity|]. cbn. split; [|assumption]. repeat split; try assumption.
    - exists occ. split; [|assumption]. split; [assumption|]. intros p. rewrite Hin.
      destruct (N.eq_dec p h) as [->|Hne]; [rewrite aupd_same, Hat; cbn; intuition|now rewrite aupd_other].
    - intros p Hp. destruct (N.eq_dec p h) as [->|Hne]; [rewrite aupd_same; cbn; intros; assumption|rewrite aupd_other by assumption; now apply Hval].
  Qed.

  Lemma filter_lt_mono (l : list N) (i : N) :
    (length (filter (fun p => N.ltb p i) l) <= length (filter (fun p => N.ltb p (N.add i 1)) l))%nat.
  Proof.
    induction l as [|x l IH]; cbn; [lia|].
    destruct (N.ltb_spec x i), (N.ltb_spec x (i + 1)); cbn; lia.
  Qed.

  Lemma filter_lt_step (l : list N) (i : N) :
    NoDup l -> In i l -> (S (length (filter (fun p => N.ltb p i) l)) <= length (filter (fun p => N.ltb p (N.add i 1)) l))%nat.
  Proof.
    induction l as [|x l IH]; intros Hnd Hin; [destruct Hin|].
    inversion Hnd; subst. cbn [filter].
    destruct (N.eq_dec x i) as [->|Hne].
    - destruct (N.ltb_spec i i); [lia|]. destruct (N.ltb_spec i (i + 1)); [|lia]. cbn. pose proof (filter_lt_mono l i). lia.
    - destruct Hin as [|Hin]; [congruence|]. specialize (IH H2 Hin).
      destruct (N.ltb_spec x i), (N.ltb_spec x (i + 1)); cbn; lia.
  Qed.

  Lemma filter_length_le {A} (f : A -> bool) l : (length (filter f l) <= length l)%nat.
  Proof. induction l; cbn; [lia|]. destruct (f a); cbn; lia. Qed.

  (* the rehash loop of mem_grow_slots / spec_grow: it inserts one entry per occupied old slot *)
  Lemma rehash_loop_ok ov old nc ocnt oocc :
    alen old = ocnt -> pow2 nc -> 2 <= nc -> nc < U64 -> ocnt < nc -> occ_ok old ocnt oocc ->
    (forall p, p < ocnt -> fst (adat old p) <> 0 -> valid (snd (adat old p))) ->
    forall k i new occ,
      i + N.of_nat k = ocnt -> alen new = nc -> occ_ok new nc occ ->
      (length occ <= length (filter (fun p => N.ltb p i) oocc))%nat ->
      (forall p, p < nc -> fst (adat new p) <> 0 -> valid (snd (adat new p))) ->
      exists new' occ', rehash_loop k i ov old new nc = Ok new' /\ alen new' = nc /\ occ_ok new' nc occ'
                        /\ (length occ' <= length oocc)%nat
                        /\ (forall p, p < nc -> fst (adat new' p) <> 0 -> valid (snd (adat new' p))).
  Proof.
    intros Hol Hp2 H2 H64 Hlt Hoo Hvo.
    assert (Hbound : forall i, N.of_nat (length (filter (fun p => p <? i) oocc)) <= ocnt).
    { intros i. pose proof (filter_length_le (fun p => p <? i) oocc).
      assert (N.of_nat (length oocc) <= ocnt); [|lia].
      destruct Hoo as [Hnd Hin]. assert (Hincl : incl oocc (nseq (N.to_nat ocnt) 0)).
      { intros p Hp. apply nseq_in. apply Hin in Hp. lia. }
      apply (NoDup_incl_length Hnd) in Hincl. rewrite nseq_length in Hincl. lia. }
    induction k as [|k IH]; intros i new occ Hi Hnl Hocc Hl Hvn.
    - cbn. exists new, occ. split; [reflexivity|]. split; [assumption|]. split; [assumption|]. split; [|assumption].
      pose proof (filter_length_le (fun p => p <? i) oocc). lia.
    - cbn [rehash_loop]. rewrite aget_ok by lia. cbn [rbind].
      destruct (N.eqb_spec (fst (adat old i)) 0) as [Hz|Hnz].
      + cbn [rbind]. apply (IH (i + 1) new occ); try assumption; try lia.
        pose proof (filter_lt_mono oocc i). lia.
      + pose proof (hash_lt ov (fst (adat old i)) nc Hp2 H64) as Hh.
        assert (Hio : In i oocc) by (apply Hoo; split; [lia|assumption]).
        pose proof (filter_lt_step oocc i (proj1 Hoo) Hio) as Hstep.
        pose proof (Hbound (i + 1)) as Hb.
        destruct (probe_empty_ok S_new_slots new nc (hash ov (fst (adat old i)) nc) Hnl Hp2 H2 H64 Hh
                    (has_empty new nc occ Hocc ltac:(lia)) (N.to_nat nc) 0 ltac:(lia) ltac:(intros; lia)) as [h [Hpe [Hhl Hhz]]].
        rewrite N.add_0_r, N.mod_small in Hpe by assumption. rewrite Hpe. cbn [rbind].
        rewrite aset_ok by lia. cbn [rbind].
        destruct (occ_insert new nc occ h (fst (adat old i)) (snd (adat old i)) Hocc Hhl Hhz) as [occ' [Hocc' Hl']].
        rewrite <- surjective_pairing in Hocc'.
        apply (IH (i + 1) _ occ'); try assumption; try lia.
        intros p Hp. destruct (N.eq_dec p h) as [->|Hne]; [rewrite aupd_same; cbn; intros; apply Hvo; [lia|assumption]|rewrite aupd_other by assumption; now apply Hvn].
  Qed.

  Lemma occ_empty nc : occ_ok (anew nc (0, dflt)) nc [].
  Proof. split; [constructor|]. intros p; cbn. intuition. Qed.

  (* growth: from a table at load 1/2 (or the empty initial table) to a well-formed table below it *)
  Lemma tbl_grow_ok ov init t nc :
    wf_tbl t -> pow2 init -> 2 <= init -> tbl_new_count init t = Ok nc -> nc * 16 <= PTRDIFF_MAX ->
    t_count t <= t_used t * 2 ->
    exists t', tbl_rehash dflt ov t nc = Ok t' /\ wf_tbl t' /\ t_used t' * 2 < t_count t' /\ t_used t' = t_used t
               /\ exists a', t_slots t' = Some a'.
  Proof.
    intros Hwf Hpi Hi2 Hnc Hsz Hfull. unfold wf_tbl in Hwf. unfold tbl_new_count in Hnc. unfold tbl_rehash.
    destruct (t_slots t) as [a|] eqn:Hs.
    - destruct Hwf as [(Hlen & Hp2 & H2 & Hsz0 & [occ [Hocc Hl]] & Hval) Hload].
      destruct (N.eqb_spec (t_count t) 0); [lia|]. unfold nowrap in Hnc.
      destruct (N.ltb_spec (t_count t * 2) U64); [|discriminate]. injection Hnc as <-.
      cbn [oarr].
      destruct (rehash_loop_ok ov a (t_count t * 2) (t_count t) occ Hlen (pow2_double _ Hp2) ltac:(lia) ltac:(lia) ltac:(lia) Hocc Hval
                  (N.to_nat (t_count t)) 0 (anew (t_count t * 2) (0, dflt)) [] ltac:(lia) eq_refl (occ_empty _) ltac:(cbn; lia)
                  ltac:(cbn; intros; congruence)) as (new' & occ' & Hr & Hnl & Hocc' & Hl' & Hv').
      rewrite Hr. cbn [rbind]. eexists; split; [reflexivity|]. cbn. split; [|split; [lia|split; [reflexivity|eauto]]].
      split; [|lia]. repeat split; try assumption; try lia.
      * now apply pow2_double.
      * (* occupied slots of the new table: at most those of the old one *)
        exists occ'. split; [assumption|lia].
    - destruct Hwf as [Hc Hu]. rewrite Hc in Hnc. cbn in Hnc. injection Hnc as <-. rewrite Hc. cbn.
      eexists; split; [reflexivity|]. cbn. rewrite Hu. split; [|split; [destruct Hpi as [k ->]; lia|split; [reflexivity|eauto]]].
      split; [|lia]. repeat split; try assumption; try lia.
      * exists []. split; [apply occ_empty|cbn; lia].
      * cbn. intros; congruence.
  Qed.
End TableProofs.

Lemma wf_tbl_mono {V} (valid valid' : V -> Prop) (t : tbl V) :
  (forall v, valid v -> valid' v) -> wf_tbl valid t -> wf_tbl valid' t.
Proof.
  intros Hm. unfold wf_tbl. destruct (t_slots t); [|tauto].
  intros [(H1 & H2 & H3 & H4 & H5 & H6) H7]. split; [|assumption]. repeat split; try assumption.
  intros p Hp Hn. apply Hm. now apply H6.
Qed.

Lemma tbl_new_count_ok {V} (valid : V -> Prop) (init : N) (t : tbl V) : wf_tbl valid t -> exists nc, tbl_new_count init t = Ok nc.
Proof.
  unfold wf_tbl, tbl_new_count. destruct (t_slots t).
  - intros [(Hl & _ & _ & Hsz & _) _]. destruct (t_count t =? 0); [eauto|]. unfold nowrap.
    destruct (N.ltb_spec (t_count t * 2) U64); [eauto|lia].
  - intros [-> _]. cbn. eauto.
Qed.

Lemma tbl_needs_grow_ok {V} (valid : V -> Prop) (t : tbl V) :
  wf_tbl valid t ->
  exists b, tbl_needs_grow t = Ok b /\ (b = true -> t_count t <= t_used t * 2)
            /\ (b = false -> t_used t * 2 < t_count t /\ exists a, t_slots t = Some a).
Proof.
  intros Wt. assert (Hlt2 : t_used t * 2 < U64).
  { unfold wf_tbl in Wt. destruct (t_slots t); [destruct Wt as [(_ & _ & _ & Hsz & _) Hld]|destruct Wt as [_ Hu0]]; lia. }
  unfold tbl_needs_grow, nowrap. destruct (N.ltb_spec (t_used t * 2) U64); [|lia]. cbn [rbind].
  eexists; split; [reflexivity|]. split.
  - intros Hb. now apply N.leb_le in Hb.
  - intros Hb. apply N.leb_gt in Hb. split; [assumption|].
    unfold wf_tbl in Wt. destruct (t_slots t); [eauto|]. destruct Wt. lia.
Qed.
