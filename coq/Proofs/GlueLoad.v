From FJ Require Import Lib.Base.
(* GLUE, loading side: the state the Reader builds from a file (Model/Fjm.v: dict i_mem, zero ranges i_zeros,
   segments i_segs) is related by EngPy's representation relation `memR` to the abstract machine memory the image
   denotes.  This is the link between C06/C10 (files) and C01 (engines): with it the engine theorems start from the
   FILE, not from a campaign-built state.

   Contents
     1. width:            the file's w is 2^ww with 3 <= ww <= 6
     2. any accepted file: `reader_word_cases` (data word / zero tail / outside = None), `reader_denotes`
                           (rdw on the dict = the image's word at every address), `reader_words_lt` (words < 2^w, from
                           the w/8-byte decoding), `reader_memR`
     3. the logical image: `lmem L` (a machine memory for a declared image), `lmem_denotes`
     4. written files:     `written_memR` (C06 round trip  =>  memR between the Reader state and lmem L)
     5. the campaign's reconstruction RunCase.py_image is extensionally the Reader's (dict, zero ranges) *)
From FJ Require Import Lib.Bits Lib.Bytes Spec.MachineSpec Spec.ImageSpec Model.Fjm Model.EngPy Model.RunCase
     Proofs.FjmCodec Proofs.FjmReader Proofs.FjmWriter Proofs.FjmProps Proofs.EngPyProps.
Local Open Scope N_scope.

(* ---- 1. width -------------------------------------------------------------------------------------------- *)

Definition ww_of (w : N) : N := N.log2 w.

Lemma ww_of_supported w : supported_width w = true -> 3 <= ww_of w <= 6 /\ MachineSpec.w (ww_of w) = w.
Proof.
  intros H. apply supported_width_cases in H. destruct H as [-> | [-> | [-> | ->]]]; vm_compute; repeat split; discriminate.
Qed.

(* ---- the Reader's view of its own state, and what "denotes" means ------------------------------------------ *)

(* the machine memory m0 (with segments sg) answers every word read like the Reader state (pm, zeros) does *)
Definition denotes (sg : list (N * N)) (pm : mem) (zeros : list (N * N)) (m0 : mem) : Prop :=
  forall a, rdw sg m0 a = word_of pm zeros a.

Lemma py_lookup_word_of zeros pm a : py_lookup zeros pm a = word_of pm zeros a.
Proof. reflexivity. Qed.

Lemma memR_intro ww sg zeros pm m0 :
  denotes sg pm zeros m0 -> (forall a v, mget pm a = Some v -> v < 2 ^ MachineSpec.w ww) ->
  EngPyProps.memR ww sg zeros pm m0.
Proof. intros D B. split; [intros a; rewrite py_lookup_word_of; symmetry; apply D | exact B]. Qed.

Lemma word_of_mget0 pm zeros a v : word_of pm zeros a = Some v -> mget0 pm a = v.
Proof.
  unfold word_of, mget0. destruct (mget pm a) as [x|]; [congruence|].
  destruct (existsb (in_range a) zeros); congruence.
Qed.

Lemma valid_find T x :
  valid (map seg_of T) x = match find (in_tseg x) T with Some _ => true | None => false end.
Proof.
  induction T as [|t T IH]; [reflexivity|]. unfold valid in *. cbn [map existsb find].
  destruct t as [[[ss sl] ds] dl]. cbn [seg_of fst snd in_tseg].
  destruct ((ss <=? x) && (x <? ss + sl)); [reflexivity | exact IH].
Qed.

(* ---- 2. any accepted file ----------------------------------------------------------------------------------- *)

Lemma read_segs_suffix k : forall b l r, read_segs k b = Some (l, r) -> exists pre, b = pre ++ r.
Proof.
  induction k as [|k IH]; intros b l r H; cbn [read_segs] in H.
  - injection H as _ <-. now exists [].
  - destruct (take segment_size b) as [[c r1]|] eqn:E; [|discriminate].
    destruct (read_segs k r1) as [[l' r']|] eqn:E2; [|discriminate]. injection H as _ <-.
    apply take_some in E. destruct E as [-> _]. destruct (IH _ _ _ E2) as [pre ->].
    exists (c ++ pre). now rewrite app_assoc.
Qed.

Lemma all_bytes_app a b : all_bytes (a ++ b) = all_bytes a && all_bytes b.
Proof. apply forallb_app. Qed.

(* a pool word is decoded from wb bytes: it is below 256^wb *)
Lemma unpack_words_bound wb fuel : forall b data, all_bytes b = true ->
  unpack_words fuel wb b = UOk data -> Forall (fun x => x < 256 ^ N.of_nat wb) data.
Proof.
  induction fuel as [|f IH]; intros b data Hb H.
  - destruct b; cbn in H; [injection H as <-; constructor | discriminate].
  - destruct b as [|x r]; cbn [unpack_words] in H; [injection H as <-; constructor|].
    destruct (take wb (x :: r)) as [[c r']|] eqn:E; [|discriminate].
    destruct (unpack_words f wb r') as [l| |] eqn:E2; try discriminate. injection H as <-.
    apply take_some in E. destruct E as [E Lc]. rewrite E, all_bytes_app in Hb.
    apply andb_prop in Hb. destruct Hb as [Hc Hr'].
    constructor; [|now apply (IH r')]. rewrite <- Lc. now apply le_dec_bound.
Qed.

(* what an accepted file went through: the payload is a suffix of the file, the pool is its decoding, and the
   Reader state is init_memory of the table on that pool *)
Lemma read_inv thr decompress b img :
  read_thr thr decompress b = ROk img ->
  exists wb payload fd data pre,
    b = pre ++ payload /\
    word_bytes (i_w img) = Some wb /\
    (if i_ver img =? 3 then decompress payload else Some payload) = Some fd /\
    unpack_words (length fd) wb fd = UOk data /\
    i_pool_len img = N.of_nat (length data) /\
    init_memory thr (i_w img) ((i_ver img =? 2) || (i_ver img =? 3)) data (N.of_nat (length data))
                (PositiveMap.empty N) (i_table img) = MOk (i_segs img) (i_mem img) (i_zeros img).
Proof.
  unfold read_thr.
  destruct (take header_base_size b) as [[h r1]|] eqn:Eh; [|discriminate].
  destruct (max_version <? u_at 4 8 h); [discriminate|].
  destruct (if u_at 4 8 h =? 0 then Some (0, 0, r1)
            else match take header_extension_size r1 with
                 | Some (e0, r2) => Some (u_at 0 8 e0, u_at 8 4 e0, r2) | None => None end)
    as [[[flags reserved] r2]|] eqn:Ex; [|discriminate].
  destruct (negb (u_at 0 2 h =? FJ_MAGIC)); [discriminate|].
  destruct (negb (supported_width (u_at 2 2 h))); [discriminate|].
  destruct (negb (reserved =? 0)); [discriminate|].
  destruct (N.of_nat (length r2) <? 32 * u_at 12 8 h); [discriminate|].
  destruct (read_segs (N.to_nat (u_at 12 8 h)) r2) as [[table payload]|] eqn:Es; [|discriminate].
  destruct (word_bytes (u_at 2 2 h)) as [wb|] eqn:Ewb; [|discriminate].
  destruct (if u_at 4 8 h =? 3 then decompress payload else Some payload) as [fd|] eqn:Efd; [|discriminate].
  destruct (unpack_words (length fd) wb fd) as [data| |] eqn:Eu; try discriminate.
  destruct (validate_segments table); [discriminate|].
  destruct (init_memory thr (u_at 2 2 h) ((u_at 4 8 h =? 2) || (u_at 4 8 h =? 3)) data
                        (N.of_nat (length data)) (PositiveMap.empty N) table) as [segs m z| |] eqn:Em; try discriminate.
  intros H. injection H as <-. cbn [i_w i_ver i_pool_len i_table i_segs i_mem i_zeros].
  exists wb, payload, fd, data.
  assert (Hsuf : exists pre, b = pre ++ payload).
  { apply take_some in Eh. destruct Eh as [-> _].
    destruct (read_segs_suffix _ _ _ _ Es) as [p2 Ep2]. subst r2.
    destruct (u_at 4 8 h =? 0).
    - injection Ex as _ _ E3. subst r1. exists (h ++ p2). now rewrite app_assoc.
    - destruct (take header_extension_size r1) as [[e0 r2']|] eqn:Ee; [|discriminate].
      injection Ex as _ _ E3. subst r2'. apply take_some in Ee. destruct Ee as [-> _].
      exists (h ++ e0 ++ p2). now rewrite <- !app_assoc. }
  destruct Hsuf as [pre Hpre]. exists pre. repeat split; assumption.
Qed.

Lemma seg_word_lt w rel data t x : Forall (fun v => v < 2 ^ w) data -> seg_word w rel data t x < 2 ^ w.
Proof.
  intros HD. destruct t as [[[ss sl] ds] dl]. unfold seg_word.
  assert (P0 : 0 < 2 ^ w) by (apply N.neq_0_lt_0; apply N.pow_nonzero; discriminate).
  destruct (x - ss <? dl); [|exact P0].
  destruct (rel && N.odd (x - ss)).
  - unfold rel_dec. apply land_ones_lt.
  - rewrite Forall_forall in HD.
    destruct (Nat.lt_ge_cases (N.to_nat (ds + (x - ss))) (length data)) as [Hlt|Hge].
    + apply HD. now apply nth_In.
    + now rewrite nth_overflow.
Qed.

Section AcceptedFile.
Variable thr : N.
Variable decompress : bytes -> option bytes.
Variable b : bytes.
Variable img : image.
Hypothesis Hread : read_thr thr decompress b = ROk img.

(* the word the Reader state answers at every address: the stored data word (re-based for the jump words of the
   relative versions) inside the data, 0 in the zero tail of a segment, nothing outside every segment; and the
   dict has no key outside the segments *)
Theorem reader_word_cases :
  exists rel data,
    i_pool_len img = N.of_nat (length data) /\
    forall a,
      word_of (i_mem img) (i_zeros img) a =
        match find (in_tseg a) (i_table img) with
        | Some t => Some (seg_word (i_w img) rel data t a)
        | None => None
        end.
Proof.
  destruct (read_inv _ _ _ _ Hread) as (wb & payload & fd & data & pre & _ & _ & _ & _ & Hpool & Hinit).
  destruct (read_consistent _ _ _ _ Hread) as (Hcons & _ & _ & _).
  exists ((i_ver img =? 2) || (i_ver img =? 3)), data. split; [exact Hpool|].
  rewrite Hpool in Hcons. unfold consistent_table in Hcons. apply andb_prop in Hcons. destruct Hcons as [Hok Hdis].
  destruct (init_memory_good thr (i_w img) ((i_ver img =? 2) || (i_ver img =? 3)) data (i_table img)
              (PositiveMap.empty N) Hok Hdis (fun _ x _ _ => mget_empty x)) as (m' & z & EM & Hout & Hin).
  rewrite Hinit in EM. injection EM as _ <- <-.
  intros a. destruct (find (in_tseg a) (i_table img)) as [t|] eqn:Ef.
  - exact (Hin a t Ef).
  - destruct (Hout a Ef) as [Hm Hz]. unfold word_of. now rewrite Hm, mget_empty, Hz.
Qed.

(* the abstract machine memory of the image can be taken to be the dict itself: on the image's segments it reads
   the image's word at every address (Some inside a segment - data word or zero tail -, None outside) *)
Theorem reader_denotes : denotes (i_segs img) (i_mem img) (i_zeros img) (i_mem img).
Proof.
  destruct reader_word_cases as (rel & data & _ & Hw).
  destruct (read_consistent _ _ _ _ Hread) as (_ & _ & _ & Hsegs).
  intros a. unfold rdw. rewrite Hsegs, valid_find, Hw.
  destruct (find (in_tseg a) (i_table img)) as [t|] eqn:Ef; [|reflexivity].
  f_equal. apply (word_of_mget0 _ (i_zeros img)). rewrite Hw, Ef. reflexivity.
Qed.

Theorem reader_width : 3 <= ww_of (i_w img) <= 6 /\ MachineSpec.w (ww_of (i_w img)) = i_w img.
Proof. destruct (read_consistent _ _ _ _ Hread) as (_ & Hsw & _ & _). now apply ww_of_supported. Qed.

(* files are byte strings, and the decoder returns byte strings *)
Hypothesis Hbytes : all_bytes b = true.
Hypothesis Hdec_bytes : forall z x, decompress z = Some x -> all_bytes x = true.

(* every word of the dict is below 2^w: pool words are decoded from w/8 bytes, re-based jump words are masked,
   the explicit tail words are 0 *)
Theorem reader_words_lt : forall a v, mget (i_mem img) a = Some v -> v < 2 ^ i_w img.
Proof.
  destruct (read_inv _ _ _ _ Hread) as (wb & payload & fd & data & pre & Hpre & Hwb & Hfd & Hun & Hpool & Hinit).
  destruct (read_consistent _ _ _ _ Hread) as (Hcons & Hsw & _ & _).
  destruct (word_bytes_supported _ Hsw) as (wb' & Hwb' & _ & Hpow & _).
  rewrite Hwb in Hwb'. injection Hwb' as <-.
  assert (Hfdb : all_bytes fd = true).
  { rewrite Hpre, all_bytes_app in Hbytes. apply andb_prop in Hbytes. destruct Hbytes as [_ Hp].
    destruct (i_ver img =? 3); [now apply (Hdec_bytes payload) | now injection Hfd as <-]. }
  pose proof (unpack_words_bound wb _ _ _ Hfdb Hun) as HD. rewrite Hpow in HD.
  rewrite Hpool in Hcons. unfold consistent_table in Hcons. apply andb_prop in Hcons. destruct Hcons as [Hok Hdis].
  destruct (init_memory_good thr (i_w img) ((i_ver img =? 2) || (i_ver img =? 3)) data (i_table img)
              (PositiveMap.empty N) Hok Hdis (fun _ x _ _ => mget_empty x)) as (m' & z & EM & Hout & Hin).
  rewrite Hinit in EM. injection EM as _ <- <-.
  intros a v Hv. destruct (find (in_tseg a) (i_table img)) as [t|] eqn:Ef.
  - specialize (Hin a t Ef). unfold word_of in Hin. rewrite Hv in Hin. injection Hin as ->. now apply seg_word_lt.
  - destruct (Hout a Ef) as [Hm _]. rewrite Hv, mget_empty in Hm. discriminate.
Qed.

(* the Reader state represents, in the sense of the engine proofs (EngPyProps.memR), every machine memory that
   denotes the image - in particular the dict itself *)
Theorem reader_memR m0 :
  denotes (i_segs img) (i_mem img) (i_zeros img) m0 ->
  EngPyProps.memR (ww_of (i_w img)) (i_segs img) (i_zeros img) (i_mem img) m0.
Proof.
  intros D. apply memR_intro; [exact D|]. destruct reader_width as [_ ->]. exact reader_words_lt.
Qed.

Corollary reader_memR_self :
  EngPyProps.memR (ww_of (i_w img)) (i_segs img) (i_zeros img) (i_mem img) (i_mem img).
Proof. apply reader_memR, reader_denotes. Qed.

End AcceptedFile.

(* ---- 3. a machine memory for a declared (logical) image ---------------------------------------------------- *)

(* the supplied words of every segment stored at its start; everything else is absent (reads 0 inside segments) *)
Definition lmem (L : limage) : mem :=
  fold_right (fun s m => store_plain m (l_start s) (l_words s)) (PositiveMap.empty N) L.

Lemma valid_lsegs L a : valid (lsegs L) a = existsb (in_lseg a) L.
Proof. unfold valid, lsegs. induction L as [|s L IH]; [reflexivity|]. cbn [map existsb fst snd]. now rewrite IH. Qed.

Lemma lmem_key L : forallb (fun s => N.of_nat (length (l_words s)) <=? l_len s) L = true ->
  forall a v, mget (lmem L) a = Some v -> existsb (in_lseg a) L = true.
Proof.
  induction L as [|s L IH]; intros Hl a v H; cbn [lmem fold_right] in H.
  - rewrite mget_empty in H. discriminate.
  - cbn [forallb] in Hl. apply andb_prop in Hl. destruct Hl as [Hs Hl]. fold (lmem L) in H.
    rewrite mget_store_plain in H. cbn [existsb]. unfold in_lseg at 1.
    destruct ((l_start s <=? a) && (a <? l_start s + N.of_nat (length (l_words s)))) eqn:E.
    + replace ((l_start s <=? a) && (a <? l_start s + l_len s)) with true by (symmetry; lia). reflexivity.
    + rewrite (IH Hl a v H). apply orb_true_r.
Qed.

Lemma ldisjoint_not_in a s L : forallb (ldisjoint s) L = true -> in_lseg a s = true -> existsb (in_lseg a) L = false.
Proof.
  induction L as [|t L IH]; intros H Ha; [reflexivity|]. cbn [forallb] in H. apply andb_prop in H. destruct H as [H1 H2].
  cbn [existsb]. rewrite (IH H2 Ha), orb_false_r. unfold ldisjoint in H1. unfold in_lseg in *. lia.
Qed.

(* on the declared segments, lmem L reads the declared word at every address *)
Theorem lmem_denotes w L : representable w L = true -> forall a, rdw (lsegs L) (lmem L) a = lword L a.
Proof.
  unfold representable. intros H. apply andb_prop in H. destruct H as [Hrep Hdis].
  assert (Hlen : forallb (fun s => N.of_nat (length (l_words s)) <=? l_len s) L = true).
  { apply forallb_forall. intros s Hs. rewrite forallb_forall in Hrep. specialize (Hrep s Hs).
    unfold lseg_representable in Hrep. repeat (apply andb_prop in Hrep; destruct Hrep as [Hrep ?]). assumption. }
  clear Hrep. intros a. unfold rdw. rewrite valid_lsegs. unfold lword.
  induction L as [|s L IH]; [reflexivity|].
  cbn [forallb] in Hlen. apply andb_prop in Hlen. destruct Hlen as [Hs Hlen].
  cbn [pairwise] in Hdis. apply andb_prop in Hdis. destruct Hdis as [Hd1 Hdis].
  cbn [existsb find lmem fold_right]. fold (lmem L). unfold mget0. rewrite mget_store_plain.
  destruct (in_lseg a s) eqn:Ea; cbn [orb].
  - f_equal. unfold data_then_zeros.
    destruct ((l_start s <=? a) && (a <? l_start s + N.of_nat (length (l_words s)))) eqn:E.
    + replace (N.of_nat (length (l_words s)) <=? a - l_start s) with false by (symmetry; lia). reflexivity.
    + unfold in_lseg in Ea.
      replace (N.of_nat (length (l_words s)) <=? a - l_start s) with true by (symmetry; lia).
      destruct (mget (lmem L) a) as [v|] eqn:Em; [|reflexivity].
      pose proof (lmem_key L Hlen a v Em) as K. rewrite (ldisjoint_not_in a s L Hd1 Ea) in K. discriminate.
  - replace ((l_start s <=? a) && (a <? l_start s + N.of_nat (length (l_words s)))) with false
      by (symmetry; unfold in_lseg in Ea; lia).
    unfold mget0 in IH. apply (IH Hdis Hlen).
Qed.

Lemma lword_lt w L a v : representable w L = true -> lword L a = Some v -> v < 2 ^ w.
Proof.
  unfold representable, lword. intros H Hv. apply andb_prop in H. destruct H as [Hrep _].
  destruct (find (in_lseg a) L) as [s|] eqn:Ef; [|discriminate]. injection Hv as <-.
  apply find_some in Ef. destruct Ef as [Hs _]. rewrite forallb_forall in Hrep. specialize (Hrep s Hs).
  unfold lseg_representable in Hrep. repeat (apply andb_prop in Hrep; destruct Hrep as [Hrep ?]).
  unfold data_then_zeros. destruct (N.of_nat (length (l_words s)) <=? a - l_start s) eqn:E.
  - apply N.neq_0_lt_0. apply N.pow_nonzero. discriminate.
  - match goal with Hw : forallb _ (l_words s) = true |- _ => rewrite forallb_forall in Hw; apply N.ltb_lt, Hw end.
    apply nth_In. lia.
Qed.

(* ---- 4. a Reader state that shows a representable declared image (the conclusion of C06_roundtrip) ------------ *)

(* same_image: the Reader's segments are the declared ones and word_of = lword everywhere.  Then the Reader state
   represents lmem L (and every other machine memory that reads like L) *)
Theorem image_memR ww segs pm zeros L m0 :
  same_image segs pm zeros L -> representable (MachineSpec.w ww) L = true ->
  (forall a, rdw (lsegs L) m0 a = lword L a) ->
  EngPyProps.memR ww (lsegs L) zeros pm m0.
Proof.
  intros [_ Hw] Hrep Hm0. apply memR_intro.
  - intros a. now rewrite Hm0, Hw.
  - intros a v Hv. apply (lword_lt _ L a v Hrep). rewrite <- Hw. unfold word_of. now rewrite Hv.
Qed.

Corollary image_memR_lmem ww segs pm zeros L :
  same_image segs pm zeros L -> representable (MachineSpec.w ww) L = true ->
  EngPyProps.memR ww (lsegs L) zeros pm (lmem L).
Proof. intros S R. apply (image_memR ww segs pm zeros L (lmem L) S R). now apply (lmem_denotes (MachineSpec.w ww)). Qed.

(* ---- 5. the campaign's reconstruction of the Reader state (RunCase.py_image / py_init) ---------------------------- *)
(* The C01/C07/C18/C19 campaigns do not call the Fjm.v reader: they rebuild the Reader's dict and zeros_boundaries from
   the segments, the data length of each segment and the list of words (RunCase.py_image, then one mset per listed
   word).  Here: on every accepted file that reconstruction has the Reader's zero ranges and - extensionally - the
   Reader's dict, so the states `observe_py` starts from satisfy the same memR as the real Reader's. *)

Definition dl_of (t : tseg) : N := snd t.

(* the key set of a dict, with every value replaced by 0 *)
Definition zeroed (m : mem) (a : N) : option N := match mget m a with Some _ => Some 0 | None => None end.

Lemma zero_range_fill n : forall pm a, zero_range pm a n = zero_fill pm a n.
Proof. induction n as [|n IH]; intros pm a; cbn [zero_range zero_fill]; [reflexivity | apply IH]. Qed.

Lemma mget_zero_range n pm a x :
  mget (zero_range pm a n) x = if (a <=? x) && (x <? a + N.of_nat n) then Some 0 else mget pm x.
Proof. rewrite zero_range_fill. apply mget_zero_fill. Qed.

Lemma init_segment_keys w rel data m t m1 z1 pm :
  tentry_ok (N.of_nat (length data)) t = true ->
  init_segment 1000 w rel data (N.of_nat (length data)) m t = SOk m1 z1 ->
  (forall a, mget pm a = zeroed m a) ->
  let pm1 := zero_range pm (fst (seg_of t)) (N.to_nat (dl_of t)) in
  if snd (seg_of t) - dl_of t <? 1000
  then z1 = [] /\ forall a, mget (zero_range pm1 (fst (seg_of t) + dl_of t) (N.to_nat (snd (seg_of t) - dl_of t))) a = zeroed m1 a
  else z1 = [(fst (seg_of t) + dl_of t, fst (seg_of t) + snd (seg_of t))] /\ forall a, mget pm1 a = zeroed m1 a.
Proof.
  destruct t as [[[ss sl] ds] dl]. unfold tentry_ok. intros Hok H Hpm.
  repeat (apply andb_prop in Hok; destruct Hok as [Hok ?]).
  cbn [seg_of dl_of fst snd]. cbv zeta.
  assert (Hodd : N.odd dl = false) by (rewrite <- N.negb_even; now rewrite H1).
  unfold init_segment in H. rewrite Hodd in H.
  replace (N.of_nat (length data) <? ds + dl) with false in H by (symmetry; lia).
  set (ws := firstn (N.to_nat dl) (skipn (N.to_nat ds) data)) in *.
  assert (Lws : length ws = N.to_nat dl).
  { unfold ws. rewrite firstn_length, skipn_length. lia. }
  replace (N.of_nat (length ws) <? dl) with false in H by (symmetry; lia).
  set (mm := if rel then store_rel w m ss ws else store_plain m ss ws) in *.
  assert (Hmm : forall x, zeroed mm x = if (ss <=? x) && (x <? ss + dl) then Some 0 else zeroed m x).
  { intros x. unfold zeroed, mm. destruct rel.
    - destruct (even_length_half dl H1) as [n Hn].
      rewrite (mget_store_rel w n) by lia. replace (N.of_nat (2 * n)) with dl by lia.
      destruct ((ss <=? x) && (x <? ss + dl)); reflexivity.
    - rewrite mget_store_plain, Lws. replace (N.of_nat (N.to_nat dl)) with dl by lia.
      destruct ((ss <=? x) && (x <? ss + dl)); reflexivity. }
  assert (Hp1 : forall x, mget (zero_range pm ss (N.to_nat dl)) x = zeroed mm x).
  { intros x. rewrite mget_zero_range, Hmm, Hpm. replace (N.of_nat (N.to_nat dl)) with dl by lia. reflexivity. }
  clearbody mm.
  destruct (dl <? sl) eqn:Etail.
  - destruct (sl - dl <? 1000) eqn:Ethr; injection H as <- <-; (split; [reflexivity|]); [|exact Hp1].
    intros x. rewrite mget_zero_range, Hp1. unfold zeroed at 2. rewrite mget_zero_fill.
    destruct ((ss + dl <=? x) && (x <? ss + dl + N.of_nat (N.to_nat (sl - dl)))); reflexivity.
  - injection H as <- <-. replace (sl - dl) with 0 by lia. cbn [N.ltb N.compare N.to_nat zero_range].
    split; [reflexivity | exact Hp1].
Qed.

Lemma py_image_keys w rel data T : forall m pm zbs segs m' z,
  forallb (tentry_ok (N.of_nat (length data))) T = true ->
  init_memory 1000 w rel data (N.of_nat (length data)) m T = MOk segs m' z ->
  (forall a, mget pm a = zeroed m a) ->
  exists pm', py_image (map seg_of T) (map dl_of T) pm zbs = (pm', zbs ++ z) /\ forall a, mget pm' a = zeroed m' a.
Proof.
  induction T as [|t T IH]; intros m pm zbs segs m' z Hok H Hpm.
  - cbn in H. injection H as _ <- <-. exists pm. cbn [map py_image]. now rewrite app_nil_r.
  - cbn [forallb] in Hok. apply andb_prop in Hok. destruct Hok as [Hok1 Hok].
    cbn [init_memory] in H.
    destruct (init_segment 1000 w rel data (N.of_nat (length data)) m t) as [m1 z1| |] eqn:E1; try discriminate.
    destruct (init_memory 1000 w rel data (N.of_nat (length data)) m1 T) as [segs2 m2 z2| |] eqn:E2; try discriminate.
    injection H as _ <- <-.
    pose proof (init_segment_keys w rel data m t m1 z1 pm Hok1 E1 Hpm) as K. cbv zeta in K.
    cbn [map py_image]. destruct (seg_of t) as [s l] eqn:Es. cbn [fst snd] in K.
    destruct (l - dl_of t <? 1000).
    + destruct K as [-> K]. destruct (IH m1 _ zbs segs2 m2 z2 Hok E2 K) as (pm' & EP & HP).
      exists pm'. split; [exact EP | exact HP].
    + destruct K as [-> K]. destruct (IH m1 _ (zbs ++ [(s + dl_of t, s + l)]) segs2 m2 z2 Hok E2 K) as (pm' & EP & HP).
      exists pm'. split; [|exact HP]. rewrite EP. now rewrite <- app_assoc.
Qed.

Lemma find_app' (A : Type) (f : A -> bool) l1 l2 :
  find f (l1 ++ l2) = match find f l1 with Some x => Some x | None => find f l2 end.
Proof. induction l1 as [|x l1 IH]; [reflexivity|]. cbn [app find]. destruct (f x); [reflexivity | exact IH]. Qed.

(* the per-word msets of py_init on top of py_image's zeros *)
Lemma mget_fold_words ws : forall (pm : mem) x,
  mget (fold_left (fun mm p => mset mm (fst p) (snd p)) ws pm) x =
  match find (fun p => fst p =? x) (rev ws) with Some p => Some (snd p) | None => mget pm x end.
Proof.
  induction ws as [|p ws IH]; intros pm x; [reflexivity|].
  cbn [fold_left rev]. rewrite IH, find_app'.
  destruct (find (fun p0 => fst p0 =? x) (rev ws)); [reflexivity|].
  cbn [find]. destruct (N.eqb_spec (fst p) x) as [<-|Hn]; [apply mget_mset_same | now apply mget_mset_other].
Qed.

Section CampaignState.
Variable decompress : bytes -> option bytes.
Variable b : bytes.
Variable img : image.
Hypothesis Hread : Fjm.read decompress b = ROk img.
(* the campaign's word list: only words the Reader's dict holds, with the Reader's value, and all the non-zero ones *)
Variable words : list (N * N).
Hypothesis Hsound : forall a v, In (a, v) words -> mget (i_mem img) a = Some v.
Hypothesis Hcomplete : forall a v, mget (i_mem img) a = Some v -> v <> 0 -> In (a, v) words.

Lemma py_image_reader_keys :
  exists pm0,
    py_image (i_segs img) (map dl_of (i_table img)) (PositiveMap.empty N) [] = (pm0, i_zeros img) /\
    forall a, mget pm0 a = zeroed (i_mem img) a.
Proof using Hread.
  unfold Fjm.read in Hread.
  destruct (read_inv _ _ _ _ Hread) as (wb & payload & fd & data & pre & _ & _ & _ & _ & Hpool & Hinit).
  destruct (read_consistent _ _ _ _ Hread) as (Hcons & _ & _ & Hsegs).
  rewrite Hpool in Hcons. unfold consistent_table in Hcons. apply andb_prop in Hcons. destruct Hcons as [Hok _].
  destruct (py_image_keys _ _ data (i_table img) (PositiveMap.empty N) (PositiveMap.empty N) [] _ _ _ Hok Hinit)
    as (pm0 & EP & HP).
  { intros a. unfold zeroed. now rewrite mget_empty. }
  exists pm0. split; [rewrite Hsegs; exact EP | exact HP].
Qed.

(* the word list alone, as a map (RunCase / NativeCase use mem_of_list c_words): it reads like the dict *)
Lemma words_mget0 : forall x, mget0 (mem_of_list words) x = mget0 (i_mem img) x.
Proof using Hsound Hcomplete.
  intros x. unfold mget0 at 1. unfold mem_of_list. rewrite mget_fold_words, mget_empty.
  destruct (find (fun p => fst p =? x) (rev words)) as [p|] eqn:Ef.
  - apply find_some in Ef. destruct Ef as [Hin Ea]. apply N.eqb_eq in Ea. subst x.
    unfold mget0. rewrite (Hsound (fst p) (snd p)); [reflexivity|]. apply in_rev. now destruct p.
  - unfold mget0. destruct (mget (i_mem img) x) as [v|] eqn:Hv; [|reflexivity].
    destruct (N.eq_dec v 0) as [->|Hnz]; [reflexivity|].
    pose proof (Hcomplete x v Hv Hnz) as Hin. apply in_rev in Hin.
    pose proof (find_none _ _ Ef _ Hin) as C. cbn [fst] in C. now rewrite N.eqb_refl in C.
Qed.

Theorem py_image_is_reader :
  exists pm0,
    py_image (i_segs img) (map dl_of (i_table img)) (PositiveMap.empty N) [] = (pm0, i_zeros img) /\
    forall a, mget (fold_left (fun mm p => mset mm (fst p) (snd p)) words pm0) a = mget (i_mem img) a.
Proof using All.
  destruct py_image_reader_keys as (pm0 & EP & HP).
  exists pm0. split; [exact EP|].
  intros a. rewrite mget_fold_words.
  destruct (find (fun p => fst p =? a) (rev words)) as [p|] eqn:Ef.
  - apply find_some in Ef. destruct Ef as [Hin Ea]. apply N.eqb_eq in Ea. subst a.
    symmetry. apply Hsound. apply in_rev. now destruct p.
  - rewrite HP. unfold zeroed. destruct (mget (i_mem img) a) as [v|] eqn:Hv; [|reflexivity].
    destruct (N.eq_dec v 0) as [->|Hnz]; [reflexivity|].
    pose proof (Hcomplete a v Hv Hnz) as Hin. apply in_rev in Hin.
    pose proof (find_none _ _ Ef _ Hin) as C. cbn [fst] in C. now rewrite N.eqb_refl in C.
Qed.

End CampaignState.

(* memR looks at the dict only through its lookups *)
Lemma memR_ext ww sg zeros pm pm' m0 : (forall a, mget pm' a = mget pm a) ->
  EngPyProps.memR ww sg zeros pm m0 -> EngPyProps.memR ww sg zeros pm' m0.
Proof.
  intros E [R1 R2]. split.
  - intros a. rewrite <- R1. unfold py_lookup. now rewrite E.
  - intros a v. rewrite E. apply R2.
Qed.

(* the start state of `observe_py` (RunCase.py_init) for a case that describes an accepted file: its zero ranges are
   the Reader's, its dict is extensionally the Reader's, and it represents every machine memory the image denotes *)
Section CampaignInit.
Variable decompress : bytes -> option bytes.
Variable b : bytes.
Variable img : image.
Hypothesis Hread : Fjm.read decompress b = ROk img.
Hypothesis Hbytes : all_bytes b = true.
Hypothesis Hdec_bytes : forall z x, decompress z = Some x -> all_bytes x = true.
Variable c : rcase.
Hypothesis Hc_segs : c_segs c = i_segs img.
Hypothesis Hc_dlen : c_dlen c = map dl_of (i_table img).
Hypothesis Hsound : forall a v, In (a, v) (c_words c) -> mget (i_mem img) a = Some v.
Hypothesis Hcomplete : forall a v, mget (i_mem img) a = Some v -> v <> 0 -> In (a, v) (c_words c).

Theorem campaign_py_init m0 :
  denotes (i_segs img) (i_mem img) (i_zeros img) m0 ->
  exists pm,
    py_init c = (i_zeros img, mkpst 0 pm (bytes_bits (c_input c)) [] 0 []) /\
    (forall a, mget pm a = mget (i_mem img) a) /\
    EngPyProps.memR (ww_of (i_w img)) (i_segs img) (i_zeros img) pm m0.
Proof using All.
  intros D.
  destruct (py_image_is_reader decompress b img Hread (c_words c) Hsound Hcomplete) as (pm0 & EP & HP).
  eexists. split; [unfold py_init; rewrite Hc_segs, Hc_dlen, EP; reflexivity|]. split; [exact HP|].
  apply (memR_ext _ _ _ (i_mem img)); [exact HP|].
  exact (reader_memR _ decompress b img Hread Hbytes Hdec_bytes m0 D).
Qed.

End CampaignInit.
