From FJ Require Import Lib.Base.
(* Soundness of the certified checker of C02: check_denotes = true -> Denotes (universal, no size bound). *)
From FJ Require Import Spec.MachineSpec Model.Ast Spec.DenoteSpec Model.DenoteCheck.
From Coq Require Import Permutation.
Local Open Scope Z_scope.

Lemma andb_true_l (a b : bool) : a && b = true -> a = true.
Proof. now intros [H _]%andb_true_iff. Qed.
Lemma andb_true_r (a b : bool) : a && b = true -> b = true.
Proof. now intros [_ H]%andb_true_iff. Qed.

Ltac split_andb :=
  repeat match goal with
         | H : _ && _ = true |- _ => apply andb_true_iff in H; destruct H
         end.

Lemma existsb_eqb_false (x : N) l : existsb (N.eqb x) l = false -> ~ In x l.
Proof.
  intros H HI. assert (existsb (N.eqb x) l = true); [|congruence].
  apply existsb_exists. exists x. split; [assumption | apply N.eqb_refl].
Qed.

Lemma existsb_eqb_true (x : N) l : existsb (N.eqb x) l = true -> In x l.
Proof. intros [y [Hy E]]%existsb_exists. apply N.eqb_eq in E. now subst. Qed.

Lemma nodupb_NoDup l : nodupb l = true -> NoDup l.
Proof.
  induction l as [|x l IH]; simpl; intros H; [constructor|].
  split_andb. constructor; [|now apply IH].
  apply existsb_eqb_false. now apply negb_true_iff.
Qed.

Lemma perm_check_sound fl bits : perm_check fl bits = true -> Permutation fl bits.
Proof.
  unfold perm_check. intros H. split_andb.
  apply NoDup_Permutation_bis.
  - now apply nodupb_NoDup.
  - now apply Nat.leb_le.
  - intros x Hx. apply existsb_eqb_true.
    match goal with H : forallb _ fl = true |- _ => rewrite forallb_forall in H; now apply H end.
Qed.

Section Sound.
Variable ww : N.
Variable img : image.

Lemma wz_pos : 0 < wz ww.
Proof.
  unfold wz, w. rewrite N.shiftl_1_l.
  assert (0 < 2 ^ ww)%N by (apply N.neq_0_lt_0, N.pow_nonzero; discriminate). lia.
Qed.

Lemma word_isb_sound wa v : word_isb ww img wa v = true -> word_is ww img wa v.
Proof.
  unfold word_isb, word_is. intros H. split_andb.
  repeat split; try (now apply Z.leb_le); try (now apply Z.ltb_lt); try assumption.
  now apply N.eqb_eq.
Qed.

Lemma zeros_in_sound lo hi :
  zeros_in img lo hi = true -> forall wa, 0 <= wa -> lo <= wa < hi -> mget0 (mem0 img) (Z.to_N wa) = 0%N.
Proof.
  unfold zeros_in. intros H wa H0 Hr. unfold mget0, mget, mem0.
  destruct (PositiveMap.find (key (Z.to_N wa)) (i_mem img)) as [v|] eqn:E; [|reflexivity].
  apply PositiveMap.elements_correct in E.
  rewrite forallb_forall in H. specialize (H _ E). cbn [fst snd] in H.
  unfold key in H. rewrite N.pos_pred_succ, Z2N.id in H by assumption.
  apply orb_true_iff in H. destruct H as [H|H].
  - apply negb_true_iff, andb_false_iff in H. destruct H as [H|H].
    + apply Z.leb_gt in H. lia.
    + apply Z.ltb_ge in H. lia.
  - now apply N.eqb_eq.
Qed.

Lemma wflip_okb_sound L a A V R : wflip_okb ww img L a A V R = true -> wflip_ok ww img L a A V R.
Proof.
  unfold wflip_okb, wflip_ok. intros H Hs. rewrite Hs in H.
  unfold mem0.
  destruct (chain_exec ww img _ _) as [[s' fl]|] eqn:E; [|discriminate].
  destruct (rev (hist s')) as [|a0 aux] eqn:Eh; [discriminate|].
  split_andb.
  match goal with H : (a0 =? a)%N = true |- _ => apply N.eqb_eq in H; subst a0 end.
  exists s', fl, aux. repeat split; try assumption.
  - now apply perm_check_sound.
  - now apply N.eqb_eq.
Qed.

Lemma stmt_okb_sound L lbls p : stmt_okb ww img L lbls p = true -> stmt_ok ww img L lbls p.
Proof.
  unfold stmt_okb, stmt_ok. pose proof wz_pos as Hw.
  destruct (pl_stmt p) as [f j ?|ea ev er ?|? ?|name ?|? ? ?|? ? ? ? ?|? ?|? ?]; intros H; try discriminate.
  - (* op *)
    destruct (eval_expr _ f) as [vf|]; [|discriminate].
    destruct (eval_expr _ j) as [vj|]; [|discriminate].
    split_andb. exists vf, vj.
    split; [reflexivity|]. split; [reflexivity|].
    split; [now apply Z.leb_le|]. split; [now apply Z.eqb_eq|].
    split; now apply word_isb_sound.
  - (* wflip *)
    destruct (eval_expr _ ea) as [A|]; [|discriminate].
    destruct (eval_expr _ ev) as [V|]; [|discriminate].
    destruct (eval_expr _ er) as [R|]; [|discriminate].
    split_andb. exists A, V, R.
    do 3 (split; [reflexivity|]).
    split; [now apply Z.leb_le|]. split; [now apply Z.eqb_eq|]. split; [now apply Z.leb_le|].
    split; [split; [now apply Z.leb_le | now apply Z.ltb_lt]|]. split; [now apply Z.leb_le|].
    now apply wflip_okb_sound.
  - (* pad *) exact I.
  - (* label *)
    destruct (lookup lbls name) as [v|]; [|discriminate]. apply Z.eqb_eq in H. now subst.
  - (* segment *)
    now apply Z.eqb_eq.
  - (* reserve *)
    apply andb_true_iff in H. destruct H as [H Hz].
    apply andb_true_iff in H. destruct H as [H Hseg].
    apply andb_true_iff in H. destruct H as [H Ha'].
    apply andb_true_iff in H. destruct H as [H Ha].
    apply andb_true_iff in H. destruct H as [H0 Hle].
    apply Z.leb_le in H0, Hle. apply Z.eqb_eq in Ha, Ha'.
    split; [split; assumption|]. split; [assumption|]. split; [assumption|]. split.
    + intros Hlt.
      apply orb_true_iff in Hseg. destruct Hseg as [Hc|Hc].
      * apply Z.leb_le in Hc. lia.
      * apply existsb_exists in Hc. destruct Hc as [s [Hs Hc]]. exists s. split; [exact Hs|].
        apply andb_true_iff in Hc. destruct Hc as [H1 H2]. split; now apply Z.leb_le.
    + intros wa Hwa. eapply zeros_in_sound; [exact Hz| |exact Hwa].
      assert (0 <= pl_addr p / wz ww) by (apply Z.div_pos; lia). lia.
Qed.

Theorem check_denotes_sound P lbls : check_denotes ww img P lbls = true -> Denotes ww img P lbls.
Proof.
  unfold check_denotes, Denotes. intros H.
  destruct (place ww (lookup lbls) P 0) as [L|]; [|discriminate].
  split_andb. exists L. repeat split; try assumption.
  apply Forall_forall. intros p Hp. apply stmt_okb_sound.
  match goal with H : forallb _ L = true |- _ => rewrite forallb_forall in H; now apply H end.
Qed.

End Sound.
