From FJ Require Import Lib.Base.
(* Soundness of the certified checker of C02: check_denotes = true -> Denotes (universal, no size bound). *)
From FJ Require Import Spec.MachineSpec Model.Ast Spec.DenoteSpec Model.DenoteCheck.
From Coq Require Import Permutation.
Local Open Scope Z_scope.

Lemma andb_true_l (a b : bool) : a && b = true -> a = true.
Proof. now intros [H _]%andb_true_iff. Qed.
Lemma andb_true_r (a b : bool) : a && b = true -> b = true.
Proof. now intros [_ H]%andb_true_iff. Qed.

Ltac split_andb :=
  repeat match goal with
         | H : _ && _ = true |- _ => apply andb_true_iff in H; destruct H
         end.

Lemma existsb_eqb_false (x : N) l : existsb (N.eqb x) l = false -> ~ In x l.
Proof.
  intros H HI. assert (existsb (N.eqb x) l = true); [|congruence].
  apply existsb_exists. exists x. split; [assumption | apply N.eqb_refl].
Qed.

Lemma existsb_eqb_true (x : N) l : existsb (N.eqb x) l = true -> In x l.
Proof. intros [y [Hy E]]%existsb_exists. apply N.eqb_eq in E. now subst. Qed.

Lemma nodupb_NoDup l : nodupb l = true -> NoDup l.
Proof.
  induction l as [|x l IH]; simpl; intros H; [constructor|].
  split_andb. constructor; [|now apply IH].
  apply existsb_eqb_false. now apply negb_true_iff.
Qed.

Lemma perm_check_sound fl bits : perm_check fl bits = true -> Permutation fl bits.
Proof.
  unfold perm_check. intros H. split_andb.
  apply NoDup_Permutation_bis.
  - now apply nodupb_NoDup.
  - now apply Nat.leb_le.
  - intros x Hx. apply existsb_eqb_true.
    match goal with H : forallb _ fl = true |- _ => rewrite forallb_forall in H; now apply H end.
Qed.

Section Sound.
Variable ww : N.
Variable img : image.

Lemma wz_pos : 0 < wz ww.
Proof.
  unfold wz, w. rewrite N.shiftl_1_l.
  assert (0 < 2 ^ ww)%N by (apply N.neq_0_lt_0, N.pow_nonzero; discriminate). lia.
Qed.

Lemma word_isb_sound wa v : word_isb ww img wa v = true -> word_is ww img wa v.
Proof.
  unfold word_isb, word_is. intros H. split_andb.
  repeat split; try (now apply Z.leb_le); try (now apply Z.ltb_lt); try assumption.
  now apply N.eqb_eq.
Qed.

Lemma zeros_in_sound lo hi :
  zeros_in img lo hi = true -> forall wa, 0 <= wa -> lo <= wa < hi -> mget0 (mem0 img) (Z.to_N wa) = 0%N.
Proof.
  unfold zeros_in. intros H wa H0 Hr. unfold mget0, mget, mem0.
  destruct (PositiveMap.find (key (Z.to_N wa)) (i_mem img)) as [v|] eqn:E; [|reflexivity].
  apply PositiveMap.elements_correct in E.
  rewrite forallb_forall in H. specialize (H _ E). cbn [fst snd] in H.
  unfold key in H. rewrite N.pos_pred_succ, Z2N.id in H by assumption.
  apply orb_true_iff in H. destruct H as [H|H].
  - apply negb_true_iff, andb_false_iff in H. destruct H as [H|H].
    + apply Z.leb_gt in H. lia.
    + apply Z.ltb_ge in H. lia.
  - now apply N.eqb_eq.
Qed.

Lemma wflip_okb_sound L a A V R : wflip_okb ww img L a A V R = true -> wflip_ok ww img L a A V R.
Proof.
  unfold wflip_okb, wflip_ok. intros H Hs. rewrite Hs in H.
  unfold mem0.
  destruct (chain_exec ww img _ _) as [[s' fl]|] eqn:E; [|discriminate].
  destruct (rev (hist s')) as [|a0 aux] eqn:Eh; [discriminate|].
  split_andb.
  match goal with H : (a0 =? a)%N = true |- _ => apply N.eqb_eq in H; subst a0 end.
  exists s', fl, aux. repeat split; try assumption.
  - now apply perm_check_sound.
  - now apply N.eqb_eq.
Qed.

Lemma stmt_okb_sound L lbls p : stmt_okb ww img L lbls p = true -> stmt_ok ww img L lbls p.
Proof.
  unfold stmt_okb, stmt_ok. pose proof wz_pos as Hw.
  destruct (pl_stmt p) as [f j ?|ea ev er ?|? ?|name ?|? ? ?|? ? ? ? ?|? ?|? ?]; intros H; try discriminate.
  - (* op *)
    destruct (eval_expr _ f) as [vf|]; [|discriminate].
    destruct (eval_expr _ j) as [vj|]; [|discriminate].
    split_andb. exists vf, vj.
    split; [reflexivity|]. split; [reflexivity|].
    split; [now apply Z.leb_le|]. split; [now apply Z.eqb_eq|].
    split; now apply word_isb_sound.
  - (* wflip *)
    destruct (eval_expr _ ea) as [A|]; [|discriminate].
    destruct (eval_expr _ ev) as [V|]; [|discriminate].
    destruct (eval_expr _ er) as [R|]; [|discriminate].
    split_andb. exists A, V, R.
    do 3 (split; [reflexivity|]).
    split; [now apply Z.leb_le|]. split; [now apply Z.eqb_eq|].
    split; [match goal with H : (_ =? 0) || _ = true |- _ =>
              apply orb_true_iff in H; destruct H as [H|H]; [left; now apply Z.eqb_eq|right; now apply Z.leb_le] end|].
    split; [split; [now apply Z.leb_le | now apply Z.ltb_lt]|]. split; [now apply Z.leb_le|].
    now apply wflip_okb_sound.
  - (* pad *) exact I.
  - (* label *)
    destruct (lookup lbls name) as [v|]; [|discriminate]. apply Z.eqb_eq in H. now subst.
  - (* segment *)
    now apply Z.eqb_eq.
  - (* reserve *)
    apply andb_true_iff in H. destruct H as [H Hz].
    apply andb_true_iff in H. destruct H as [H Hseg].
    apply andb_true_iff in H. destruct H as [H Ha'].
    apply andb_true_iff in H. destruct H as [H Ha].
    apply andb_true_iff in H. destruct H as [H0 Hle].
    apply Z.leb_le in H0, Hle. apply Z.eqb_eq in Ha, Ha'.
    split; [split; assumption|]. split; [assumption|]. split; [assumption|]. split.
    + intros Hlt.
      apply orb_true_iff in Hseg. destruct Hseg as [Hc|Hc].
      * apply Z.leb_le in Hc. lia.
      * apply existsb_exists in Hc. destruct Hc as [s [Hs Hc]]. exists s. split; [exact Hs|].
        apply andb_true_iff in Hc. destruct Hc as [H1 H2]. split; now apply Z.leb_le.
    + intros wa Hwa. eapply zeros_in_sound; [exact Hz| |exact Hwa].
      assert (0 <= pl_addr p / wz ww) by (apply Z.div_pos; lia). lia.
Qed.

Theorem check_denotes_sound P lbls : check_denotes ww img P lbls = true -> Denotes ww img P lbls.
Proof.
  unfold check_denotes, Denotes. intros H.
  destruct (place ww (lookup lbls) P 0) as [L|]; [|discriminate].
  split_andb. exists L. repeat split; try assumption.
  apply Forall_forall. intros p Hp. apply stmt_okb_sound.
  match goal with H : forallb _ L = true |- _ => rewrite forallb_forall in H; now apply H end.
Qed.

End Sound.

(* ================= executing a wflip chain on the machine (C02_wflip_exec) ================= *)
(* A chain stored in a memory: cs = [(x0,f0); (x1,f1); ...]: the op at bit address x_i has flip word f_i and its
   jump word is x_{i+1} (R for the last one).  Independent of how an assembler builds it. *)
From Coq Require Import Permutation.

Section ChainExec.
Variable ww : N.
Variable sg : list (N * N).
Local Open Scope N_scope.
Notation wN := (w ww).

Definition next_of (rest : list (N * N)) (R : N) : N := match rest with [] => R | (x, _) :: _ => x end.

Definition op_in (mm : mem) (x f j : N) : Prop :=
  x mod wN = 0 /\ valid sg (x / wN) = true /\ valid sg (x / wN + 1) = true
  /\ mget0 mm (x / wN) = f /\ mget0 mm (x / wN + 1) = j.

Fixpoint chain_in (mm : mem) (cs : list (N * N)) (R : N) : Prop :=
  match cs with
  | [] => True
  | (x, f) :: rest => op_in mm x f (next_of rest R) /\ chain_in mm rest R
  end.

Lemma wN_pos : 0 < wN.
Proof. unfold w. rewrite N.shiftl_1_l. apply N.neq_0_lt_0, N.pow_nonzero. discriminate. Qed.
Lemma wN_pow : wN = 2 ^ ww.
Proof. unfold w. now rewrite N.shiftl_1_l. Qed.

Lemma shiftr_w x : N.shiftr x ww = x / wN.
Proof. now rewrite N.shiftr_div_pow2, wN_pow. Qed.
Lemma land_w x : N.land x (wN - 1) = x mod wN.
Proof. rewrite wN_pow, N.sub_1_r, <- N.ones_equiv. apply N.land_ones. Qed.

Lemma get_word_aligned mm x :
  x mod wN = 0 -> valid sg (x / wN) = true -> get_word ww sg mm x = inr (mget0 mm (x / wN)).
Proof.
  intros Hm Hv. unfold get_word, rdw. rewrite shiftr_w, land_w, Hv, Hm. reflexivity.
Qed.

Lemma div_add_w x : x mod wN = 0 -> (x + wN) / wN = x / wN + 1 /\ (x + wN) mod wN = 0.
Proof.
  intros Hm. pose proof wN_pos as Hw. split.
  - replace (x + wN) with (x + 1 * wN) by lia. rewrite N.div_add by lia. reflexivity.
  - replace (x + wN) with (x + 1 * wN) by lia. rewrite N.mod_add by lia. exact Hm.
Qed.

Definition chain_words (cs : list (N * N)) : list N := flat_map (fun o => [fst o / wN; fst o / wN + 1]) cs.

Lemma chain_in_mset mm cs R a v :
  ~ In a (chain_words cs) -> chain_in mm cs R -> chain_in (mset mm a v) cs R.
Proof.
  induction cs as [|[x f] rest IH]; intros Hn H; [exact I|].
  cbn [chain_in] in *. destruct H as [(H1 & H2 & H3 & H4 & H5) Hr].
  cbn [chain_words flat_map fst app] in Hn.
  split; [|apply IH; [intros X; apply Hn; right; right; exact X|exact Hr]].
  unfold op_in. repeat split; auto.
  - rewrite mget0_mset_other; [exact H4|]. intros ->. apply Hn. now left.
  - rewrite mget0_mset_other; [exact H5|]. intros ->. apply Hn. right. now left.
Qed.

Fixpoint consec_ne (l : list N) : Prop :=
  match l with
  | x :: ((y :: _) as r) => x <> y /\ consec_ne r
  | _ => True
  end.

(* running the chain: every op is executed once, flips its own flip word's bit and goes on *)
Lemma chain_exec_run : forall cs mm R out0 k h x0,
  cs <> [] -> next_of cs R = x0 -> chain_in mm cs R ->
  (forall x, In x (map fst cs) -> covers_input ww x = false) ->
  (forall f, In f (map snd cs) -> valid sg (f / wN) = true /\ ~ In (f / wN) (chain_words cs)) ->
  consec_ne (map fst cs) ->
  (forall x, In x (tl (map fst cs)) -> dw ww <= x) ->
  exists s', chain_exec ww (mkimg sg mm) (List.length cs) (mkst x0 mm [] out0 k h) = Some (s', map snd cs)
             /\ s'.(ip) = R /\ s'.(hist) = rev (map fst cs) ++ h.
Proof.
  induction cs as [|[x f] rest IH]; intros mm R out0 k h x0 Hne Hx0 Hch Hcov Htgt Hnd Hdw; [congruence|].
  cbn [next_of] in Hx0. subst x0. cbn [chain_in] in Hch. destruct Hch as [(H1 & H2 & H3 & H4 & H5) Hrest].
  cbn [List.length chain_exec]. unfold DenoteSpec.segs. cbn [i_segs ip m].
  rewrite (get_word_aligned mm x H1 H2), H4.
  assert (Hc : covers_input ww x = false) by (apply Hcov; now left).
  destruct (Htgt f (or_introl eq_refl)) as [Hfv Hfn].
  cbn [chain_words flat_map fst app] in Hfn.
  assert (Hf1 : f / wN <> x / wN) by (intros E; apply Hfn; left; now rewrite E).
  assert (Hf2 : f / wN <> x / wN + 1) by (intros E; apply Hfn; right; left; now rewrite E).
  destruct (div_add_w x H1) as [Hd Hm].
  set (mm' := mset mm (f / wN) (flip_bit ww (mget0 mm (f / wN)) f)).
  assert (Hj : get_word ww sg mm' (x + wN) = inr (next_of rest R)).
  { rewrite get_word_aligned by (rewrite ?Hd; assumption). rewrite Hd. unfold mm'.
    rewrite mget0_mset_other by exact Hf2. now rewrite H5. }
  assert (Hstep : step ww sg (mkst x mm [] out0 k h) =
          let j := next_of rest R in
          let s' := mkst j mm' [] (if is_output ww f then (f =? dw ww + 1) :: out0 else out0) (k + 1) (x :: h) in
          if (j =? x) && negb ((x <=? f) && (f <? x + dw ww)) then inr (Looping, s')
          else if j <? dw ww then inr (NullIP, s') else inl s').
  { unfold step. cbn [ip m inp outp ops hist]. rewrite (get_word_aligned mm x H1 H2), H4, Hc.
    unfold rdw. rewrite shiftr_w, Hfv. fold mm'. rewrite Hj. reflexivity. }
  rewrite Hstep. cbn zeta.
  destruct rest as [|[x1 f1] rest'].
  - (* last op *)
    cbn [next_of map snd fst List.length rev app].
    destruct ((R =? x) && negb ((x <=? f) && (f <? x + dw ww))).
    + eexists. split; [reflexivity|]. cbn. auto.
    + destruct (R <? dw ww).
      * eexists. split; [reflexivity|]. cbn. auto.
      * cbn [chain_exec]. eexists. split; [reflexivity|]. cbn. auto.
  - (* an op in the middle *)
    cbn [next_of]. cbn [map fst snd] in Hnd, Hdw, Hcov, Htgt.
    assert (Hne1 : x1 <> x) by (cbn [consec_ne] in Hnd; destruct Hnd as [Hnd _]; congruence).
    assert (Hge : dw ww <= x1) by (apply Hdw; cbn; now left).
    assert ((x1 =? x) = false) as -> by now apply N.eqb_neq.
    assert ((x1 <? dw ww) = false) as -> by (apply N.ltb_ge; exact Hge).
    cbn [andb].
    destruct (IH mm' R (if is_output ww f then (f =? dw ww + 1) :: out0 else out0) (k + 1) (x :: h) x1) as (s' & E & Eip & Eh).
    + discriminate.
    + reflexivity.
    + apply chain_in_mset; [|exact Hrest]. intros X. apply Hfn. right. right. exact X.
    + intros y Hy. apply Hcov. right. exact Hy.
    + intros g Hg. destruct (Htgt g (or_intror Hg)) as [T1 T2]. split; [exact T1|].
      intros X. apply T2. cbn [chain_words flat_map fst app]. right. right. exact X.
    + cbn [consec_ne] in Hnd. now destruct Hnd.
    + intros y Hy. apply Hdw. cbn [tl]. right. cbn [map fst tl] in Hy. exact Hy.
    + exists s'. split; [|split; [exact Eip|]].
      * cbn [List.length]. change (chain_exec ww (mkimg sg mm) (S (List.length rest'))) with
          (chain_exec ww (mkimg sg mm') (S (List.length rest'))). cbn [List.length] in E. rewrite E. reflexivity.
      * rewrite Eh. cbn [map fst rev]. now rewrite <- !app_assoc.
Qed.

End ChainExec.

Section WflipExec.
Variable ww : N.
Variable img : image.
Local Open Scope N_scope.

Lemma static_chain_eq cs : forall R,
  cs <> [] -> chain_in ww (i_segs img) (i_mem img) cs R ->
  static_chain ww img (List.length cs) (next_of cs R) = map fst cs.
Proof.
  induction cs as [|[x f] rest IH]; intros R Hne Hch; [congruence|].
  cbn [List.length next_of static_chain map fst]. f_equal.
  cbn [chain_in] in Hch. destruct Hch as [(H1 & H2 & H3 & H4 & H5) Hrest].
  destruct (div_add_w ww x H1) as [Hd Hm].
  unfold DenoteSpec.wN, DenoteSpec.segs, DenoteSpec.mem0.
  rewrite (get_word_aligned ww (i_segs img) (i_mem img) (x + w ww)) by (rewrite ?Hd; assumption).
  rewrite Hd, H5. destruct rest as [|[x1 f1] rest']; [reflexivity|].
  cbn [next_of]. change x1 with (next_of ((x1, f1) :: rest') R). apply IH; [discriminate|exact Hrest].
Qed.

(* C02_wflip_exec: a chain that is stored in the image, whose flips are the bits of the statement and whose ops after
   the first one are auxiliary (placed by aux_ok, not on the input-cell op, not below 2w), executes as the wflip clause
   of Denotes demands - under the clause's stated side conditions *)
Theorem wflip_exec (L : list placed) (a A V R : N) (cs : list (N * N)) :
  cs <> [] -> next_of cs R = a ->
  chain_in ww (i_segs img) (i_mem img) cs R ->
  map snd cs = flip_bits ww A V ->
  NoDup (map snd cs) ->
  (forall x, In x (tl (map fst cs)) -> aux_ok ww img L x = true /\ covers_input ww x = false /\ dw ww <= x) ->
  wflip_ok ww img L a A V R.
Proof.
  intros Hne Ha Hch Hfl Hndf Haux Hside.
  assert (Hnd : consec_ne (map fst cs)).
  { clear - Hch Hndf. revert Hch Hndf. generalize R. induction cs as [|[x f] rest IH]; intros R0 Hch Hnd; [exact I|].
    destruct rest as [|[x1 f1] rest']; [exact I|].
    cbn [map fst snd consec_ne] in *. cbn [chain_in] in Hch. destruct Hch as [(_ & _ & _ & H4 & _) Hch'].
    pose proof Hch' as [(_ & _ & _ & G4 & _) _].
    split.
    - intros ->. inversion Hnd as [|? ? Hx _]; subst. apply Hx. left. congruence.
    - apply (IH R0); [exact Hch'|now inversion Hnd]. } unfold wflip_side_ok in Hside.
  apply andb_true_iff in Hside. destruct Hside as [Hc Ht]. apply negb_true_iff in Hc.
  assert (Hlen : List.length (flip_bits ww A V) = List.length cs) by (rewrite <- Hfl; apply map_length).
  rewrite Hlen in Ht. rewrite <- Ha in Ht. rewrite (static_chain_eq cs R Hne Hch) in Ht.
  rewrite forallb_forall in Ht.
  assert (Hhd : map fst cs = a :: tl (map fst cs)).
  { destruct cs as [|[x f] rest]; [congruence|]. cbn in Ha. now subst. }
  destruct (chain_exec_run ww (i_segs img) cs (i_mem img) R [] 0 [] a Hne Ha Hch) as (s' & E & Eip & Eh).
  - intros x Hx. rewrite Hhd in Hx. destruct Hx as [<-|Hx]; [exact Hc|]. now apply Haux.
  - intros f Hf. rewrite Hfl in Hf. specialize (Ht _ Hf). apply andb_true_iff in Ht. destruct Ht as [T1 T2].
    split; [exact T1|]. apply negb_true_iff in T2. intros Hin.
    assert (existsb (N.eqb (f / DenoteSpec.wN ww)) (flat_map (op_words ww) (map fst cs)) = true); [|congruence].
    apply existsb_exists. exists (f / w ww). split; [|apply N.eqb_refl].
    unfold chain_words in Hin. clear - Hin. induction cs as [|[x g] r IH]; [contradiction|].
    cbn [flat_map map fst] in *. apply in_app_or in Hin. apply in_or_app. destruct Hin as [H|H]; [left; exact H|right; auto].
  - exact Hnd.
  - intros x Hx. now apply Haux.
  - exists s', (map snd cs), (tl (map fst cs)). rewrite Hlen. destruct img as [sgs mm]. cbn [i_segs i_mem] in *.
    unfold mem0. cbn [i_mem]. split; [exact E|]. split; [|split; [|split; [rewrite Hfl; apply Permutation_refl|exact Eip]]].
    + rewrite Eh, app_nil_r, rev_involutive. exact Hhd.
    + apply forallb_forall. intros x Hx. now apply Haux.
Qed.

End WflipExec.

Lemma flip_bits_nodup ww A V : NoDup (flip_bits ww A V).
Proof.
  unfold flip_bits. destruct (V =? 0)%N; [constructor; [intros []|constructor]|].
  apply FinFun.Injective_map_NoDup; [intros x y H; lia|].
  apply NoDup_filter. unfold bit_indices. apply FinFun.Injective_map_NoDup; [intros x y H; lia|apply seq_NoDup].
Qed.

(* what remains to be shown about a wflip statement once the other clauses hold: a chain stored in the image *)
Definition wflip_chain_ok (ww : N) (img : image) (L : list placed) (lbls : labels) (p : placed) : Prop :=
  match pl_stmt p with
  | SWordFlip ea ev er _ =>
    let a := pl_addr p in
    let env := env_at lbls (pl_next p) in
    exists A V R cs,
      eval_expr env ea = Some A /\ eval_expr env ev = Some V /\ eval_expr env er = Some R
      /\ (0 <= a /\ a mod wz ww = 0 /\ (V = 0 \/ 0 <= A) /\ 0 <= V < 2 ^ wz ww /\ 0 <= R)%Z
      /\ cs <> [] /\ next_of cs (Z.to_N R) = Z.to_N a
      /\ chain_in ww (i_segs img) (i_mem img) cs (Z.to_N R)
      /\ map snd cs = flip_bits ww (Z.to_N A) (Z.to_N V)
      /\ (forall x, In x (tl (map fst cs)) ->
                    aux_ok ww img L x = true /\ covers_input ww x = false /\ (dw ww <= x)%N)
  | _ => True
  end.
