(* The native run loops with failing IO callbacks (Model/EngNativeFaults.v) refine the machine with a failing device
   (Model/Faults.v), under every storage layout and knob.

   Proof plan (as in Proofs/EngPyFaultsProps.v).  A fault iteration is the failure-free iteration preceded by two
   probes (`gen_fstep_decomp`); the machine's fault step has the same shape (`fstep_decomp`).  The probes need only the
   read of the flip word (`rd_ok`, per loop from NativeMemProps/NativePagedProps' read specifications); everything
   else is the failure-free simulation (flat_sim / measured_sim / paged_sim) used as a black box.  The ring of the
   last-ops clone is written at the top of the iteration, before any callback (`gen_fstep_frame` + ringR_push). *)
From FJ Require Import Lib.Base Lib.Bits Spec.MachineSpec Model.Faults Model.EngNative Model.EngNativeFaults
     Proofs.NativeMemProps Proofs.NativeFlatProps Proofs.NativePagedProps Proofs.FaultsProps Proofs.EngPyFaultsProps.
Local Open Scope N_scope.

Definition embed_fc (c : fcause) : nfcause :=
  match c with Halt c' => NHalt (NC c') | DevFail rd => NDevFail rd end.

Section W.
Variable ww : N.
Hypothesis Hww : 3 <= ww <= 6.
Variable sg : list (N * N).
Hypothesis Hload : loadable_segs ww sg = true.
Variable fc : option N.         (* the storage layout: None = paged, Some c = flat window of c words *)
Variable k : option N.          (* the device raises at this call; None = never *)

Local Notation w := (MachineSpec.w ww).
Local Notation dw := (MachineSpec.dw ww).
Local Notation in_addr := (MachineSpec.in_addr ww).
Local Notation W := (2 ^ w).
Local Notation memR := (NativeMemProps.memR ww sg fc).
Local Notation stR := (NativeFlatProps.stR ww sg fc).
Local Notation nsim := (NativeFlatProps.nsim ww sg fc).
Local Notation hit_ok := (NativeFlatProps.hit_ok ww sg fc).
Local Notation top_guard := (NativeFlatProps.top_guard ww sg).
Local Notation w_bounds := (NativeMemProps.w_bounds ww Hww).
Local Notation W_le_M64 := (NativeMemProps.W_le_M64 ww Hww).
Local Notation W_ge_256 := (NativeMemProps.W_ge_256 ww Hww).
Local Notation consts := (NativeFlatProps.consts ww Hww sg Hload fc).
Local Notation small_consts := (NativeFlatProps.small_consts ww Hww).
Local Notation get_word_spec := (NativeMemProps.get_word_spec ww Hww sg Hload fc).
Local Notation R_words := (NativeMemProps.R_words ww sg fc).
Local Notation R_shape := (NativeMemProps.R_shape ww sg fc).
Local Notation mget_word_lt := (NativeFlatProps.mget_word_lt ww Hww sg Hload fc).
Local Notation wa_plus1_small := (NativeFlatProps.wa_plus1_small ww Hww).
Local Notation input_hit_ok := (NativeFlatProps.input_hit_ok ww Hww sg Hload fc).
Local Notation guard_head := (NativeFlatProps.guard_head ww Hww sg Hload fc).
Local Notation guard_step := (NativeFlatProps.guard_step ww Hww sg Hload fc).
Local Notation step_hist_all := (NativeFlatProps.step_hist_all ww Hww sg Hload fc).

(* ---- one fault iteration assembled from the components of NativeFlatProps.gen_step ------------------------- *)
Definition gen_fstep {X : Type} (ns : nst) (rd : nmem * option (N * X))
           (oh ob : nmem -> N -> bool) (hit : nmem -> bool)
           (fl : nmem -> N -> nmem * bool) (rj : X -> nmem -> nmem * option N)
           (tl : nmem -> list bool -> list bool -> N -> N -> nst + (ncause * nst)) (calls : N) : nfres :=
  match rd with
  | (m1, None) => lift_n (memory_error_exit ns m1 ns.(s_inp) ns.(s_out)) calls
  | (m1, Some (f, x)) =>
    fdo_output k ns m1 (oh m1 f) (ob m1 f) calls (fun out1 calls1 =>
    fdo_input k ns m1 out1 (hit m1) calls1 (fun m2 inp' calls2 =>
      lift_n (match fl m2 f with
              | (m3, false) => memory_error_exit ns m3 inp' out1
              | (m3, true) =>
                match rj x m3 with
                | (m4, None) => memory_error_exit ns m4 inp' out1
                | (m4, Some j) => tl m4 inp' out1 f j
                end
              end) calls2))
  end.

(* the output function of the failure-free iteration with the same output test / bit *)
Definition outf_of (ns : nst) (oh ob : nmem -> N -> bool) : nmem -> N -> list bool :=
  fun m1 f => if oh m1 f then ob m1 f :: s_out ns else s_out ns.

Lemma gen_fstep_decomp {X} ns (rd : nmem * option (N * X)) oh ob hit fl rj tl calls :
  gen_fstep ns rd oh ob hit fl rj tl calls =
  match rd with
  | (_, None) => lift_n (gen_step ns rd (outf_of ns oh ob) hit fl rj tl) calls
  | (m1, Some (f, x)) =>
    if oh m1 f && fails k calls
    then inr (NDevFail false, mknst (s_ip ns) m1 (s_inp ns) (s_out ns) (s_ops ns) (s_ring ns) (s_rw ns), calls)
    else
      let out1 := outf_of ns oh ob m1 f in
      let calls1 := if oh m1 f then calls + 1 else calls in
      if hit m1 && fails k calls1
      then inr (NDevFail true, mknst (s_ip ns) m1 (s_inp ns) out1 (s_ops ns) (s_ring ns) (s_rw ns), calls1)
      else lift_n (gen_step ns rd (outf_of ns oh ob) hit fl rj tl) (if hit m1 then calls1 + 1 else calls1)
  end.
Proof.
  unfold gen_fstep, gen_step. destruct rd as [m1 [[f x]|]]; [|reflexivity].
  unfold fdo_output, fdo_input, do_input, outf_of. cbv zeta.
  destruct (oh m1 f); cbn [andb]; [destruct (fails k calls); [reflexivity|]|];
    (destruct (hit m1); cbn [andb]; [|reflexivity]);
    (match goal with |- context [fails k ?c] => destruct (fails k c) end; [reflexivity|]);
    (destruct (s_inp ns) as [|b rest]; [reflexivity|]);
    (destruct (mem_write_bit m1 (c_in_addr m1) b) as [m2 [|]]; reflexivity).
Qed.

(* the ring fields are those written at the top of the iteration, whatever happens afterwards *)
Lemma gen_fstep_frame {X} ns (rd : nmem * option (N * X)) oh ob hit fl rj calls :
  match gen_fstep ns rd oh ob hit fl rj (loop_tail ns) calls with
  | inl (ns', _) => s_ring ns' = s_ring ns /\ s_rw ns' = s_rw ns
  | inr (_, ns', _) => s_ring ns' = s_ring ns /\ s_rw ns' = s_rw ns
  end.
Proof.
  rewrite gen_fstep_decomp.
  pose proof (gen_step_frame ns rd (outf_of ns oh ob) hit fl rj) as FR.
  destruct rd as [m1 [[f x]|]].
  - cbv zeta. destruct (oh m1 f && fails k calls); [cbn; auto|].
    match goal with |- context [hit m1 && fails k ?c] => destruct (hit m1 && fails k c) end; [cbn; auto|].
    destruct (gen_step ns (m1, Some (f, x)) (outf_of ns oh ob) hit fl rj (loop_tail ns)) as [ns'|[c ns']]; exact FR.
  - destruct (gen_step ns (m1, None) (outf_of ns oh ob) hit fl rj (loop_tail ns)) as [ns'|[c ns']]; exact FR.
Qed.

(* ---- one-step simulation -------------------------------------------------------------------------------------- *)
Definition nfrel (a : (st * N) + (fcause * st * N)) (b : nfres) : Prop :=
  match a, b with
  | inl (s', c), inl (ns', c') => stR s' ns' /\ ip s' < W /\ c = c'
  | inr (fcm, s', c), inr (fcn, ns', c') => fcn = embed_fc fcm /\ stR s' ns' /\ c = c'
  | _, _ => False
  end.

Lemma nsim_lift a b c : nsim a b -> nfrel (lift_m a c) (lift_n b c).
Proof.
  unfold NativeFlatProps.nsim, nfrel, lift_m, lift_n.
  destruct a as [s'|[cs s']], b as [ns'|[[cs'| |] ns']]; try contradiction.
  - intros [R H]. auto.
  - intros [-> R]. cbn. auto.
Qed.

(* the flip-word read of the iteration returns what the machine reads, on a memory that still represents it *)
Definition rd_ok {X : Type} (s : st) (rd : nmem * option (N * X)) : Prop :=
  match get_word ww sg (m s) (ip s) with
  | inr f => exists m1 x, rd = (m1, Some (f, x)) /\ memR m1 (m s)
  | inl _ => exists m1, rd = (m1, None)
  end.

(* the loop's output test and output bit *)
Definition oh_ok (oh ob : nmem -> N -> bool) : Prop :=
  forall m1 mm f, memR m1 mm -> f < W -> oh m1 f = is_output ww f /\ ob m1 f = (f =? dw + 1).

Ltac prj := cbn [ip m inp outp ops hist s_ip s_m s_inp s_out s_ops s_ring s_rw fst snd].

Lemma gen_fsim {X} s ns (rd : nmem * option (N * X)) oh ob hit fl rj tl calls :
  stR s ns -> rd_ok s rd -> oh_ok oh ob -> hit_ok s hit ->
  nsim (step ww sg s) (gen_step ns rd (outf_of ns oh ob) hit fl rj tl) ->
  nfrel (fstep ww sg k s calls) (gen_fstep ns rd oh ob hit fl rj tl calls).
Proof using All.
  intros (Eip & Einp & Eout & Eops & MR) RD OH HIT SIM.
  rewrite fstep_decomp, gen_fstep_decomp. unfold rd_ok in RD.
  destruct (get_word ww sg (m s) (ip s)) as [a|f] eqn:Ef.
  - destruct RD as (m1 & ->). now apply nsim_lift.
  - destruct RD as (m1 & x & -> & MR1).
    assert (Hf : f < W) by (eapply mget_word_lt; [apply (R_words _ _ (proj1 MR))|exact Ef]).
    destruct (OH m1 (m s) f MR1 Hf) as [E1 E2]. cbv zeta. rewrite E1, (HIT m1 (m s) MR1).
    destruct (is_output ww f && fails k calls).
    { unfold nfrel, NativeFlatProps.stR; prj. cbn [embed_fc]. auto 10. }
    destruct (covers_input ww (ip s) && fails k (if is_output ww f then calls + 1 else calls)).
    { unfold nfrel, NativeFlatProps.stR; prj. cbn [embed_fc]. unfold outf_of. rewrite E1, E2, Eout. auto 10. }
    now apply nsim_lift.
Qed.

(* ---- the flat loop ---------------------------------------------------------------------------------------------- *)
Lemma flat_fstep_eq ns fa calls : n_flat (s_m ns) = Some fa ->
  flat_fstep k ns calls =
  gen_fstep ns (flat_read_flip (s_m ns) (s_ip ns))
            (fun m1 f => sub64 f (c_dw m1) <=? 1) (fun m1 f => f =? add64 (c_dw m1) 1)
            (fun m1 => input_hit m1 (s_ip ns)) flat_do_flip
            (fun wa m3 => flat_read_jump m3 (s_ip ns) wa) (loop_tail ns) calls.
Proof. intros E. unfold flat_fstep. rewrite E. reflexivity. Qed.

Lemma flat_oh_ok : oh_ok (fun m1 f => sub64 f (c_dw m1) <=? 1) (fun m1 f => f =? add64 (c_dw m1) 1).
Proof using All.
  intros m1 mm f MR1 Hf. pose proof W_le_M64 as HW. pose proof (eq_refl : M64 = 18446744073709551616) as HM64.
  destruct small_consts as (Edw & Ein & Hw8). destruct (consts m1 mm (proj1 MR1)) as (Cdw & _).
  cbv beta. rewrite Cdw. unfold is_output. rewrite out_test by lia. rewrite add64_small by lia. auto.
Qed.

Lemma flat_rd_ok s ns fa : stR s ns -> ip s < W -> ip s + dw <= M64 -> n_flat (s_m ns) = Some fa ->
  rd_ok s (flat_read_flip (s_m ns) (s_ip ns)).
Proof using All.
  intros (Eip & _ & _ & _ & MR) Hip Htop Efa.
  pose proof W_le_M64 as HW. pose proof w_bounds as Hw. pose proof W_ge_256 as HW2.
  pose proof (eq_refl : M64 = 18446744073709551616) as HM64. destruct small_consts as (Edw & _).
  destruct (consts _ _ (proj1 MR)) as (_ & _ & _ & Cbm & Cw & Cww).
  unfold rd_ok. rewrite <- Eip. rewrite (flat_read_flip_eq ww Hww sg _ fa (ip s) Efa).
  2:{ rewrite Cww. apply add64_small. pose proof (wa_plus1_small (ip s) ltac:(lia)). lia. }
  destruct (mem_get_word_unaligned (s_m ns) (ip s)) as [m1 r] eqn:Eg.
  destruct (get_word_spec _ _ (ip s) m1 r MR ltac:(lia) ltac:(lia) ltac:(intros; lia) Eg) as [S _].
  destruct (get_word ww sg (m s) (ip s)) as [a|f]; destruct S as [-> S].
  - exists m1. reflexivity.
  - exists m1. eexists. split; [reflexivity|assumption].
Qed.

Theorem flat_fsim c s ns calls : fc = Some c -> stR s ns -> ip s < W -> ip s + dw <= M64 ->
  nfrel (fstep ww sg k s calls) (flat_fstep k ns calls).
Proof using All.
  intros Efc ST Hip Htop. pose proof ST as (Eip & Einp & Eout & Eops & MR).
  destruct (flat_some ww Hww sg Hload fc _ _ c Efc MR) as [fa Efa].
  pose proof (flat_sim ww Hww sg Hload fc c s ns Efc ST Hip Htop) as SIM. rewrite (flat_step_eq ns fa Efa) in SIM.
  rewrite (flat_fstep_eq ns fa calls Efa).
  apply gen_fsim; try assumption.
  - eapply flat_rd_ok; eassumption.
  - apply flat_oh_ok.
  - now apply input_hit_ok.
Qed.

(* ---- the measurement loop --------------------------------------------------------------------------------------- *)
Lemma measured_fstep_eq ns calls :
  let m0 := s_m ns in let ip0 := s_ip ns in
  measured_fstep k ns calls =
  gen_fstep ns (lift_rd (mem_get_word_unaligned m0 ip0))
    (fun _ f => (f <=? add64 (c_dw m0) 1) && (c_dw m0 <=? f)) (fun _ f => f =? add64 (c_dw m0) 1)
    (fun _ => (ip0 <=? c_in_addr m0) && (c_in_lo m0 <? ip0))
    mem_flip_bit
    (fun _ m3 => mem_get_word_unaligned m3 (add64 ip0 (n_w m0)))
    (fun m4 inp' out1 f j =>
       let s' := mknst j m4 inp' out1 (add64 (s_ops ns) 1) (s_ring ns) (s_rw ns) in
       if (j =? ip0) && negb ((ip0 <=? f) && (sub64 f ip0 <? c_dw m0)) then inr (NC Looping, s')
       else if j <? c_dw m0 then inr (NC NullIP, s')
       else inl s') calls.
Proof.
  cbn zeta. unfold measured_fstep, gen_fstep, lift_rd.
  destruct (mem_get_word_unaligned (s_m ns) (s_ip ns)) as [m1 [f|]]; reflexivity.
Qed.

Theorem measured_fsim s ns calls : stR s ns -> ip s < W -> ip s + dw <= M64 ->
  nfrel (fstep ww sg k s calls) (measured_fstep k ns calls).
Proof using All.
  intros ST Hip Htop. pose proof ST as (Eip & Einp & Eout & Eops & MR).
  pose proof (measured_sim ww Hww sg Hload fc s ns ST Hip Htop) as SIM.
  pose proof (measured_step_eq ns) as E. cbn zeta in E. rewrite E in SIM; clear E.
  pose proof (measured_fstep_eq ns calls) as E. cbn zeta in E. rewrite E; clear E.
  pose proof W_le_M64 as HW. pose proof w_bounds as Hw. pose proof W_ge_256 as HW2.
  pose proof (eq_refl : M64 = 18446744073709551616) as HM64.
  destruct small_consts as (Edw & Ein & _).
  destruct (consts _ _ (proj1 MR)) as (Cdw & Cin & Clo & _ & Cw & _).
  apply gen_fsim; try assumption.
  - unfold rd_ok. rewrite <- Eip.
    destruct (mem_get_word_unaligned (s_m ns) (ip s)) as [m1 r] eqn:Eg.
    destruct (get_word_spec _ _ (ip s) m1 r MR ltac:(lia) ltac:(lia) ltac:(intros; lia) Eg) as [S _].
    unfold lift_rd. destruct (get_word ww sg (m s) (ip s)) as [a|f]; destruct S as [-> S].
    + exists m1. reflexivity.
    + exists m1, tt. auto.
  - intros m1 mm f _ _. cbv beta. rewrite Cdw. rewrite (add64_small dw 1) by lia.
    unfold is_output. rewrite andb_comm. auto.
  - intros m1 mm _. rewrite Cin, Clo, <- Eip. unfold covers_input. f_equal.
    destruct (N.ltb_spec (in_addr - dw) (ip s)), (N.ltb_spec in_addr (ip s + dw)); try reflexivity; lia.
Qed.

(* ---- the paged loop and its last-ops clone ------------------------------------------------------------------------ *)
Lemma paged_fstep_eq with_ring K s0 calls :
  let ns := ring_write with_ring K s0 in
  paged_fstep k with_ring K s0 calls =
  gen_fstep ns
    (lane_rd (if with_ring && (match n_flat (s_m ns) with Some _ => true | None => false end)
              then ring_flat_read_flip (s_m ns) (s_ip ns) else paged_read_flip (s_m ns) (s_ip ns)))
    (fun m1 f => sub64 f (c_dw m1) <=? 1) (fun m1 f => f =? add64 (c_dw m1) 1)
    (fun m1 => input_hit m1 (s_ip ns))
    (paged_do_flip with_ring) (fun l m3 => paged_read_jump with_ring m3 (s_ip ns) l) (loop_tail ns) calls.
Proof.
  cbn zeta. unfold paged_fstep, gen_fstep, lane_rd, ring_write.
  destruct with_ring; cbn [andb s_ip s_m s_inp s_out].
  - destruct (n_flat (s_m s0)).
    + destruct (ring_flat_read_flip (s_m s0) (s_ip s0)) as [m1 [l|]]; reflexivity.
    + destruct (paged_read_flip (s_m s0) (s_ip s0)) as [m1 [l|]]; reflexivity.
  - destruct (paged_read_flip (s_m s0) (s_ip s0)) as [m1 [l|]]; reflexivity.
Qed.

Theorem paged_fsim with_ring K s s0 calls : (with_ring = false -> fc = None) ->
  stR s s0 -> ip s < W -> ip s + dw <= M64 ->
  nfrel (fstep ww sg k s calls) (paged_fstep k with_ring K s0 calls).
Proof using All.
  intros Hfc ST0 Hip Htop.
  pose proof (paged_sim ww Hww sg Hload fc with_ring K s s0 Hfc ST0 Hip Htop) as SIM.
  pose proof (paged_step_eq with_ring K s0) as E. cbn zeta in E. rewrite E in SIM; clear E.
  pose proof (paged_fstep_eq with_ring K s0 calls) as E. cbn zeta in E. rewrite E; clear E.
  pose proof (stR_ring_write ww sg fc with_ring K s s0 ST0) as ST. set (ns := ring_write with_ring K s0) in *.
  pose proof ST as (Eip & Einp & Eout & Eops & MR).
  apply gen_fsim; try assumption.
  - unfold rd_ok. rewrite <- Eip.
    assert (RD : forall g, (forall nm' r, g = (nm', r) ->
        match get_word ww sg (m s) (ip s) with
        | inr f => exists l, r = Some l /\ l_f l = f /\ memR nm' (m s) /\ lane_ok ww fc (ip s) l nm'
        | inl a => r = None /\ NativeMemProps.errR ww sg fc nm' (m s) a
        end) ->
      match get_word ww sg (m s) (ip s) with
      | inr f => exists m1 x, lane_rd g = (m1, Some (f, x)) /\ memR m1 (m s)
      | inl a => exists m1, lane_rd g = (m1, None)
      end).
    { intros [m1 r] Hg. specialize (Hg m1 r eq_refl). unfold lane_rd.
      destruct (get_word ww sg (m s) (ip s)) as [a|f].
      - destruct Hg as [-> Hg]. exists m1. reflexivity.
      - destruct Hg as (l & -> & <- & MR1 & L). exists m1, l. auto. }
    apply RD. intros nm' r Hg.
    destruct (n_flat (s_m ns)) as [fa|] eqn:Efa.
    + destruct with_ring; cbn [andb] in Hg.
      * eapply ring_flat_read_flip_spec; eassumption.
      * eapply paged_read_flip_spec; try eassumption. now apply Hfc.
    + rewrite andb_false_r in Hg. eapply paged_read_flip_spec; try eassumption.
      pose proof (R_shape _ _ (proj1 MR)) as Sh. unfold flat_shape in Sh. now rewrite Efa in Sh.
  - apply flat_oh_ok.
  - now apply input_hit_ok.
Qed.

(* ---- whole runs ----------------------------------------------------------------------------------------------------- *)
Definition nfrunR (a : fcause * st * N) (b : nfcause * nst * N) : Prop :=
  fst (fst b) = embed_fc (fst (fst a)) /\ stR (snd (fst a)) (snd (fst b)) /\ snd b = snd a.

Lemma frun_sim stepf :
  (forall s ns calls, stR s ns -> ip s < W -> ip s + dw <= M64 -> nfrel (fstep ww sg k s calls) (stepf ns calls)) ->
  forall fuel s ns calls, stR s ns -> ip s < W -> top_guard fuel s ->
    nfrunR (frun ww sg k fuel s calls) (frun_n stepf fuel ns calls).
Proof using All.
  intros Hsim. induction fuel as [|n IH]; intros s ns calls R Hip G; cbn [frun frun_n].
  - unfold nfrunR; cbn. auto.
  - specialize (Hsim s ns calls R Hip (guard_head n s G Hip)). unfold nfrel in Hsim.
    destruct (fstep ww sg k s calls) as [[s' c']|[[fcm s'] c']] eqn:E,
             (stepf ns calls) as [[ns' c2]|[[fcn ns'] c2]]; try contradiction.
    + destruct Hsim as (R' & Hip' & ->). apply IH; try assumption.
      apply (guard_step n s s' G). eapply fstep_cont; eassumption.
    + destruct Hsim as (-> & R' & ->). unfold nfrunR; cbn. auto.
Qed.

(* a native loop with failing callbacks over a storage layout refines the machine with a failing device *)
Definition floop_ok (stepf : nst -> N -> nfres) : Prop :=
  forall fuel s ns calls, stR s ns -> ip s < W -> top_guard fuel s ->
    nfrunR (frun ww sg k fuel s calls) (frun_n stepf fuel ns calls).

Theorem flat_floop_ok c : fc = Some c -> floop_ok (flat_fstep k).
Proof using All. intros Efc fuel s ns calls. apply frun_sim. intros; eapply flat_fsim; eassumption. Qed.

Theorem measured_floop_ok : floop_ok (measured_fstep k).
Proof using All. intros fuel s ns calls. apply frun_sim. intros; now apply measured_fsim. Qed.

Theorem paged_floop_ok with_ring K : (with_ring = false -> fc = None) -> floop_ok (paged_fstep k with_ring K).
Proof using All. intros Hfc fuel s ns calls. apply frun_sim. intros; now apply paged_fsim. Qed.

(* ---- the ring along a run of the last-ops clone ------------------------------------------------------------------ *)
Lemma fstep_hist_all s calls :
  match fstep ww sg k s calls with
  | inl (s', _) => hist s' = ip s :: hist s
  | inr (_, s', _) => hist s' = ip s :: hist s
  end.
Proof using All.
  rewrite fstep_decomp. pose proof (step_hist_all s) as H.
  destruct (get_word ww sg (m s) (ip s)) as [a|f].
  - unfold lift_m. destruct (step ww sg s) as [s'|[c s']]; exact H.
  - cbv zeta. destruct (is_output ww f && fails k calls); [reflexivity|].
    match goal with |- context [covers_input ww (ip s) && fails k ?c] => destruct (covers_input ww (ip s) && fails k c) end;
      [reflexivity|].
    unfold lift_m. destruct (step ww sg s) as [s'|[c s']]; exact H.
Qed.

Theorem ring_fsim K s s0 calls : 0 < K -> stR s s0 -> ringR K (hist s) (s_ring s0) (s_rw s0) -> s_rw s0 + 1 < M64 ->
  ip s < W -> ip s + dw <= M64 ->
  nfrel (fstep ww sg k s calls) (paged_fstep k true K s0 calls) /\
  match fstep ww sg k s calls, paged_fstep k true K s0 calls with
  | inl (s', _), inl (ns', _) => ringR K (hist s') (s_ring ns') (s_rw ns')
  | inr (_, s', _), inr (_, ns', _) => ringR K (hist s') (s_ring ns') (s_rw ns')
  | _, _ => True
  end.
Proof using All.
  intros HK ST RR Hrw Hip Htop.
  split; [apply paged_fsim; try assumption; discriminate|].
  pose proof (fstep_hist_all s calls) as HH.
  pose proof (paged_fstep_eq true K s0 calls) as E. cbn zeta in E.
  pose proof (gen_fstep_frame (ring_write true K s0)
                (lane_rd (if true && (match n_flat (s_m (ring_write true K s0)) with Some _ => true | None => false end)
                          then ring_flat_read_flip (s_m (ring_write true K s0)) (s_ip (ring_write true K s0))
                          else paged_read_flip (s_m (ring_write true K s0)) (s_ip (ring_write true K s0))))
                (fun m1 f => sub64 f (c_dw m1) <=? 1) (fun m1 f => f =? add64 (c_dw m1) 1)
                (fun m1 => input_hit m1 (s_ip (ring_write true K s0)))
                (paged_do_flip true) (fun l m3 => paged_read_jump true m3 (s_ip (ring_write true K s0)) l) calls) as FR.
  rewrite <- E in FR. clear E.
  destruct ST as (Eip & _).
  pose proof (ringR_push K (hist s) (s_ring s0) (s_rw s0) (ip s) HK Hrw RR) as RP.
  unfold ring_write in FR. cbn [s_ring s_rw] in FR. rewrite <- Eip in FR.
  destruct (fstep ww sg k s calls) as [[s' c']|[[fcm s'] c']],
           (paged_fstep k true K s0 calls) as [[ns' c2]|[[fcn ns'] c2]]; try exact I;
    destruct FR as [F1 F2]; rewrite HH, F1, F2; exact RP.
Qed.

Theorem ring_frun_correct K : 0 < K -> forall fuel s ns calls,
  stR s ns -> ringR K (hist s) (s_ring ns) (s_rw ns) -> s_rw ns + N.of_nat fuel < M64 -> ip s < W -> top_guard fuel s ->
  let r := frun ww sg k fuel s calls in
  let nr := frun_n (paged_fstep k true K) fuel ns calls in
  nfrunR r nr /\
  ringR K (hist (snd (fst r))) (s_ring (snd (fst nr))) (s_rw (snd (fst nr))) /\
  s_rw (snd (fst nr)) <= s_rw ns + N.of_nat fuel.
Proof using All.
  intros HK. cbn zeta. induction fuel as [|f IH]; intros s ns calls ST RR Hrw Hip G; cbn [frun frun_n].
  - cbn [fst snd]. split; [unfold nfrunR; cbn; auto|]. split; [assumption|lia].
  - pose proof (guard_head f s G Hip) as Htop.
    destruct (ring_fsim K s ns calls HK ST RR ltac:(lia) Hip Htop) as [SIM RG].
    pose proof (guard_step f s) as GS. unfold nfrel in SIM.
    destruct (fstep ww sg k s calls) as [[s' c']|[[fcm s'] c']] eqn:E,
             (paged_fstep k true K ns calls) as [[ns' c2]|[[fcn ns'] c2]]; try contradiction.
    + destruct SIM as (S1 & S2 & ->).
      assert (Erw : s_rw ns' = s_rw ns + 1).
      { destruct RG as [-> _], RR as [-> _]. pose proof (fstep_hist_all s calls) as HH. rewrite E in HH.
        rewrite HH. cbn [length]. lia. }
      destruct (IH s' ns' c2 S1 RG ltac:(lia) S2 (GS s' G (fstep_cont _ _ _ _ _ _ _ E))) as (A & B & C).
      split; [assumption|]. split; [assumption|lia].
    + destruct SIM as (-> & S1 & ->). cbn [fst snd].
      split; [unfold nfrunR; cbn; auto|]. split; [assumption|].
      destruct RG as [-> _], RR as [-> _]. pose proof (fstep_hist_all s calls) as HH. rewrite E in HH.
      rewrite HH. cbn [length]. lia.
Qed.

End W.

(* ---- Memory_run with failing callbacks: every knob, every storage layout ------------------------------------------ *)
Section MemoryRun.
Variable ww : N.
Hypothesis Hww : 3 <= ww <= 6.
Variable sg : list (N * N).
Hypothesis Hload : loadable_segs ww sg = true.
Variable k : option N.

Local Notation memR := (NativeMemProps.memR ww sg).
Local Notation W := (2 ^ MachineSpec.w ww).

Lemma loop_fstep_ok kn nm fc : NativeMemProps.flat_shape nm = fc ->
  floop_ok ww sg fc k (loop_fstep k kn (dispatch kn nm)).
Proof using All.
  intros Sh. unfold dispatch, loop_fstep.
  destruct (k_measure kn && (k_last_ops kn =? 0)); [apply measured_floop_ok; assumption|].
  unfold flat_shape in Sh. destruct (n_flat nm) as [fa|] eqn:Efa; cbn [andb].
  - destruct (k_last_ops kn =? 0) eqn:Ek.
    + rewrite <- Sh. eapply flat_floop_ok; try assumption. reflexivity.
    + apply N.eqb_neq in Ek. destruct (N.ltb_spec 0 (k_last_ops kn)); [|lia].
      apply paged_floop_ok; try assumption. discriminate.
  - destruct (0 <? k_last_ops kn); [apply paged_floop_ok; try assumption; discriminate|].
    rewrite <- Sh. apply paged_floop_ok; auto.
Qed.

(* what is left behind / reported when the loop is left: the machine's stop state *)
Definition stop_obs (kn : knobs) (s' : st) (ns : nst) (last : list N) : Prop :=
  s_out ns = outp s' /\ s_ops ns = u64 (ops s') /\ s_inp ns = inp s' /\
  (exists fc', memR fc' (s_m ns) (m s')) /\
  last = (if 0 <? k_last_ops kn then rev (firstn (N.to_nat (k_last_ops kn)) (hist s')) else []).

Theorem memory_frun_correct kn nm mm input fuel :
  memR None nm mm -> n_decided nm = false ->
  NativeFlatProps.top_guard ww sg fuel (init mm input) -> N.of_nat fuel < M64 -> k_last_ops kn + k_last_ops kn <= M64 ->
  let '(fcm, s', _) := frun ww sg k fuel (init mm input) 0 in
  match Memory_frun k kn nm input fuel with
  | FRunValueError _ => True
  | FRunDone lk c ns last => (exists c0, fcm = Halt c0 /\ c = NC c0) /\ stop_obs kn s' ns last
  | FRunRaised lk rd ns kept => fcm = DevFail rd /\ stop_obs kn s' ns kept
  end.
Proof using All.
  intros MR Hd G Hf HK. unfold Memory_frun.
  destruct (frun ww sg k fuel (init mm input) 0) as [[fcm s'] cm] eqn:EM.
  destruct (mem_decide_storage nm (k_no_flat kn) (k_env_limit kn)) as [m1| |] eqn:Ed; try exact I.
  destruct (decide_storage_ok ww Hww sg Hload nm mm _ _ m1 MR Hd Ed) as (fc' & MR1 & _).
  pose proof (memR_clear ww Hww sg Hload fc' m1 mm MR1) as MR2.
  set (s0 := mknst 0 (clear_error m1) input [] 0 (PositiveMap.empty N) 0) in *.
  assert (ST : NativeFlatProps.stR ww sg fc' (init mm input) s0).
  { unfold NativeFlatProps.stR, init, s0. cbn [ip inp outp ops m s_ip s_inp s_out s_ops s_m].
    split; [reflexivity|]. split; [reflexivity|]. split; [reflexivity|]. split; [reflexivity|exact MR2]. }
  assert (Hip : ip (init mm input) < W) by (cbn; apply N.neq_0_lt_0; now apply N.pow_nonzero).
  pose proof (loop_fstep_ok kn m1 fc' (R_shape _ _ _ _ _ (proj1 MR1))) as LO.
  specialize (LO fuel (init mm input) s0 0 ST Hip G). rewrite EM in LO.
  (* the ring read-out *)
  assert (RO : forall fcn ns cn, frun_n (loop_fstep k kn (dispatch kn m1)) fuel s0 0 = (fcn, ns, cn) ->
            match dispatch kn m1 with LRing => ring_readout (s_ring ns) (k_last_ops kn) (s_rw ns) | _ => [] end
            = (if 0 <? k_last_ops kn then rev (firstn (N.to_nat (k_last_ops kn)) (hist s')) else [])).
  { intros fcn ns cn Er. unfold dispatch in *.
    destruct (k_measure kn && (k_last_ops kn =? 0)) eqn:Em.
    - apply andb_true_iff in Em. destruct Em as [_ Em]. apply N.eqb_eq in Em. rewrite Em. reflexivity.
    - destruct ((match n_flat m1 with Some _ => true | None => false end) && (k_last_ops kn =? 0)) eqn:Ef.
      + apply andb_true_iff in Ef. destruct Ef as [_ Ef]. apply N.eqb_eq in Ef. rewrite Ef. reflexivity.
      + destruct (N.ltb_spec 0 (k_last_ops kn)) as [Hpos|Hpos]; [|reflexivity].
        cbn [loop_fstep] in Er.
        destruct (ring_frun_correct ww Hww sg Hload fc' k (k_last_ops kn) Hpos fuel (init mm input) s0 0 ST)
          as (_ & RR & Hle); try assumption.
        * apply ringR_init.
        * cbn zeta in RR, Hle. rewrite EM, Er in RR. rewrite Er in Hle. unfold s0 in Hle. cbn [fst snd s_rw] in RR, Hle.
          apply ring_readout_spec; try assumption. lia. }
  destruct (frun_n (loop_fstep k kn (dispatch kn m1)) fuel s0 0) as [[fcn ns] cn] eqn:Er.
  specialize (RO fcn ns cn eq_refl).
  unfold nfrunR in LO. cbn [fst snd] in LO. destruct LO as (Efc & (E1 & E2 & E3 & E4 & M) & _).
  assert (OBS : forall last, last = (if 0 <? k_last_ops kn then rev (firstn (N.to_nat (k_last_ops kn)) (hist s')) else []) ->
                 stop_obs kn s' ns last).
  { intros last ->. unfold stop_obs. split; [now symmetry|]. split; [assumption|]. split; [now symmetry|].
    split; [now exists fc'|reflexivity]. }
  destruct fcm as [c0|rd]; cbn [embed_fc] in Efc; subst fcn.
  - split; [now exists c0|]. now apply OBS.
  - split; [reflexivity|]. now apply OBS.
Qed.

End MemoryRun.

(* ---- load + run: the native engine as fjm_run._run_native drives it, with a failing device ---------------------- *)
Theorem native_fault_end_to_end ww (Hww : 3 <= ww <= 6) sg (Hload : loadable_segs ww sg = true)
        k fmw runs nm kn input fuel :
  Forall (run_ok ww sg) runs -> load_image ww sg fmw runs = Some nm ->
  let mm := fold_left (fun mm r => store_words ww mm (fst r) (snd r)) runs (PositiveMap.empty N) in
  NativeFlatProps.top_guard ww sg fuel (init mm input) -> N.of_nat fuel < M64 -> k_last_ops kn + k_last_ops kn <= M64 ->
  let '(fcm, s', _) := frun ww sg k fuel (init mm input) 0 in
  match Memory_frun k kn nm input fuel with
  | FRunValueError _ => True
  | FRunDone lk c ns last => (exists c0, fcm = Halt c0 /\ c = NC c0) /\ stop_obs ww sg kn s' ns last
  | FRunRaised lk rd ns kept => fcm = DevFail rd /\ stop_obs ww sg kn s' ns kept
  end.
Proof.
  intros HF HL mm G Hf HK.
  destruct (load_ok ww Hww sg Hload fmw runs nm HF HL) as [MR Hd].
  exact (memory_frun_correct ww Hww sg Hload k kn nm mm input fuel MR Hd G Hf HK).
Qed.

(* per loop, from any related pair of states (the statements of Properties/C18_engines.v) *)
Theorem native_fault_refines ww (Hww : 3 <= ww <= 6) sg (Hload : loadable_segs ww sg = true) fc k stepf :
  floop_ok ww sg fc k stepf ->
  forall fuel s ns calls, NativeFlatProps.stR ww sg fc s ns -> ip s < 2 ^ MachineSpec.w ww ->
  NativeFlatProps.top_guard ww sg fuel s ->
  let '(fcm, s', c') := frun ww sg k fuel s calls in
  let '(fcn, ns', cn') := frun_n stepf fuel ns calls in
  fcn = embed_fc fcm /\ cn' = c' /\
  s_ops ns' = u64 (ops s') /\ s_out ns' = outp s' /\ s_inp ns' = inp s' /\ s_ip ns' = ip s' /\
  NativeMemProps.memR ww sg fc (s_m ns') (m s').
Proof.
  intros LO fuel s ns calls ST Hip G. specialize (LO fuel s ns calls ST Hip G).
  destruct (frun ww sg k fuel s calls) as [[fcm s'] c'].
  destruct (frun_n stepf fuel ns calls) as [[fcn ns'] cn'].
  unfold nfrunR, NativeFlatProps.stR in LO; cbn [fst snd] in LO.
  destruct LO as (E1 & (E2 & E3 & E4 & E5 & M) & E6).
  split; [assumption|]. split; [assumption|]. split; [assumption|]. split; [now symmetry|].
  split; [now symmetry|]. split; [now symmetry|assumption].
Qed.

Theorem native_loops_fault_ok ww (Hww : 3 <= ww <= 6) sg (Hload : loadable_segs ww sg = true) k :
  (forall c, floop_ok ww sg (Some c) k (flat_fstep k)) /\ (forall fc, floop_ok ww sg fc k (measured_fstep k)) /\
  floop_ok ww sg None k (paged_fstep k false 0) /\ (forall fc K, floop_ok ww sg fc k (paged_fstep k true K)).
Proof.
  split; [intros c; eapply flat_floop_ok; try assumption; reflexivity|].
  split; [intros fc; apply measured_floop_ok; assumption|].
  split; [apply paged_floop_ok; auto|].
  intros fc K. apply paged_floop_ok; try assumption. discriminate.
Qed.

(* the ring at the stop = the last K started ops of the machine's fault run, the stopped op included *)
Theorem native_fault_ring_readout ww (Hww : 3 <= ww <= 6) sg (Hload : loadable_segs ww sg = true) fc k K fuel s ns calls :
  0 < K -> K + K <= M64 -> NativeFlatProps.stR ww sg fc s ns -> hist s = [] ->
  s_ring ns = PositiveMap.empty N -> s_rw ns = 0 -> N.of_nat fuel < M64 -> ip s < 2 ^ MachineSpec.w ww ->
  NativeFlatProps.top_guard ww sg fuel s ->
  let nr := snd (fst (frun_n (paged_fstep k true K) fuel ns calls)) in
  ring_readout (s_ring nr) K (s_rw nr) = rev (firstn (N.to_nat K) (hist (snd (fst (frun ww sg k fuel s calls))))).
Proof.
  intros HK HK2 ST Eh Er Ew Hf Hip G. cbn zeta.
  destruct (ring_frun_correct ww Hww sg Hload fc k K HK fuel s ns calls ST) as (_ & RR & Hle); try assumption.
  - rewrite Eh, Er, Ew. apply ringR_init.
  - lia.
  - cbn zeta in RR, Hle. apply ring_readout_spec; try assumption. lia.
Qed.

(* the native engine stops at an op boundary of the failure-free MACHINE run (with Faults' frun_prefix) *)
Theorem native_fault_stop_boundary ww (Hww : 3 <= ww <= 6) sg (Hload : loadable_segs ww sg = true) fc k stepf :
  floop_ok ww sg fc k stepf ->
  forall fuel s ns calls rd ns' calls', NativeFlatProps.stR ww sg fc s ns -> ip s < 2 ^ MachineSpec.w ww ->
  NativeFlatProps.top_guard ww sg fuel s ->
  frun_n stepf fuel ns calls = (NDevFail rd, ns', calls') ->
  exists n sn s', steps ww sg n s = Some sn /\ stopped_at rd sn s' /\ NativeFlatProps.stR ww sg fc s' ns' /\
                  ops sn = ops s + N.of_nat n /\ k = Some calls'.
Proof.
  intros LO fuel s ns calls rd ns' calls' ST Hip G H. specialize (LO fuel s ns calls ST Hip G). rewrite H in LO.
  destruct (frun ww sg k fuel s calls) as [[fcm s'] c'] eqn:E. unfold nfrunR in LO; cbn [fst snd] in LO.
  destruct LO as (E1 & R' & ->). destruct fcm as [c0|rd0]; cbn [embed_fc] in E1; [discriminate|]. injection E1 as ->.
  destruct (frun_prefix ww sg k fuel s calls rd0 s' c' E) as (n & sn & H1 & H2 & H3 & H4).
  exists n, sn, s'. auto.
Qed.

(* "identically for all engines": a Python loop and a native loop started on representations of the same machine state,
   with the same failing device, stop for the same reason after the same device calls with the same op count
   (the C counter is mod 2^64), output, remaining input and ip, on memories that represent one machine memory *)
Theorem engines_stop_identically ww (Hww : 3 <= ww <= 6) sg (Hload : loadable_segs ww sg = true) zb fc k stepf featured :
  floop_ok ww sg fc k stepf ->
  forall fuel s ps ns calls, EngPyProps.stR ww sg zb s ps -> NativeFlatProps.stR ww sg fc s ns ->
  ip s < 2 ^ MachineSpec.w ww -> NativeFlatProps.top_guard ww sg fuel s ->
  let '(pfc, ps', pc') := EngPyFaults.frun_py (engine_fstep ww zb featured k) fuel ps calls in
  let '(fcn, ns', cn') := frun_n stepf fuel ns calls in
  fcn = embed_fc pfc /\ cn' = pc' /\
  s_ops ns' = u64 (EngPy.p_ops ps') /\ s_out ns' = EngPy.p_out ps' /\ s_inp ns' = EngPy.p_inp ps' /\
  s_ip ns' = EngPy.p_ip ps' /\
  exists mm, EngPyProps.memR ww sg zb (EngPy.p_mem ps') mm /\ NativeMemProps.memR ww sg fc (s_m ns') mm.
Proof.
  intros LO fuel s ps ns calls SP SN Hip G.
  pose proof (py_fault_refines ww ltac:(lia) sg zb featured k fuel s ps calls SP Hip) as P.
  pose proof (native_fault_refines ww Hww sg Hload fc k stepf LO fuel s ns calls SN Hip G) as Q.
  destruct (frun ww sg k fuel s calls) as [[fcm s'] c'].
  destruct (EngPyFaults.frun_py (engine_fstep ww zb featured k) fuel ps calls) as [[pfc ps'] pc'].
  destruct (frun_n stepf fuel ns calls) as [[fcn ns'] cn'].
  destruct P as (P1 & P2 & P3 & P4 & P5 & P6 & P7 & P8). destruct Q as (Q1 & Q2 & Q3 & Q4 & Q5 & Q6 & Q7).
  subst pfc pc'. rewrite P3, P4, P5, P7.
  split; [assumption|]. split; [assumption|]. split; [assumption|]. split; [assumption|]. split; [assumption|].
  split; [assumption|]. exists (m s'). split; assumption.
Qed.
