(* Soundness of the block checker: a `true` of Model.StlRun.check_block is the frame equation
   Spec.StlSpec.block_correct, and a `forallb` over an enumerated operand domain is the universally
   quantified statement over that domain. *)
From FJ Require Import Lib.Base Spec.MachineSpec Spec.StlSpec Model.StlRun Proofs.MachineProps.
Local Open Scope N_scope.

Definition res_st (r : st + (cause * st)) : st := match r with inl s => s | inr (_, s) => s end.

Section W.
Variable ww : N.
Variable sg : list (N * N).

(* ---- a word that is not logged as written keeps its value ---- *)

Lemma step_frame s a : ~ In a (step_writes ww sg s) -> mget (m (res_st (step ww sg s))) a = mget (m s) a.
Proof.
  unfold step, step_writes.
  destruct (get_word ww sg (m s) (ip s)) as [fa|f]; [reflexivity|].
  intros H.
  assert (Hf : a <> N.shiftr f ww) by (intros E; apply H; left; auto).
  destruct (covers_input ww (ip s)) eqn:Hc.
  - assert (Hi : a <> N.shiftr (in_addr ww) ww) by (intros E; apply H; right; left; auto).
    repeat match goal with
    | |- context [match ?x with _ => _ end] => destruct x
    end; cbn; rewrite ?mget_mset_other by congruence; reflexivity.
  - repeat match goal with
    | |- context [match ?x with _ => _ end] => destruct x
    end; cbn; rewrite ?mget_mset_other by congruence; reflexivity.
Qed.

Definition frame (s s' : st) (wl wl' : list N) : Prop :=
  exists ext, wl' = ext ++ wl /\ forall a, ~ In a ext -> mget (m s') a = mget (m s) a.

Lemma frame_trans s1 s2 s3 w1 w2 w3 : frame s1 s2 w1 w2 -> frame s2 s3 w2 w3 -> frame s1 s3 w1 w3.
Proof.
  intros [e1 [E1 F1]] [e2 [E2 F2]]. exists (e2 ++ e1). split.
  - subst. now rewrite app_assoc.
  - intros a Ha. rewrite F2, F1; auto; intros X; apply Ha; apply in_or_app; auto.
Qed.

Lemma run_pow_spec d : forall s wl,
  match run_pow ww sg d s wl with
  | Cont s' wl' => (exists k, forall j, run ww sg (k + j) s = run ww sg j s') /\ frame s s' wl wl'
  | Halt c s' wl' => (exists k, run ww sg k s = (c, s')) /\ frame s s' wl wl'
  end.
Proof.
  induction d as [|d IH]; intros s wl.
  - cbn [run_pow]. pose proof (step_frame s) as SF.
    destruct (step ww sg s) as [s'|[c s']] eqn:E; cbn [res_st] in SF.
    + split.
      * exists 1%nat. intros j. cbn [Nat.add run]. now rewrite E.
      * exists (step_writes ww sg s). split; auto.
    + split.
      * exists 1%nat. cbn [run]. now rewrite E.
      * exists (step_writes ww sg s). split; auto.
  - cbn [run_pow]. pose proof (IH s wl) as H1.
    destruct (run_pow ww sg d s wl) as [s1 w1|c s1 w1].
    + destruct H1 as [[k1 R1] F1]. pose proof (IH s1 w1) as H2.
      destruct (run_pow ww sg d s1 w1) as [s2 w2|c s2 w2].
      * destruct H2 as [[k2 R2] F2]. split; [|eapply frame_trans; eauto].
        exists (k1 + k2)%nat. intros j. rewrite <- Nat.add_assoc, R1. apply R2.
      * destruct H2 as [[k2 R2] F2]. split; [|eapply frame_trans; eauto].
        exists (k1 + k2)%nat. rewrite R1. exact R2.
    + exact H1.
Qed.

Lemma run_pow_halt d s c s' wl' :
  run_pow ww sg d s [] = Halt c s' wl' ->
  (exists k, run ww sg k s = (c, s')) /\ forall a, ~ In a wl' -> mget (m s') a = mget (m s) a.
Proof.
  intros H. pose proof (run_pow_spec d s []) as P. rewrite H in P.
  destruct P as [R [ext [E F]]]. rewrite app_nil_r in E. subst. auto.
Qed.

End W.

(* ---- patching touches only the words of the declared variables ---- *)

Lemma patch_digits_frame ww bits n : forall mm a v x,
  ~ In x (digit_words a n) -> mget (patch_digits ww bits mm a n v) x = mget mm x.
Proof.
  induction n as [|n IH]; intros mm a v x H; cbn [patch_digits]; [reflexivity|].
  cbn [digit_words] in H. rewrite IH by (intros X; apply H; right; exact X).
  apply mget_mset_other. intros E; apply H; left; exact E.
Qed.

Lemma patch_vars_frame ww xs : forall mm vs x,
  ~ In x (vars_words xs) -> mget (patch_vars ww mm xs vs) x = mget mm x.
Proof.
  induction xs as [|y xs IH]; intros mm vs x H; cbn [patch_vars]; [reflexivity|].
  destruct vs as [|v vs]; [reflexivity|].
  unfold vars_words in H. cbn [flat_map] in H.
  rewrite IH by (intros X; apply H; apply in_or_app; right; exact X).
  unfold patch_var. apply patch_digits_frame. intros X; apply H; apply in_or_app; left; exact X.
Qed.

Lemma start_mem_frame ww img b vs vs' x :
  ~ In x (1 :: vars_words (b_vars b)) -> mget (start_mem ww img b vs) x = mget (start_mem ww img b vs') x.
Proof.
  intros H. unfold start_mem.
  rewrite !mget_mset_other by (intros E; apply H; left; exact E).
  rewrite !patch_vars_frame by (intros X; apply H; right; exact X). reflexivity.
Qed.

Lemma eq_mod_refl mask x : eq_mod mask x x = true.
Proof. unfold eq_mod. rewrite N.lxor_nilpotent, N.ldiff_0_l. reflexivity. Qed.

Lemma nlist_eqb_eq a : forall b, nlist_eqb a b = true -> a = b.
Proof.
  induction a as [|x a IH]; intros [|y b] H; cbn in H; try discriminate; [reflexivity|].
  apply andb_prop in H. destruct H as [H1 H2]. apply N.eqb_eq in H1. subst. f_equal. auto.
Qed.

Lemma out_is_eq o bytes : out_is o bytes = true -> out_bytes o = (bytes, []).
Proof.
  unfold out_is. destruct (out_bytes o) as [bs t]. intros H. apply andb_prop in H. destruct H as [H1 H2].
  apply nlist_eqb_eq in H1. destruct t; [subst; reflexivity|discriminate].
Qed.

(* ---- the checker decides the frame equation ---- *)

Theorem check_block_sound ww sg img b S vs :
  check_block ww sg img b S vs = true -> block_correct ww sg img b S vs.
Proof.
  unfold check_block, block_correct.
  destruct (S vs) as [[vs' x]|]; [|trivial].
  destruct (nth_error (b_exits b) (N.to_nat x)) as [[xa marker]|]; [|discriminate].
  destruct (run_pow ww sg (b_depth b) (init (start_mem ww img b vs) []) []) as [s wl|c s wl] eqn:R; [discriminate|].
  destruct c; try discriminate.
  intros H.
  apply andb_prop in H. destruct H as [H Hv].
  apply andb_prop in H. destruct H as [H Hw].
  apply andb_prop in H. destruct H as [H _].
  apply andb_prop in H. destruct H as [Hip Hout].
  apply run_pow_halt in R. destruct R as [[k Rk] F].
  exists xa, marker, k, s. repeat split; auto.
  - now apply N.eqb_eq.
  - now apply out_is_eq.
  - intros a. rewrite forallb_forall in Hw, Hv.
    destruct (in_dec N.eq_dec a (0 :: 1 :: vars_words (b_vars b))) as [J|NJ]; [exact (Hv a J)|].
    assert (NJ' : ~ In a (1 :: vars_words (b_vars b))) by (intros X; apply NJ; right; exact X).
    destruct (in_dec N.eq_dec a wl) as [I|NI].
    { specialize (Hw a I). destruct a; [exfalso; apply NJ; left; reflexivity|exact Hw]. }
    unfold mget0. rewrite (F a NI). cbn [m init].
    rewrite (start_mem_frame ww img b vs vs' a NJ'). apply eq_mod_refl.
Qed.

(* ---- finite domains ---- *)

Lemma range_In lo hi v : lo <= v < hi -> In v (range lo hi).
Proof.
  intros H. unfold range. apply in_map_iff. exists (N.to_nat (v - lo)). split; [lia|].
  apply in_seq. lia.
Qed.

Lemma enum_dom_In rs : forall vs, in_dom rs vs -> In vs (enum_dom rs).
Proof.
  induction rs as [|r rs IH]; intros vs H; inversion H; subst; cbn [enum_dom].
  - left; reflexivity.
  - apply in_flat_map. exists x. split; [now apply range_In|]. apply in_map. apply IH. assumption.
Qed.

Lemma dom_forallb (f : list N -> bool) rs :
  forallb f (enum_dom rs) = true -> forall vs, in_dom rs vs -> f vs = true.
Proof. intros H vs D. rewrite forallb_forall in H. apply H. now apply enum_dom_In. Qed.

(* a domain cut in two along its first operand *)
Lemma dom_split (P : list N -> Prop) lo mid hi rs :
  (forall vs, in_dom ((lo, mid) :: rs) vs -> P vs) -> (forall vs, in_dom ((mid, hi) :: rs) vs -> P vs) ->
  forall vs, in_dom ((lo, hi) :: rs) vs -> P vs.
Proof.
  intros A B vs H. inversion H; subst. cbn [fst snd] in *.
  destruct (N.lt_ge_cases x mid).
  - apply A. constructor; [cbn; lia|assumption].
  - apply B. constructor; [cbn; lia|assumption].
Qed.

(* the same at any operand position (pre = the ranges before it) *)
Lemma dom_split_at pre : forall (P : list N -> Prop) lo mid hi rs,
  (forall vs, in_dom (pre ++ (lo, mid) :: rs) vs -> P vs) -> (forall vs, in_dom (pre ++ (mid, hi) :: rs) vs -> P vs) ->
  forall vs, in_dom (pre ++ (lo, hi) :: rs) vs -> P vs.
Proof.
  induction pre as [|r pre IH]; intros P lo mid hi rs A B vs H.
  - now apply (dom_split P lo mid hi rs).
  - cbn [app] in *. inversion H; subst.
    apply (IH (fun t => P (x :: t)) lo mid hi rs); [| |assumption].
    + intros t Ht. apply A. constructor; assumption.
    + intros t Ht. apply B. constructor; assumption.
Qed.

(* the lifting used by every generated instance theorem *)
Theorem blocks_by_enumeration ww sg img b S rs :
  forallb (check_block ww sg img b S) (enum_dom rs) = true ->
  forall vs, in_dom rs vs -> block_correct ww sg img b S vs.
Proof. intros H vs D. apply check_block_sound. now apply (dom_forallb _ rs). Qed.

(* readable forms for one, two, three and four operands *)
Lemma in_dom1 a A : a < A -> in_dom [(0, A)] [a].
Proof. intros; repeat constructor; cbn; lia. Qed.
Lemma in_dom2 a b A B : a < A -> b < B -> in_dom [(0, A); (0, B)] [a; b].
Proof. intros; repeat constructor; cbn; lia. Qed.
Lemma in_dom3 a b c A B C : a < A -> b < B -> c < C -> in_dom [(0, A); (0, B); (0, C)] [a; b; c].
Proof. intros; repeat constructor; cbn; lia. Qed.
Lemma in_dom4 a b c d A B C D :
  a < A -> b < B -> c < C -> d < D -> in_dom [(0, A); (0, B); (0, C); (0, D)] [a; b; c; d].
Proof. intros; repeat constructor; cbn; lia. Qed.
