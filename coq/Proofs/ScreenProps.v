(* Proofs about the screen command decoder model (Model/Screen.v). *)
From FJ Require Import Lib.Base Lib.Bits Spec.MachineSpec Model.DevMem Model.Screen.
Local Open Scope N_scope.

(* ---- lists indexed by N ------------------------------------------------------------------------------------- *)

Lemma nseq_length n : length (nseq n) = N.to_nat n.
Proof. unfold nseq. now rewrite map_length, seq_length. Qed.

Lemma nth_map_seq {A} (h : nat -> A) m k d : (k < m)%nat -> nth k (map h (seq 0 m)) d = h k.
Proof.
  intros H. rewrite (nth_indep _ d (h 0%nat)) by (now rewrite map_length, seq_length).
  rewrite map_nth. now rewrite seq_nth by exact H.
Qed.

Lemma nthN_map_nseq (g : N -> N) n i : i < n -> nthN (map g (nseq n)) i = g i.
Proof.
  intros H. unfold nthN, nseq. rewrite map_map. rewrite nth_map_seq by lia. now rewrite N2Nat.id.
Qed.

Lemma upd_length l : forall i v l', upd l i v = Some l' -> length l' = length l.
Proof.
  induction l as [|a r IH]; intros [|k] v l' H; simpl in H; try discriminate.
  - inversion H; reflexivity.
  - destruct (upd r k v) as [r'|] eqn:E; [|discriminate]. inversion H; subst. simpl. f_equal. eapply IH; eauto.
Qed.

Lemma upd_some l : forall i v, (i < length l)%nat -> exists l', upd l i v = Some l'.
Proof.
  induction l as [|a r IH]; intros [|k] v H; simpl in *; try lia.
  - eexists; reflexivity.
  - destruct (IH k v ltac:(lia)) as [r' E]. rewrite E. eexists; reflexivity.
Qed.

Lemma upd_nth l : forall i v l' j, upd l i v = Some l' -> nth j l' 0 = if Nat.eqb j i then v else nth j l 0.
Proof.
  induction l as [|a r IH]; intros [|k] v l' j H; simpl in H; try discriminate.
  - inversion H; subst. destruct j; reflexivity.
  - destruct (upd r k v) as [r'|] eqn:E; [|discriminate]. inversion H; subst.
    destruct j as [|j]; [reflexivity|]. simpl. now rewrite (IH k v r' j E).
Qed.

(* ---- the framebuffer layout ------------------------------------------------------------------------------------ *)

Lemma pixel_index_lt x y W H : x < W -> y < H -> x + y * W < W * H.
Proof. intros. nia. Qed.

Lemma read_packed_ok v first count l :
  read_packed_bytes (Some v) first count = ROk l ->
  l = map (fun k => sv_rdb v (first + k * (2 * sv_w v))) (nseq count).
Proof.
  unfold read_packed_bytes. destruct (N.eqb_spec count 0) as [->|Hc].
  - intros H; inversion H; reflexivity.
  - destruct (sv_w v <? 16); intros H; inversion H; reflexivity.
Qed.

Theorem screen_layout v st addr st' :
  update_screen (Some v) st addr = ROk st' ->
  s_width st' = s_width st /\ s_height st' = s_height st /\ s_bpp st' = s_bpp st /\ s_palette st' = s_palette st /\
  s_frames st' = (s_pix st', s_palette st', expand (s_palette st') (s_pix st')) :: s_frames st /\
  s_rgb st' = expand (s_palette st') (s_pix st') /\
  length (s_pix st') = N.to_nat (s_width st * s_height st) /\
  forall x y, x < s_width st -> y < s_height st ->
    nthN (s_pix st') (x + y * s_width st) =
    N.land (sv_rdb v (addr + (x + y * s_width st) * (2 * sv_w v))) (N.ones (s_bpp st)).
Proof.
  unfold update_screen. destruct (negb (require_initialized st)); [discriminate|].
  destruct (read_packed_bytes (Some v) addr (s_width st * s_height st)) as [raw|e|e] eqn:E; try discriminate.
  intros H; inversion H; subst; clear H. simpl. apply read_packed_ok in E. subst raw.
  repeat split.
  - now rewrite !map_length, nseq_length.
  - intros x y Hx Hy. rewrite map_map. rewrite nthN_map_nseq by (now apply pixel_index_lt). reflexivity.
Qed.

(* ---- the palette layout ------------------------------------------------------------------------------------------ *)

Lemma triples_map_seq (f : N -> N) m : forall s,
  triples (map f (map N.of_nat (seq s (3 * m)))) =
  map (fun k => (f (N.of_nat (s + 3 * k)), f (N.of_nat (s + 3 * k + 1)), f (N.of_nat (s + 3 * k + 2)))) (seq 0 m).
Proof.
  induction m as [|m IH]; intros s; [reflexivity|].
  replace (3 * S m)%nat with (S (S (S (3 * m)))) by lia. cbn [seq map triples].
  rewrite IH. rewrite <- seq_shift, map_map. f_equal.
  - replace (s + 3 * 0)%nat with s by lia. replace (s + 1)%nat with (S s) by lia.
    replace (s + 2)%nat with (S (S s)) by lia. reflexivity.
  - apply map_ext. intros k.
    replace (S (S (S s)) + 3 * k)%nat with (s + 3 * S k)%nat by lia. reflexivity.
Qed.

Theorem palette_layout v st addr st' :
  set_palette (Some v) st addr = ROk st' ->
  s_pix st' = s_pix st /\ s_frames st' = s_frames st /\
  length (s_palette st') = N.to_nat (s_palsize st) /\
  forall k, k < s_palsize st ->
    nth (N.to_nat k) (s_palette st') (0, 0, 0) =
    (sv_rdb v (addr + (3 * k) * (2 * sv_w v)), sv_rdb v (addr + (3 * k + 1) * (2 * sv_w v)),
     sv_rdb v (addr + (3 * k + 2) * (2 * sv_w v))).
Proof.
  unfold set_palette.
  destruct (read_packed_bytes (Some v) addr (3 * s_palsize st)) as [raw|e|e] eqn:E; try discriminate.
  intros H; inversion H; subst; clear H. simpl. apply read_packed_ok in E. subst raw.
  unfold nseq. rewrite N2Nat.inj_mul. change (N.to_nat 3) with 3%nat. rewrite triples_map_seq.
  repeat split.
  - now rewrite map_length, seq_length.
  - intros k Hk.
    rewrite (nth_map_seq (fun k0 => _) (N.to_nat (s_palsize st)) (N.to_nat k) (0, 0, 0)) by lia.
    simpl Nat.add. repeat f_equal; lia.
Qed.

(* ---- update_rectangle --------------------------------------------------------------------------------------------- *)

(* the value update_rectangle stores at pixel index i (it depends on i only) *)
Definition rect_value (v : sview) (addr mask i : N) : N := N.land (sv_rdb v (addr + i * (2 * sv_w v))) mask.

Lemma set_cols_spec line : forall pix first mask pix',
  set_cols pix first line mask = ROk pix' ->
  length pix' = length pix /\
  forall i, nthN pix' i =
    if (first <=? i) && (i <? first + N.of_nat (length line))
    then N.land (nth (N.to_nat (i - first)) line 0) mask else nthN pix i.
Proof.
  induction line as [|a r IH]; intros pix first mask pix' H; simpl in H.
  - inversion H; subst. split; [reflexivity|]. intros i. cbn [length].
    replace ((first <=? i) && (i <? first + N.of_nat 0)) with false; [reflexivity|].
    symmetry. apply andb_false_iff. destruct (N.leb_spec first i); [right; apply N.ltb_ge; lia|now left].
  - destruct (upd pix (N.to_nat first) (N.land a mask)) as [p1|] eqn:E; [|discriminate].
    destruct (IH p1 (first + 1) mask pix' H) as [L Sp]. split; [rewrite L; eapply upd_length; eauto|].
    intros i. rewrite Sp. cbn [length]. rewrite Nat2N.inj_succ. unfold nthN.
    rewrite (upd_nth _ _ _ _ (N.to_nat i) E).
    destruct (N.leb_spec (first + 1) i), (N.ltb_spec i (first + 1 + N.of_nat (length r))),
             (N.leb_spec first i), (N.ltb_spec i (first + N.succ (N.of_nat (length r)))),
             (Nat.eqb_spec (N.to_nat i) (N.to_nat first)); cbn [andb]; try lia; try reflexivity.
    + replace (N.to_nat (i - first)) with (S (N.to_nat (i - (first + 1)))) by lia. reflexivity.
    + replace (N.to_nat (i - first)) with 0%nat by lia. reflexivity.
Qed.

Definition touched (width x y rw : N) (rows : list nat) (i : N) : bool :=
  existsb (fun row => (row_first width x y row <=? i) && (i <? row_first width x y row + rw)) rows.

Lemma rect_rows_spec v width x y rw addr mask rows : forall pix pix',
  rect_rows (Some v) (2 * sv_w v) pix width x y rw addr mask rows = ROk pix' ->
  length pix' = length pix /\
  forall i, nthN pix' i = if touched width x y rw rows i then rect_value v addr mask i else nthN pix i.
Proof.
  induction rows as [|row rest IH]; intros pix pix' H; cbn [rect_rows] in H.
  - inversion H; subst. now split.
  - destruct (read_packed_bytes (Some v) (addr + row_first width x y row * (2 * sv_w v)) rw) as [line|e|e] eqn:E;
      try discriminate.
    destruct (set_cols pix (row_first width x y row) line mask) as [p1|e|e] eqn:E1; try discriminate.
    destruct (IH p1 pix' H) as [L S]. destruct (set_cols_spec _ _ _ _ _ E1) as [L1 S1].
    split; [congruence|]. intros i. rewrite S. simpl touched.
    destruct (touched width x y rw rest i); [now rewrite orb_true_r|]. rewrite orb_false_r.
    rewrite S1. apply read_packed_ok in E. subst line. rewrite map_length, nseq_length, N2Nat.id.
    destruct ((row_first width x y row <=? i) && (i <? row_first width x y row + rw)) eqn:B; [|reflexivity].
    apply andb_true_iff in B. destruct B as [B1 B2]. apply N.leb_le in B1. apply N.ltb_lt in B2.
    fold (nthN (map (fun k => sv_rdb v (addr + row_first width x y row * (2 * sv_w v) + k * (2 * sv_w v))) (nseq rw))
               (i - row_first width x y row)).
    rewrite nthN_map_nseq by lia. unfold rect_value. do 2 f_equal. nia.
Qed.

(* which pixel indices a rectangle touches: exactly those of the box *)
Lemma touched_box width height x y rw rh px py :
  px < width -> x + rw <= width -> y + rh <= height ->
  touched width x y rw (seq 0 (N.to_nat rh)) (px + py * width) =
  (x <=? px) && (px <? x + rw) && (y <=? py) && (py <? y + rh).
Proof.
  intros Hpx Hw Hh. unfold touched.
  destruct ((x <=? px) && (px <? x + rw) && (y <=? py) && (py <? y + rh)) eqn:B.
  - apply andb_true_iff in B. destruct B as [B B4]. apply andb_true_iff in B. destruct B as [B B3].
    apply andb_true_iff in B. destruct B as [B1 B2].
    apply N.leb_le in B1, B3. apply N.ltb_lt in B2, B4.
    apply existsb_exists. exists (N.to_nat (py - y)). split.
    + apply in_seq. lia.
    + unfold row_first. rewrite N2Nat.id. replace (y + (py - y)) with py by lia.
      apply andb_true_iff. split; [apply N.leb_le|apply N.ltb_lt]; lia.
  - apply not_true_iff_false. intros E. apply existsb_exists in E. destruct E as [row [Hin Hr]].
    apply in_seq in Hin. apply andb_true_iff in Hr. destruct Hr as [R1 R2].
    apply N.leb_le in R1. apply N.ltb_lt in R2. unfold row_first in *.
    assert (Hrow : N.of_nat row < rh) by lia.
    assert (Epy : py = y + N.of_nat row) by nia. subst py.
    assert (x <= px) by nia. assert (px < x + rw) by nia.
    apply not_true_iff_false in B. apply B.
    repeat (apply andb_true_iff; split); [apply N.leb_le|apply N.ltb_lt|apply N.leb_le|apply N.ltb_lt]; lia.
Qed.

Theorem rectangle_only_box v st x y rw rh addr st' :
  update_rectangle (Some v) st x y rw rh addr = ROk st' ->
  x + rw <= s_width st /\ y + rh <= s_height st /\
  s_width st' = s_width st /\ s_height st' = s_height st /\ s_palette st' = s_palette st /\
  s_frames st' = (s_pix st', s_palette st', expand (s_palette st') (s_pix st')) :: s_frames st /\
  s_rgb st' = expand (s_palette st') (s_pix st') /\
  length (s_pix st') = length (s_pix st) /\
  forall px py, px < s_width st -> py < s_height st ->
    nthN (s_pix st') (px + py * s_width st) =
    if (x <=? px) && (px <? x + rw) && (y <=? py) && (py <? y + rh)
    then N.land (sv_rdb v (addr + (px + py * s_width st) * (2 * sv_w v))) (N.ones (s_bpp st))
    else nthN (s_pix st) (px + py * s_width st).
Proof.
  unfold update_rectangle. destruct (negb (require_initialized st)); [discriminate|].
  destruct ((s_width st <? x + rw) || (s_height st <? y + rh)) eqn:B; [discriminate|].
  apply orb_false_iff in B. destruct B as [B1 B2]. apply N.ltb_ge in B1, B2.
  destruct (rect_rows (Some v) (2 * sv_w v) (s_pix st) (s_width st) x y rw addr (pixel_mask st) (seq 0 (N.to_nat rh)))
    as [pix'|e|e] eqn:E; try discriminate.
  intros H; inversion H; subst; clear H. simpl.
  destruct (rect_rows_spec _ _ _ _ _ _ _ _ _ _ E) as [L S].
  repeat split; try assumption.
  intros px py Hpx Hpy. rewrite S. rewrite (touched_box (s_width st) (s_height st)) by assumption.
  reflexivity.
Qed.

(* ---- the decoder never gets stuck and never leaves through a non-device exception ------------------------------ *)

Definition view_ok (mv : option sview) : Prop := match mv with Some v => 16 <= sv_w v | None => True end.
Definition pix_ok (st : sstate) : Prop := length (s_pix st) = N.to_nat (s_width st * s_height st).
Definition buf_ok (mv : option sview) (st : sstate) : Prop :=
  s_buf st = [] \/
  exists cmd payload n, s_buf st = cmd :: payload /\ command_length mv st cmd = ROk n /\
                        N.of_nat (length (s_buf st)) < n.
Definition sinv (mv : option sview) (st : sstate) : Prop := pix_ok st /\ buf_ok mv st.

Lemma pay_ok p off : (off < length p)%nat -> exists b, pay p off = ROk b.
Proof.
  intros H. unfold pay. destruct (nth_error p off) as [b|] eqn:E; [now exists b|].
  apply nth_error_None in E. lia.
Qed.

Lemma u16_ok p off : (off + 1 < length p)%nat -> exists x, u16 p off = ROk x.
Proof.
  intros H. unfold u16. destruct (pay_ok p off ltac:(lia)) as [lo E1]. destruct (pay_ok p (off + 1) H) as [hi E2].
  rewrite E1, E2. eexists; reflexivity.
Qed.

Lemma read_address_loop_ok p off n : forall i value,
  (off + i + n <= length p)%nat -> exists x, read_address_loop p off i n value = ROk x.
Proof.
  induction n as [|n IH]; intros i value H; simpl; [eexists; reflexivity|].
  destruct (pay_ok p (off + i) ltac:(lia)) as [b E]. rewrite E. apply IH. lia.
Qed.

Lemma read_address_ok v p off :
  (off + N.to_nat (sv_w v / 8) <= length p)%nat -> exists x, read_address (Some v) p off = ROk x.
Proof. intros H. unfold read_address, address_bytes. apply read_address_loop_ok. lia. Qed.

Lemma read_packed_no_raw v first count :
  16 <= sv_w v -> exists l, read_packed_bytes (Some v) first count = ROk l /\ length l = N.to_nat count.
Proof.
  intros H. unfold read_packed_bytes. destruct (N.eqb_spec count 0) as [->|Hc]; [now exists []|].
  replace (sv_w v <? 16) with false by (symmetry; apply N.ltb_ge; lia).
  eexists; split; [reflexivity|]. now rewrite map_length, nseq_length.
Qed.

Lemma set_cols_ok line : forall pix first mask,
  (N.to_nat first + length line <= length pix)%nat ->
  exists pix', set_cols pix first line mask = ROk pix' /\ length pix' = length pix.
Proof.
  induction line as [|a r IH]; intros pix first mask H; cbn [set_cols].
  - now exists pix.
  - cbn [length] in H. destruct (upd_some pix (N.to_nat first) (N.land a mask) ltac:(lia)) as [p1 E]. rewrite E.
    pose proof (upd_length _ _ _ _ E) as L1.
    destruct (IH p1 (first + 1) mask ltac:(lia)) as [pix' [E2 L2]]. exists pix'. split; [exact E2|congruence].
Qed.

Lemma rect_rows_ok v width height x y rw addr mask rows : forall pix,
  16 <= sv_w v -> x + rw <= width ->
  (forall row, In row rows -> y + N.of_nat row < height) ->
  length pix = N.to_nat (width * height) ->
  exists pix', rect_rows (Some v) (2 * sv_w v) pix width x y rw addr mask rows = ROk pix' /\ length pix' = length pix.
Proof.
  induction rows as [|row rest IH]; intros pix Hv Hw Hr L; cbn [rect_rows].
  - now exists pix.
  - destruct (read_packed_no_raw v (addr + row_first width x y row * (2 * sv_w v)) rw Hv) as [line [E Ll]].
    rewrite E. assert (Hrow : y + N.of_nat row < height) by (apply Hr; now left).
    destruct (set_cols_ok line pix (row_first width x y row) mask) as [p1 [E1 L1]].
    { rewrite Ll, L. unfold row_first. nia. }
    rewrite E1. destruct (IH p1 Hv Hw) as [pix' [E2 L2]].
    + intros r0 Hin. apply Hr. now right.
    + congruence.
    + exists pix'. split; [exact E2|congruence].
Qed.

Definition exec_post (r : sres sstate) : Prop :=
  match r with ROk st' => pix_ok st' /\ s_buf st' = [] | RDev _ => True | RRaw _ => False end.

Lemma init_screen_post st width height bpp ps : s_buf st = [] -> exec_post (init_screen st width height bpp ps).
Proof.
  intros Hb. unfold init_screen. destruct (negb ((bpp =? 4) || (bpp =? 8))); [exact I|].
  destruct ((width =? 0) || (height =? 0)); [exact I|]. split; [|exact Hb].
  unfold pix_ok; simpl. apply repeat_length.
Qed.

Lemma set_palette_post mv st addr : view_ok mv -> pix_ok st -> s_buf st = [] -> exec_post (set_palette mv st addr).
Proof.
  intros Hv Hp Hb. unfold set_palette. destruct mv as [v|]; [|exact I].
  destruct (read_packed_no_raw v addr (3 * s_palsize st) Hv) as [l [E _]]. rewrite E. now split.
Qed.

Lemma update_screen_post mv st addr : view_ok mv -> s_buf st = [] -> exec_post (update_screen mv st addr).
Proof.
  intros Hv Hb. unfold update_screen. destruct (negb (require_initialized st)); [exact I|].
  destruct mv as [v|]; [|exact I].
  destruct (read_packed_no_raw v addr (s_width st * s_height st) Hv) as [l [E L]]. rewrite E.
  split; [|exact Hb]. unfold pix_ok; simpl. now rewrite map_length.
Qed.

Lemma update_raw_post st p :
  s_buf st = [] -> length p = N.to_nat (s_width st * s_height st) -> exec_post (update_screen_raw st p).
Proof.
  intros Hb L. unfold update_screen_raw. destruct (negb (require_initialized st)); [exact I|].
  split; [|exact Hb]. unfold pix_ok; simpl. now rewrite map_length.
Qed.

Lemma update_rectangle_post mv st x y rw rh addr :
  view_ok mv -> pix_ok st -> s_buf st = [] -> exec_post (update_rectangle mv st x y rw rh addr).
Proof.
  intros Hv Hp Hb. unfold update_rectangle. destruct (negb (require_initialized st)); [exact I|].
  destruct mv as [v|]; [|exact I].
  destruct ((s_width st <? x + rw) || (s_height st <? y + rh)) eqn:B; [exact I|].
  apply orb_false_iff in B. destruct B as [B1 B2]. apply N.ltb_ge in B1, B2.
  destruct (rect_rows_ok v (s_width st) (s_height st) x y rw addr (pixel_mask st) (seq 0 (N.to_nat rh)) (s_pix st))
    as [pix' [E L]]; try assumption.
  - intros row Hin. apply in_seq in Hin. lia.
  - rewrite E. split; [|exact Hb]. unfold pix_ok in *; simpl. congruence.
Qed.

Lemma bind_post {A} (r : sres A) (f : A -> sres sstate) :
  (exists a, r = ROk a) -> (forall a, exec_post (f a)) -> exec_post (bind r f).
Proof. intros [a ->] H. apply H. Qed.

Lemma execute_post mv st cmd p n :
  view_ok mv -> pix_ok st -> s_buf st = [] ->
  command_length mv st cmd = ROk n -> N.of_nat (length p) + 1 = n ->
  exec_post (execute_command mv st cmd p).
Proof.
  intros Hv Hp Hb Hc Hl. unfold command_length in Hc. unfold execute_command.
  destruct (cmd =? 1).
  { inversion Hc; subst n. assert (L : length p = 7%nat) by lia.
    apply bind_post; [apply u16_ok; lia|intros wd]. apply bind_post; [apply u16_ok; lia|intros ht].
    apply bind_post; [apply pay_ok; lia|intros bpp]. apply bind_post; [apply u16_ok; lia|intros ps].
    now apply init_screen_post. }
  destruct (cmd =? 2) eqn:C2.
  { cbn [orb] in Hc. unfold address_bytes in Hc. destruct mv as [v|]; [|discriminate]. inversion Hc; subst n.
    apply bind_post; [apply read_address_ok; lia|intros a]. now apply set_palette_post. }
  destruct (cmd =? 3) eqn:C3.
  { cbn [orb] in Hc. unfold address_bytes in Hc. destruct mv as [v|]; [|discriminate]. inversion Hc; subst n.
    apply bind_post; [apply read_address_ok; lia|intros a]. now apply update_screen_post. }
  cbn [orb] in Hc. destruct (cmd =? 4).
  { unfold address_bytes in Hc. destruct mv as [v|]; [|discriminate]. inversion Hc; subst n.
    apply bind_post; [apply u16_ok; lia|intros x]. apply bind_post; [apply u16_ok; lia|intros y].
    apply bind_post; [apply u16_ok; lia|intros rw]. apply bind_post; [apply u16_ok; lia|intros rh].
    apply bind_post; [apply read_address_ok; lia|intros a]. now apply update_rectangle_post. }
  destruct (cmd =? 5).
  { destruct (require_initialized st); [|discriminate]. inversion Hc; subst n.
    apply update_raw_post; [exact Hb|lia]. }
  discriminate.
Qed.

Lemma command_length_pos mv st cmd n : command_length mv st cmd = ROk n -> 1 <= n.
Proof.
  unfold command_length, address_bytes. destruct (cmd =? 1); [intros H; inversion H; lia|].
  destruct ((cmd =? 2) || (cmd =? 3)); [destruct mv; intros H; inversion H; lia|].
  destruct (cmd =? 4); [destruct mv; intros H; inversion H; lia|].
  destruct (cmd =? 5); [|discriminate]. destruct (require_initialized st); intros H; inversion H; lia.
Qed.

Lemma command_length_no_raw mv st cmd e : command_length mv st cmd <> RRaw e.
Proof.
  unfold command_length, address_bytes. destruct (cmd =? 1); [discriminate|].
  destruct ((cmd =? 2) || (cmd =? 3)); [destruct mv; discriminate|].
  destruct (cmd =? 4); [destruct mv; discriminate|].
  destruct (cmd =? 5); [|discriminate]. destruct (require_initialized st); discriminate.
Qed.

Definition step_post (mv : option sview) (r : sres sstate) : Prop :=
  match r with ROk st' => sinv mv st' | RDev _ => True | RRaw _ => False end.

Lemma handle_byte_post mv st b : view_ok mv -> sinv mv st -> step_post mv (handle_byte mv st b).
Proof.
  intros Hv [Hp Hb]. unfold handle_byte.
  assert (G : forall cmd payload,
            s_buf st ++ [b] = cmd :: payload ->
            (forall n, command_length mv st cmd = ROk n -> N.of_nat (length (cmd :: payload)) <= n) ->
            step_post mv (bind (command_length mv (with_buf st (cmd :: payload)) cmd) (fun n =>
               if n <=? N.of_nat (length (cmd :: payload))
               then execute_command mv (with_buf (with_buf st (cmd :: payload)) []) cmd payload
               else ROk (with_buf st (cmd :: payload))))).
  { intros cmd payload E Hn.
    change (command_length mv (with_buf st (cmd :: payload)) cmd) with (command_length mv st cmd).
    destruct (command_length mv st cmd) as [n|e|e] eqn:C; cbn [bind]; [|exact I|now apply command_length_no_raw in C].
    specialize (Hn n eq_refl). destruct (N.leb_spec n (N.of_nat (length (cmd :: payload)))) as [Hle|Hgt].
    - assert (P : exec_post (execute_command mv (with_buf (with_buf st (cmd :: payload)) []) cmd payload)).
      { apply (execute_post mv _ cmd payload n); try assumption; try reflexivity.
        cbn [length] in *. lia. }
      destruct (execute_command mv (with_buf (with_buf st (cmd :: payload)) []) cmd payload) as [st'|e|e];
        [|exact I|exact P].
      destruct P as [P1 P2]. split; [exact P1|now left].
    - split; [exact Hp|]. right. exists cmd, payload, n. repeat split; [exact C|exact Hgt]. }
  destruct Hb as [Hb|[cmd [payload [n [Hb [C L]]]]]].
  - rewrite Hb. cbn [app]. apply G; [now rewrite Hb|].
    intros n C. apply command_length_pos in C. cbn [length]. lia.
  - rewrite Hb. cbn [app]. apply G; [now rewrite Hb|].
    intros n' C'. rewrite C in C'. inversion C'; subst n'. rewrite Hb in L.
    cbn [length] in *. rewrite app_length. cbn [length]. lia.
Qed.

Theorem screen_total mv : view_ok mv -> forall bs st, sinv mv st ->
  match snd (decode mv st bs) with Some (inr _) => False | _ => True end /\ sinv mv (fst (decode mv st bs)).
Proof.
  intros Hv. induction bs as [|b r IH]; intros st Hi; cbn [decode]; [now split|].
  pose proof (handle_byte_post mv st b Hv Hi) as P.
  destruct (handle_byte mv st b) as [st'|e|e]; simpl in P.
  - now apply IH.
  - now split.
  - contradiction.
Qed.

Lemma sinit_inv mv : sinv mv sinit.
Proof. split; [reflexivity|now left]. Qed.
