From FJ Require Import Lib.Base.
(* C12 - proofs about the expression model (Model/Expr.v) against the specification (Spec/ExprSpec.v). *)
From FJ Require Import Model.Ast Spec.ExprSpec Model.Expr.
Local Open Scope string_scope.
Local Open Scope Z_scope.
Local Open Scope list_scope.

(* ---------------------------------------------------------------------------------------- *)
(** * CPython's integer primitives are the Z operations *)

Lemma py_floordiv_spec a b : b <> 0 -> py_floordiv a b = Ok (a / b).
Proof.
  intros Hb. unfold py_floordiv. destruct (Z.eqb_spec b 0); [contradiction|].
  cbv zeta.
  destruct (((Z.rem a b <? 0) && (0 <? b) || (0 <? Z.rem a b) && (b <? 0))%bool) eqn:E; f_equal;
  Z.to_euclidean_division_equations; nia.
Qed.

Lemma py_mod_spec a b : b <> 0 -> py_mod a b = Ok (a mod b).
Proof.
  intros Hb. pose proof (py_floordiv_spec a b Hb) as F. unfold py_floordiv in F. unfold py_mod.
  destruct (Z.eqb_spec b 0); [contradiction|]. cbv zeta in *.
  pose proof (Z.quot_rem' a b) as QR. rewrite (Z.mod_eq a b) by assumption.
  destruct (((Z.rem a b <? 0) && (0 <? b) || (0 <? Z.rem a b) && (b <? 0))%bool);
    injection F as F1; f_equal; rewrite <- F1; lia.
Qed.

Lemma rshift_neg a n : 0 <= n -> a < 0 -> - (Z.shiftr (- a - 1) n) - 1 = a / 2 ^ n.
Proof.
  intros Hn Ha. rewrite Z.shiftr_div_pow2 by lia.
  assert (0 < 2 ^ n) by (apply Z.pow_pos_nonneg; lia).
  generalize dependent (2 ^ n). intros m Hm.
  Z.to_euclidean_division_equations; nia.
Qed.

Lemma py_bit_length_spec a : py_bit_length a = bit_length a.
Proof.
  unfold bit_length. destruct a as [|p|p]; simpl; try reflexivity;
  destruct p; simpl; try reflexivity; rewrite Pos2Z.inj_succ; lia.
Qed.

Lemma truthy_of_bool b : truthy (of_bool b) = b.
Proof. destruct b; reflexivity. Qed.

Lemma apply_bin_spec o a b : apply_op (binop_name o) [a; b] = raw_outcome (eval_bin o a b).
Proof.
  destruct o; unfold apply_op, apply_op_in; simpl; try reflexivity.
  - (* / *) destruct (Z.eqb_spec b 0) as [->|Hb]; [reflexivity|]. now rewrite py_floordiv_spec.
  - (* % *) destruct (Z.eqb_spec b 0) as [->|Hb]; [reflexivity|]. now rewrite py_mod_spec.
  - (* ** *) rewrite truthy_of_bool. unfold py_pow. destruct (b <? 0); reflexivity.
  - (* << *) unfold py_lshift. destruct (Z.ltb_spec b 0); [reflexivity|].
    simpl. now rewrite Z.shiftl_mul_pow2.
  - (* >> *) unfold py_rshift. destruct (Z.ltb_spec b 0); [reflexivity|].
    destruct (Z.ltb_spec a 0); simpl; f_equal.
    + now apply rshift_neg.
    + now apply Z.shiftr_div_pow2.
  - (* && *) destruct (truthy a) eqn:Ea; simpl; [destruct (truthy b); reflexivity|]. now rewrite Ea.
  - (* || *) destruct (truthy a) eqn:Ea; simpl; [now rewrite Ea|]. destruct (truthy b); reflexivity.
  - rewrite truthy_of_bool. destruct (a <? b); reflexivity.
  - rewrite truthy_of_bool. destruct (a >? b); reflexivity.
  - rewrite truthy_of_bool. destruct (a <=? b); reflexivity.
  - rewrite truthy_of_bool. destruct (a >=? b); reflexivity.
  - rewrite truthy_of_bool. destruct (a =? b); reflexivity.
  - rewrite truthy_of_bool. destruct (a =? b); reflexivity.
Qed.

Lemma apply_un_spec u a : apply_op (unop_name u) [a] = Ok (eval_un u a).
Proof.
  destruct u; unfold apply_op, apply_op_in; simpl.
  - now rewrite py_bit_length_spec.
  - unfold py_invert. f_equal. lia.
Qed.

Lemma apply_cond_spec c a b : apply_op OCond [c; a; b] = Ok (if truthy c then a else b).
Proof. unfold apply_op, apply_op_in; simpl. destruct (truthy c); reflexivity. Qed.

(* ---------------------------------------------------------------------------------------- *)
(** * Evaluation lemmas of the specification *)

Definition fails (t : sexpr) : Prop := forall rho, value_of (eval rho t) = None.

Lemma eval_ext rho1 rho2 e : (forall s, rho1 s = rho2 s) -> eval rho1 e = eval rho2 e.
Proof.
  intros H. induction e; simpl; try reflexivity.
  - now rewrite H.
  - now rewrite IHe.
  - now rewrite IHe1, IHe2.
  - now rewrite IHe1, IHe2, IHe3.
Qed.

Lemma value_of_un rho u a :
  value_of (eval rho (SUn u a)) =
  match value_of (eval rho a) with Some x => Some (eval_un u x) | None => None end.
Proof. simpl. destruct (eval rho a); reflexivity. Qed.

Lemma value_of_bin rho o a b :
  value_of (eval rho (SBin o a b)) =
  match value_of (eval rho a), value_of (eval rho b) with
  | Some x, Some y => value_of (eval_bin o x y)
  | _, _ => None
  end.
Proof. simpl. destruct (eval rho a); simpl; [destruct (eval rho b)|]; reflexivity. Qed.

Lemma value_of_cond rho c a b :
  value_of (eval rho (SCond c a b)) =
  match value_of (eval rho c), value_of (eval rho a), value_of (eval rho b) with
  | Some x, Some y, Some z => Some (if truthy x then y else z)
  | _, _, _ => None
  end.
Proof.
  simpl. destruct (eval rho c); simpl; [|reflexivity].
  destruct (eval rho a); simpl; [|reflexivity]. destruct (eval rho b); reflexivity.
Qed.

(* an expression that evaluates without any identifier bound contains no identifier *)
Lemma closed_env t z : eval no_env t = Val z -> forall rho, eval rho t = Val z.
Proof.
  revert z. induction t; simpl; intros v H rho.
  - assumption.
  - discriminate.
  - destruct (eval no_env t) eqn:E; [|discriminate]. now rewrite (IHt _ eq_refl).
  - destruct (eval no_env t1) eqn:E1; [|discriminate]. destruct (eval no_env t2) eqn:E2; [|discriminate].
    now rewrite (IHt1 _ eq_refl), (IHt2 _ eq_refl).
  - destruct (eval no_env t1) eqn:E1; [|discriminate]. destruct (eval no_env t2) eqn:E2; [|discriminate].
    destruct (eval no_env t3) eqn:E3; [|discriminate].
    now rewrite (IHt1 _ eq_refl), (IHt2 _ eq_refl), (IHt3 _ eq_refl).
Qed.

Lemma closed_subst t z : eval no_env t = Val z -> forall sg, subst sg t = t.
Proof.
  revert z. induction t; simpl; intros v H sg.
  - reflexivity.
  - discriminate.
  - destruct (eval no_env t) eqn:E; [|discriminate]. now rewrite (IHt _ eq_refl).
  - destruct (eval no_env t1) eqn:E1; [|discriminate]. destruct (eval no_env t2) eqn:E2; [|discriminate].
    now rewrite (IHt1 _ eq_refl), (IHt2 _ eq_refl).
  - destruct (eval no_env t1) eqn:E1; [|discriminate]. destruct (eval no_env t2) eqn:E2; [|discriminate].
    destruct (eval no_env t3) eqn:E3; [|discriminate].
    now rewrite (IHt1 _ eq_refl), (IHt2 _ eq_refl), (IHt3 _ eq_refl).
Qed.

(* the substitution lemma: substituting and evaluating = evaluating where the identifier is bound to
   the value of its replacement (an erroneous replacement makes the identifier unbound) *)
Definition env_after (sg : string -> option sexpr) (rho : env) : env :=
  fun s => match sg s with Some u => value_of (eval rho u) | None => rho s end.

Lemma subst_eval sg rho t : value_of (eval rho (subst sg t)) = value_of (eval (env_after sg rho) t).
Proof.
  induction t.
  - reflexivity.
  - simpl. unfold env_after. destruct (sg s).
    + destruct (value_of (eval rho s0)); reflexivity.
    + reflexivity.
  - simpl subst. now rewrite !value_of_un, IHt.
  - simpl subst. now rewrite !value_of_bin, IHt1, IHt2.
  - simpl subst. now rewrite !value_of_cond, IHt1, IHt2, IHt3.
Qed.

Lemma fails_subst t sg : fails t -> fails (subst sg t).
Proof. intros H rho. rewrite subst_eval. apply H. Qed.

Lemma int_subst_eval r rho t : eval rho (subst (int_subst r) t) = eval (env_then r rho) t.
Proof.
  induction t; simpl.
  - reflexivity.
  - unfold int_subst, env_then. destruct (r s); reflexivity.
  - now rewrite IHt.
  - now rewrite IHt1, IHt2.
  - now rewrite IHt1, IHt2, IHt3.
Qed.

Lemma fails_un u a : fails a -> fails (SUn u a).
Proof. intros H rho. rewrite value_of_un, H. reflexivity. Qed.
Lemma fails_bin_l o a b : fails a -> fails (SBin o a b).
Proof. intros H rho. rewrite value_of_bin, H. reflexivity. Qed.
Lemma fails_bin_r o a b : fails b -> fails (SBin o a b).
Proof. intros H rho. rewrite value_of_bin, H. destruct (value_of (eval rho a)); reflexivity. Qed.
Lemma fails_cond_1 c a b : fails c -> fails (SCond c a b).
Proof. intros H rho. rewrite value_of_cond, H. reflexivity. Qed.
Lemma fails_cond_2 c a b : fails a -> fails (SCond c a b).
Proof. intros H rho. rewrite value_of_cond, H. destruct (value_of (eval rho c)); reflexivity. Qed.
Lemma fails_cond_3 c a b : fails b -> fails (SCond c a b).
Proof.
  intros H rho. rewrite value_of_cond, H.
  destruct (value_of (eval rho c)); [destruct (value_of (eval rho a))|]; reflexivity.
Qed.

(* ---------------------------------------------------------------------------------------- *)
(** * The folding step *)

Definition rebuilt (r : outcome expr) (t : sexpr) : Prop :=
  match r with Ok m => represents m t | LibError _ => fails t | RawExn _ => False end.

Lemma rep_int_inv z t : represents (EInt z) t -> eval no_env t = Val z.
Proof. intros R. inversion R. assumption. Qed.

Lemma raw_outcome_ok v z : raw_outcome v = Ok z -> v = Val z.
Proof. destruct v as [|[]]; simpl; intros H; inversion H; reflexivity. Qed.

Lemma gme_un u m a : represents m a -> rebuilt (get_minimized_expr (unop_name u) [m]) (SUn u a).
Proof.
  intros R. unfold get_minimized_expr. destruct m; simpl forallb; cbv iota.
  - apply rep_int_inv in R. simpl int_values. rewrite apply_un_spec. simpl.
    apply RepFolded. simpl. now rewrite R.
  - simpl. now apply RepUn.
  - simpl. now apply RepUn.
Qed.

Lemma fold_bin_fails o a b x y e :
  eval no_env a = Val x -> eval no_env b = Val y -> eval_bin o x y = Err e -> fails (SBin o a b).
Proof.
  intros Ha Hb He rho. simpl. rewrite (closed_env _ _ Ha), (closed_env _ _ Hb), He. reflexivity.
Qed.

Lemma gme_bin o m1 m2 a b :
  represents m1 a -> represents m2 b -> rebuilt (get_minimized_expr (binop_name o) [m1; m2]) (SBin o a b).
Proof.
  intros R1 R2. unfold get_minimized_expr.
  destruct m1; simpl forallb; cbv iota; try (simpl; now apply RepBin).
  destruct m2; simpl forallb; cbv iota; try (simpl; now apply RepBin).
  apply rep_int_inv in R1. apply rep_int_inv in R2. simpl int_values. rewrite apply_bin_spec.
  destruct (eval_bin o z z0) as [v|e] eqn:E.
  - simpl. apply RepFolded. simpl. now rewrite R1, R2.
  - assert (F : fails (SBin o a b)) by (eapply fold_bin_fails; eauto).
    destruct e; simpl; exact F.
Qed.

Lemma gme_cond m1 m2 m3 c a b :
  represents m1 c -> represents m2 a -> represents m3 b ->
  rebuilt (get_minimized_expr OCond [m1; m2; m3]) (SCond c a b).
Proof.
  intros R1 R2 R3. unfold get_minimized_expr.
  destruct m1; simpl forallb; cbv iota; try (simpl; now apply RepCond).
  destruct m2; simpl forallb; cbv iota; try (simpl; now apply RepCond).
  destruct m3; simpl forallb; cbv iota; try (simpl; now apply RepCond).
  apply rep_int_inv in R1. apply rep_int_inv in R2. apply rep_int_inv in R3.
  simpl int_values. rewrite apply_cond_spec. simpl.
  apply RepFolded. simpl. now rewrite R1, R2, R3.
Qed.

Lemma parse_build_built consts e : rebuilt (parse_build consts e) (subst (int_subst consts) e).
Proof.
  induction e; simpl.
  - apply RepFolded. reflexivity.
  - unfold int_subst. destruct (consts s); simpl.
    + apply RepFolded. reflexivity.
    + apply RepId.
  - destruct (parse_build consts e) as [m| |]; simpl in *.
    + now apply gme_un.
    + now apply fails_un.
    + contradiction.
  - destruct (parse_build consts e1) as [m1| |]; simpl in *; [|now apply fails_bin_l|contradiction].
    destruct (parse_build consts e2) as [m2| |]; simpl in *; [|now apply fails_bin_r|contradiction].
    now apply gme_bin.
  - destruct (parse_build consts e1) as [m1| |]; simpl in *; [|now apply fails_cond_1|contradiction].
    destruct (parse_build consts e2) as [m2| |]; simpl in *; [|now apply fails_cond_2|contradiction].
    destruct (parse_build consts e3) as [m3| |]; simpl in *; [|now apply fails_cond_3|contradiction].
    now apply gme_cond.
Qed.

(* ---------------------------------------------------------------------------------------- *)
(** * eval_new and exact_eval *)

Lemma rep_folded_subst z t st : eval no_env t = Val z -> represents (EInt z) (subst st t).
Proof. intros H. apply RepFolded. now rewrite (closed_subst _ _ H). Qed.

Lemma rep_id_inv m s : represents m (SId s) -> m = ELbl s.
Proof. intros R. inversion R; subst; [discriminate|reflexivity]. Qed.

Lemma rep_un_inv m u a :
  represents m (SUn u a) ->
  (exists z, m = EInt z /\ eval no_env (SUn u a) = Val z) \/
  (exists m1, m = EOp (unop_name u) [m1] /\ represents m1 a).
Proof. intros R. inversion R; subst; [left|right]; eauto. Qed.

Lemma rep_bin_inv m o a b :
  represents m (SBin o a b) ->
  (exists z, m = EInt z /\ eval no_env (SBin o a b) = Val z) \/
  (exists m1 m2, m = EOp (binop_name o) [m1; m2] /\ represents m1 a /\ represents m2 b).
Proof. intros R. inversion R; subst; [left|right]; eauto. Qed.

Lemma rep_cond_inv m c a b :
  represents m (SCond c a b) ->
  (exists z, m = EInt z /\ eval no_env (SCond c a b) = Val z) \/
  (exists m1 m2 m3, m = EOp OCond [m1; m2; m3] /\ represents m1 c /\ represents m2 a /\ represents m3 b).
Proof. intros R. inversion R; subst; [left|right]; eauto 8. Qed.

Lemma rep_int_lit_inv m z : represents m (SInt z) -> m = EInt z.
Proof. intros R. inversion R; subst. simpl in H. now inversion H. Qed.

Lemma eval_new_rebuilt sm st :
  subst_represents sm st -> forall t m, represents m t -> rebuilt (eval_new sm m) (subst st t).
Proof.
  intros HS. induction t; intros m R.
  - apply rep_int_lit_inv in R. subst. simpl. apply RepFolded. reflexivity.
  - apply rep_id_inv in R. subst.
    simpl. specialize (HS s). destruct (sm s), (st s); simpl; try contradiction; [assumption|apply RepId].
  - (* unary *)
    destruct (rep_un_inv _ _ _ R) as [(z & -> & Hz)|(m1 & -> & R1)]; [now apply rep_folded_subst|].
    simpl eval_new. specialize (IHt _ R1).
    destruct (eval_new sm m1) as [m'| |]; simpl in *; [|now apply fails_un|contradiction].
    destruct m'; simpl; try now apply RepUn.
    apply rep_int_inv in IHt. rewrite apply_un_spec. simpl.
    apply RepFolded. simpl. now rewrite IHt.
  - (* binary *)
    destruct (rep_bin_inv _ _ _ _ R) as [(z & -> & Hz)|(m1 & m2 & -> & R1 & R2)]; [now apply rep_folded_subst|].
    simpl eval_new. specialize (IHt1 _ R1). specialize (IHt2 _ R2).
    destruct (eval_new sm m1) as [m1'| |]; simpl in *; [|now apply fails_bin_l|contradiction].
    destruct (eval_new sm m2) as [m2'| |]; simpl in *; [|now apply fails_bin_r|contradiction].
    destruct m1'; simpl; try now apply RepBin.
    destruct m2'; simpl; try now apply RepBin.
    apply rep_int_inv in IHt1. apply rep_int_inv in IHt2. rewrite apply_bin_spec.
    destruct (eval_bin o z z0) as [v|e] eqn:E.
    + simpl. apply RepFolded. simpl. now rewrite IHt1, IHt2.
    + assert (F : fails (SBin o (subst st t1) (subst st t2))) by (eapply fold_bin_fails; eauto).
      destruct e; simpl; exact F.
  - (* conditional *)
    destruct (rep_cond_inv _ _ _ _ R) as [(z & -> & Hz)|(m1 & m2 & m3 & -> & R1 & R2 & R3)];
      [now apply rep_folded_subst|].
    simpl eval_new. specialize (IHt1 _ R1). specialize (IHt2 _ R2). specialize (IHt3 _ R3).
    destruct (eval_new sm m1) as [m1'| |]; simpl in *; [|now apply fails_cond_1|contradiction].
    destruct (eval_new sm m2) as [m2'| |]; simpl in *; [|now apply fails_cond_2|contradiction].
    destruct (eval_new sm m3) as [m3'| |]; simpl in *; [|now apply fails_cond_3|contradiction].
    destruct m1'; simpl; try now apply RepCond.
    destruct m2'; simpl; try now apply RepCond.
    destruct m3'; simpl; try now apply RepCond.
    apply rep_int_inv in IHt1. apply rep_int_inv in IHt2. apply rep_int_inv in IHt3.
    rewrite apply_cond_spec. simpl. apply RepFolded. simpl. now rewrite IHt1, IHt2, IHt3.
Qed.

Lemma eval_bin_not_unbound o x y s : eval_bin o x y <> Err (Unbound s).
Proof. destruct o; simpl; try discriminate; match goal with |- context [if ?c then _ else _] => destruct c end; discriminate. Qed.

Lemma exact_eval_represents labels t : forall m, represents m t -> exact_eval labels m = final_outcome (eval labels t).
Proof.
  induction t; intros m R.
  - apply rep_int_lit_inv in R. subst. reflexivity.
  - apply rep_id_inv in R. subst. simpl. destruct (labels s); reflexivity.
  - destruct (rep_un_inv _ _ _ R) as [(z & -> & Hz)|(m1 & -> & R1)];
      [now rewrite (closed_env _ _ Hz)|].
    simpl exact_eval. rewrite (IHt _ R1). simpl eval.
    destruct (eval labels t) as [x|e]; simpl.
    + now rewrite apply_un_spec.
    + destruct e; reflexivity.
  - destruct (rep_bin_inv _ _ _ _ R) as [(z & -> & Hz)|(m1 & m2 & -> & R1 & R2)];
      [now rewrite (closed_env _ _ Hz)|].
    simpl exact_eval. rewrite (IHt1 _ R1), (IHt2 _ R2). simpl eval.
    destruct (eval labels t1) as [x|e]; simpl; [|destruct e; reflexivity].
    destruct (eval labels t2) as [y|e]; simpl; [|destruct e; reflexivity].
    rewrite apply_bin_spec. destruct (eval_bin o x y) as [v|e] eqn:E; [reflexivity|].
    destruct e; try reflexivity. now apply eval_bin_not_unbound in E.
  - destruct (rep_cond_inv _ _ _ _ R) as [(z & -> & Hz)|(m1 & m2 & m3 & -> & R1 & R2 & R3)];
      [now rewrite (closed_env _ _ Hz)|].
    simpl exact_eval. rewrite (IHt1 _ R1), (IHt2 _ R2), (IHt3 _ R3). simpl eval.
    destruct (eval labels t1) as [x|e]; simpl; [|destruct e; reflexivity].
    destruct (eval labels t2) as [y|e]; simpl; [|destruct e; reflexivity].
    destruct (eval labels t3) as [z|e]; simpl; [|destruct e; reflexivity].
    now rewrite apply_cond_spec.
Qed.

Lemma represents_embed e : represents (embed e) e.
Proof. induction e; simpl; [apply RepFolded; reflexivity|constructor|now constructor..]. Qed.

Theorem exact_eval_spec labels e : exact_eval labels (embed e) = final_outcome (eval labels e).
Proof. apply exact_eval_represents, represents_embed. Qed.

(* ---------------------------------------------------------------------------------------- *)
(** * Stage independence *)

Lemma fails_subst_all sts t : fails t -> fails (subst_all sts t).
Proof. revert t. induction sts; simpl; intros t H; [assumption|]. apply IHsts. now apply fails_subst. Qed.

Lemma run_stages_rebuilt sms sts :
  Forall2 subst_represents sms sts ->
  forall n m t, represents m t ->
  match run_stages n sms m with
  | (_, Ok m') => represents m' (subst_all sts t)
  | (_, LibError _) => fails (subst_all sts t)
  | (_, RawExn _) => False
  end.
Proof.
  induction 1 as [|sm st sms sts HS HF IH]; intros n m t R; simpl.
  - assumption.
  - pose proof (eval_new_rebuilt sm st HS t m R) as E.
    destruct (eval_new sm m) as [m'| |]; simpl in E.
    + apply IH. assumption.
    + now apply fails_subst_all.
    + contradiction.
Qed.

Theorem stage_independent_general consts sms sts labels e :
  Forall2 subst_represents sms sts ->
  ok_value (staged consts sms labels e) =
  value_of (eval labels (subst_all sts (subst (int_subst consts) e))).
Proof.
  intros HF. unfold staged, staged_trace.
  pose proof (parse_build_built consts e) as B.
  destruct (parse_build consts e) as [m| |]; simpl in B.
  - pose proof (run_stages_rebuilt sms sts HF 0%nat m _ B) as S.
    destruct (run_stages 0 sms m) as [st [m'| |]]; simpl.
    + rewrite (exact_eval_represents labels _ _ S). destruct (eval labels _) as [z|[]]; reflexivity.
    + now rewrite S.
    + contradiction.
  - simpl. symmetry. now apply fails_subst_all.
  - contradiction.
Qed.

(* no Python exception from outside the library's hierarchy escapes, at any stage *)
Theorem no_raw_exception consts sms sts labels e st x :
  Forall2 subst_represents sms sts -> staged_trace consts sms labels e <> (st, RawExn x).
Proof.
  intros HF. unfold staged_trace.
  pose proof (parse_build_built consts e) as B.
  destruct (parse_build consts e) as [m| |]; simpl in B; intros H.
  - pose proof (run_stages_rebuilt sms sts HF 0%nat m _ B) as S.
    destruct (run_stages 0 sms m) as [st' [m'| |]]; try discriminate; [|contradiction].
    rewrite (exact_eval_represents labels _ _ S) in H.
    destruct (eval labels _) as [z|[]]; discriminate.
  - discriminate.
  - contradiction.
Qed.

Lemma int_substs_represent rhos : Forall2 subst_represents (map int_msubst rhos) (map int_subst rhos).
Proof.
  induction rhos; simpl; constructor; [|assumption].
  intros s. unfold int_msubst, int_subst. destruct (a s); [|exact I]. apply RepFolded. reflexivity.
Qed.

Lemma eval_subst_chain rhos : forall t labels,
  eval labels (subst_all (map int_subst rhos) t) = eval (env_chain (rhos ++ [labels])) t.
Proof.
  induction rhos as [|r rs IH]; intros t labels; simpl.
  - apply eval_ext. intros s. unfold env_then. destruct (labels s); reflexivity.
  - rewrite IH. apply int_subst_eval.
Qed.

Theorem stage_independent consts rhos labels e :
  ok_value (staged consts (map int_msubst rhos) labels e) =
  value_of (eval (env_chain (consts :: rhos ++ [labels])) e).
Proof.
  rewrite (stage_independent_general _ _ _ _ _ (int_substs_represent rhos)).
  now rewrite eval_subst_chain, int_subst_eval.
Qed.

Theorem any_partition_any_order e c1 r1 l1 c2 r2 l2 :
  (forall s, env_chain (c1 :: r1 ++ [l1]) s = env_chain (c2 :: r2 ++ [l2]) s) ->
  ok_value (staged c1 (map int_msubst r1) l1 e) = ok_value (staged c2 (map int_msubst r2) l2 e).
Proof. intros H. rewrite !stage_independent. f_equal. now apply eval_ext. Qed.

(* ---------------------------------------------------------------------------------------- *)
(** * `x = expr` *)

Lemma env_then_self_no (c : env) s : env_then c no_env s = c s.
Proof. unfold env_then, no_env. destruct (c s); reflexivity. Qed.

Definition settled (consts : env) (m : expr) (e : sexpr) : Prop :=
  (exists z, m = EInt z /\ eval consts e = Val z) \/
  (is_int m = false /\ value_of (eval consts e) = None /\ eval_new (int_msubst consts) m = Ok m).

Lemma gme_not_all_int o ms : forallb is_int ms = false -> get_minimized_expr o ms = Ok (EOp o ms).
Proof. intros H. unfold get_minimized_expr. now rewrite H. Qed.

Lemma settled_eval_new consts m e : settled consts m e -> eval_new (int_msubst consts) m = Ok m.
Proof. intros [(z & -> & _)|(_ & _ & H)]; [reflexivity|assumption]. Qed.

Lemma settled_not_int consts m e : settled consts m e -> is_int m = false -> value_of (eval consts e) = None.
Proof. intros [(z & -> & _)|(_ & H & _)] N; [discriminate|assumption]. Qed.

Lemma settled_int consts z e : settled consts (EInt z) e -> eval consts e = Val z.
Proof. intros [(z' & E & H)|(N & _)]; [now inversion E|discriminate]. Qed.

Lemma parse_build_settled consts e m : parse_build consts e = Ok m -> settled consts m e.
Proof.
  revert m. induction e; simpl; intros m H.
  - inversion H. left. eauto.
  - destruct (consts s) eqn:C; inversion H; subst.
    + left. exists z. simpl. now rewrite C.
    + right. simpl. rewrite C. unfold int_msubst. rewrite C. auto.
  - destruct (parse_build consts e) as [a| |]; simpl in H; try discriminate.
    specialize (IHe _ eq_refl).
    destruct (forallb is_int [a]) eqn:F.
    + destruct a; try discriminate.
      unfold get_minimized_expr in H. simpl in H. rewrite apply_un_spec in H. inversion H.
      left. eexists. split; [reflexivity|]. simpl. now rewrite (settled_int _ _ _ IHe).
    + rewrite gme_not_all_int in H by assumption. inversion H. right. split; [reflexivity|]. split.
      * rewrite value_of_un, (settled_not_int _ _ _ IHe); [reflexivity|].
        simpl in F. destruct (is_int a); [discriminate|reflexivity].
      * simpl eval_new. rewrite (settled_eval_new _ _ _ IHe). simpl in F |- *. now rewrite F.
  - destruct (parse_build consts e1) as [a| |]; simpl in H; try discriminate.
    destruct (parse_build consts e2) as [b| |]; simpl in H; try discriminate.
    specialize (IHe1 _ eq_refl). specialize (IHe2 _ eq_refl).
    destruct (forallb is_int [a; b]) eqn:F.
    + destruct a; try discriminate. destruct b; try discriminate.
      unfold get_minimized_expr in H. simpl in H. rewrite apply_bin_spec in H.
      destruct (raw_outcome (eval_bin o z z0)) eqn:RO; try discriminate. inversion H.
      left. eexists. split; [reflexivity|]. simpl.
      rewrite (settled_int _ _ _ IHe1), (settled_int _ _ _ IHe2). now apply raw_outcome_ok.
    + rewrite gme_not_all_int in H by assumption. inversion H. right. split; [reflexivity|]. split.
      * rewrite value_of_bin. simpl in F.
        destruct (is_int a) eqn:Ia.
        -- rewrite (settled_not_int _ _ _ IHe2) by (destruct (is_int b); [discriminate|reflexivity]).
           destruct (value_of (eval consts e1)); reflexivity.
        -- now rewrite (settled_not_int _ _ _ IHe1).
      * simpl eval_new. rewrite (settled_eval_new _ _ _ IHe1), (settled_eval_new _ _ _ IHe2). simpl in F |- *. now rewrite F.
  - destruct (parse_build consts e1) as [a| |]; simpl in H; try discriminate.
    destruct (parse_build consts e2) as [b| |]; simpl in H; try discriminate.
    destruct (parse_build consts e3) as [c| |]; simpl in H; try discriminate.
    specialize (IHe1 _ eq_refl). specialize (IHe2 _ eq_refl). specialize (IHe3 _ eq_refl).
    destruct (forallb is_int [a; b; c]) eqn:F.
    + destruct a; try discriminate. destruct b; try discriminate. destruct c; try discriminate.
      unfold get_minimized_expr in H. simpl in H. rewrite apply_cond_spec in H. simpl in H. inversion H.
      left. eexists. split; [reflexivity|]. simpl.
      now rewrite (settled_int _ _ _ IHe1), (settled_int _ _ _ IHe2), (settled_int _ _ _ IHe3).
    + rewrite gme_not_all_int in H by assumption. inversion H. right. split; [reflexivity|]. split.
      * rewrite value_of_cond. simpl in F.
        destruct (is_int a) eqn:Ia; [|now rewrite (settled_not_int _ _ _ IHe1)].
        destruct (is_int b) eqn:Ib.
        -- rewrite (settled_not_int _ _ _ IHe3) by (destruct (is_int c); [discriminate|reflexivity]).
           destruct (value_of (eval consts e1)); [destruct (value_of (eval consts e2))|]; reflexivity.
        -- rewrite (settled_not_int _ _ _ IHe2) by assumption.
           destruct (value_of (eval consts e1)); reflexivity.
      * simpl eval_new.
        rewrite (settled_eval_new _ _ _ IHe1), (settled_eval_new _ _ _ IHe2), (settled_eval_new _ _ _ IHe3).
        simpl in F |- *. now rewrite F.
Qed.

Theorem define_const_spec consts e : ok_value (define_const consts e) = value_of (eval consts e).
Proof.
  unfold define_const.
  pose proof (parse_build_built consts e) as B.
  destruct (parse_build consts e) as [m| |] eqn:P; simpl in B.
  - pose proof (parse_build_settled _ _ _ P) as S. simpl bind.
    rewrite (settled_eval_new _ _ _ S). simpl bind.
    destruct m.
    + simpl. now rewrite (settled_int _ _ _ S).
    + simpl. symmetry. now apply (settled_not_int _ _ _ S).
    + simpl. symmetry. now apply (settled_not_int _ _ _ S).
  - simpl. specialize (B (env_then consts no_env)). rewrite int_subst_eval in B.
    rewrite (eval_ext _ consts) in B; [now symmetry|]. intros s. unfold env_then.
    destruct (consts s); reflexivity.
  - contradiction.
Qed.

(* ---------------------------------------------------------------------------------------- *)

(** * The reference parser realises the table *)
Theorem parse_pairs o1 o2 x y z :
  parse [TIdent x; TBinop o1; TIdent y; TBinop o2; TIdent z] =
  match pair_shape_of o1 o2 with
  | GroupLeft => Some (SBin o2 (SBin o1 (SId x) (SId y)) (SId z))
  | GroupRight => Some (SBin o1 (SId x) (SBin o2 (SId y) (SId z)))
  | SyntaxError => None
  end.
Proof. destruct o1, o2; vm_compute; reflexivity. Qed.

Theorem parse_prefix_then_binary u o x y :
  parse [prefix_token u; TIdent x; TBinop o; TIdent y] =
  Some (if prefix_binds_tighter u o then SBin o (prefix_apply u (SId x)) (SId y)
        else prefix_apply u (SBin o (SId x) (SId y))).
Proof. destruct u, o; vm_compute; reflexivity. Qed.

Theorem parse_binary_then_prefix u o x y :
  parse [TIdent x; TBinop o; prefix_token u; TIdent y] = Some (SBin o (SId x) (prefix_apply u (SId y))).
Proof. destruct u, o; vm_compute; reflexivity. Qed.

Theorem parse_cond_right_assoc a b c d e :
  parse [TIdent a; TQuest; TIdent b; TColon; TIdent c; TQuest; TIdent d; TColon; TIdent e] =
  Some (SCond (SId a) (SId b) (SCond (SId c) (SId d) (SId e))).
Proof. vm_compute; reflexivity. Qed.

Theorem parse_cond_lowest o a b c d :
  parse [TIdent a; TBinop o; TIdent b; TQuest; TIdent c; TColon; TIdent d] =
    Some (SCond (SBin o (SId a) (SId b)) (SId c) (SId d)) /\
  parse [TIdent a; TQuest; TIdent b; TColon; TIdent c; TBinop o; TIdent d] =
    Some (SCond (SId a) (SId b) (SBin o (SId c) (SId d))) /\
  parse [TIdent a; TQuest; TIdent b; TBinop o; TIdent c; TColon; TIdent d] =
    Some (SCond (SId a) (SBin o (SId b) (SId c)) (SId d)).
Proof. destruct o; vm_compute; auto. Qed.

(** * What the operators of the specification mean *)
Theorem div_mod_meaning a b :
  b <> 0 ->
  exists q r, eval_bin BDiv a b = Val q /\ eval_bin BMod a b = Val r /\
              a = b * q + r /\ (0 <= r < b \/ b < r <= 0).
Proof.
  intros Hb. exists (a / b), (a mod b). simpl. destruct (Z.eqb_spec b 0); [contradiction|].
  repeat split; try reflexivity.
  - apply Z.div_mod. assumption.
  - destruct (Z_lt_le_dec 0 b); [left; now apply Z.mod_pos_bound|right; apply Z.mod_neg_bound; lia].
Qed.

Theorem shift_meaning a n :
  0 <= n ->
  eval_bin BShl a n = Val (Z.shiftl a n) /\ eval_bin BShr a n = Val (Z.shiftr a n) /\
  forall i, 0 <= i -> Z.testbit (Z.shiftr a n) i = Z.testbit a (i + n).
Proof.
  intros Hn. simpl. destruct (Z.ltb_spec n 0); [lia|].
  rewrite Z.shiftl_mul_pow2, Z.shiftr_div_pow2 by assumption. repeat split.
  intros i Hi. rewrite <- Z.shiftr_div_pow2 by assumption. now apply Z.shiftr_spec.
Qed.

Theorem bitwise_meaning a b i :
  0 <= i ->
  (forall v, eval_bin BAnd a b = Val v -> Z.testbit v i = Z.testbit a i && Z.testbit b i) /\
  (forall v, eval_bin BOr a b = Val v -> Z.testbit v i = Z.testbit a i || Z.testbit b i) /\
  (forall v, eval_bin BXor a b = Val v -> Z.testbit v i = xorb (Z.testbit a i) (Z.testbit b i)) /\
  Z.testbit (eval_un UNot a) i = negb (Z.testbit a i).
Proof.
  intros Hi. simpl. repeat split; try (intros v H; inversion H).
  - apply Z.land_spec.
  - apply Z.lor_spec.
  - apply Z.lxor_spec.
  - replace (- a - 1) with (Z.lnot a) by (unfold Z.lnot; lia). now apply Z.lnot_spec.
Qed.

Theorem bit_length_meaning z :
  z <> 0 -> 0 < bit_length z /\ 2 ^ (bit_length z - 1) <= Z.abs z < 2 ^ bit_length z.
Proof.
  intros Hz. unfold bit_length. destruct (Z.eqb_spec z 0); [contradiction|].
  assert (0 < Z.abs z) by lia. pose proof (Z.log2_nonneg (Z.abs z)).
  pose proof (Z.log2_spec (Z.abs z) H). replace (Z.log2 (Z.abs z) + 1 - 1) with (Z.log2 (Z.abs z)) by lia.
  replace (Z.log2 (Z.abs z) + 1) with (Z.succ (Z.log2 (Z.abs z))) by lia. lia.
Qed.

(* ---------------------------------------------------------------------------------------- *)

(** * Literals *)
Lemma py_int_digits_horner digit base : forall s ds acc,
  digits_of digit s = Some ds ->
  py_int_digits digit base acc s = Ok (acc * base ^ Z.of_nat (List.length ds) + positional base ds).
Proof.
  induction s as [|c t IH]; simpl; intros ds acc H.
  - inversion H. simpl. f_equal. lia.
  - destruct (digit c) as [d|]; [|discriminate]. destruct (digits_of digit t) as [ds'|]; [|discriminate].
    inversion H; subst. rewrite (IH _ _ eq_refl). f_equal. simpl positional. simpl List.length.
    rewrite Nat2Z.inj_succ, Z.pow_succ_r by lia. ring.
Qed.

Lemma py_int_positional digit base s ds :
  s <> [] -> digits_of digit s = Some ds -> py_int digit base s = Ok (positional base ds).
Proof.
  intros Hs H. unfold py_int. destruct s; [contradiction|].
  rewrite (py_int_digits_horner _ _ _ _ _ H). f_equal; lia.
Qed.

Lemma dec_digit_range c d : dec_digit c = Some d -> 48 <= c <= 57.
Proof. unfold dec_digit. destruct ((48 <=? c) && (c <=? 57)) eqn:E; [lia|discriminate]. Qed.

Theorem decimal_literal s ds :
  s <> [] -> Z.of_nat (List.length s) <= 4300 -> digits_of dec_digit s = Some ds ->
  number_value doc_char_escapes s = Ok (positional 10 ds).
Proof.
  intros Hs Hlen H. unfold number_value.
  destruct s as [|c0 [|c1 r]]; [contradiction|now apply py_int_positional|].
  assert (R0 : 48 <= c0 <= 57).
  { simpl in H. destruct (dec_digit c0) eqn:E; [|discriminate]. eapply dec_digit_range; eauto. }
  assert (R1 : 48 <= c1 <= 57).
  { simpl in H. destruct (dec_digit c0); [|discriminate]. destruct (dec_digit c1) eqn:E; [|discriminate].
    eapply dec_digit_range; eauto. }
  destruct (Z.eqb_spec c0 39); [lia|].
  destruct (Z.eqb_spec c1 120); [lia|]. destruct (Z.eqb_spec c1 88); [lia|].
  destruct (Z.eqb_spec c1 98); [lia|]. destruct (Z.eqb_spec c1 66); [lia|].
  simpl orb. cbv iota. unfold decimal_value.
  destruct (Z.ltb_spec 4300 (Z.of_nat (List.length (c0 :: c1 :: r)))); [lia|].
  now apply py_int_positional.
Qed.

Theorem decimal_literal_too_long s :
  4300 < Z.of_nat (List.length s) -> (forall c, In c s -> 48 <= c <= 57) ->
  number_value doc_char_escapes s = LibError LexLiteralTooLong.
Proof.
  intros Hlen Hd. unfold number_value.
  destruct s as [|c0 [|c1 r]]; [simpl in Hlen; lia|simpl in Hlen; lia|].
  assert (R0 : 48 <= c0 <= 57) by (apply Hd; simpl; auto).
  assert (R1 : 48 <= c1 <= 57) by (apply Hd; simpl; auto).
  destruct (Z.eqb_spec c0 39); [lia|].
  destruct (Z.eqb_spec c1 120); [lia|]. destruct (Z.eqb_spec c1 88); [lia|].
  destruct (Z.eqb_spec c1 98); [lia|]. destruct (Z.eqb_spec c1 66); [lia|].
  simpl orb. cbv iota. unfold decimal_value.
  destruct (Z.ltb_spec 4300 (Z.of_nat (List.length (c0 :: c1 :: r)))); [reflexivity|lia].
Qed.

Theorem hex_literal x s ds :
  x = 120 \/ x = 88 -> s <> [] -> digits_of hex_digit s = Some ds ->
  number_value doc_char_escapes (48 :: x :: s) = Ok (positional 16 ds).
Proof.
  intros Hx Hs H. unfold number_value. simpl (48 =? 39). cbv iota.
  replace ((x =? 120) || (x =? 88))%bool with true by (destruct Hx; subst; reflexivity).
  now apply py_int_positional.
Qed.

Theorem binary_literal x s ds :
  x = 98 \/ x = 66 -> s <> [] -> digits_of bin_digit s = Some ds ->
  number_value doc_char_escapes (48 :: x :: s) = Ok (positional 2 ds).
Proof.
  intros Hx Hs H. unfold number_value. simpl (48 =? 39). cbv iota.
  replace ((x =? 120) || (x =? 88))%bool with false by (destruct Hx; subst; reflexivity).
  replace ((x =? 98) || (x =? 66))%bool with true by (destruct Hx; subst; reflexivity).
  now apply py_int_positional.
Qed.

Lemma hex_escape_letter_free x : x = 120 \/ x = 88 -> escape_value doc_char_escapes x = None.
Proof. intros [->| ->]; reflexivity. Qed.

(* the decoder on one well-formed item followed by anything *)
Lemma get_char_item it rest :
  item_ok it = true ->
  get_char_value_and_length doc_char_escapes (item_text it ++ rest) = Ok (item_value it, List.length (item_text it)).
Proof.
  destruct it as [c|c|x h1 h2]; simpl item_ok; intros H.
  - simpl. destruct (Z.eqb_spec c 92); [|reflexivity].
    subst. simpl in H. discriminate.
  - simpl. destruct (escape_value doc_char_escapes c); [reflexivity|discriminate].
  - apply andb_prop in H. destruct H as [Hx Hh].
    assert (X : x = 120 \/ x = 88) by (apply orb_prop in Hx; destruct Hx; [left|right]; lia).
    simpl. rewrite (hex_escape_letter_free _ X).
    destruct (hex_digit h1) as [a|] eqn:E1; [|discriminate]. destruct (hex_digit h2) as [b|] eqn:E2; [|discriminate].
    unfold py_int. simpl. rewrite ?E1, ?E2. simpl. f_equal. f_equal. lia.
Qed.

Theorem char_literal it :
  item_ok it = true -> number_value doc_char_escapes (39 :: item_text it ++ [39]) = Ok (item_value it).
Proof.
  intros H. unfold number_value.
  assert (E : exists c1 r, item_text it ++ [39] = c1 :: r /\ removelast (c1 :: r) = item_text it).
  { destruct it; simpl; eauto. }
  destruct E as (c1 & r & E & RL). rewrite E. simpl (39 =? 39). cbv iota. rewrite RL.
  rewrite <- (app_nil_r (item_text it)). rewrite (get_char_item it [] H). reflexivity.
Qed.

Lemma item_text_length_pos it : (0 < List.length (item_text it))%nat.
Proof. destruct it; simpl; lia. Qed.

Lemma string_chars_items its : forall fuel,
  forallb item_ok its = true -> (List.length (items_text its) <= fuel)%nat ->
  string_chars doc_char_escapes fuel (items_text its) = Ok (map item_value its).
Proof.
  induction its as [|it its IH]; intros fuel Hok Hf.
  - destruct fuel; reflexivity.
  - simpl in Hok. apply andb_prop in Hok. destruct Hok as [Hit Hits].
    unfold items_text in *. simpl flat_map in *. rewrite app_length in Hf.
    pose proof (item_text_length_pos it) as P.
    destruct fuel as [|fuel]; [lia|].
    assert (NE : exists c r, item_text it ++ flat_map item_text its = c :: r).
    { destruct it; simpl; eauto. }
    destruct NE as (c & r & NE). simpl string_chars. rewrite NE. rewrite <- NE.
    rewrite (get_char_item it _ Hit). simpl bind. simpl snd.
    rewrite skipn_app, skipn_all, Nat.sub_diag. simpl app. simpl skipn.
    rewrite IH by (assumption || lia). reflexivity.
Qed.

Lemma shifted_sum_le chars : forall i, 0 <= i -> shifted_sum i chars = little_endian chars * 2 ^ (8 * i).
Proof.
  induction chars as [|v t IH]; intros i Hi; simpl.
  - reflexivity.
  - rewrite IH by lia. rewrite Z.shiftl_mul_pow2 by lia.
    replace (8 * (i + 1)) with (8 + 8 * i) by lia. rewrite Z.pow_add_r by lia.
    replace (i * 8) with (8 * i) by lia. change (2 ^ 8) with 256. ring.
Qed.

Theorem string_literal its :
  forallb item_ok its = true ->
  string_value doc_char_escapes (items_text its) = Ok (little_endian (map item_value its)).
Proof.
  intros H. unfold string_value. rewrite string_chars_items by (assumption || lia). simpl bind.
  rewrite shifted_sum_le by lia. f_equal. simpl. lia.
Qed.

(** * Where a string literal ends *)
Lemma scan_string_items_app its : forall rest,
  forallb item_ok its = true -> no_bare_quote its = true ->
  scan_string_items doc_char_escapes (items_text its ++ 34 :: rest) = (its, 34 :: rest).
Proof.
  induction its as [|it its IH]; intros rest H Q; [reflexivity|].
  simpl in H. apply andb_prop in H. destruct H as [Hit Hits].
  unfold no_bare_quote in *. simpl in Q. apply andb_prop in Q. destruct Q as [Qit Qits].
  unfold items_text in *. simpl flat_map. rewrite <- app_assoc.
  destruct it as [c|c|x h1 h2]; simpl item_ok in Hit.
  - simpl in Qit. simpl. rewrite Hit, Qit. simpl. now rewrite IH.
  - simpl. destruct (escape_value doc_char_escapes c) eqn:E; [|discriminate]. now rewrite IH.
  - pose proof Hit as Hit'. apply andb_prop in Hit. destruct Hit as [Hx Hh].
    assert (X : x = 120 \/ x = 88) by (apply orb_prop in Hx; destruct Hx; [left|right]; lia).
    simpl. rewrite (hex_escape_letter_free _ X).
    change (match hex_digit h1 with Some _ => match hex_digit h2 with Some _ => true | None => false end | None => false end)
      with (match hex_digit h1, hex_digit h2 with Some _, Some _ => true | _, _ => false end).
    simpl in Hit'. rewrite Hit'. now rewrite IH.
Qed.

Theorem string_ends_at_first_quote its rest :
  forallb item_ok its = true -> no_bare_quote its = true ->
  lex_string_body doc_char_escapes (items_text its ++ 34 :: rest) = Some its.
Proof. intros H Q. unfold lex_string_body. now rewrite scan_string_items_app. Qed.
