From FJ Require Import Lib.Base Lib.Bytes Spec.ImageSpec Model.Fjm Proofs.FjmCodec Proofs.FjmReader Proofs.FjmWriter.
(* C06 / C10: the theorems about Model/Fjm.v, assembled from the codec, reader and writer lemmas. *)
Local Open Scope Z_scope.

(* ---- the declared image of a call sequence, from the invariant's table and logical pool ------------------ *)

Definition lseg_of (P : list Z) (t : tseg) : lseg :=
  let '(ss, sl, ds, dl) := t in
  mklseg ss sl (firstn (N.to_nat dl) (skipn (N.to_nat ds) (map Z.to_N P))).

Lemma zs_to_ns_nonneg l : Forall (fun x => 0 <= x) l -> zs_to_ns l = Some (map Z.to_N l).
Proof.
  induction 1 as [|x l Hx _ IH]; [reflexivity|].
  cbn [zs_to_ns map]. replace (x <? 0) with false by (symmetry; lia). now rewrite IH.
Qed.

Section Exec.
Variable c : wcfg.
Hypothesis Hc : cfg_valid c = true.

Lemma exec_inv : forall ops st T P res st',
  Inv c st T P -> exec c ops st = (res, Some st') ->
  exists T' P', Inv c st' (T ++ T') (P ++ P') /\
                logical ops res (map Z.to_N P) = Some (map (lseg_of (P ++ P')) T').
Proof.
  induction ops as [|op ops IH]; intros st T P res st' I E.
  - cbn in E. injection E as <- <-. exists [], []. rewrite !app_nil_r. split; [exact I | reflexivity].
  - cbn [exec] in E. destruct (apply_op c st op) as [st1 ret| |e] eqn:Eop.
    + destruct (exec c ops st1) as [l f] eqn:Er. injection E as <- ->.
      destruct op as [ld | s l0 ds dl]; cbn [apply_op] in Eop.
      * (* add_data *)
        unfold add_data in Eop. destruct (forallb (word_ok (c_w c)) ld) eqn:Ew; [|discriminate].
        cbn [negb] in Eop. injection Eop as <- _.
        pose proof (inv_add_data c st T P ld I Ew) as I1.
        destruct (IH _ _ _ _ _ I1 Er) as (T' & P'' & I2 & HL).
        exists T', (ld ++ P''). rewrite app_assoc. split; [exact I2|].
        cbn [logical fst]. change (negb (0 =? 0)%N) with false. cbv iota.
        rewrite zs_to_ns_nonneg.
        2:{ apply Forall_forall. intros x Hx. rewrite forallb_forall in Ew. specialize (Ew x Hx). unfold word_ok in Ew. lia. }
        rewrite <- map_app. exact HL.
      * (* add_segment *)
        destruct (add_segment_inv c Hc st T P s l0 ds dl st1 ret I Eop) as (Hs & Hl & Hds & Hdl & Hr & I1).
        destruct (IH _ _ _ _ _ I1 Er) as (T' & P' & I2 & HL).
        exists ((Z.to_N s, Z.to_N l0, Z.to_N ds, Z.to_N dl) :: T'), P'.
        rewrite <- app_assoc in I2. split; [exact I2|].
        cbn [logical fst]. change (negb (0 =? 0)%N) with false. cbv iota.
        rewrite map_length.
        replace ((s <? 0) || (l0 <? 0) || (ds <? 0) || (dl <? 0) || (Z.of_nat (length P) <? ds + dl)) with false
          by (symmetry; lia).
        rewrite HL. cbn [map lseg_of]. f_equal. f_equal. f_equal.
        rewrite map_app, firstn_skipn_app by (rewrite map_length; lia).
        now rewrite !Z_N_nat.
    + destruct (exec c ops st) as [l f] eqn:Er. injection E as <- ->.
      destruct (IH _ _ _ _ _ I Er) as (T' & P' & I2 & HL).
      exists T', P'. split; [exact I2|]. cbn [logical fst]. exact HL.
    + discriminate.
Qed.

(* no call sequence makes the Writer raise anything but its own error *)
Lemma exec_no_raw : forall ops st T P, Inv c st T P -> snd (exec c ops st) <> None.
Proof.
  induction ops as [|op ops IH]; intros st T P I; [discriminate|].
  cbn [exec]. destruct (apply_op c st op) as [st1 ret| |e] eqn:Eop.
  - destruct (exec c ops st1) as [l f] eqn:Er. cbn [snd].
    destruct op as [ld | s l0 ds dl]; cbn [apply_op] in Eop.
    + unfold add_data in Eop. destruct (forallb (word_ok (c_w c)) ld) eqn:Ew; [|discriminate].
      cbn [negb] in Eop. injection Eop as <- _.
      pose proof (IH _ _ _ (inv_add_data c st T P ld I Ew)) as H. now rewrite Er in H.
    + destruct (add_segment_inv c Hc st T P s l0 ds dl st1 ret I Eop) as (_ & _ & _ & _ & _ & I1).
      pose proof (IH _ _ _ I1) as H. now rewrite Er in H.
  - destruct (exec c ops st) as [l f] eqn:Er. cbn [snd].
    pose proof (IH _ _ _ I) as H. now rewrite Er in H.
  - exfalso. destruct op as [ld | s l0 ds dl]; cbn [apply_op] in Eop.
    + unfold add_data in Eop. destruct (negb (forallb (word_ok (c_w c)) ld)); discriminate.
    + eapply (add_segment_no_raw c); eassumption.
Qed.

End Exec.

(* ---- relative jumps: the reader's re-basing undoes the writer's ------------------------------------------- *)

Lemma rel_cancel (w p : Z) (k : N) :
  0 <= w -> 0 <= p < 2 ^ w ->
  rel_dec (Z.to_N w) k (Z.to_N ((p - Z.of_N k * w) mod 2 ^ w)) = Z.to_N p.
Proof.
  intros Hw Hp. unfold rel_dec. rewrite N.land_ones.
  assert (Hpow : 0 < 2 ^ w) by (apply Z.pow_pos_nonneg; lia).
  apply N2Z.inj. rewrite N2Z.inj_mod, N2Z.inj_add, N2Z.inj_mul, N2Z.inj_pow.
  rewrite !Z2N.id; try lia.
  change (Z.of_N 2) with 2.
  rewrite Zplus_mod_idemp_l.
  replace (p - Z.of_N k * w + Z.of_N k * w) with p by lia.
  apply Z.mod_small. exact Hp.
Qed.

(* ---- what write produces, and what read makes of it -------------------------------------------------------- *)

Section Roundtrip.
Variable compress : bytes -> option bytes.
Variable decompress : bytes -> option bytes.
Hypothesis lzma_roundtrip : forall x z, compress x = Some z -> decompress z = Some x.
Variable c : wcfg.
Hypothesis Hc : cfg_valid c = true.

Let wN := Z.to_N (c_w c).
Let verN := Z.to_N (c_ver c).
Let flagsN := Z.to_N (c_flags c).

Definition file_header (n : nat) : bytes :=
  le_enc 2 FJ_MAGIC ++ le_enc 2 wN ++ le_enc 8 verN ++ le_enc 8 (N.of_nat n).
Definition file_ext : bytes := if c_ver c =? 0 then [] else le_enc 8 flagsN ++ le_enc 4 0%N.

Lemma cfg_facts :
  supported_width wN = true /\ 0 <= c_w c < 65536 /\ 0 <= c_ver c <= 3 /\ 0 <= c_flags c < 2 ^ 64.
Proof.
  pose proof Hc as V. unfold cfg_valid in V. repeat (apply andb_prop in V; destruct V as [V ?]).
  pose proof (cfg_w_cases c Hc). repeat split; try lia. exact H5.
Qed.

Lemma inv_u64 st T P : Inv c st T P -> fits_u64 st = true -> Forall tseg_u64 T.
Proof.
  intros I F. apply Forall_forall. intros [[[ss sl] ds] dl] Hin.
  destruct I. destruct (entry_range c _ _ _ _ _ _ inv_entries Hin) as [(? & ? & ?) _].
  rewrite Forall_forall in inv_end. specialize (inv_end _ Hin). cbn in inv_end.
  unfold fits_u64 in F. apply andb_prop in F. destruct F as [F1 F2].
  unfold tseg_u64. change (2 ^ 64)%N with 18446744073709551616%N in *.
  change (2 ^ 64) with 18446744073709551616 in *. lia.
Qed.

Lemma write_spec st T P :
  Inv c st T P -> fits_u64 st = true ->
  exists wb, word_bytes wN = Some wb /\ (1 <= wb)%nat /\ (256 ^ N.of_nat wb = 2 ^ wN)%N /\
    match write compress c st with
    | WOk f => exists payload,
        f = file_header (length T) ++ file_ext ++ enc_table T ++ payload /\
        (if c_ver c =? 3 then compress (enc_words wb (ws_data st)) = Some payload
         else payload = enc_words wb (ws_data st))
    | WLib => c_ver c = 3 /\ compress (enc_words wb (ws_data st)) = None
    | WRaw _ _ => False
    end.
Proof.
  intros I F. destruct cfg_facts as (Hsw & Hw & Hver & Hfl).
  destruct (word_bytes_supported wN Hsw) as (wb & Ewb & Hwb & Hpow & _).
  exists wb. split; [exact Ewb|]. split; [exact Hwb|]. split; [exact Hpow|].
  pose proof (inv_u64 st T P I F) as Hu.
  unfold write. fold wN. rewrite Ewb.
  rewrite (pack_u_N 2 FJ_MAGIC) by reflexivity.
  rewrite (pack_u_Z 2 (c_w c)) by (change (256 ^ Z.of_nat 2) with 65536; lia).
  rewrite (pack_u_Z 8 (c_ver c)) by (change (256 ^ Z.of_nat 8) with 18446744073709551616; lia).
  destruct I.
  assert (Hlen : length (ws_segs st) = length T) by (rewrite inv_segs; apply map_length).
  unfold fits_u64 in F. apply andb_prop in F. destruct F as [F1 F2].
  rewrite (pack_u_Z 8 (Z.of_nat (length (ws_segs st))))
    by (change (256 ^ Z.of_nat 8) with (2 ^ 64); lia).
  rewrite Hlen. replace (Z.to_N (Z.of_nat (length T))) with (N.of_nat (length T)) by lia.
  assert (Eext : (if c_ver c =? 0 then Some []
                  else match pack_u 8 (c_flags c), pack_u 4 0 with
                       | Some x, Some y => Some (x ++ y) | _, _ => None end) = Some file_ext).
  { unfold file_ext. destruct (c_ver c =? 0); [reflexivity|].
    rewrite (pack_u_Z 8 (c_flags c)) by (change (256 ^ Z.of_nat 8) with (2 ^ 64); lia).
    rewrite (pack_u_Z 4 0) by (change (256 ^ Z.of_nat 4) with 4294967296; lia). reflexivity. }
  rewrite Eext. rewrite inv_segs, pack_segs_enc by exact Hu. cbn [negb].
  rewrite (pack_words_enc wb (ws_data st)).
  2:{ eapply Forall_impl; [|exact inv_D]. intros x Hx. unfold word_in in Hx.
      replace (256 ^ Z.of_nat wb) with (2 ^ c_w c); [exact Hx|].
      apply (f_equal Z.of_N) in Hpow. rewrite !N2Z.inj_pow, nat_N_Z in Hpow. unfold wN in Hpow.
      rewrite Z2N.id in Hpow by lia. symmetry. exact Hpow. }
  destruct (c_ver c =? 3) eqn:E3.
  - destruct (compress (enc_words wb (ws_data st))) as [z|] eqn:Ez.
    + exists z. split; [reflexivity | reflexivity].
    + split; [lia | reflexivity].
  - eexists. split; reflexivity.
Qed.

Lemma find_map_lseg P x T :
  find (in_lseg x) (map (lseg_of P) T) = option_map (lseg_of P) (find (in_tseg x) T).
Proof.
  induction T as [|t T IH]; [reflexivity|]. cbn [map find].
  replace (in_lseg x (lseg_of P t)) with (in_tseg x t) by (destruct t as [[[ss sl] ds] dl]; reflexivity).
  destruct (in_tseg x t); [reflexivity | exact IH].
Qed.

Lemma is_rel_N : is_rel c = ((verN =? 2) || (verN =? 3))%N.
Proof. destruct cfg_facts as (_ & _ & Hver & _). unfold is_rel, verN. lia. Qed.

(* the image the reader builds from the invariant's table and pool is the declared one *)
Lemma image_words st T P m' z :
  Inv c st T P ->
  (forall x, find (in_tseg x) T = None -> mget m' x = mget (PositiveMap.empty N) x /\ existsb (in_range x) z = false) ->
  (forall x t, find (in_tseg x) T = Some t ->
               word_of m' z x = Some (seg_word wN (is_rel c) (map Z.to_N (ws_data st)) t x)) ->
  forall x, word_of m' z x = lword (map (lseg_of P) T) x.
Proof.
  intros I Hout Hin x. unfold lword. rewrite find_map_lseg.
  destruct (find (in_tseg x) T) as [t|] eqn:Ef; cbn [option_map].
  - rewrite (Hin x t Ef). f_equal.
    assert (Ht : In t T /\ in_tseg x t = true) by (apply find_some in Ef; exact Ef).
    destruct Ht as [Ht Hx]. destruct t as [[[ss sl] ds] dl]. destruct I.
    destruct (entry_range c _ _ _ _ _ _ inv_entries Ht) as [(Hsl & Hdl & Hr) _].
    unfold in_tseg in Hx. cbn [lseg_of l_words l_start]. unfold seg_word, data_then_zeros.
    rewrite firstn_length, skipn_length, map_length.
    replace (N.of_nat (Nat.min (N.to_nat dl) (length P - N.to_nat ds)) <=? x - ss)%N with (negb (x - ss <? dl)%N) by lia.
    destruct (x - ss <? dl)%N eqn:Ej; cbn [negb]; [|reflexivity].
    rewrite nth_firstn_skipn by lia.
    replace (N.to_nat ds + N.to_nat (x - ss))%nat with (N.to_nat (ds + (x - ss))) by lia.
    change 0%N with (Z.to_N 0). rewrite !map_nth.
    rewrite (inv_data ss sl ds dl (x - ss)%N Ht) by lia.
    unfold enc. destruct (is_rel c && N.odd (x - ss)); [|reflexivity].
    replace (ss + (x - ss))%N with x by lia.
    apply rel_cancel; [apply (cfg_w_nonneg c Hc)|].
    rewrite Forall_nth in inv_P. destruct (Nat.lt_ge_cases (N.to_nat (ds + (x - ss))) (length P)) as [Hlt|Hge].
    + apply inv_P. exact Hlt.
    + lia.
  - unfold word_of. destruct (Hout x Ef) as [-> ->]. rewrite mget_empty. reflexivity.
Qed.

Theorem roundtrip thr ops res st file :
  exec c ops ws_empty = (res, Some st) -> fits_u64 st = true ->
  write compress c st = WOk file ->
  exists img L,
    read_thr thr decompress file = ROk img /\
    logical ops res [] = Some L /\
    same_image (i_segs img) (i_mem img) (i_zeros img) L /\
    i_w img = wN /\ i_ver img = verN /\ i_flags img = flagsN /\
    consistent_table (i_pool_len img) (i_table img) = true.
Proof.
  intros E F W.
  destruct (exec_inv c Hc ops ws_empty [] [] res st (inv_empty c) E) as (T & P & I & HL).
  cbn [app map] in I, HL.
  destruct (write_spec st T P I F) as (wb & Ewb & Hwb & Hpow & HW). rewrite W in HW.
  destruct HW as (payload & -> & Hpay).
  destruct cfg_facts as (Hsw & Hw & Hver & Hfl).
  pose proof (inv_u64 st T P I F) as Hu.
  set (D := ws_data st) in *. set (DN := map Z.to_N D).
  assert (HlenD : length DN = length P) by (unfold DN; rewrite map_length; destruct I; assumption).
  assert (Hcons : consistent_table (N.of_nat (length DN)) T = true).
  { unfold consistent_table. rewrite HlenD. destruct I. now rewrite inv_entries, inv_disj. }
  destruct (init_memory_good thr wN (is_rel c) DN T (PositiveMap.empty N)) as (m' & z & EM & Hout & Hin).
  { unfold consistent_table in Hcons. apply andb_prop in Hcons. apply Hcons. }
  { destruct I; assumption. }
  { intros; apply mget_empty. }
  exists (mkimg wN verN flagsN T (N.of_nat (length DN)) (map seg_of T) m' z), (map (lseg_of P) T).
  split; [|split; [exact HL | split; [|repeat split; try reflexivity; exact Hcons]]].
  - (* the parse *)
    unfold read_thr, file_header.
    rewrite (take_app header_base_size (le_enc 2 FJ_MAGIC ++ le_enc 2 wN ++ le_enc 8 verN ++ le_enc 8 (N.of_nat (length T))))
      by (rewrite !app_length, !le_enc_length; reflexivity).
    destruct (hdr_fields FJ_MAGIC wN verN (N.of_nat (length T))) as (F1 & F2 & F3 & F4). cbv zeta in F1, F2, F3, F4.
    rewrite F1, F2, F3, F4.
    assert (HT64 : (N.of_nat (length T) < 2 ^ 64)%N).
    { destruct I. unfold fits_u64 in F. apply andb_prop in F. destruct F as [_ F2'].
      rewrite inv_segs, map_length in F2'. change (2 ^ 64)%N with 18446744073709551616%N.
      change (2 ^ 64) with 18446744073709551616 in F2'. lia. }
    rewrite (le_dec_enc 2 FJ_MAGIC) by reflexivity.
    rewrite (le_dec_enc 2 wN) by (change (256 ^ N.of_nat 2)%N with 65536%N; unfold wN; lia).
    rewrite (le_dec_enc 8 verN) by (rewrite word_bound_64; change (2 ^ 64)%N with 18446744073709551616%N; unfold verN; lia).
    rewrite (le_dec_enc 8 (N.of_nat (length T))) by (rewrite word_bound_64; exact HT64).
    replace (max_version <? verN)%N with false by (symmetry; unfold max_version, verN; lia).
    match goal with |- context [if (verN =? 0)%N then ?a else ?b] =>
      assert (Eext : (if (verN =? 0)%N then a else b)
                     = Some (if (verN =? 0)%N then 0%N else flagsN, 0%N, enc_table T ++ payload))
    end.
    { unfold file_ext. replace (c_ver c =? 0) with (verN =? 0)%N by (unfold verN; lia).
      destruct (verN =? 0)%N; [reflexivity|].
      rewrite (take_app header_extension_size (le_enc 8 flagsN ++ le_enc 4 0%N))
        by (rewrite app_length, !le_enc_length; reflexivity).
      destruct (ext_fields flagsN 0%N) as (G1 & G2). cbv zeta in G1, G2. rewrite G1, G2.
      rewrite (le_dec_enc 8 flagsN) by (rewrite word_bound_64; change (2 ^ 64)%N with 18446744073709551616%N;
                                        change (2 ^ 64) with 18446744073709551616 in Hfl; unfold flagsN; lia).
      rewrite (le_dec_enc 4 0%N) by reflexivity. reflexivity. }
    rewrite Eext. clear Eext.
    rewrite N.eqb_refl. cbn [negb]. rewrite Hsw. cbn [negb]. rewrite N.eqb_refl. cbn [negb].
    replace (N.of_nat (length (enc_table T ++ payload)) <? 32 * N.of_nat (length T))%N with false
      by (symmetry; rewrite app_length, enc_table_length; lia).
    rewrite Nat2N.id, read_segs_enc by exact Hu.
    rewrite Ewb.
    match goal with |- context [if (verN =? 3)%N then ?a else ?b] =>
      assert (Efd : (if (verN =? 3)%N then a else b) = Some (enc_words wb D))
    end.
    { replace (verN =? 3)%N with (c_ver c =? 3) by (unfold verN; lia).
      destruct (c_ver c =? 3); [apply lzma_roundtrip; exact Hpay | now rewrite Hpay]. }
    rewrite Efd. clear Efd.
    rewrite unpack_words_enc; [| exact Hwb | lia |].
    2:{ destruct I. eapply Forall_impl; [|exact inv_D]. intros x Hx. unfold word_in in Hx.
        replace (256 ^ Z.of_nat wb) with (2 ^ c_w c); [exact Hx|].
        apply (f_equal Z.of_N) in Hpow. rewrite !N2Z.inj_pow, nat_N_Z in Hpow. unfold wN in Hpow.
        rewrite Z2N.id in Hpow by lia. symmetry. exact Hpow. }
    fold DN. rewrite (consistent_validate _ _ Hcons).
    rewrite <- is_rel_N. rewrite EM.
    f_equal. f_equal. destruct (verN =? 0)%N eqn:E0; [|reflexivity].
    (* version 0 has no flags: the constructor demands flags = 0 *)
    pose proof Hc as V. unfold cfg_valid in V. repeat (apply andb_prop in V; destruct V as [V ?]).
    unfold flagsN, verN in *. lia.
  - (* the image *)
    split.
    + cbn [i_segs]. unfold lsegs. rewrite map_map. apply map_ext. intros [[[ss sl] ds] dl]. reflexivity.
    + cbn [i_mem i_zeros]. apply (image_words st T P m' z I Hout Hin).
Qed.

End Roundtrip.

(* ---- an accepted file has a consistent segment table ------------------------------------------------------- *)

Theorem read_consistent thr decompress b img :
  read_thr thr decompress b = ROk img ->
  consistent_table (i_pool_len img) (i_table img) = true /\
  supported_width (i_w img) = true /\ (i_ver img <= 3)%N /\ i_segs img = map seg_of (i_table img).
Proof.
  unfold read_thr.
  destruct (take header_base_size b) as [[h r1]|]; [|discriminate].
  destruct (max_version <? u_at 4 8 h)%N eqn:Ev; [discriminate|].
  destruct (if (u_at 4 8 h =? 0)%N then Some (0%N, 0%N, r1)
            else match take header_extension_size r1 with
                 | Some (e0, r2) => Some (u_at 0 8 e0, u_at 8 4 e0, r2) | None => None end)
    as [[[flags reserved] r2]|]; [|discriminate].
  destruct (negb (u_at 0 2 h =? FJ_MAGIC)%N); [discriminate|].
  destruct (negb (supported_width (u_at 2 2 h))) eqn:Ew; [discriminate|].
  destruct (negb (reserved =? 0)%N); [discriminate|].
  destruct (N.of_nat (length r2) <? 32 * u_at 12 8 h)%N; [discriminate|].
  destruct (read_segs (N.to_nat (u_at 12 8 h)) r2) as [[table payload]|]; [|discriminate].
  destruct (word_bytes (u_at 2 2 h)) as [wb|]; [|discriminate].
  destruct (if (u_at 4 8 h =? 3)%N then decompress payload else Some payload) as [fd|]; [|discriminate].
  destruct (unpack_words (length fd) wb fd) as [data| |]; try discriminate.
  destruct (validate_segments table) eqn:Eval; [discriminate|].
  destruct (init_memory thr (u_at 2 2 h) ((u_at 4 8 h =? 2)%N || (u_at 4 8 h =? 3)%N) data
                        (N.of_nat (length data)) (PositiveMap.empty N) table) as [segs m z| |] eqn:Em; try discriminate.
  intros H. injection H as <-. cbn [i_pool_len i_table i_w i_ver i_segs].
  destruct (init_memory_weak _ _ _ _ _ _ _ _ _ Em) as [Hweak Hsegs].
  split; [|split; [now apply negb_false_iff in Ew | split; [unfold max_version in Ev; lia | exact Hsegs]]].
  unfold consistent_table. rewrite (validate_ok_disjoint _ Eval), andb_true_r.
  apply forallb_forall. intros t Ht.
  pose proof (validate_ok_shape _ t Eval Ht) as Hs.
  rewrite forallb_forall in Hweak. specialize (Hweak t Ht).
  destruct t as [[[ss sl] ds] dl]. unfold seg_shape_bad in Hs. unfold tentry_weak in Hweak. unfold tentry_ok.
  apply andb_prop in Hweak. destruct Hweak as [W1 W2].
  repeat (apply orb_false_elim in Hs; destruct Hs as [Hs ?]).
  rewrite !N_odd_mod2 in *. rewrite !N_even_mod2 in *. lia.
Qed.

(* ---- corollaries of the round trip ---------------------------------------------------------------------------- *)

Section Corollaries.
Variable compress : bytes -> option bytes.
Variable decompress : bytes -> option bytes.
Hypothesis lzma_roundtrip : forall x z, compress x = Some z -> decompress z = Some x.

(* the declared image is a function of the calls and of which of them were accepted, so two versions that
   accept the same calls load the same image *)
Theorem version_independent c1 c2 thr ops res st1 st2 f1 f2 i1 i2 :
  cfg_valid c1 = true -> cfg_valid c2 = true ->
  exec c1 ops ws_empty = (res, Some st1) -> exec c2 ops ws_empty = (res, Some st2) ->
  fits_u64 st1 = true -> fits_u64 st2 = true ->
  write compress c1 st1 = WOk f1 -> write compress c2 st2 = WOk f2 ->
  read_thr thr decompress f1 = ROk i1 -> read_thr thr decompress f2 = ROk i2 ->
  i_segs i1 = i_segs i2 /\ forall a, word_of (i_mem i1) (i_zeros i1) a = word_of (i_mem i2) (i_zeros i2) a.
Proof.
  intros V1 V2 E1 E2 F1 F2 W1 W2 R1 R2.
  destruct (roundtrip compress decompress lzma_roundtrip c1 V1 thr ops res st1 f1 E1 F1 W1)
    as (j1 & L1 & R1' & HL1 & [S1 G1] & _).
  destruct (roundtrip compress decompress lzma_roundtrip c2 V2 thr ops res st2 f2 E2 F2 W2)
    as (j2 & L2 & R2' & HL2 & [S2 G2] & _).
  rewrite R1 in R1'. injection R1' as <-. rewrite R2 in R2'. injection R2' as <-.
  rewrite HL1 in HL2. injection HL2 as <-.
  split; [now rewrite S1, S2 | intros a; now rewrite G1, G2].
Qed.

(* dense (explicit zeros) and lazy (zero ranges) tails denote the same image: whatever the threshold, the
   image read from a written file answers the same at every address *)
Theorem zero_tail c thr1 thr2 ops res st file i1 i2 :
  cfg_valid c = true -> exec c ops ws_empty = (res, Some st) -> fits_u64 st = true ->
  write compress c st = WOk file ->
  read_thr thr1 decompress file = ROk i1 -> read_thr thr2 decompress file = ROk i2 ->
  i_segs i1 = i_segs i2 /\ forall a, word_of (i_mem i1) (i_zeros i1) a = word_of (i_mem i2) (i_zeros i2) a.
Proof.
  intros V E F W R1 R2.
  destruct (roundtrip compress decompress lzma_roundtrip c V thr1 ops res st file E F W)
    as (j1 & L1 & R1' & HL1 & [S1 G1] & _).
  destruct (roundtrip compress decompress lzma_roundtrip c V thr2 ops res st file E F W)
    as (j2 & L2 & R2' & HL2 & [S2 G2] & _).
  rewrite R1 in R1'. injection R1' as <-. rewrite R2 in R2'. injection R2' as <-.
  rewrite HL1 in HL2. injection HL2 as <-.
  split; [now rewrite S1, S2 | intros a; now rewrite G1, G2].
Qed.

(* an input the format cannot represent is refused with the library's error: no call and no write ends in
   any other exception, and whatever was accepted is representable *)
Theorem writer_total c ops :
  cfg_valid c = true ->
  snd (exec c ops ws_empty) <> None /\
  forall res st, exec c ops ws_empty = (res, Some st) -> fits_u64 st = true ->
                 forall e p, write compress c st <> WRaw e p.
Proof.
  intros V. split; [apply (exec_no_raw c V ops ws_empty [] []); apply inv_empty|].
  intros res st E F e p.
  destruct (exec_inv c V ops ws_empty [] [] res st (inv_empty c) E) as (T & P & I & _).
  destruct (write_spec compress c V st T P I F) as (wb & _ & _ & _ & HW).
  intros H. rewrite H in HW. exact HW.
Qed.

End Corollaries.

Lemma in_firstn_l (A : Type) (x : A) n l : In x (firstn n l) -> In x l.
Proof. intros H. rewrite <- (firstn_skipn n l). apply in_or_app. now left. Qed.
Lemma in_skipn_l (A : Type) (x : A) n l : In x (skipn n l) -> In x l.
Proof. intros H. rewrite <- (firstn_skipn n l). apply in_or_app. now right. Qed.

Lemma lseg_of_representable c T P st :
  cfg_valid c = true -> Inv c st T P -> representable (Z.to_N (c_w c)) (map (lseg_of P) T) = true.
Proof.
  intros V I. unfold representable. apply andb_true_intro. split.
  - apply forallb_forall. intros s Hs. apply in_map_iff in Hs. destruct Hs as ([[[ss sl] ds] dl] & <- & Ht).
    destruct I. destruct (entry_range c _ _ _ _ _ _ inv_entries Ht) as [(H1 & H2 & H3) (H4 & H5 & H6)].
    rewrite Forall_forall in inv_end. specialize (inv_end _ Ht). cbn in inv_end.
    unfold lseg_representable. cbn [lseg_of l_len l_start l_words].
    rewrite firstn_length, skipn_length, map_length.
    replace (N.of_nat (Nat.min (N.to_nat dl) (length P - N.to_nat ds))) with dl by lia.
    rewrite H4, H5, H6.
    replace (0 <? sl)%N with true by (symmetry; lia).
    replace (dl <=? sl)%N with true by (symmetry; lia).
    replace (ss <? 2 ^ 64)%N with true by (symmetry; lia).
    replace (sl <? 2 ^ 64)%N with true by (symmetry; lia).
    cbn [andb]. rewrite !andb_true_r.
    apply forallb_forall. intros x Hx. apply in_firstn_l in Hx.
    assert (Hx' : In x (map Z.to_N P)) by (eapply in_skipn_l; exact Hx).
    apply in_map_iff in Hx'. destruct Hx' as (p & <- & Hp).
    rewrite Forall_forall in inv_P. specialize (inv_P p Hp). unfold word_in in inv_P.
    apply N.ltb_lt. apply N2Z.inj_lt. rewrite N2Z.inj_pow, !Z2N.id; try lia. apply (cfg_w_nonneg c V).
  - rewrite pairwise_map. destruct I. rewrite <- inv_disj. apply pairwise_ext.
    intros [[[s1 l1] a1] b1] [[[s2 l2] a2] b2]. reflexivity.
Qed.

Theorem accepted_representable c ops res st :
  cfg_valid c = true -> exec c ops ws_empty = (res, Some st) ->
  exists L, logical ops res [] = Some L /\ representable (Z.to_N (c_w c)) L = true.
Proof.
  intros V E.
  destruct (exec_inv c V ops ws_empty [] [] res st (inv_empty c) E) as (T & P & I & HL).
  cbn [app map] in I, HL. exists (map (lseg_of P) T). split; [exact HL|].
  eapply lseg_of_representable; eassumption.
Qed.
