From FJ Require Import Lib.Base Lib.Bytes Spec.ImageSpec Model.Fjm.
Local Open Scope N_scope.
