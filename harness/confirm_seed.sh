#!/bin/bash
# usage: harness/confirm_seed.sh <seed_dir containing patch.diff + demo.py> <property> [check args...]
# Confirms a seeded breaking change in a scratch worktree of /repo (never in /repo itself):
#   1. unchanged source: demo passes     2. patched source: test-suite passes, demo fails
#   3. the registered check of <property>, pointed at the patched copy through FJVERIF_REPO, must exit 1
# Everything is removed afterwards.
set -u
seed=$(realpath "$1"); prop=$2; shift 2
wt=/var/tmp/seedrun.$$
git -C /repo worktree add -q --detach "$wt" HEAD || exit 2
cleanup() { git -C /repo worktree remove --force "$wt" 2>/dev/null; rm -rf "$wt"; }
trap cleanup EXIT
cd "$wt"
mkdir -p "$wt/seed_x"; cp "$seed"/demo.py "$wt/seed_x/"; demo="$wt/seed_x/demo.py"   # demos locate the repo relative to themselves
build_native() { /venv/bin/python build_fjcore.py >/dev/null 2>&1; rm -rf build; }
run_demo() { if grep -q "def test_" "$demo" 2>/dev/null; then PYTHONPATH="$wt" timeout 600 /venv/bin/python -m pytest -q -p no:cacheprovider "$demo" >/dev/null 2>&1; else PYTHONPATH="$wt" timeout 600 /venv/bin/python "$demo" >/dev/null 2>&1; fi; }
build_native
run_demo; d0=$?
git apply "$seed/patch.diff" || { echo "SEED patch does not apply"; exit 2; }
build_native
timeout 1800 /venv/bin/python -m pytest -q -p no:cacheprovider --timeout=900 -x -q >/var/tmp/seedrun.$$.tests 2>&1; t1=$?
run_demo; d1=$?
echo "SEED demo_unpatched_rc=$d0 tests_patched_rc=$t1 demo_patched_rc=$d1"
tail -n 2 /var/tmp/seedrun.$$.tests; rm -f /var/tmp/seedrun.$$.tests
rm -f flipjump/interpreter/_fjcore*.so; rm -rf "$wt/seed_x"
cd /verif
FJVERIF_REPO="$wt" ./check "$prop" "$@" > /var/tmp/seedrun.$$.check 2>&1; c=$?
grep -E "^VIOLATION|^KNOWN-FINDING|^\[$prop\]|^# " /var/tmp/seedrun.$$.check | cut -c1-300 | head -12
echo "SEED check_rc=$c"
rm -f /var/tmp/seedrun.$$.check
if [ $d0 = 0 ] && [ $t1 = 0 ] && [ $d1 != 0 ]; then echo "SEED confirmed"; else echo "SEED NOT confirmed"; fi
if [ $c = 1 ]; then echo "SEED detected"; else echo "SEED MISSED"; fi
