"""Shared machinery of every check: context, scratch, Coq bridge, evidence, findings, violations."""
import atexit
import fcntl
import hashlib
import json
import os
import random
import re
import shutil
import subprocess
import sys
import time
from concurrent.futures import ThreadPoolExecutor
from pathlib import Path

sys.set_int_max_str_digits(0)
VERIF = Path(__file__).resolve().parents[2]
COQ = VERIF / 'coq'
REPO = Path(os.environ.get('FJVERIF_REPO', '/repo')).resolve()
PY = '/venv/bin/python'
NCPU = int(os.environ.get('FJVERIF_JOBS', str(os.cpu_count() or 8)))

COQ_TRUSTED = [
    'Coq 8.16.1 kernel including the vm_compute conversion (no native_compute)',
    'hand-written Gallina models of the Python/C code, tied to /repo by the correspondence campaign of this run',
    'the harness (generators, canonicalisation, Coq output parser) under /verif/harness',
]


def env_for_repo(extra=None):
    e = dict(os.environ)
    e['PYTHONPATH'] = f'{REPO}:{VERIF / "harness"}'
    e['PYTHONHASHSEED'] = '0'
    e['PYTHONDONTWRITEBYTECODE'] = '1'
    e.pop('FLIPJUMP_NO_NATIVE', None)
    e.pop('FLIPJUMP_NO_FLAT', None)
    e.pop('FLIPJUMP_MEASURE_SPECULATION', None)
    e.pop('FLIPJUMP_FLAT_MAX_WORDS', None)
    if extra:
        e.update(extra)
    return e


class Ctx:
    def __init__(self, prop, tier, seed, replay=None):
        self.prop = prop
        self.tier = tier
        self.seed = seed
        self.replay = replay
        self.rng = random.Random(f'{prop}:{seed}')
        self.t0 = time.time()
        base = Path('/var/tmp') if os.access('/var/tmp', os.W_OK) else Path('/dev/shm')
        self.scratch = base / f'fjverif.{prop}.{os.getpid()}'
        if self.scratch.exists():
            shutil.rmtree(self.scratch)
        self.scratch.mkdir(parents=True)
        atexit.register(lambda: shutil.rmtree(self.scratch, ignore_errors=True))
        self.coverage = {'evaluations': 0, 'distinct_nontrivial': 0, 'rule': '', 'samples': [],
                         'obligations': 0, 'discharged': 0, 'checker_cmd': '', 'trusted_base': list(COQ_TRUSTED)}
        self.assumptions = []
        self.violations = []       # (signature, what, replay_path, no_input)
        self.known_hits = {}       # finding id -> what
        self.broken = []           # broken theorem / tie descriptions
        self.level = 'proof'
        self._distinct = set()
        self.findings = json.loads((VERIF / 'known_findings.json').read_text())

    # ---- bookkeeping -------------------------------------------------------------------
    def quick(self):
        return self.tier == 'quick'

    def n(self, quick, thorough):
        return quick if self.quick() else thorough

    def count(self, key, nontrivial=True):
        """one evaluation; key identifies the canonical input (for distinct counting)"""
        self.coverage['evaluations'] += 1
        if nontrivial:
            h = hashlib.sha1(repr(key).encode()).digest()[:8]
            self._distinct.add(h)

    def sample(self, obj, limit=6):
        if len(self.coverage['samples']) < limit:
            self.coverage['samples'].append(obj)

    def hist(self, name, key, inc=1):
        d = self.coverage.setdefault(name, {})
        d[str(key)] = d.get(str(key), 0) + inc

    # ---- violations --------------------------------------------------------------------
    def violation(self, signature, what, replay, no_input=False):
        """signature: dict used to match known findings; replay: JSON-able dict"""
        for f in self.findings.get('findings', []):
            if f['property'] == self.prop and all(signature.get(k) == v for k, v in f['match'].items()):
                if f['id'] not in self.known_hits:
                    self.known_hits[f['id']] = f['what']
                return
        sigkey = json.dumps(signature, sort_keys=True, default=str)
        if any(v[0] == sigkey for v in self.violations):
            return
        if len(self.violations) >= 8:
            return
        blob = json.dumps({'property': self.prop, 'signature': signature, 'what': what, 'replay': replay,
                           'seed': self.seed, 'tier': self.tier}, indent=1, sort_keys=True, default=str)
        hid = hashlib.sha1(blob.encode()).hexdigest()[:12]
        path = (VERIF / 'replays' if str(REPO) == '/repo' else Path('/var/tmp/fjverif-replays-scratch')) / f'{self.prop}-{hid}.json'
        path.parent.mkdir(parents=True, exist_ok=True)
        path.write_text(blob)
        self.violations.append((sigkey, what, str(path), no_input))

    def broken_tie(self, name, detail):
        """a theorem, generated fact or correspondence that no longer checks"""
        self.broken.append({'name': name, 'detail': detail[-3000:]})

    # ---- finish ------------------------------------------------------------------------
    def finish(self):
        # a broken theorem/tie without any concrete failing input is still a violation
        if self.broken and not self.violations:
            for b in self.broken:
                self.violation({'kind': 'broken-tie', 'name': b['name']},
                               f"proof obligation or correspondence no longer checks: {b['name']}",
                               {'theorem_or_correspondence': b['name'], 'detail': b['detail']}, no_input=True)
        cov = self.coverage
        cov['distinct_nontrivial'] = len(self._distinct)
        if self.broken:
            cov['broken'] = self.broken
        cov['known_findings_hit'] = sorted(self.known_hits)
        ev = {'property_id': self.prop, 'tier': self.tier, 'seed': self.seed, 'level': self.level,
              'coverage': cov, 'assumptions': self.assumptions, 'wall_s': round(time.time() - self.t0, 2),
              'violations': len(self.violations), 'repo': str(REPO)}
        # runs against a scratch copy of the repository (seeded changes) must not overwrite the committed evidence
        evdir = Path(os.environ['FJVERIF_EVIDENCE_DIR']) if os.environ.get('FJVERIF_EVIDENCE_DIR') else (
            VERIF / 'evidence' if str(REPO) == '/repo' else Path('/var/tmp/fjverif-evidence-scratch'))
        evdir.mkdir(parents=True, exist_ok=True)
        (evdir / f'{self.prop}.json').write_text(json.dumps(ev, indent=1, default=str) + '\n')
        for fid, what in sorted(self.known_hits.items()):
            print(f'KNOWN-FINDING: property={self.prop} {fid}: {what}')
        for _, what, path, no_input in self.violations:
            print(f'# {what}')
            print(f'VIOLATION property={self.prop} replay={path}' + (' no-failing-input-found' if no_input else ''))
        print(f'[{self.prop}] tier={self.tier} seed={self.seed} evaluations={cov["evaluations"]} '
              f'distinct={cov["distinct_nontrivial"]} obligations={cov["discharged"]}/{cov["obligations"]} '
              f'violations={len(self.violations)} wall={ev["wall_s"]}s')
        sys.stdout.flush()
        return 1 if self.violations else 0


# ---- Coq bridge -----------------------------------------------------------------------------

def _coq_lock():
    f = open(COQ / '.lock', 'w')
    fcntl.flock(f, fcntl.LOCK_EX)
    return f


def write_if_changed(path, text):
    path = Path(path)
    if path.exists() and path.read_text() == text:
        return False
    path.parent.mkdir(parents=True, exist_ok=True)
    path.write_text(text)
    return True


def ensure_makefile():
    proj = ['-Q . FJ',
            '-arg -w -arg -notation-overridden,-deprecated-hint-without-locality,-deprecated-instance-without-locality']
    files = []
    for d in ('Lib', 'Spec', 'Model', 'Proofs', 'Properties', 'Tie'):
        files += sorted(str(p.relative_to(COQ)) for p in (COQ / d).rglob('*.v'))
    # of the generated files only the regenerated source facts belong to the shared build (the Tie files need them);
    # transient per-run files (stl images and instance theorems) are compiled by their check with coqc directly
    files += sorted(str(p.relative_to(COQ)) for p in (COQ / 'Gen').glob('Facts_*.v'))
    text = '\n'.join(proj + files) + '\n'
    if write_if_changed(COQ / '_CoqProject', text) or not (COQ / 'Makefile').exists():
        subprocess.run(['coq_makefile', '-f', '_CoqProject', '-o', 'Makefile'], cwd=COQ, check=True,
                       stdout=subprocess.DEVNULL, stderr=subprocess.DEVNULL)


def coq_make(targets, timeout=3600):
    """make the given .vo targets (relative to coq/). returns (ok, output)"""
    lock = _coq_lock()
    try:
        ensure_makefile()
        p = subprocess.run(['timeout', str(timeout), 'make', f'-j{NCPU}'] + list(targets), cwd=COQ,
                           stdout=subprocess.PIPE, stderr=subprocess.STDOUT, text=True)
        return p.returncode == 0, p.stdout
    finally:
        lock.close()


def dep_closure(targets):
    """the .v files the given .vo targets depend on (from coq_makefile's .Makefile.d); None if unknown"""
    depfile = COQ / '.Makefile.d'
    if not depfile.exists():
        return None
    deps = {}
    for line in depfile.read_text().splitlines():
        if ':' not in line:
            continue
        lhs, rhs = line.split(':', 1)
        vo = [t for t in lhs.split() if t.endswith('.vo')]
        if not vo:
            continue
        deps[vo[0]] = [t for t in rhs.split() if t.endswith('.vo')]
    seen, todo = set(), [t for t in targets]
    while todo:
        t = todo.pop()
        if t in seen:
            continue
        seen.add(t)
        if t not in deps:
            return None
        todo += deps[t]
    return sorted(t[:-1] for t in seen)     # X.vo -> X.v


def lint(targets=None):
    """lint gate over the dependency closure of the given targets (the whole tree when unknown)"""
    files = dep_closure(targets) if targets else None
    p = subprocess.run([str(VERIF / 'lint.sh')] + (files or []), stdout=subprocess.PIPE, stderr=subprocess.STDOUT, text=True)
    return p.returncode == 0, p.stdout


def coqc_file(path, timeout=900):
    p = subprocess.run(['bash', '-c', 'ulimit -s unlimited 2>/dev/null || ulimit -s 1000000; exec "$@"', 'sh',
                        'timeout', str(timeout), 'coqc', '-Q', str(COQ), 'FJ', '-w', '-all', str(path)],
                       stdout=subprocess.PIPE, stderr=subprocess.STDOUT, text=True, cwd=str(Path(path).parent))
    return p.returncode, p.stdout


def harvest_assumptions(ctx, prop_file):
    """compile Properties/Cnn.v afresh and collect, per theorem, what Print Assumptions reports"""
    src = (COQ / prop_file).read_text()
    theorems = re.findall(r'^\s*(?:Theorem|Lemma|Corollary)\s+(\w+)', src, re.M)
    printed = re.findall(r'Print Assumptions\s+(\w+)', src)
    tmp = ctx.scratch / ('PA_' + Path(prop_file).name)
    tmp.write_text(src)
    lock = _coq_lock()          # no make may rewrite the .vo files this compile reads
    try:
        rc, out = coqc_file(tmp)
    finally:
        lock.close()
    ctx.coverage['obligations'] += len(theorems)
    if rc != 0:
        ctx.broken_tie(prop_file, out)
        return
    ctx.coverage['discharged'] += len(theorems)
    blocks = re.split(r'(?=Closed under the global context|Axioms:|Section Variables:)', out)
    blocks = [b.strip() for b in blocks if b.strip()]
    for name, blk in zip(printed, blocks):
        blk = re.sub(r'\s+', ' ', blk)
        ctx.coverage['trusted_base'].append(f'Print Assumptions {name}: {blk[:600]}')
    ctx.coverage.setdefault('theorems', []).extend(theorems)
    if len(printed) < len(theorems):
        ctx.coverage['trusted_base'].append(
            f'note: {len(theorems) - len(printed)} theorem(s) of {prop_file} without Print Assumptions')


def static_proofs(ctx, prop_files, extra_targets=()):
    """lint + build of the property's theorem files (and everything they depend on)."""
    targets = [re.sub(r'\.v$', '.vo', f) for f in prop_files] + list(extra_targets)
    ok, out = coq_make(targets)
    lok, lout = lint(targets)        # every file this property's theorems depend on (whole tree if unknown)
    if not lok:
        ctx.broken_tie('lint', lout)
    ctx.coverage['checker_cmd'] = f'make -j{NCPU} ' + ' '.join(targets) + ' (coqc 8.16.1, full .vo) + coqc on generated cases'
    if not ok:
        m = re.search(r'File "([^"]+)", line (\d+)', out)
        ctx.broken_tie(f'coq build: {m.group(1) if m else "?"}', out)
        ctx.coverage['obligations'] += 1
        return False
    for f in prop_files:
        harvest_assumptions(ctx, f)
    return True


def parse_bools(out):
    return [t == 'true' for t in re.findall(r'\b(true|false)\b', out)]


def coq_eval_shards(ctx, name, header, case_terms, check_expr, shard=400, timeout=900):
    """Evaluate `check_expr` (a Coq function : case -> bool) on every case term, in shards, in parallel.
    Returns list of bool (None when the shard failed to compile)."""
    shards = [case_terms[i:i + shard] for i in range(0, len(case_terms), shard)]

    def one(idx_cs):
        idx, cs = idx_cs
        path = ctx.scratch / f'{name}_{idx}.v'
        body = header + '\nDefinition cases := [\n' + ';\n'.join(cs) + '\n].\n' + \
            f'Eval vm_compute in (map ({check_expr}) cases).\n'
        path.write_text(body)
        rc, out = coqc_file(path, timeout)
        if rc != 0:
            return [None] * len(cs), out or f'coqc rc={rc} with no output (timeout after {timeout}s?) on {path.name}'
        bs = parse_bools(out)
        if len(bs) != len(cs):
            return [None] * len(cs), out or f'coqc printed {len(bs)} results for {len(cs)} cases on {path.name}'
        return bs, ''

    res = []
    errs = []
    with ThreadPoolExecutor(max_workers=NCPU) as ex:
        for bs, err in ex.map(one, list(enumerate(shards))):
            res += bs
            if err:
                errs.append(err)
    if errs:
        ctx.broken_tie(f'coq evaluation of {name}', errs[0])
    return res


def coq_eval_term(ctx, name, header, term, timeout=300):
    path = ctx.scratch / f'{name}.v'
    path.write_text(header + f'\nEval vm_compute in ({term}).\n')
    rc, out = coqc_file(path, timeout)
    return rc, re.sub(r'\s+', ' ', out).strip()


# ---- running the implementation ---------------------------------------------------------------

def run_worker(ctx, module, payload, extra_env=None, timeout=1800):
    """run `python -m fjverif.workers.<module>` against REPO; JSON in (file) -> JSON out (file)."""
    inp = ctx.scratch / f'{module}_{time.time_ns()}.in.json'
    outp = Path(str(inp).replace('.in.json', '.out.json'))
    inp.write_text(json.dumps(payload))
    p = subprocess.run(['timeout', str(timeout), PY, '-m', f'fjverif.workers.{module}', str(inp), str(outp)],
                       env=env_for_repo(extra_env), stdout=subprocess.PIPE, stderr=subprocess.STDOUT, text=True,
                       cwd=str(ctx.scratch))
    if p.returncode != 0 or not outp.exists():
        raise RuntimeError(f'worker {module} failed rc={p.returncode}:\n{p.stdout[-4000:]}')
    r = json.loads(outp.read_text())
    inp.unlink()
    outp.unlink()
    return r


def run_workers_parallel(ctx, module, payloads, extra_env=None, timeout=1800):
    with ThreadPoolExecutor(max_workers=NCPU) as ex:
        return list(ex.map(lambda pl: run_worker(ctx, module, pl, extra_env, timeout), payloads))


def build_fjcore(ctx, sanitize=False):
    """compile REPO's _fjcore.c into the scratch directory; returns the .so path"""
    src = REPO / 'flipjump' / 'interpreter' / '_fjcore.c'
    inc = subprocess.run([PY, '-c', "import sysconfig;print(sysconfig.get_paths()['include'])"],
                         stdout=subprocess.PIPE, text=True).stdout.strip()
    so = ctx.scratch / ('_fjcore_asan.so' if sanitize else '_fjcore.so')
    if sanitize:
        cmd = ['clang', '-O1', '-g', '-fsanitize=address,undefined', '-fno-sanitize-recover=undefined',
               '-fno-omit-frame-pointer', '-shared', '-fPIC', f'-I{inc}', str(src), '-o', str(so)]
    else:
        cmd = ['gcc', '-O2', '-shared', '-fPIC', f'-I{inc}', str(src), '-o', str(so)]
    p = subprocess.run(cmd, stdout=subprocess.PIPE, stderr=subprocess.STDOUT, text=True)
    if p.returncode != 0:
        raise RuntimeError('cannot compile _fjcore.c:\n' + p.stdout[-3000:])
    return so


ASAN_RT = '/usr/lib/llvm-14/lib/clang/14.0.6/lib/linux/libclang_rt.asan-x86_64.so'


def nlit(x):
    return str(int(x))


def nlist(xs):
    return '[' + ';'.join(str(int(x)) for x in xs) + ']'


def npairs(ps):
    return '[' + ';'.join(f'({int(a)},{int(b)})' for a, b in ps) + ']'
