"""T-gen for the loader part of Model/Fjm.v: translate the CURRENT source of Reader._init_memory and
Reader._validate_segments (flipjump/fjm/fjm_reader.py) into the Python-subset IR of coq/Model/PyIR.v and write
coq/Gen/Facts_Loader.v; coq/Tie/Loader_tie.v proves that PyIR.exec on these terms computes Fjm.validate_segments /
Fjm.init_memory for every segment table and data pool.

Same fail-closed translator as gen_facts_engpy / gen_facts_devices, extended by:
  L1  in a Reader method `self.memory` is the memory dict (`self.memory = {}` is SMemClear, `self.memory[k] = v` SMemSet);
      every other `self.<name>` is an attribute of the object (EField / SFieldSet), as in rule D1.
  L2  `self.<f>.append(e)` is SFieldAppend, accepted only when every other occurrence of `self.<f>` in the function is the
      assignment of `[]` (the list is owned by the attribute: copying instead of sharing cannot be observed), and e makes no call.
  L3  `for <targets> in <iterable>` with name / tuple targets; `range(..)` with 1-3 arguments, `zip(a, b)`,
      `sorted(<generator>)`, a generator / list comprehension with one `for` and no `if`.
  L4  `x in (c1, c2, ..)` with x a name / attribute and c_i constants is `x == c1 or x == c2 ..`.
  L5  `FJMVersion.<member>` and `_reserved_dict_threshold` (imported from fjm_consts) are their integer values there.
  L6  `MemorySegment(a, b)` is the pair (a, b) (a dataclass with exactly the fields segment_start, segment_length).
  L7  `raise FlipJumpReadFjmException(<message>)` is SRaiseExn (XLib tag): tag = the diagnostic class of the message, decided by
      its leading literal text (table MESSAGES below; an unknown text fails closed).
  L8  an f-string may format sums / differences / products of local ints and len(<local>).
  L9  a `@staticmethod` has no self; it is called as `self.<name>(..)`."""
import ast
from pathlib import Path

from .gen_facts_engpy import GenError, stub, CMPOPS  # noqa: F401
from .gen_facts_devices import DevFn

PATH = 'flipjump/fjm/fjm_reader.py'
FUNCS = {'_init_memory': 'F_init_memory', '_validate_segments': 'F_validate_segments'}
# leading literal text of the message -> diagnostic class (1 segment table, 2 odd data length, 3 data pool)
MESSAGES = [('Bad .fjm file: segment data-length must be even', 2),
            ('Bad .fjm file: segment data range', 3),
            ('Bad .fjm file: segment [', 1),
            ('Bad .fjm file: segment data-length ', 1),
            ('Bad .fjm file: overlapping segments', 1)]


class LoaderFn(DevFn):
    self_role = 'device'

    cls_name, path = 'Reader', PATH

    def __init__(self, tr, node, coq_name, static):
        self.cls = self.cls_name
        self.static = static
        # DevFn.__init__ assumes a method; a staticmethod has no self
        from .gen_facts_engpy import Fn
        Fn.__init__(self, tr, self.path, node, coq_name, not static, kwonly_ok=False)
        self.appended = set()

    def is_memory(self, node):
        return isinstance(node, ast.Attribute) and node.attr == 'memory' and self.ref(node.value) == ('obj', 'device')

    def is_field(self, node):
        return super().is_field(node) and node.attr != 'memory'

    def pure(self, e):
        """no call inside (L2)"""
        return not any(isinstance(n, ast.Call) and not self.is_memseg(n) for n in ast.walk(e))

    def is_memseg(self, e):
        return isinstance(e, ast.Call) and isinstance(e.func, ast.Name) and e.func.id == 'MemorySegment' and \
            'MemorySegment' not in self.vars

    def target(self, t):
        if isinstance(t, ast.Name):
            return f'PVar {self.var(t.id)}'
        if isinstance(t, ast.Tuple):
            return 'PTuple [' + '; '.join(self.target(x) for x in t.elts) + ']'
        self.err(t, 'loop target outside the subset')

    def comprehension(self, e):
        if len(e.generators) != 1:
            self.err(e, 'comprehension with more than one `for`')
        g = e.generators[0]
        if g.ifs or g.is_async:
            self.err(e, 'comprehension with a condition')
        it = self.expr(g.iter)
        pat = self.target(g.target)
        return f'EListComp ({self.expr(e.elt)}) ({pat}) ({it})'

    # ---- expressions ----------------------------------------------------------------------------
    def expr(self, e):
        if isinstance(e, ast.BinOp) and isinstance(e.op, ast.Mod):
            return f'EBin Mod ({self.expr(e.left)}) ({self.expr(e.right)})'
        if isinstance(e, ast.List) and not e.elts and isinstance(e.ctx, ast.Load):
            return 'ENil'
        if isinstance(e, (ast.GeneratorExp, ast.ListComp)):
            return self.comprehension(e)
        if isinstance(e, ast.Name) and e.id == '_reserved_dict_threshold' and e.id not in self.vars and \
                e.id in self.tr.imported[self.cls].get('flipjump.fjm.fjm_consts', ()):
            return f'EInt {self.tr.threshold}'
        if isinstance(e, ast.Attribute) and isinstance(e.value, ast.Name) and e.value.id == 'FJMVersion' and \
                'FJMVersion' not in self.vars and 'FJMVersion' in self.tr.imported[self.cls].get('flipjump.fjm.fjm_consts', ()):
            if e.attr not in self.tr.versions:
                self.err(e, 'unknown FJMVersion member')
            return f'EInt {self.tr.versions[e.attr]}'
        if self.is_memory(e):
            self.err(e, 'the memory dict is used as a value')
        return super().expr(e)

    def compare(self, e):
        if len(e.ops) == 1 and isinstance(e.ops[0], ast.In) and isinstance(e.comparators[0], ast.Tuple):     # L4
            x, elts = e.left, e.comparators[0].elts
            if not (isinstance(x, ast.Name) or self.is_field(x)) or not elts:
                self.err(e, '`in` with a left side that is not a name / attribute')
            tests = []
            for c in elts:
                ce = self.expr(c)
                if not ce.startswith('EInt '):
                    self.err(e, '`in` over something else than integer constants')
                tests.append(f'ECmp Eq ({self.expr(x)}) ({ce})')
            out = tests[-1]
            for t in reversed(tests[:-1]):
                out = f'EOr ({t}) ({out})'
            return out
        return super().compare(e)

    def call(self, e):
        f = e.func
        if isinstance(f, ast.Name) and f.id not in self.vars and not e.keywords:
            if f.id == 'range' and 1 <= len(e.args) <= 3:
                a = [self.expr(x) for x in e.args]
                lo, hi, st = ('EInt 0', a[0], 'EInt 1') if len(a) == 1 else (a[0], a[1], 'EInt 1') if len(a) == 2 else a
                return f'ERange ({lo}) ({hi}) ({st})'
            if f.id == 'zip' and len(e.args) == 2:
                return f'EZip ({self.expr(e.args[0])}) ({self.expr(e.args[1])})'
            if f.id == 'sorted' and len(e.args) == 1:
                return f'ESorted ({self.expr(e.args[0])})'
            if self.is_memseg(e):      # L6
                if len(e.args) != 2 or self.tr.memseg_fields != ['segment_start', 'segment_length']:
                    self.err(e, 'MemorySegment is not the two-field dataclass (segment_start, segment_length)')
                return f'EPair ({self.expr(e.args[0])}) ({self.expr(e.args[1])})'
        if isinstance(f, ast.Attribute) and self.ref(f.value) == ('obj', 'device') and f.attr in FUNCS and not e.keywords:
            if not self.tr.static[f.attr]:
                self.err(e, 'call of a Reader method that is not a staticmethod')
            if len(e.args) != self.tr.arity[f.attr] or len(e.args) > 3:
                self.err(e, 'wrong number of arguments')
            return f'ECall{len(e.args)} {FUNCS[f.attr]}' + ''.join(f' ({self.expr(a)})' for a in e.args)
        return super().call(e)

    def fstring_reads(self, e):      # L8
        reads = []

        def walk(v):
            if isinstance(v, ast.Name) and v.id in self.vars:
                reads.append(self.var(v.id))
            elif isinstance(v, ast.Constant) and isinstance(v.value, int):
                pass
            elif isinstance(v, ast.BinOp) and isinstance(v.op, (ast.Add, ast.Sub, ast.Mult)):
                walk(v.left)
                walk(v.right)
            elif isinstance(v, ast.Call) and isinstance(v.func, ast.Name) and v.func.id == 'len' and 'len' not in self.vars \
                    and len(v.args) == 1 and not v.keywords and isinstance(v.args[0], ast.Name) and v.args[0].id in self.vars:
                reads.append(self.var(v.args[0].id))
            else:
                self.err(e, 'f-string formats something else than integer arithmetic on locals')
        for part in e.values:
            if isinstance(part, ast.Constant) and isinstance(part.value, str):
                continue
            if not isinstance(part, ast.FormattedValue) or part.format_spec is not None or part.conversion != -1:
                self.err(e, 'f-string part outside the subset')
            walk(part.value)
        return reads

    # ---- statements -----------------------------------------------------------------------------
    def stmt(self, s, ind):
        sub = ind + 2
        if isinstance(s, ast.Assign) and len(s.targets) == 1 and self.is_memory(s.targets[0]):
            if isinstance(s.value, ast.Dict) and not s.value.keys:
                return 'SMemClear'
            self.err(s, 'the memory dict is assigned something else than {}')
        if isinstance(s, ast.Assign) and len(s.targets) == 1 and isinstance(s.targets[0], ast.Subscript) and \
                self.is_memory(s.targets[0].value):
            return f'SMemSet ({self.expr(s.targets[0].slice)}) ({self.expr(s.value)})'
        if isinstance(s, ast.AnnAssign) and self.is_field(s.target) and s.value is not None:
            return f'SFieldSet {self.field(s.target.attr)} ({self.expr(s.value)})'
        if isinstance(s, ast.Expr) and isinstance(s.value, ast.Call) and isinstance(s.value.func, ast.Attribute) and \
                s.value.func.attr == 'append' and self.is_field(s.value.func.value):      # L2
            c = s.value
            fld = c.func.value.attr
            if len(c.args) != 1 or c.keywords or not self.pure(c.args[0]):
                self.err(s, 'append with something else than one call-free argument')
            self.appended.add(fld)
            return f'SFieldAppend {self.field(fld)} ({self.expr(c.args[0])})'
        if isinstance(s, ast.For):
            if s.orelse:
                self.err(s, 'for/else')
            for n in ast.walk(s):
                if isinstance(n, (ast.Break, ast.Continue)):
                    self.err(n, 'break / continue')
            it = self.expr(s.iter)
            pat = self.target(s.target)
            return f'SFor ({pat}) ({it})\n{" " * sub}({self.block(s.body, sub)})'
        if isinstance(s, ast.Raise):
            x = s.exc
            if s.cause is None and isinstance(x, ast.Call) and isinstance(x.func, ast.Name) and \
                    x.func.id == 'FlipJumpReadFjmException' and len(x.args) == 1 and not x.keywords and \
                    x.func.id in self.tr.imported[self.cls].get('flipjump.utils.exceptions', ()):
                m = x.args[0]
                head = m.value if isinstance(m, ast.Constant) else m.values[0].value if isinstance(m, ast.JoinedStr) and m.values \
                    and isinstance(m.values[0], ast.Constant) else None
                if not isinstance(head, str):
                    self.err(s, 'message without a leading literal text')
                for prefix, tag in MESSAGES:
                    if head.startswith(prefix):
                        return f'SRaiseExn (XLib {tag}) ({self.expr(m)})'
                self.err(s, 'library error with a message outside the table MESSAGES (rule L7)')
            self.err(s, 'raise outside the subset')
        return super().stmt(s, ind)

    def check_appended(self):
        """L2: an appended attribute is otherwise only assigned [] in this function"""
        for n in ast.walk(self.node):
            if isinstance(n, ast.Attribute) and self.is_field(n) and n.attr in self.appended:
                ok = False
                for p in ast.walk(self.node):
                    if isinstance(p, (ast.Assign, ast.AnnAssign)):
                        tg = p.targets[0] if isinstance(p, ast.Assign) and len(p.targets) == 1 else getattr(p, 'target', None)
                        if tg is n and isinstance(p.value, ast.List) and not p.value.elts:
                            ok = True
                    if isinstance(p, ast.Call) and isinstance(p.func, ast.Attribute) and p.func.attr == 'append' and p.func.value is n:
                        ok = True
                if not ok:
                    self.err(n, f'attribute {n.attr} is appended to and also used otherwise (rule L2)')


class Translator:
    def __init__(self, repo):
        self.repo = Path(repo)
        self.fields = {'Reader': {}}
        self.short = {'Reader': 'reader'}
        tree = ast.parse((self.repo / PATH).read_text(), filename=PATH)
        imp = {}
        for n in tree.body:
            if isinstance(n, ast.ImportFrom) and n.level == 0:
                imp.setdefault(n.module, set()).update(a.name for a in n.names if a.asname is None)
        self.imported = {'Reader': imp}
        consts = ast.parse((self.repo / 'flipjump/fjm/fjm_consts.py').read_text())
        thr = [n.value.value for n in consts.body if isinstance(n, ast.Assign) and len(n.targets) == 1 and
               isinstance(n.targets[0], ast.Name) and n.targets[0].id == '_reserved_dict_threshold' and
               isinstance(n.value, ast.Constant) and isinstance(n.value.value, int)]
        if len(thr) != 1:
            raise GenError('fjm_consts.py: _reserved_dict_threshold is not one integer constant')
        self.threshold = thr[0]
        ver = [n for n in consts.body if isinstance(n, ast.ClassDef) and n.name == 'FJMVersion']
        if len(ver) != 1:
            raise GenError('fjm_consts.py: class FJMVersion not found')
        self.versions = {t.targets[0].id: t.value.value for t in ver[0].body if isinstance(t, ast.Assign) and
                         len(t.targets) == 1 and isinstance(t.targets[0], ast.Name) and isinstance(t.value, ast.Constant) and
                         isinstance(t.value.value, int)}
        ms = [n for n in tree.body if isinstance(n, ast.ClassDef) and n.name == 'MemorySegment']
        self.memseg_fields = [b.target.id for b in ms[0].body if isinstance(b, ast.AnnAssign) and isinstance(b.target, ast.Name)] \
            if len(ms) == 1 and [ast.unparse(d) for d in ms[0].decorator_list] == ['dataclasses.dataclass'] else None
        rd = [n for n in tree.body if isinstance(n, ast.ClassDef) and n.name == 'Reader']
        if len(rd) != 1 or rd[0].decorator_list:
            raise GenError(f'{PATH}: expected exactly one undecorated class Reader')
        if any(isinstance(n, ast.FunctionDef) and n.name in ('__getattr__', '__getattribute__', '__setattr__') for n in rd[0].body):
            raise GenError(f'{PATH}: class Reader customises attribute access')
        self.defs, self.static, self.arity = {}, {}, {}
        for name in FUNCS:
            hits = [n for n in rd[0].body if isinstance(n, ast.FunctionDef) and n.name == name]
            if len(hits) != 1:
                raise GenError(f'{PATH}: expected exactly one Reader.{name}')
            decos = [ast.unparse(d) for d in hits[0].decorator_list]
            if decos not in ([], ['staticmethod']):
                raise GenError(f'{PATH}:{hits[0].lineno}: Reader.{name} has decorators {decos}')
            self.defs[name] = hits[0]
            self.static[name] = decos == ['staticmethod']
            self.arity[name] = len(hits[0].args.args) - (0 if self.static[name] else 1)

    def signature(self, coq):
        raise GenError(f'unexpected call of {coq}')

    def generate(self):
        out, table = [], []
        for name, coq in FUNCS.items():
            node = self.defs[name]
            short = coq[2:]
            fn = LoaderFn(self, node, short, self.static[name])
            body = fn.block(node.body, 2)
            fn.check_appended()
            dropped = [d for d in fn.dropped if d[2] != 'docstring']
            if dropped:
                raise GenError(f'statements without IR in Reader.{name}: {dropped}')
            chunk = [f'Notation v_{short}_{n} := ({i}%positive) (only parsing).' for n, i in fn.vars.items()]
            chunk.append(f'(* {PATH}:{node.lineno}  def Reader.{name}{"  (staticmethod)" if self.static[name] else ""} *)')
            chunk.append(f'Definition src_{short} : stmt :=\n  {body}.')
            params = '; '.join(f'v_{short}_{n}' for n, role in fn.params if role is None)
            table.append(f'  | {coq} => Some ([{params}], src_{short})')
            out.append('\n'.join(chunk))
        head = ['(* generated from the current source by harness/fjverif/gen_facts_loader.py - do not edit.',
                '   IR of coq/Model/PyIR.v; f_reader_<attribute> are attributes of the Reader object, v_<function>_<name> the locals. *)',
                'From FJ Require Import Lib.Base Model.PyIR.', 'Local Open Scope N_scope.', '']
        for n, i in self.fields['Reader'].items():
            head.append(f'Notation f_reader_{n} := ({i}%positive) (only parsing).')
        text = '\n'.join(head) + '\n\n' + '\n\n'.join(out) + '\n\n'
        text += 'Definition loader_program : program := fun f =>\n  match f with\n' + '\n'.join(table) + '\n  | _ => None\n  end.\n'
        text += f'Definition src_reserved_dict_threshold : N := {self.threshold}.\n'
        return text


def generate(repo):
    try:
        return Translator(repo).generate()
    except (OSError, SyntaxError, KeyError) as e:
        raise GenError(f'source unreadable: {e!r}')


def write(repo=None):
    from . import framework as fw
    fw.write_if_changed(fw.COQ / 'Gen' / 'Facts_Loader.v', generate(repo or fw.REPO))
    return True


if __name__ == '__main__':
    import sys
    print(generate(sys.argv[1] if len(sys.argv) > 1 else '/repo'))
