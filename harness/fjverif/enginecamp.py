"""Engine correspondence: run generated images on the real engines and compare with MachineSpec in Coq."""
import json

from . import framework as fw

HEADER = 'From FJ Require Import Lib.Base Spec.MachineSpec Model.RunCase.\nLocal Open Scope N_scope.\n'
WATCHDOG_FUEL = 100000


def case_words(case):
    ws = []
    for s, l, data in case['segs']:
        for i, v in enumerate(data):
            if v:
                ws.append((s + i, v))
    return ws


def coq_case(case, res, with_last=True, with_mem=True, fuel=None):
    ww = case['w'].bit_length() - 1
    segs = [(s, l) for s, l, _ in case['segs']]
    inp = list(bytes.fromhex(case.get('input', '')))
    timed_out = res.get('cause') == 6
    if fuel is None:
        fuel = WATCHDOG_FUEL if timed_out else res['ops'] + 2
    cause = res['cause']
    fault = res.get('fault') or 0
    last = 'None'
    if with_last and case.get('last_ops') is not None and res.get('last_ops') is not None:
        last = f'Some ({case["last_ops"]}, {fw.nlist(res["last_ops"])})'
    mem = '[]'
    if with_mem and res.get('mem'):
        mem = fw.npairs(sorted((int(a), v) for a, v in res['mem'].items()))
    outn, outb, outv = res['out']
    if timed_out or outb is None:
        outn, outb, outv = 0, [], 0          # only "does not halt within the fuel" is compared
    eng = {'featured': 0, 'fast': 1, 'native': 2}[case['engine']]
    dlen = [len(d) for _, _, d in case['segs']]
    return (f'mkcase {eng} {ww} {fw.npairs(segs)} {fw.nlist(dlen)} {fw.npairs(case_words(case))} {fw.nlist(inp)} {fuel} '
            f'{cause} {0 if timed_out else res["ops"]} {fault} {outn} {fw.nlist(outb)} {outv} ({last}) {mem}')


def run_engines(ctx, cases, so, batch=None, extra_env=None):
    """cases: list of case dicts (each with its 'engine' and knobs). returns list of results"""
    n = len(cases)
    batch = batch or max(1, (n + fw.NCPU * 2 - 1) // (fw.NCPU * 2))
    chunks = [cases[i:i + batch] for i in range(0, n, batch)]
    env = {'FJVERIF_FJCORE_SO': str(so)} if so else {}
    if extra_env:
        env.update(extra_env)
    outs = fw.run_workers_parallel(ctx, 'engine', chunks, extra_env=env)
    res = []
    for o in outs:
        res += o
    return res


def compare_with_machine(ctx, name, cases, results, what='engine vs machine definition'):
    """evaluates check_case on all (case,result); reports violations; returns number of disagreements"""
    terms, idx = [], []
    bad = 0
    for i, (c, r) in enumerate(zip(cases, results)):
        if 'exc' in r:
            bad += 1
            ctx.violation({'kind': 'engine-exception', 'engine': c['engine'], 'exc': r['exc'].split(':')[0]},
                          f'{c["engine"]} engine raised {r["exc"]} on a loadable image',
                          {'case': c, 'observed': r, 'how': 'python -m fjverif.replay C01 <this file>'})
            continue
        terms.append(coq_case(c, r))
        idx.append(i)
    oks = fw.coq_eval_shards(ctx, name, HEADER, terms, 'check_case', shard=300)
    for k, ok in zip(idx, oks):
        if ok is None:
            continue
        if not ok:
            bad += 1
            c, r = cases[k], results[k]
            rc, model = fw.coq_eval_term(ctx, f'{name}_diag{k}', HEADER, f'observe ({coq_case(c, r)})')
            sig = {'kind': 'engine-differs', 'engine': c['engine'], 'w': c['w'],
                   'loop': r.get('storage'), 'obs_cause': r.get('cause')}
            sig.update(classify(c, r))
            sig['machine_fault_at_2_64'] = 'o_fault := 18446744073709551616' in model
            ctx.violation(sig, f'{what}: {c["engine"]} engine (w={c["w"]}) observed cause={r.get("cause")} '
                          f'ops={r.get("ops")} fault={r.get("fault")} out={r.get("out")}; machine definition gives {model[-300:]}',
                          {'case': c, 'observed': r, 'machine_definition': model,
                           'how': 'PYTHONPATH=/repo:/verif/harness /venv/bin/python -m fjverif.replay <this file>'})
    return bad


def classify(case, res):
    """features used to match known findings"""
    w = case['w']
    ww = w.bit_length() - 1
    top = any(s + l == (1 << (w - ww)) for s, l, _ in case['segs'])
    return {'top_of_address_space': top}


def replay(ctx, path):
    """re-run one recorded engine case against the current REPO and compare with the machine definition"""
    d = json.loads(open(path).read())
    case = d['replay']['case']
    so = fw.build_fjcore(ctx) if case['engine'] == 'native' else None
    res = run_engines(ctx, [case], so)[0]
    print('case    :', {k: case.get(k) for k in ('w', 'engine', 'no_flat', 'flat_max_words', 'measure', 'last_ops', 'input')})
    print('segments:', [(s, l, len(dd)) for s, l, dd in case['segs']])
    print('observed:', {k: res.get(k) for k in ('cause', 'ops', 'fault', 'out', 'last_ops', 'storage', 'exc')})
    if 'exc' in res:
        print('REPLAY: the engine raised; the property requires a termination cause')
        return 1
    rc, model = fw.coq_eval_term(ctx, 'replay_obs', HEADER, f'observe ({coq_case(case, res)})')
    print('required (machine definition):', model[-600:])
    ok = fw.coq_eval_shards(ctx, 'replay', HEADER, [coq_case(case, res)], 'check_case')
    print('REPLAY:', 'agrees with the machine definition' if ok == [True] else 'STILL DIFFERS')
    return 0 if ok == [True] else 1
