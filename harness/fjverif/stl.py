"""Shared machinery for the standard-library properties (C04 hex, C05 bit; meant to be reused by C08/C09).

WHAT IT DOES (theorems by kernel computation on images regenerated from the current source on every run)

 1. A *macro table* (stl_specs.HEX / stl_specs.BIT: plain data, see the docstring there) is expanded into BLOCKS:
    one block per (macro, parameters) and, for the composition harness, per ordered pair of macros over shared
    variables.  A block is the harness fragment

        b<k>:     <macro call(s)>                 ; exit 0 = fall through
        b<k>_l0:  stl.loop
        b<k>_x1:  stl.output_char '1'             ; one marker byte per label parameter (branching macros)
        b<k>_l1:  stl.loop            ...
        b<k>_c0:  hex.hex 0xA                     ; non-zero canaries around every variable
        b<k>_v0:  hex.vec n           ...

    Composition: `pair` blocks call two macros of the composition class one after the other on shared variables (spec =
    seq_spec); `rerun` blocks send the fall-through exit back to the block entry once (harness flag b<k>_rf), so the SAME
    code instance runs twice and its second pass starts from the temporaries/carry/table state the first one left.

 2. Blocks are packed into IMAGES per (namespace, w).  Every block is first assembled alone (worker stl_asm, the
    CURRENT assembler + stl of fw.REPO): this isolates an assembly failure to its macro and measures sizes; then the
    images are assembled and read back with the real Reader.  Label addresses come from the debug-label file.
    (w = 16: one image per block; a block that does not fit the 2^16-bit address space is recorded as such.)

 3. Every block is run on the REAL engines (worker stl_run: fast + rebuilt native, a few on featured) on sampled
    operands.  Operands are written through the public device hook; afterwards EVERY word of the memory is compared
    with `image patched with the Python spec's result` modulo the scratch masks (the frame equation on the real
    engine).  Reported as tests.  The op counts measured here size the Coq evaluation budget and the sharding.
    Sample-only blocks (never theorems): the `sample` instances of the table (n = 4, 8, 16 ...), the `deep` instances
    (enumerable but over the thorough budget; enumerated only with FJVERIF_STL_DEEP=1) and the SIZE SWEEP: every macro
    with a `sweep` function is instantiated at sizes drawn from the whole range 1..Config.sweep_max (see stl_specs.
    SIZE_CRITICAL) - this is what notices a loop counter that is wrong only for some sizes.

 4. coq/Gen/Img_<image>.v (image + block descriptors), coq/Gen/StlP_<image>_<j>.v (pieces: `forallb check_block
    (enum_dom ranges) = true` by vm_compute, lifted with StlProps.blocks_by_enumeration), coq/Gen/StlT_<image>.v
    (per block: `Theorem T_<block> : forall vs, in_dom <ranges> vs -> block_correct ww segs img b<k> <spec> vs`, assembled
    from the pieces with dom_split_at, + `Print Assumptions`) and coq/Gen/StlTie_<image>.v (mirror check of the
    Python specs against StlSpec.v and op-count equality machine-vs-engine on the sampled operands) are generated
    and compiled by parallel coqc processes.  Operands are patched INTO the image by StlSpec.start_mem, the run
    starts at op 0 whose jump word is redirected to the block (exactly what the real-engine worker does).
    <image> = <prop>p<pid>_w<w>_<i>: concurrent runs cannot clobber each other; the files are removed at exit (kept with
    FJVERIF_KEEP_GEN=1) and leftovers of dead processes are removed by the next run.

 5. A piece that does not compile is searched for its first failing operands (Coq `find`), the model's observation is
    printed, and the operand is CONFIRMED ON THE REAL ENGINE before it is reported: engine violates the spec ->
    ctx.violation with a replay (stand-alone .fj program with literal operands + expected values); engine satisfies
    the spec -> broken tie (machine model and engine disagree on this program).

HOW TO REUSE (C08/C09): write a macro table (same entry format; `vars` may mix 'hex'/'bit' kinds, `temps` names the
macro's own scratch variables, extra global scratch such as the pointer cells goes into Config.extra_scratch as
label -> (ops, mask)), add the specs to StlSpec.v + stl_specs.SPECS, and call run_property(ctx, Config(...)).
ADDED FOR C08 (builder of C08, backwards compatible): block_text and resolve_block first look for the methods
`ptr_text` / `ptr_resolve` on the block object (stl_ptr.PBlock defines them; plain Blocks are unaffected).  Everything
else of C08 (explicit-list domains, pointer-cell consistency clause, its own run_property) lives in stl_ptr.py.
Input/output macros (C09) live in stl_io.py / StlIO*.v (its builder): check_block here runs with an empty input.
Development aids: FJVERIF_STL_ONLY=<regex on table names>, FJVERIF_STL_DRY=1 (cost table only), FJVERIF_KEEP_GEN=1.
"""
import atexit
import dataclasses
import itertools
import os
import json
import math
import re
import time
from concurrent.futures import ThreadPoolExecutor
from dataclasses import dataclass, field
from pathlib import Path

from . import framework as fw
from . import stl_specs as SP

GEN = fw.COQ / 'Gen'
HDR = 'From FJ Require Import Lib.Base Spec.MachineSpec Spec.StlSpec Model.StlRun Proofs.StlProps'
PIECE_STEPS = 900_000          # target machine steps per generated piece file (about 25-40 s of vm_compute)
IMG_EXTRA_WORDS = 22_000       # blocks packed into one image up to this many words beyond the start-up code


@dataclass
class Config:
    prop: str
    ns: str                     # 'hex' | 'bit'
    table: list
    widths: dict                # tier -> [w]
    startup: str                # first line of every harness program
    seq_n: int                  # vector size used by the composition harness
    seq_pairs_quick: int
    extra_scratch: dict = field(default_factory=dict)
    quick_n2_fraction: float = 0.10
    quick_n2: dict = field(default_factory=dict)     # parameter dict of the seed-chosen larger quick instance
    quick_n2_cases: int = 40_000
    reruns_quick: int = 8
    rerun_n: int = 1                # default size of the rerun blocks (entries may override with `rerun`)
    sweep_max: int = 16             # size sweep 1..sweep_max (digits of the namespace)
    sweep_max_quadratic: int = 16   # ... for macros whose code size grows with n^2
    sweep_extra: int = 0            # two more seed-chosen sizes in sweep_max+1..sweep_extra for the linear macros


@dataclass
class Block:
    bid: str                    # identifier (Coq/label safe)
    title: str
    macro: str                  # table entry name(s)
    calls: list                 # call templates; {a}.. variables, {x1}.. exits
    vars: list                  # [(placeholder, kind, digits)]
    exits: int
    spec: str                   # Coq term of type bspec == python-evaluable instance
    dom: list                   # [(lo, hi)] per variable
    temps: list                 # [(local label, ops)]
    params: dict
    kind: str = 'single'        # single | pair | sample
    rerun: object = False       # truthy: the block executes its macro code TWICE; value = harness lines run between the passes
    sample_dom: list = None     # ranges used to draw real-engine samples (default: dom)
    guard: str = ''             # Coq/python predicate instance of a known defect (theorem is stated for `guarded`)
    witnesses: list = field(default_factory=list)
    w: int = 64
    # filled after assembly / sampling
    k: int = -1
    image: str = ''
    addr: dict = field(default_factory=dict)
    ops: int = 0
    words: int = 0
    est_words: int = 0
    asm_error: str = ''

    def ncases(self):
        return math.prod(hi - lo for lo, hi in self.dom)


# ---------------------------------------------------------------------------------------------------------
# python side of seq_spec / at_vars

def py_spec(spec):
    """evaluate a spec term: 'name args' | ('seq', [(idx, 'name args'), ...])"""
    if isinstance(spec, str):
        return SP.spec_fn(spec)
    parts = [(idx, SP.spec_fn(s)) for idx, s in spec[1]]

    def f(vs):
        vs = list(vs)
        for j, (idx, g) in enumerate(parts):
            r = g([vs[i] for i in idx])
            if r is None:
                return None
            out, x = r
            for i, v in zip(idx, out):
                vs[i] = v
            if x != 0:
                return (vs, x) if j == len(parts) - 1 else None
        return vs, 0
    return f


def coq_spec(spec):
    if isinstance(spec, str):
        return f'({spec})'
    terms = ['(at_vars [' + ';'.join(f'{i}%nat' for i in idx) + f'] ({s}))' for idx, s in spec[1]]
    t = terms[-1]
    for u in reversed(terms[:-1]):
        t = f'(seq_spec {u} {t})'
    return t


def thm_spec(b):
    """the spec the theorem of block b is stated for: guarded by the known-defect predicate when there is one"""
    return f'(guarded ({b.guard}) {coq_spec(b.spec)})' if b.guard else coq_spec(b.spec)


def spec_text(spec):
    return spec if isinstance(spec, str) else ' ; '.join(f'{s} on vars {idx}' for idx, s in spec[1])


# ---------------------------------------------------------------------------------------------------------
# table -> blocks

def _ident(s):
    return re.sub(r'[^A-Za-z0-9]+', '_', s).strip('_')


def _bits(kind):
    return 4 if kind == 'hex' else 1


def make_block(entry, params, w, kind='single'):
    p = {k: v for k, v in params.items() if k not in ('w', 'pin')}   # 'w' restricts widths, 'pin' pins outputs
    vars_ = [(ph, kd, int(eval(str(ex), {}, dict(p)))) for ph, kd, ex in entry['vars']]
    domo = SP.pinned_domain(entry, params, vars_)
    dom = []
    for ph, kd, n in vars_:
        dom.append(tuple(domo[ph]) if ph in domo else (0, 1 << (_bits(kd) * n)))
    temps = [(nm, int(eval(str(ex), {}, dict(p)))) for nm, ex in entry['temps']]
    tag = '_'.join(f'{k}{v}' for k, v in p.items())
    bid = _ident(f"{entry['name']}_{tag}" + ('_pin' if params.get('pin') else ''))
    title = f"{entry['name']} " + ' '.join(f'{k}={v}' for k, v in p.items()) + (' (outputs pinned)' if domo else '')
    return Block(bid=bid, title=title.strip(), macro=entry['name'], calls=[entry['call'].format_map(_Keep(p))],
                 vars=vars_, exits=entry['exits'], spec=entry['spec'].format(**p), dom=dom, temps=temps,
                 params=dict(p), kind=kind, w=w, guard=entry['guard'].format(**p) if entry.get('guard') else '',
                 witnesses=entry['witness'](p) if entry.get('witness') else [])


class _Keep(dict):
    def __missing__(self, key):
        return '{' + key + '}'


def make_pair(cfg, e1, e2, w):
    n = cfg.seq_n
    names = ['x', 'y', 'z']
    used = [nm for nm in names if ('{' + nm + '}') in e1['seq'] + e2['seq']]
    idx = {nm: i for i, nm in enumerate(used)}
    kind = cfg.ns
    vars_ = [(nm, kind, n) for nm in used]

    def part(e):
        order = [ph for ph, _, _ in e['vars']]
        # the seq template names which shared variable plays each of the macro's variables, in call order
        seq_vars = re.findall(r'\{([xyz])\}', e['seq'])
        call_vars = re.findall(r'\{([a-z]\w*)\}', e['call'].replace('{n}', ''))
        call_vars = [c for c in call_vars if c in order]
        m = dict(zip(call_vars, seq_vars))
        return [idx[m[ph]] for ph in order], e['spec'].format(n=n)
    spec = ('seq', [part(e1), part(e2)])
    temps = []
    for e in (e1, e2):
        for nm, ex in e['temps']:
            t = (nm, int(eval(str(ex), {}, {'n': n})))
            if t not in temps:
                temps.append(t)
    bid = _ident(f"seq_{e1['name']}_then_{e2['name']}_n{n}")
    calls = [e1['seq'].format_map(_Keep({'n': n})), e2['seq'].format_map(_Keep({'n': n}))]
    full = 1 << (_bits(kind) * n)
    # the third shared variable (res of mul/min/max/add_mul) starts from one garbage value: keeps the pair at full*full cases
    dom = [(0, full) if nm != 'z' else ((0xB & (full - 1)), (0xB & (full - 1)) + 1) for nm in used]
    return Block(bid=bid, title=f"{e1['name']} ; {e2['name']}  (n={n}, shared variables)", macro=f"{e1['name']};{e2['name']}",
                 calls=calls, vars=vars_, exits=0, spec=spec, dom=dom, temps=temps,
                 params={'n': n}, kind='pair', w=w)


RERUN_PATTERNS = [0x6, 0xB, 0xD, 0x3, 0xE, 0x5]


def make_rerun(entry, params, w, dom=None):
    """the same macro CODE INSTANCE executed twice: a harness flag sends the fall-through exit back to the block entry once,
    and in between every operand variable v_i is xor-ed with a delta variable d_i (ns.xor, a macro with its own theorems),
    so the second pass runs on DIFFERENT operands and starts from the temporaries / carry / table state the first pass
    left.  spec = S ; (v_i ^= d_i) ; S.  In the theorems the deltas are pinned to fixed non-zero patterns (the operand
    domain stays the macro's own); the real-engine samples draw them at random."""
    b = make_block(entry, params, w)
    k = len(b.vars)
    phs = [ph for ph, _, _ in b.vars]
    for ph, r in (dom or {}).items():
        b.dom[phs.index(ph)] = tuple(r)
    base_spec = b.spec
    idx = list(range(k))
    parts = [(idx, base_spec)]
    lines = []
    sdom = list(b.dom)
    for i, (ph, kind, n) in enumerate(list(b.vars)):
        full = 1 << (_bits(kind) * n)
        pat = 0
        for j in range(n if kind == 'hex' else (n + 3) // 4):
            pat |= RERUN_PATTERNS[(i + j) % len(RERUN_PATTERNS)] << (4 * j)
        pat = (pat % full) or 1
        b.vars.append((f'dl{i}', kind, n))
        b.dom.append((pat, pat + 1))
        sdom.append((0, full))
        parts.append(([i, k + i], f'{kind}_xor {n}'))
        lines.append(f'{kind}.xor {n}, {{{ph}}}, {{dl{i}}}')
    parts.append((idx, base_spec))
    b.spec = ('seq', parts)
    b.sample_dom = sdom
    b.bid = 'rerun_' + b.bid
    b.title = 'twice (same code instance, operands changed in between): ' + b.title
    b.kind = 'pair'
    b.macro = f'{entry["name"]};{entry["name"]}'
    b.rerun = lines
    b.witnesses = []
    return b


def rerun_instances(cfg, entry, tier):
    """[(params, domain override)] of the rerun blocks of a table entry"""
    if entry.get('rerun'):
        return entry['rerun'][tier]
    qs = entry['inst']['quick']
    if not qs:
        return []
    p = dict(min(qs, key=lambda q: (not q.get('pin'), q.get('n', 1))))
    p.pop('w', None)
    if set(p) - {'pin'} == {'n'}:
        p['n'] = cfg.rerun_n
    if len(entry['vars']) >= 4 and entry['pin']:
        p['pin'] = 1
    return [(p, {})]


def plan_blocks(ctx, cfg):
    """returns (theorem blocks, sample-only blocks)"""
    tier = ctx.tier
    widths = cfg.widths[tier]
    thm, smp = [], []
    boosted = []
    if tier == 'quick':
        cands = [e for e in cfg.table if any(p.get('n') == cfg.quick_n2['n'] and not p.get('pin') for p in e['inst']['thorough'])
                 and not any(p.get('n') == cfg.quick_n2['n'] for p in e['inst']['quick'])]
        k = max(1, round(len(cfg.table) * cfg.quick_n2_fraction))
        ctx.rng.shuffle(cands)
        budget = cfg.quick_n2_cases          # the seed-chosen larger instances are limited by their total number of cases
        for e in cands:
            p = [p for p in e['inst']['thorough'] if p.get('n') == cfg.quick_n2['n'] and not p.get('pin')][0]
            nc = make_block(e, p, widths[0]).ncases() * (4 if e['temps'] else 1)
            if len(boosted) < k and nc <= budget:
                boosted.append(e)
                budget -= nc
    for e in cfg.table:
        insts = list(e['inst'][tier])
        if e in boosted:
            insts += [dict(p, w=None) for p in e['inst']['thorough'] if p.get('n') == cfg.quick_n2['n'] and not p.get('pin')][:1]
        for p in insts:
            for w in (p.get('w') or widths):
                if w in widths:
                    thm.append(make_block(e, p, w))
        for p in e['inst'].get('deep', []):
            if tier == 'thorough':
                if os.environ.get('FJVERIF_STL_DEEP') == '1':
                    thm.append(make_block(e, p, widths[0]))
                else:
                    smp.append(make_block(e, p, widths[0], kind='deep-sample'))
        for p in e['inst']['sample']:
            smp.append(make_block(e, p, widths[0], kind='sample'))
        if e.get('sweep'):
            # size sweep (tests on the real engines): the whole size range for size-critical macros / in thorough
            top = cfg.sweep_max
            if re.search(SP.QUADRATIC, e['name']):
                top = min(top, cfg.sweep_max_quadratic)
            crit = re.search(SP.SIZE_CRITICAL, e['name']) is not None
            sizes = list(range(1, top + 1)) if (crit or tier == 'thorough') else sorted(ctx.rng.sample(range(1, top + 1), 4))
            if cfg.sweep_extra and not re.search(SP.QUADRATIC, e['name']):
                sizes += sorted(ctx.rng.sample(range(top + 1, cfg.sweep_extra + 1), 2))
            have = {b.bid for b in smp}
            for n in sizes:
                b = make_block(e, e['sweep'](n, ctx.rng), widths[0], kind='sweep')
                if b.bid not in have:
                    have.add(b.bid)
                    smp.append(b)
    seqs = [e for e in cfg.table if e['seq']]
    pairs = [(a, b) for a in seqs for b in seqs]
    if tier == 'quick':
        pairs = ctx.rng.sample(pairs, min(cfg.seq_pairs_quick, len(pairs)))
    for a, b in pairs:
        thm.append(make_pair(cfg, a, b, widths[0]))
    if tier == 'thorough':
        for w in widths[1:]:
            for a, b in ctx.rng.sample(pairs, max(1, len(pairs) // 10)):
                thm.append(make_pair(cfg, a, b, w))
    # the same code instance run twice (operands changed in between): EVERY macro that declares private temporaries, in both
    # tiers; the temp-less macros of the composition class: all in thorough, a seed-chosen handful in quick
    with_temps = [e for e in cfg.table if e['temps']]
    others = [e for e in cfg.table if e['seq'] and not e['temps']]
    if tier == 'quick':
        others = ctx.rng.sample(others, min(cfg.reruns_quick, len(others)))
    for e in with_temps + others:
        for p, dom in rerun_instances(cfg, e, tier):
            thm.append(make_rerun(e, p, widths[0], dom))
    return thm, smp, [e['name'] for e in boosted]


# ---------------------------------------------------------------------------------------------------------
# harness program text

def block_text(b, k, literal=None):
    """harness fragment of block b under label prefix b<k>; literal = operand values written as literals (replay)"""
    if hasattr(b, 'ptr_text'):          # C08 hooks (stl_ptr.PBlock): the block writes its own harness fragment
        return b.ptr_text(k, literal)
    pre = f'b{k}'
    env = {ph: f'{pre}_v{i}' for i, (ph, _, _) in enumerate(b.vars)}
    env.update({f'x{i}': f'{pre}_x{i}' for i in range(1, b.exits + 1)})
    lines = [f'{pre}:']
    for c in b.calls:
        lines.append('    ' + c.format_map(_Keep(env)))
    if b.rerun:
        lines += [f'    bit.if {pre}_rf, {pre}_ra, {pre}_l0', f'{pre}_ra:', f'    bit.not {pre}_rf']
        lines += ['    ' + ln.format_map(_Keep(env)) for ln in (b.rerun if isinstance(b.rerun, list) else [])]
        lines.append(f'    ;{pre}')
    lines.append(f'{pre}_l0: stl.loop')
    for i in range(1, b.exits + 1):
        lines.append(f'{pre}_x{i}: stl.output_char {0x30 + i}')
        lines.append(f'{pre}_l{i}: stl.loop')
    for i, (ph, kind, n) in enumerate(b.vars):
        can = ('hex.hex 0xA' if i % 2 == 0 else 'hex.hex 0x5') if kind == 'hex' else 'bit.bit 1'
        lines.append(f'{pre}_c{i}: {can}')
        val = f', {literal[i]}' if literal is not None else ''
        lines.append(f'{pre}_v{i}: {kind}.vec {n}{val}')
    last = b.vars[-1][1] if b.vars else 'hex'
    lines.append(f'{pre}_cz: ' + ('hex.hex 0xC' if last == 'hex' else 'bit.bit 1'))
    if b.rerun:
        lines.append(f'{pre}_rf: bit.bit 0')
    return '\n'.join(lines) + '\n'


def program_text(cfg, blocks, literal=None, direct=False):
    """direct: the stand-alone replay form - the program runs the (single) block right after the start-up"""
    out = [cfg.startup]
    if not direct:
        out.append('stl.loop')
    for k, b in enumerate(blocks):
        out.append(block_text(b, k, literal))
    return '\n'.join(out) + '\n'


# ---------------------------------------------------------------------------------------------------------
# assembly

def _asm_jobs(ctx, jobs):
    if not jobs:
        return []
    nchunk = min(fw.NCPU, len(jobs))
    chunks = [jobs[i::nchunk] for i in range(nchunk)]
    outs = fw.run_workers_parallel(ctx, 'stl_asm', [{'jobs': c} for c in chunks])
    byname = {}
    for o in outs:
        for r in o:
            byname[r['name']] = r
    return [byname[j['name']] for j in jobs]


def resolve_block(b, k, res, w, extra_scratch):
    """fills b.addr from the label table of the image the block was assembled in"""
    if hasattr(b, 'ptr_resolve'):       # C08 hooks (stl_ptr.PBlock): variables at arbitrary labels, address-valued operands
        return b.ptr_resolve(k, res, w, extra_scratch)
    L = res['labels']
    pre = f'b{k}'
    ww = w.bit_length() - 1
    entry = L[pre]
    l0 = L[f'{pre}_l0']
    exits = [(l0, [])] + [(L[f'{pre}_l{i}'], [0x30 + i]) for i in range(1, b.exits + 1)]
    vars_ = [(_bits(kind), (L[f'{pre}_v{i}'] >> ww) + 1, n) for i, (_, kind, n) in enumerate(b.vars)]
    allm = (1 << w) - 1
    # word 0 bit 0: target of every no-op flip; word 2 bits 0-1: the output port; word 1 (jump word of op 0) data nibble:
    # the stl's "null variable" - hex.shl_bit/shr_bit discard the shifted-out bit by flipping <address 0>+dbit+{0,3}
    scratch = {0: 1, 2: 3, 1: 0xF << (ww + 1)}
    tsz = dict(b.temps)
    found = {}
    for nm, a in res['locals']:
        if nm in tsz and entry <= a < l0:
            found[nm] = found.get(nm, 0) + 1
            for j in range(tsz[nm]):
                scratch[(a >> ww) + 1 + 2 * j] = allm
    if b.rerun:
        scratch[(L[f'{pre}_rf'] >> ww) + 1] = allm          # the harness' own "second pass" flag
    for lbl, (nops, mask) in extra_scratch.items():
        if lbl in L:
            for j in range(nops):
                wa = (L[lbl] >> ww) + 1 + 2 * j
                scratch[wa] = scratch.get(wa, 0) | (mask if mask else allm)
    b.addr = {'entry': entry, 'exits': exits, 'vars': vars_, 'scratch': scratch, 'temps_found': found,
              'end': L.get(f'{pre}_cz', l0)}
    b.k = k


_SIZE_HINT = {}     # macro -> (size parameter, words) measured by the individual assemblies of this run


def _size_param(b):
    return max([v for k, v in b.params.items() if k in ('n', 'dn', 'fn', 'nb')] or [1])


def assemble_blocks(ctx, cfg, blocks, tag, presize=True):
    """individual assembly (sizes + isolation of failures), packing into images, image assembly.
    returns list of images: {'name','w','blocks','res'} ; blocks that do not assemble get b.asm_error"""
    d = str(ctx.scratch / 'asm')
    temps = sorted({nm for b in blocks for nm, _ in b.temps})
    # base sizes
    ws = sorted({b.w for b in blocks})
    jobs = [{'name': f'{tag}_base_w{w}', 'fj': cfg.startup + '\nstl.loop\n', 'w': w, 'dir': d, 'temps': [], 'want_words': False}
            for w in ws]
    singles = {}
    for b in blocks:
        if not presize and b.w != 16:
            continue
        if b.kind != 'pair' and (b.w == ws[-1] or b.w == 16):      # sizes are measured at the largest width (and at 16: tight space)
            key = (b.bid, b.w)
            singles[key] = b
            jobs.append({'name': f'{tag}_one_{b.bid}_w{b.w}', 'fj': program_text(cfg, [b]), 'w': b.w, 'dir': d,
                         'temps': temps, 'want_words': False})
    res = _asm_jobs(ctx, jobs)
    base = {}
    byname = {r['name']: r for r in res}
    for w in ws:
        r = byname[f'{tag}_base_w{w}']
        if not r['ok']:
            raise RuntimeError(f'the start-up program does not assemble at w={w}: {r.get("error")}')
        base[w] = r['nwords']
    size_of_macro = {}
    for (bid, w), b in singles.items():
        r = byname[f'{tag}_one_{bid}_w{w}']
        if not r['ok']:
            b.asm_error = r.get('error', '?')
            if w == 16 and 'memory-width' in b.asm_error:
                b.asm_error = 'NOFIT: ' + b.asm_error[:300]       # the block does not fit into the 2^16-bit address space
        else:
            b.words = r['nwords'] - base[w]
            size_of_macro.setdefault(b.macro, b.words)
            if b.macro not in _SIZE_HINT or _size_param(b) > _SIZE_HINT[b.macro][0]:
                _SIZE_HINT[b.macro] = (_size_param(b), b.words)
    size_of_bid = {bid: b.words for (bid, w), b in singles.items() if w == ws[-1]}
    for b in blocks:
        if b.kind == 'pair':
            m1, m2 = b.macro.split(';')
            b.words = 40 + sum(size_of_macro.get(m, 400) for m in (m1, m2))
        elif (b.bid, b.w) not in singles:
            if b.macro in _SIZE_HINT:
                n0, w0 = _SIZE_HINT[b.macro]
                b.est_words = int(w0 * (_size_param(b) / n0) ** (2 if re.search(SP.QUADRATIC, b.macro) else 1)) + 50
            b.words = size_of_bid.get(b.bid, b.est_words or 2000)
            twin = singles.get((b.bid, ws[-1]))
            if twin is not None and twin.asm_error:
                b.asm_error = twin.asm_error
    # packing
    images = []
    for w in ws:
        cap = IMG_EXTRA_WORDS if w > 16 else 0
        cur, cur_words = [], 0
        todo = [b for b in blocks if b.w == w and not b.asm_error]
        # w=16: the whole address space is 4096 words - one block per image
        for b in todo:
            if cur and (cur_words + b.words > cap):
                images.append({'w': w, 'blocks': cur})
                cur, cur_words = [], 0
            cur.append(b)
            cur_words += b.words
        if cur:
            images.append({'w': w, 'blocks': cur})
    jobs = []
    for i, im in enumerate(images):
        im['name'] = f'{tag}_w{im["w"]}_{i}'
        jobs.append({'name': im['name'], 'fj': program_text(cfg, im['blocks']), 'w': im['w'], 'dir': d, 'temps': temps,
                     'want_words': True})
    res = _asm_jobs(ctx, jobs)
    good = []
    retry = []
    for im, r in zip(images, res):
        im['res'] = r
        if not r['ok']:
            if len(im['blocks']) > 1 and not im.get('retry'):
                retry.append(im)
            else:
                for b in im['blocks']:
                    b.asm_error = 'image assembly failed: ' + r.get('error', '?')
            continue
        for k, b in enumerate(im['blocks']):
            resolve_block(b, k, r, im['w'], cfg.extra_scratch)
            b.image = im['name']
        good.append(im)
    if retry:
        # an image that does not assemble as a whole: one image per block isolates the offending macro
        singles_imgs = [{'w': im['w'], 'blocks': [b], 'retry': True, 'name': f'{im["name"]}r{j}'}
                        for im in retry for j, b in enumerate(im['blocks'])]
        jobs = [{'name': im['name'], 'fj': program_text(cfg, im['blocks']), 'w': im['w'], 'dir': d, 'temps': temps, 'want_words': True}
                for im in singles_imgs]
        for im, r in zip(singles_imgs, _asm_jobs(ctx, jobs)):
            im['res'] = r
            if not r['ok']:
                im['blocks'][0].asm_error = r.get('error', '?')
                continue
            resolve_block(im['blocks'][0], 0, r, im['w'], cfg.extra_scratch)
            im['blocks'][0].image = im['name']
            good.append(im)
    return good


# ---------------------------------------------------------------------------------------------------------
# operands, expected memory, real-engine runs

def var_patch(var, value, ww):
    bits, jw, n = var
    return [[jw + 2 * i, ((value >> (bits * i)) & ((1 << bits) - 1)) << (ww + 1)] for i in range(n)]


def patches(b, values, ww):
    out = [[1, b.addr['entry']]]
    for var, v in zip(b.addr['vars'], values):
        out += var_patch(var, v, ww)
    return out


def sample_operands(rng, b, count):
    """edge values of every variable first (all combinations when few), then random ones"""
    dom = b.sample_dom or b.dom
    edges = []
    for lo, hi in dom:
        span = hi - lo
        e = {lo, hi - 1, lo + span // 2, lo + (span // 2 - 1 if span > 1 else 0), lo + min(1, span - 1)}
        if span > 16:
            e |= {lo + 10 % span, lo + span - 2, lo + (0x5a5a5a5a5a5a5a5a5a % span), lo + (span >> 4), lo + (span >> 4) - 1,
                  lo + 16 % span, lo + (span >> 8)}
        edges.append(sorted(e))
    combos = list(itertools.islice(itertools.product(*edges), 4096))
    rng.shuffle(combos)
    out = []
    seen = set()
    for c in combos[:max(1, count // 2)]:
        if c not in seen:
            seen.add(c)
            out.append(list(c))
    tries = 0
    while len(out) < count and tries < 10 * count:
        tries += 1
        c = tuple(rng.randrange(lo, hi) for lo, hi in dom)
        if c not in seen:
            seen.add(c)
            out.append(list(c))
    return out


def engine_case(b, values, ww, pyf, cid, watchdog=30.0):
    exp = pyf(values)
    case = {'id': cid, 'patch': patches(b, values, ww), 'scratch': [[a, a + 1, m] for a, m in b.addr['scratch'].items()],
            'watchdog': watchdog, 'read': [jw + 2 * i for _, jw, n in b.addr['vars'] for i in range(n)]}
    if exp is not None:
        case['expect'] = patches(b, exp[0], ww)
    else:
        case['expect'] = case['patch']
    return case, exp


def observed_values(b, r, w):
    """variable values decoded from the words read back (None when a word is not of the form digit*dw)"""
    rd = r.get('read')
    if not rd:
        return None
    ww = w.bit_length() - 1
    out = []
    for bits, jw, n in b.addr['vars']:
        v = 0
        for i in range(n):
            x = rd.get(str(jw + 2 * i), 0)
            if x & ((1 << (ww + 1)) - 1) or (x >> (ww + 1)) >= (1 << bits):
                v = None
                break
            v |= (x >> (ww + 1)) << (bits * i)
        out.append(v)
    return out


def judge(b, exp, r):
    """does the real-engine observation r satisfy the spec result exp? returns None (ok) or a description"""
    if exp is None:
        return None
    if 'exc' in r:
        return f'engine: {r["exc"]}'
    if r['cause'] != 0:
        return f'terminated with cause {r["cause"]} (fault {r.get("fault")}) instead of reaching the block end'
    want = b.addr['exits'][exp[1]][1] if exp[1] < len(b.addr['exits']) else None
    if want is None or r['out'] != want or r['out_bits'] != 8 * len(want):
        return f'took a different exit: printed {r["out"]} ({r["out_bits"]} bits), documented exit {exp[1]} prints {want}'
    if r['ndiffs']:
        return (f'variables afterwards {observed_values(b, r, b.w)} (documented {exp[0]}); {r["ndiffs"]} memory word(s) differ from '
                f'image+spec, first (word, got, want): {r["diffs"][:4]}')
    return None


def run_engines(ctx, so, jobs):
    """jobs: [{'fjm','w','engine','cases'}] -> list of result lists"""
    if not jobs:
        return []
    # split big jobs so that all cores are used
    flat = []
    for ji, j in enumerate(jobs):
        cs = j['cases']
        step = max(1, min(len(cs), 24))
        for s in range(0, len(cs), step):
            flat.append((ji, s, dict(j, cases=cs[s:s + step])))
    nchunk = min(fw.NCPU, len(flat))
    chunks = [flat[i::nchunk] for i in range(nchunk)]
    outs = fw.run_workers_parallel(ctx, 'stl_run', [{'jobs': [f[2] for f in c]} for c in chunks],
                                   extra_env={'FJVERIF_FJCORE_SO': str(so)})
    results = [[None] * len(j['cases']) for j in jobs]
    for c, o in zip(chunks, outs):
        for (ji, s, _), rs in zip(c, o):
            for t, r in enumerate(rs):
                results[ji][s + t] = r
    return results


# ---------------------------------------------------------------------------------------------------------
# Coq generation

def coq_block_def(b, depth):
    a = b.addr
    vars_ = '; '.join(f'mkvar {bits} {jw} {n}' for bits, jw, n in a['vars'])
    exits = '; '.join(f'({ad}, {fw.nlist(mk)})' for ad, mk in a['exits'])
    scr = fw.npairs(sorted(a['scratch'].items()))
    return (f'(* {b.title} | spec: {spec_text(b.spec)} *)\n'
            f'Definition b{b.k} : block := Eval vm_compute in\n'
            f'  mkblock {a["entry"]} [{vars_}] [{exits}] (mem_of_list {scr}) {depth}.\n')


def depth_for(ops):
    return max(6, math.ceil(math.log2(4 * max(ops, 1) + 64)))


def emit_image(im):
    r = im['res']
    ww = im['w'].bit_length() - 1
    segs = fw.npairs(r['segs'])
    words = '; '.join(f'({s}, {fw.nlist(ws)})' for s, ws in r['words'])
    txt = [f'(* GENERATED by harness/fjverif/stl.py from {fw.REPO} - image {im["name"]}, w = {im["w"]}. Do not edit. *)',
           'From FJ Require Import Lib.Base Spec.MachineSpec Spec.StlSpec Model.StlRun.', 'Local Open Scope N_scope.',
           f'Definition ww : N := {ww}.', f'Definition segs : list (N * N) := {segs}.',
           f'Definition img : mem := Eval vm_compute in mem_of_segs [{words}].']
    for b in im['blocks']:
        txt.append(coq_block_def(b, depth_for(b.ops)))
    path = GEN / f'Img_{im["name"]}.v'
    path.write_text('\n'.join(txt) + '\n')
    return path


def split_domain(b):
    """cut the block's domain into pieces of about PIECE_STEPS machine steps along its widest operand.
    returns (position, [(lo, hi)...])"""
    cost = b.ncases() * (b.ops + 30)
    pos = max(range(len(b.dom)), key=lambda i: b.dom[i][1] - b.dom[i][0]) if b.dom else 0
    if not b.dom:
        return 0, [None]
    lo, hi = b.dom[pos]
    npieces = max(1, min(hi - lo, math.ceil(cost / PIECE_STEPS)))
    cuts = [lo + (hi - lo) * i // npieces for i in range(npieces + 1)]
    return pos, [(cuts[i], cuts[i + 1]) for i in range(npieces) if cuts[i] < cuts[i + 1]]


def dom_term(dom):
    return fw.npairs(dom)


def plan_pieces(im):
    """units: (block, pos, piece range, ranges, cost); bundled into files of about PIECE_STEPS"""
    units = []
    for b in im['blocks']:
        pos, pieces = split_domain(b)
        b.pieces = []
        for j, pr in enumerate(pieces):
            ranges = list(b.dom)
            if pr is not None:
                ranges[pos] = pr
            ncases = math.prod(h - l for l, h in ranges)
            u = {'b': b, 'pos': pos, 'j': j, 'ranges': ranges, 'cost': ncases * (b.ops + 30), 'ncases': ncases}
            b.pieces.append(u)
            units.append(u)
    units.sort(key=lambda u: -u['cost'])
    files, cur, cur_cost = [], [], 0
    for u in units:
        if cur and cur_cost + u['cost'] > PIECE_STEPS:
            files.append(cur)
            cur, cur_cost = [], 0
        cur.append(u)
        cur_cost += u['cost']
    if cur:
        files.append(cur)
    return files


def emit_piece_file(im, idx, units):
    name = f'StlP_{im["name"]}_{idx}'
    txt = [f'(* GENERATED - pieces of image {im["name"]} *)', f'{HDR} Gen.Img_{im["name"]}.', 'Local Open Scope N_scope.']
    for u in units:
        b = u['b']
        u['file'] = name
        u['thm'] = f'p_{b.bid}_{u["j"]}'
        S = thm_spec(b)
        rs = dom_term(u['ranges'])
        txt.append(f'Lemma c_{b.bid}_{u["j"]} : forallb (check_block ww segs img b{b.k} {S}) (enum_dom {rs}) = true.')
        txt.append('Proof. vm_cast_no_check (eq_refl true). Qed.')
        txt.append(f'Theorem {u["thm"]} : forall vs, in_dom {rs} vs -> block_correct ww segs img b{b.k} {S} vs.')
        txt.append(f'Proof. exact (blocks_by_enumeration _ _ _ _ _ _ c_{b.bid}_{u["j"]}). Qed.')
    path = GEN / f'{name}.v'
    path.write_text('\n'.join(txt) + '\n')
    return path


def theorem_name(b):
    return f'T_{b.bid}_w{b.w}'


def emit_master(im, ok_blocks):
    files = sorted({u['file'] for b in ok_blocks for u in b.pieces})
    name = f'StlT_{im["name"]}'
    txt = [f'(* GENERATED - instance theorems of image {im["name"]} (w = {im["w"]}) *)',
           f'{HDR} Gen.Img_{im["name"]}' + ''.join(f' Gen.{f}' for f in files) + '.', 'Local Open Scope N_scope.']
    for b in ok_blocks:
        S = thm_spec(b)
        P = f'block_correct ww segs img b{b.k} {S}'
        pos = b.pieces[0]['pos']
        pre = dom_term(b.dom[:pos])
        post = dom_term(b.dom[pos + 1:])

        def build(us):
            if len(us) == 1:
                return f'{us[0]["file"]}.{us[0]["thm"]}'
            h = len(us) // 2
            lo, mid, hi = us[0]['ranges'][pos][0], us[h]['ranges'][pos][0], us[-1]['ranges'][pos][1]
            return f'(dom_split_at {pre} (fun vs => {P} vs) {lo} {mid} {hi} {post} {build(us[:h])} {build(us[h:])})'
        tn = theorem_name(b)
        txt.append(f'(* {b.title} *)')
        txt.append(f'Theorem {tn} : forall vs, in_dom {dom_term(b.dom)} vs -> {P} vs.')
        txt.append(f'Proof. exact {build(b.pieces)}. Qed.')
        if 1 <= len(b.dom) <= 4 and all(lo == 0 for lo, _ in b.dom):
            vs = ['a', 'b', 'c', 'd'][:len(b.dom)]
            hyps = ' -> '.join(f'{v} < {hi}' for v, (_, hi) in zip(vs, b.dom))
            txt.append(f'Corollary {tn}_forall : forall {" ".join(vs)}, {hyps} -> {P} [{"; ".join(vs)}].')
            txt.append(f'Proof. intros. apply {tn}. apply in_dom{len(vs)}; assumption. Qed.')
        txt.append(f'Print Assumptions {tn}.')
        for i, wv in enumerate(b.witnesses):
            # the unguarded documented formula is false on the witness (the known defect still reproduces on this image)
            txt.append(f'Example {tn}_refuted_{i} : check_block ww segs img b{b.k} {coq_spec(b.spec)} {fw.nlist(wv)} = false.')
            txt.append('Proof. vm_cast_no_check (eq_refl false). Qed.')
    path = GEN / f'{name}.v'
    path.write_text('\n'.join(txt) + '\n')
    return path


def emit_tie(im, samples):
    """samples: {bid: [(values, python spec result, engine ops)]}"""
    name = f'StlTie_{im["name"]}'
    txt = [f'(* GENERATED - mirror check and op-count tie of image {im["name"]} *)', f'{HDR} Gen.Img_{im["name"]}.',
           'Local Open Scope N_scope.']
    order = []
    for b in im['blocks']:
        ss = samples.get(b.bid, [])
        if not ss:
            continue
        order.append(b)
        S = coq_spec(b.spec)
        cases = '; '.join(
            f'({fw.nlist(v)}, ' + ('None' if e is None else f'Some ({fw.nlist(e[0])}, {e[1]})') + ')' for v, e, _ in ss)
        txt.append(f'Eval vm_compute in (forallb (fun c => res_eqb ({S} (fst c)) (snd c)) [{cases}], '
                   f'map (fun c => block_ops ww segs img b{b.k} (fst c)) [{cases}]).')
    path = GEN / f'{name}.v'
    path.write_text('\n'.join(txt) + '\n')
    return path, order


def coqc_many(paths, timeout):
    """compile files in parallel; returns {path: (rc, out, seconds)}"""
    def one(p):
        t = time.time()
        rc, out = fw.coqc_file(p, timeout)
        return p, (rc, out, time.time() - t)
    with ThreadPoolExecutor(max_workers=fw.NCPU) as ex:
        return dict(ex.map(one, paths))


def gen_prefixes(tag):
    return [f'{k}_{tag}_' for k in ('Img', 'StlP', 'StlT', 'StlTie', 'StlD')] + [f'{k}_{tag}s_' for k in ('Img',)]


def clean_gen(prefixes):
    for p in GEN.iterdir():
        if any(p.name.startswith(x) for x in prefixes) and p.name != '.keep':
            try:
                p.unlink()
            except OSError:
                pass


def clean_stale_gen():
    """remove generated stl files left behind by runs whose process no longer exists"""
    for p in GEN.iterdir():
        m = re.match(r'\.?(Img|StlP|StlT|StlTie|StlD)_C\d\dp(\d+)s?_', p.name)
        if m and not Path(f'/proc/{m.group(2)}').exists():
            try:
                p.unlink()
            except OSError:
                pass


# ---------------------------------------------------------------------------------------------------------
# documentation lines of the current source

def doc_of(entry):
    """the comment block above `def <sig>` in the current stl source; None when the signature is gone"""
    path = fw.REPO / 'flipjump' / 'stl' / entry['file']
    try:
        lines = path.read_text().splitlines()
    except OSError:
        return None
    pat = re.compile(r'^\s*' + re.escape(entry['sig']) + r'(\s|@|<|>|\{|\\|$)')
    for i, l in enumerate(lines):
        if pat.match(l):
            j = i - 1
            doc = []
            while j >= 0 and lines[j].strip().startswith('//'):
                doc.append(lines[j].strip())
                j -= 1
            doc.reverse()
            formula = [d for d in doc if re.match(r'//\s{3,}\S', d)]
            return {'formula_lines': formula or doc[-2:], 'at': f'{entry["file"]}:{i + 1}'}
    return None


# ---------------------------------------------------------------------------------------------------------
# the property run

class DistinctCount:
    """stand-in for Ctx._distinct: enumerated operand tuples are distinct by construction, so they are counted, not hashed"""

    def __init__(self):
        self.bulk = 0
        self.s = set()

    def add(self, h):
        self.s.add(h)

    def __len__(self):
        return self.bulk + len(self.s)


def standalone_program(cfg, b, values):
    return program_text(cfg, [b], literal=values, direct=True)


def report_failure(ctx, cfg, b, values, exp, model_obs, engine_obs, verdicts, origin):
    ww = b.w.bit_length() - 1
    defect = None
    if b.guard and SP.guard_fn(b.guard)(values):
        defect = b.guard.split()[0]
    sig = {'kind': 'stl-spec', 'macro': b.macro, 'defect': defect}
    what = (f'{b.title} (w={b.w}) on operands {values}: documented result {spec_text(b.spec)} = '
            f'{None if exp is None else exp[0]} exit {None if exp is None else exp[1]}; real engine: {verdicts}')
    replay = {'block': b.title, 'macro': b.macro, 'w': b.w, 'operands': values, 'spec': b.spec, 'params': b.params,
              'expected_values': None if exp is None else exp[0], 'expected_exit': None if exp is None else exp[1],
              'variables': [f'{kind}.vec {n}' for _, kind, n in b.vars],
              'model_observation': model_obs, 'engine_observation': engine_obs, 'found_by': origin,
              'fj_program': standalone_program(cfg, b, values), 'startup': cfg.startup, 'ns': cfg.ns,
              'block_def': {'calls': b.calls, 'vars': b.vars, 'exits': b.exits, 'temps': b.temps, 'dom': b.dom, 'bid': b.bid, 'rerun': b.rerun},
              'how': f'./check {ctx.prop} --replay <this file>   (assembles fj_program with the current repo, runs it on the real engine, '
                     'compares the variables with expected_values)'}
    ctx.violation(sig, what, replay)


def run_property(ctx, cfg):
    t_start = time.time()
    only = os.environ.get('FJVERIF_STL_ONLY')      # development aid: regex on macro-table names
    if only:
        cfg = dataclasses.replace(cfg, table=[e for e in cfg.table if re.search(only, e['name'])])
    prop = ctx.prop
    fw.static_proofs(ctx, [f'Properties/{prop}.v'])
    # generated files carry the pid of this run in their names: concurrent runs of the same check cannot clobber each other
    tag = f'{prop}p{os.getpid()}'
    clean_stale_gen()
    atexit.register(clean_gen, gen_prefixes(tag))
    dc = DistinctCount()
    ctx._distinct = dc
    cov = ctx.coverage
    so = fw.build_fjcore(ctx)

    # ---- documentation of the current source
    docs = {}
    for e in cfg.table:
        d = doc_of(e)
        if d is None:
            ctx.broken_tie(f'macro signature `{e["sig"]}` not found in {e["file"]}',
                           f'the macro table of {prop} names `{e["sig"]}` ({e["name"]}); the current source has no such definition')
            continue
        docs[e['name']] = {'doc': d['formula_lines'], 'at': d['at'], 'spec': e['spec'], 'note': e['note']}
    cov['documented_macros'] = docs

    # ---- blocks and images
    thm_blocks, smp_blocks, boosted = plan_blocks(ctx, cfg)
    try:
        images = assemble_blocks(ctx, cfg, thm_blocks, tag)
        smp_images = assemble_blocks(ctx, cfg, smp_blocks, tag + 's', presize=False)
    except RuntimeError as e:
        # not even `<startup> ; stl.loop` assembles: nothing can be regenerated, every instance theorem is void
        ctx.broken_tie(f'{prop}: the harness start-up program does not assemble with the current assembler/stl', str(e))
        cov['obligations'] += len(thm_blocks)
        return
    nofit = []
    for b in thm_blocks + smp_blocks:
        if b.asm_error.startswith('NOFIT'):
            nofit.append(f'{b.title} w={b.w}')
        elif b.asm_error:
            ctx.broken_tie(f'assembly of harness block {b.title} (w={b.w})', b.asm_error)
    cov['does_not_fit_in_address_space'] = nofit
    t_asm = time.time()

    # ---- real engines on sampled operands (tests; also measures op counts)
    nsamp = {'single': ctx.n(6, 10), 'pair': ctx.n(4, 4), 'sample': ctx.n(8, 24), 'deep-sample': 400, 'sweep': ctx.n(5, 8)}
    jobs, meta = [], []
    for im in images + smp_images:
        ww = im['w'].bit_length() - 1
        for b in im['blocks']:
            pyf = py_spec(b.spec)
            vals = sample_operands(ctx.rng, b, nsamp[b.kind])
            vals += [list(wv) for wv in b.witnesses if list(wv) not in vals]
            engines = ('fast', 'native') + (('featured',) if b.kind == 'sample' or (ctx.tier == 'thorough' and b.kind == 'single') else ())
            for eng in engines:
                vv = vals if eng == 'native' else vals[:2] if eng == 'featured' else vals[:max(3, len(vals) // 2)]
                cases, exps = [], []
                for i, v in enumerate(vv):
                    c, e = engine_case(b, v, ww, pyf, i)
                    cases.append(c)
                    exps.append(e)
                jobs.append({'fjm': im['res']['fjm'], 'w': im['w'], 'engine': eng, 'cases': cases})
                meta.append((im, b, eng, vv, exps))
    results = run_engines(ctx, so, jobs)
    tie_samples = {}
    engine_runs = 0
    engine_fail = 0
    for (im, b, eng, vv, exps), rs in zip(meta, results):
        for v, e, r in zip(vv, exps, rs):
            engine_runs += 1
            ctx.coverage['evaluations'] += 1
            dc.add((b.bid, b.w, eng, tuple(v)))
            ctx.hist('engine_runs', eng)
            if 'ops' in r:
                b.ops = max(b.ops, r['ops'])
            bad = judge(b, e, r)
            if bad:
                engine_fail += 1
                report_failure(ctx, cfg, b, v, e, None, {k: r.get(k) for k in ('cause', 'ops', 'out', 'out_bits', 'diffs', 'exc')},
                               f'{eng}: {bad}', f'sampled operands on the real {eng} engine')
            elif eng == 'fast' and b.kind in ('single', 'pair'):
                tie_samples.setdefault((im['name'], b.bid), []).append((v, e, r['ops']))
        if b.kind in ('sample', 'deep-sample'):
            ctx.hist('sampled_only_blocks', f'{b.title} w={b.w}', len(vv))
    for (im, b, eng, vv, exps), rs in list(zip(meta, results))[:2]:
        ctx.sample({'kind': 'real-engine run', 'block': b.title, 'w': b.w, 'engine': eng, 'operands': vv[0],
                    'spec_result': exps[0], 'observed': {k: rs[0].get(k) for k in ('cause', 'ops', 'out', 'ndiffs')}})
    t_eng = time.time()

    if os.environ.get('FJVERIF_STL_DRY'):          # development aid: cost table only
        rows = sorted(((b.ncases() * (b.ops + 30), b.title, b.w, b.ncases(), b.ops) for im in images for b in im['blocks']), reverse=True)
        print('estimated machine steps:', sum(r[0] for r in rows), 'blocks:', len(rows), 'images:', len(images),
              'image words:', sum(im['res']['nwords'] for im in images))
        for r in rows[:60]:
            print(r)
        return

    # ---- Coq: images, pieces, masters, ties
    img_paths = {im['name']: emit_image(im) for im in images}
    rimg = coqc_many(list(img_paths.values()), 900)
    live = []
    for im in images:
        rc, out, _ = rimg[img_paths[im['name']]]
        if rc != 0:
            ctx.broken_tie(f'generated image {im["name"]} does not compile', out)
            cov['obligations'] += len(im['blocks'])
        else:
            live.append(im)
    piece_files = []
    for im in live:
        for idx, units in enumerate(plan_pieces(im)):
            piece_files.append((im, units, emit_piece_file(im, idx, units)))
    tie_files = []
    for im in live:
        path, order = emit_tie(im, {bid: s for (nm, bid), s in tie_samples.items() if nm == im['name']})
        tie_files.append((im, order, path))
    piece_files.sort(key=lambda t: -sum(u['cost'] for u in t[1]))
    total_steps = sum(u['cost'] for _, us, _ in piece_files for u in us)
    rp = coqc_many([p for _, _, p in piece_files] + [p for _, _, p in tie_files], ctx.n(900, 3000))
    failed_units = []
    for im, units, path in piece_files:
        rc, out, secs = rp[path]
        for u in units:
            u['ok'] = rc == 0
            u['out'] = out
        if rc != 0:
            failed_units += [(im, u) for u in units]
    t_pieces = time.time()

    # ---- failures: find the operands, confirm on the real engine
    if failed_units:
        diagnose(ctx, cfg, so, failed_units)

    # ---- master theorems
    masters = []
    for im in live:
        okb = [b for b in im['blocks'] if all(u['ok'] for u in b.pieces)]
        cov['obligations'] += len(im['blocks'])
        if okb:
            masters.append((im, okb, emit_master(im, okb)))
    rm = coqc_many([p for _, _, p in masters], 900)
    names = []
    inst = []
    proved_cases = 0
    for im, okb, path in masters:
        rc, out, _ = rm[path]
        if rc != 0:
            ctx.broken_tie(f'generated theorem file {path.name} does not compile', out)
            continue
        closed = out.count('Closed under the global context')
        if closed != len(okb):
            ctx.broken_tie(f'{path.name}: Print Assumptions is not "Closed under the global context" for every theorem', out)
            continue
        cov['discharged'] += len(okb)
        for b in okb:
            names.append(theorem_name(b))
            proved_cases += b.ncases()
            inst.append({'theorem': theorem_name(b), 'block': b.title, 'w': b.w, 'spec': spec_text(b.spec),
                         'domain': [list(d) for d in b.dom], 'cases': b.ncases(), 'max_ops_sampled': b.ops,
                         'pieces': len(b.pieces), 'scratch_words': len(b.addr['scratch']), 'temps': b.addr['temps_found']})
            ctx.hist('exhaustive_instances_by_width', b.w)
            ctx.hist('exhaustive_instances_by_kind', b.kind)
    cov['evaluations'] += proved_cases
    dc.bulk += proved_cases
    cov.setdefault('theorems', []).extend(names)
    cov['generated_theorems'] = len(names)
    cov['instances'] = inst if len(inst) <= 400 else inst[:400] + [{'note': f'{len(inst) - 400} more omitted'}]
    for b in [b for im in live for b in im['blocks']][:3]:
        ctx.sample({'kind': 'generated theorem', 'name': theorem_name(b),
                    'statement': f'forall vs, in_dom {dom_term(b.dom)} vs -> block_correct ww segs img b{b.k} {thm_spec(b)} vs',
                    'program': block_text(b, b.k).splitlines()[:6]})

    # ---- ties
    mirror_bad = 0
    ops_bad = 0
    tie_checked = 0
    for im, order, path in tie_files:
        rc, out, _ = rp[path]
        if rc != 0:
            ctx.broken_tie(f'{path.name} does not compile', out)
            continue
        groups = re.findall(r'=\s*\((true|false),\s*\[([^\]]*)\]\)', re.sub(r'\s+', ' ', out))
        if len(groups) != len(order):
            ctx.broken_tie(f'{path.name}: unexpected output', out)
            continue
        for b, (ok, opsl) in zip(order, groups):
            ss = tie_samples[(im['name'], b.bid)]
            mops = [int(x) for x in opsl.replace(';', ' ').split()]
            tie_checked += len(ss)
            if ok != 'true':
                mirror_bad += 1
                ctx.broken_tie(f'mirror check: python spec of {b.title} differs from StlSpec.v', f'{b.spec} on {[s[0] for s in ss]}')
            if mops != [s[2] for s in ss]:
                ops_bad += 1
                ctx.broken_tie(f'op-count tie: machine definition and fast engine execute different op counts for {b.title} (w={b.w})',
                               f'operands {[s[0] for s in ss]} machine {mops} engine {[s[2] for s in ss]}')
    cov['mirror_and_opcount_samples'] = tie_checked
    t_end = time.time()

    # ---- evidence
    cov['rule'] = (
        'Coq: for every block (macro instance or ordered pair of macros) the whole operand domain stated in its theorem is '
        'enumerated by vm_compute (check_block = frame equation + exit + output), distinct = distinct (block, w, operand tuple), all '
        'non-trivial (every run executes the macro: >= 10 ops); engine: sampled operand tuples per block on fast/native/featured, '
        'full-memory frame comparison, distinct (block, w, engine, operands).  evaluations = enumerated cases of compiled theorems + engine runs')
    cov['exhaustive'] = True
    cov['engine_runs'] = engine_runs
    cov['engine_failures'] = engine_fail
    cov['coq_cases_proved'] = proved_cases
    cov['estimated_machine_steps'] = total_steps
    cov['quick_seed_chosen_larger_instances'] = boosted
    cov['images'] = [{'name': im['name'], 'w': im['w'], 'words': im['res']['nwords'], 'blocks': len(im['blocks'])} for im in images]
    cov['sampled_only'] = sorted({f'{b.title} w={b.w}' for b in smp_blocks if not b.asm_error and b.kind != 'sweep'})
    sw = {}
    for b in smp_blocks:
        if b.kind == 'sweep' and not b.asm_error:
            sw.setdefault(b.macro, []).append(' '.join(f'{k}={v}' for k, v in b.params.items()))
    cov['size_sweep_sampled'] = sw
    cov['checker_cmd'] += f' ; coqc (parallel, {fw.NCPU} jobs) on coq/Gen/Img_{tag}_*.v StlP_{tag}_*.v StlT_{tag}_*.v StlTie_{tag}_*.v'
    cov['timing_s'] = {'assembly': round(t_asm - t_start, 1), 'engines': round(t_eng - t_asm, 1),
                       'coq_pieces': round(t_pieces - t_eng, 1), 'rest': round(t_end - t_pieces, 1)}
    cov['trusted_base'] += [
        'the assembler that produced the images is the implementation under test (C02/C03/C12 cover it); images are regenerated every run',
        'harness/fjverif/stl.py label resolution (debug-label file of the same assembly) and scratch declarations (macro table `temps`)',
        'generated theorems: Print Assumptions = Closed under the global context (checked for each)']
    ctx.assumptions += [
        'vector sizes above the enumerated ones are sampled on the real engines only (tests, not proofs)',
        'composition: ordered pairs of macros at one size over shared variables; longer sequences are not covered (_partial)',
        'block-local temporaries declared by the macros themselves and word 0 bit 0 / the IO word bits 0-1 are scratch',
        'the run starts from the assembled image: every theorem is about THIS image (w, layout), not about all placements']
    if fw_keep_gen():
        atexit.unregister(clean_gen)


def fw_keep_gen():
    return os.environ.get('FJVERIF_KEEP_GEN') == '1'


def diagnose(ctx, cfg, so, failed_units):
    """per failed piece: first failing operands (in Coq), then confirmation on the real engines"""
    files = []
    for i, (im, u) in enumerate(failed_units):
        b = u['b']
        S = thm_spec(b)
        name = f'StlD_{im["name"]}_{i}'
        txt = [f'{HDR} Gen.Img_{im["name"]}.', 'Local Open Scope N_scope.',
               f'Eval vm_compute in (first_fails 3 (check_block ww segs img b{b.k} {S}) (enum_dom {dom_term(u["ranges"])})).']
        path = GEN / f'{name}.v'
        path.write_text('\n'.join(txt) + '\n')
        files.append(path)
    res = coqc_many(files, ctx.n(900, 3000))
    confirm = []
    for (im, u), path in zip(failed_units, files):
        rc, out, _ = res[path]
        b = u['b']
        if rc != 0:
            u['ok'] = False
            ctx.broken_tie(f'piece {u["thm"]} of {b.title} (w={b.w}) fails and its diagnosis does not evaluate', (u['out'] + out)[-2000:])
            continue
        flat = re.sub(r'\s+', ' ', out)
        m = re.search(r'=\s*\[(.*)\]\s*:\s*list \(list N\)', flat)
        ops_lists = re.findall(r'\[([0-9; ]*)\]', m.group(1)) if m and m.group(1).strip() else []
        if not ops_lists:
            u['ok'] = True      # this unit is fine; another unit of the same file failed (the file is recompiled below)
            u['recheck'] = True
            continue
        for s in ops_lists:
            confirm.append((im, u, [int(x) for x in s.replace(';', ' ').split()]))
    # units that were only victims of a neighbour in the same file: recompile them alone
    victims = [(im, u) for im, u in failed_units if u.get('recheck')]
    if victims:
        paths = []
        for i, (im, u) in enumerate(victims):
            paths.append(emit_piece_file(im, f'r{i}', [u]))
        rr = coqc_many(paths, ctx.n(900, 3000))
        for (im, u), p in zip(victims, paths):
            u['ok'] = rr[p][0] == 0
            if not u['ok']:
                ctx.broken_tie(f'piece {u["thm"]} of {u["b"].title} does not compile', rr[p][1])
    if not confirm:
        return
    # model observation + real engines
    jobs, meta = [], []
    obs_files = []
    for i, (im, u, vals) in enumerate(confirm):
        b = u['b']
        ww = im['w'].bit_length() - 1
        pyf = py_spec(b.spec)
        exp = pyf(vals)
        ev = exp[0] if exp else vals
        name = f'StlD_{im["name"]}_o{i}'
        path = GEN / f'{name}.v'
        path.write_text(f'{HDR} Gen.Img_{im["name"]}.\nLocal Open Scope N_scope.\n'
                        f'Eval vm_compute in (observe_block ww segs img b{b.k} {fw.nlist(vals)} {fw.nlist(ev)}).\n')
        obs_files.append(path)
        for eng in ('fast', 'native'):
            c, e = engine_case(b, vals, ww, pyf, i)
            jobs.append({'fjm': im['res']['fjm'], 'w': im['w'], 'engine': eng, 'cases': [c]})
            meta.append((i, eng, e))
    robs = coqc_many(obs_files, 600)
    rs = run_engines(ctx, so, jobs)
    per = {}
    for (i, eng, e), r in zip(meta, rs):
        per.setdefault(i, []).append((eng, e, r[0]))
    for i, (im, u, vals) in enumerate(confirm):
        b = u['b']
        u['ok'] = False
        model = re.sub(r'\s+', ' ', robs[obs_files[i]][1])[-600:]
        verdicts = {eng: judge(b, e, r) for eng, e, r in per[i]}
        exp = per[i][0][1]
        eobs = {eng: {k: r.get(k) for k in ('cause', 'ops', 'out', 'out_bits', 'diffs', 'exc')} for eng, e, r in per[i]}
        ctx.coverage['evaluations'] += len(per[i])
        if any(v for v in verdicts.values()):
            report_failure(ctx, cfg, b, vals, exp, model, eobs, verdicts,
                           f'Coq: check_block is false for this operand in piece {u["thm"]} (theorem {theorem_name(b)} not provable)')
        else:
            ctx.broken_tie(f'{b.title} (w={b.w}) operands {vals}: the machine definition violates the frame equation but the real engines satisfy it',
                           f'model observation (cause, ops, ip, output, differing words): {model}; engines: {eobs}')


# ---------------------------------------------------------------------------------------------------------
# replay

def replay(ctx, cfg, path):
    rp = json.loads(Path(path).read_text())['replay']
    if 'fj_program' not in rp:
        print(f'replay {path}: names a broken theorem/correspondence, no operand to re-run: {rp.get("theorem_or_correspondence")}')
        return 1
    bd = rp['block_def']
    b = Block(bid=bd['bid'], title=rp['block'], macro=rp['macro'], calls=bd['calls'], vars=[tuple(v) for v in bd['vars']],
              exits=bd['exits'], spec=rp['spec'] if isinstance(rp['spec'], str) else ('seq', [(i, s) for i, s in rp['spec'][1]]),
              dom=[tuple(d) for d in bd['dom']], temps=[tuple(t) for t in bd['temps']], params=rp['params'], w=rp['w'],
              rerun=bd.get('rerun', False))
    w = rp['w']
    ww = w.bit_length() - 1
    d = str(ctx.scratch / 'replay')
    temps = [nm for nm, _ in b.temps]
    res = _asm_jobs(ctx, [{'name': 'replay', 'fj': rp['fj_program'], 'w': w, 'dir': d, 'temps': temps, 'want_words': False}])[0]
    if not res['ok']:
        print(f'replay: the program does not assemble with the current repo: {res.get("error")}')
        return 1
    resolve_block(b, 0, res, w, cfg.extra_scratch)
    so = fw.build_fjcore(ctx)
    vals = rp['operands']
    pyf = py_spec(b.spec)
    exp = pyf(vals)
    status = 0
    for eng in ('fast', 'native'):
        # stand-alone program: operands are literals, the start-up jumps straight into the block: nothing is patched
        case = {'id': 0, 'patch': [], 'scratch': [[a, a + 1, m] for a, m in b.addr['scratch'].items()], 'watchdog': 60.0,
                'read': [jw + 2 * i for _, jw, n in b.addr['vars'] for i in range(n)],
                'expect': [p for p in patches(b, exp[0], ww) if p[0] != 1] if exp else []}
        r = run_engines(ctx, so, [{'fjm': res['fjm'], 'w': w, 'engine': eng, 'cases': [case]}])[0][0]
        bad = judge(b, exp, r)
        print(f'[{ctx.prop} replay] {rp["block"]} w={w} operands={vals} engine={eng}: required values={exp[0] if exp else None} '
              f'exit={exp[1] if exp else None}; observed values={observed_values(b, r, w)} cause={r.get("cause")} out={r.get("out")} differing words={r.get("diffs")}'
              f' -> {"VIOLATION: " + bad if bad else "ok"}')
        if bad:
            status = 1
    return status
