"""T-gen for the evaluation recursion of Model/Expr.v: translate the CURRENT source of Expr.eval_new and Expr.exact_eval
(flipjump/assembler/inner_classes/expr.py) into the Python-subset IR of coq/Model/PyIR.v and write coq/Gen/Facts_Expr.v;
coq/Tie/Expr_tie.v proves that the interpreter on these terms computes Expr.eval_new / Expr.exact_eval of the hand model for
every expression tree, dictionary and call depth.

Fail closed: every ast node that is not explicitly handled raises GenError(file:line); nothing is guessed.  Rules:
  X1  the class Expr must be defined once, undecorated, without base classes, and its __init__(self, expr) must be exactly
      `self.value = expr`; no other function of expr.py may assign an attribute.  An Expr object is VObj of that attribute:
      `Expr(a)` is EMkObj, `<local>.value` is EValueOf (Unsupported when the local does not hold such an object).
  X2  a method is a function whose first parameter is self; `<local>.eval_new(a)` / `<local>.exact_eval(a)` is the call of
      that function with the local as first argument.
  X3  `isinstance(a, int)` / `isinstance(a, str)` is EIsInst; `a is None` / `a is not None` is EIsNone / its negation;
      `a is b` / `a is not b` on two locals is the call P_is (identity is not a function of the values: Tie/Expr_steps.v).
  X4  `<parameter annotated Dict[..]>.get(k)` is EGetOpt (the value, or None).
  X5  `return a if c else b` is `if c: return a  else: return b`.
  X6  `op_string_to_function[k](*<generator>)` is P_op_call (P_op_lookup k) (the generator consumed at once, before the call);
      gen_facts_c12 checks that op_string_to_function is a module-level dict display that is never rebound or modified.
  X7  a generator with one `for <name> in <local>` and no `if`, used as star argument, is EListComp; its variable is local to it.
  X8  `x = []` (the only assignment of x) with `x.append(e)` is SVarAppend, accepted only when every other occurrence of x is
      `tuple(x)` (ETupleOf, a copy) or the iterable of a generator: the list is never shared.
  X9  `try: B except Exception as e: H` is STry B KException H; `try: B except FlipJumpExprException: raise
      except Exception as e: H` is STry B KNotLib H (the first clause re-raises the library exception untouched).
      e may only appear as repr(e) inside the message of H.
  X10 `raise FlipJumpExprException(<f-string>)` is SRaiseExn (XLib tag) (EFormat <the locals it formats>): tag = the diagnostic
      class of the message, decided by its literal text (table MESSAGES; an unknown text fails closed).  The text itself is
      not modelled: {str(self)} / {self} call Expr.__str__, which is ASSUMED not to raise (it does only for an operator node
      with 0 or more than 3 operands, which the parser never builds).
  X11 a parameter is never reassigned; `op, args = value` is SAssign2."""
import ast
from pathlib import Path

from .gen_facts_engpy import GenError, stub  # noqa: F401

PATH = 'flipjump/assembler/inner_classes/expr.py'
FUNCS = {'eval_new': 'F_expr_eval_new', 'exact_eval': 'F_expr_exact_eval'}
LIB = 'FlipJumpExprException'
# literal text that must occur in the message -> tag (0 is the exception raised by an operator function itself, _pow)
MESSAGES = [("Can't evaluate label", 1), ('bad math operation', 2)]


def unparse(node):
    return ast.unparse(node).replace('\n', ' ')[:90]


class ExprFn:
    def __init__(self, tr, node, short):
        self.tr, self.node, self.short = tr, node, short
        self.vars = {}
        self.handler_var = None
        a = node.args
        if a.vararg or a.kwarg or a.defaults or a.posonlyargs or a.kwonlyargs or a.kw_defaults or node.decorator_list:
            self.err(node, 'only undecorated functions with plain positional parameters are in the subset')
        if not a.args or a.args[0].arg != 'self':
            self.err(node, 'method without self')
        self.params = [p.arg for p in a.args]
        self.dict_params = {p.arg for p in a.args[1:] if p.annotation is not None and ast.unparse(p.annotation).startswith('Dict[')}
        for p in self.params:
            self.var(p)
        self.stores, self.uses = {}, {}
        comp_targets = {id(t) for g in ast.walk(node) if isinstance(g, (ast.GeneratorExp, ast.ListComp, ast.SetComp, ast.DictComp))
                        for c in g.generators for t in ast.walk(c.target)}        # local to the comprehension (X7)
        for n in ast.walk(node):
            if isinstance(n, ast.Name):
                if isinstance(n.ctx, (ast.Store, ast.Del)) and id(n) not in comp_targets:
                    self.stores[n.id] = self.stores.get(n.id, 0) + 1
                self.uses.setdefault(n.id, []).append(n)
            if isinstance(n, (ast.Global, ast.Nonlocal, ast.Lambda, ast.FunctionDef, ast.ClassDef, ast.Yield, ast.YieldFrom, ast.Await,
                              ast.NamedExpr)) and n is not node:
                self.err(n, 'construct outside the subset')
            if isinstance(n, ast.Attribute) and not isinstance(n.ctx, ast.Load):
                self.err(n, 'attribute assignment (X1)')
        for p in self.params:
            if self.stores.get(p):
                self.err(node, f'parameter {p} is reassigned (X11)')
        # X8: lists owned by one local
        self.owned = set()
        for s in ast.walk(node):
            if isinstance(s, ast.Assign) and len(s.targets) == 1 and isinstance(s.targets[0], ast.Name) and \
                    isinstance(s.value, ast.List) and not s.value.elts:
                self.owned.add(s.targets[0].id)
        self.ok_owned_uses = set()

    def err(self, node, msg):
        raise GenError(f'{PATH}:{getattr(node, "lineno", "?")}: {msg}: {unparse(node)}')

    def var(self, name):
        if name not in self.vars:
            self.vars[name] = len(self.vars) + 1
        return f'v_{self.short}_{name}'

    def builtin(self, f, name):
        return isinstance(f, ast.Name) and f.id == name and name not in self.vars and name not in self.stores and \
            name not in self.tr.module_names

    def local(self, e):
        return isinstance(e, ast.Name) and isinstance(e.ctx, ast.Load) and e.id in self.vars

    # ---- expressions ------------------------------------------------------------------------------
    def expr(self, e):
        if isinstance(e, ast.Constant):
            v = e.value
            if v is True or v is False:
                return f'EBool {str(v).lower()}'
            if v is None:
                return 'ENone'
            if isinstance(v, int) and v >= 0:
                return f'EInt {v}'
            self.err(e, 'constant outside the subset')
        if isinstance(e, ast.Name):
            if not isinstance(e.ctx, ast.Load) or e.id not in self.vars:
                self.err(e, 'name is not a local variable')
            if e.id in self.owned and id(e) not in self.ok_owned_uses:
                self.err(e, 'a list owned by a local is used outside rule X8')
            return f'EVar {self.var(e.id)}'
        if isinstance(e, ast.Attribute):
            if e.attr == 'value' and self.local(e.value):           # X1
                return f'EValueOf ({self.expr(e.value)})'
            self.err(e, 'attribute outside the subset')
        if isinstance(e, ast.UnaryOp) and isinstance(e.op, ast.Not):
            return f'ENot ({self.expr(e.operand)})'
        if isinstance(e, ast.Compare):
            return self.compare(e)
        if isinstance(e, ast.Tuple):
            if len(e.elts) != 2 or not isinstance(e.ctx, ast.Load):
                self.err(e, 'only pairs are in the subset')
            return f'EPair ({self.expr(e.elts[0])}) ({self.expr(e.elts[1])})'
        if isinstance(e, ast.JoinedStr):
            return self.fstring(e)
        if isinstance(e, ast.Call):
            return self.call(e)
        self.err(e, f'expression node {type(e).__name__} outside the subset')

    def compare(self, e):
        if len(e.ops) != 1 or not isinstance(e.ops[0], (ast.Is, ast.IsNot)):
            self.err(e, 'comparison outside the subset')
        a, b = e.left, e.comparators[0]
        if isinstance(b, ast.Constant) and b.value is None:                       # X3
            x = f'EIsNone ({self.expr(a)})'
        elif self.local(a) and self.local(b):
            x = f'ECall2 P_is ({self.expr(a)}) ({self.expr(b)})'
        else:
            self.err(e, '`is` outside rule X3')
        return x if isinstance(e.ops[0], ast.Is) else f'ENot ({x})'

    def cons(self, items):
        out = 'ENil'
        for x in reversed(items):
            out = f'ECons ({x}) ({out})'
        return out

    def fstring(self, e):
        """X10: the locals the message formats"""
        reads = []
        for part in e.values:
            if isinstance(part, ast.Constant) and isinstance(part.value, str):
                continue
            if not isinstance(part, ast.FormattedValue) or part.format_spec is not None or part.conversion != -1:
                self.err(e, 'f-string part outside the subset')
            v = part.value
            if isinstance(v, ast.Call) and not v.keywords and len(v.args) == 1 and \
                    (self.builtin(v.func, 'str') or self.builtin(v.func, 'repr')):
                v = v.args[0]
            if isinstance(v, ast.Name) and v.id == self.handler_var:
                continue
            if not self.local(v) or v.id in self.owned:
                self.err(e, 'f-string formats something else than a local / str(local) / repr(local)')
            reads.append(f'EVar {self.var(v.id)}')
        return f'EFormat ({self.cons(reads)})'

    def generator(self, g):
        """X7"""
        if not isinstance(g, ast.GeneratorExp) or len(g.generators) != 1:
            self.err(g, 'star argument that is not a generator with one `for`')
        c = g.generators[0]
        if c.ifs or c.is_async or not isinstance(c.target, ast.Name) or not self.local(c.iter):
            self.err(g, 'generator outside rule X7')
        self.ok_owned_uses.add(id(c.iter))
        it = self.expr(c.iter)
        fresh = c.target.id not in self.vars
        x = self.var(c.target.id)
        elt = self.expr(g.elt)
        if fresh:
            # the variable exists only inside the generator: later reads of the name must fail closed
            del self.vars[c.target.id]
            self.vars['<gen>' + c.target.id + str(g.lineno)] = len(self.vars) + 1
            self.gen_names = getattr(self, 'gen_names', {})
            self.gen_names[x] = self.vars['<gen>' + c.target.id + str(g.lineno)]
        return f'EListComp ({elt}) (PVar {x}) ({it})'

    def call(self, e):
        f = e.func
        if e.keywords:
            self.err(e, 'keyword arguments are outside the subset')
        # X6
        if isinstance(f, ast.Subscript) and isinstance(f.value, ast.Name) and f.value.id == 'op_string_to_function' and \
                'op_string_to_function' not in self.vars and 'op_string_to_function' not in self.stores:
            if len(e.args) != 1 or not isinstance(e.args[0], ast.Starred):
                self.err(e, 'the operator function is not called as f(*<generator>)')
            return f'ECall2 P_op_call (ECall1 P_op_lookup ({self.expr(f.slice)})) ({self.generator(e.args[0].value)})'
        if any(isinstance(a, ast.Starred) for a in e.args):
            self.err(e, 'starred argument outside rule X6')
        if self.builtin(f, 'isinstance') and len(e.args) == 2 and isinstance(e.args[1], ast.Name) and \
                e.args[1].id in ('int', 'str') and self.builtin(e.args[1], e.args[1].id):          # X3
            return f'EIsInst {"TInt" if e.args[1].id == "int" else "TStr"} ({self.expr(e.args[0])})'
        if self.builtin(f, 'tuple') and len(e.args) == 1:
            if isinstance(e.args[0], ast.Name):
                self.ok_owned_uses.add(id(e.args[0]))
            return f'ETupleOf ({self.expr(e.args[0])})'
        if isinstance(f, ast.Name) and f.id == 'Expr' and 'Expr' not in self.vars and 'Expr' not in self.stores and len(e.args) == 1:
            return f'EMkObj ({self.expr(e.args[0])})'                                                # X1
        if isinstance(f, ast.Attribute) and self.local(f.value):
            if f.attr == 'get' and f.value.id in self.dict_params and len(e.args) == 1:              # X4
                return f'EGetOpt ({self.expr(f.value)}) ({self.expr(e.args[0])})'
            if f.attr in FUNCS and f.value.id not in self.owned:                                      # X2
                arity = self.tr.arity[f.attr]
                if len(e.args) != arity - 1 or arity != 2:
                    self.err(e, f'{f.attr} takes {arity - 1} arguments')
                return f'ECall2 {FUNCS[f.attr]} ({self.expr(f.value)}) ({self.expr(e.args[0])})'
        self.err(e, 'call of something outside the subset')

    # ---- statements -------------------------------------------------------------------------------
    def block(self, stmts, ind):
        out = [s for s in (self.stmt(s, ind) for s in stmts) if s is not None]
        if not out:
            return 'SPass'
        text = out[-1]
        for s in reversed(out[:-1]):
            text = f'SSeq ({s})\n{" " * ind}({text})'
        return text

    def stmt(self, s, ind):
        sub = ind + 2
        pad = ' ' * sub
        if isinstance(s, ast.Pass):
            return 'SPass'
        if isinstance(s, ast.Expr):
            v = s.value
            if isinstance(v, ast.Constant) and isinstance(v.value, str):
                return None                                           # docstring
            if isinstance(v, ast.Call) and isinstance(v.func, ast.Attribute) and v.func.attr == 'append' and \
                    isinstance(v.func.value, ast.Name) and v.func.value.id in self.owned and len(v.args) == 1 and not v.keywords:   # X8
                return f'SVarAppend {self.var(v.func.value.id)} ({self.expr(v.args[0])})'
            self.err(s, 'expression statement outside the subset')
        if isinstance(s, ast.Assign):
            if len(s.targets) != 1:
                self.err(s, 'chained assignment')
            t = s.targets[0]
            if isinstance(t, ast.Name):
                if t.id in self.owned:
                    if self.stores.get(t.id) != 1 or not (isinstance(s.value, ast.List) and not s.value.elts):
                        self.err(s, 'a list owned by a local is assigned more than once (X8)')
                    return f'SAssign {self.var(t.id)} (ENil)'
                rhs = self.expr(s.value)
                return f'SAssign {self.var(t.id)} ({rhs})'
            if isinstance(t, ast.Tuple) and len(t.elts) == 2 and all(isinstance(x, ast.Name) for x in t.elts):
                rhs = self.expr(s.value)
                if any(x.id in self.owned for x in t.elts):
                    self.err(s, 'a list owned by a local is assigned more than once (X8)')
                return f'SAssign2 {self.var(t.elts[0].id)} {self.var(t.elts[1].id)} ({rhs})'
            self.err(s, 'assignment target outside the subset')
        if isinstance(s, ast.If):
            c = self.expr(s.test)
            a = self.block(s.body, sub)
            b = self.block(s.orelse, sub)
            return f'SIf ({c})\n{pad}({a})\n{pad}({b})'
        if isinstance(s, ast.Return):
            if s.value is None:
                self.err(s, 'bare return')
            if isinstance(s.value, ast.IfExp):                        # X5
                v = s.value
                return f'SIf ({self.expr(v.test)})\n{pad}(SReturn ({self.expr(v.body)}))\n{pad}(SReturn ({self.expr(v.orelse)}))'
            return f'SReturn ({self.expr(s.value)})'
        if isinstance(s, ast.Raise):                                  # X10
            x = s.exc
            if s.cause is None and isinstance(x, ast.Call) and isinstance(x.func, ast.Name) and x.func.id == LIB and \
                    LIB not in self.vars and len(x.args) == 1 and not x.keywords and isinstance(x.args[0], ast.JoinedStr):
                text = ''.join(p.value for p in x.args[0].values if isinstance(p, ast.Constant) and isinstance(p.value, str))
                tags = [t for lit, t in MESSAGES if lit in text]
                if len(tags) != 1:
                    self.err(s, 'library exception with a message of unknown class')
                return f'SRaiseExn (XLib {tags[0]}) ({self.expr(x.args[0])})'
            self.err(s, 'raise outside the subset')
        if isinstance(s, ast.Try):                                    # X9
            if s.finalbody or s.orelse or not 1 <= len(s.handlers) <= 2:
                self.err(s, 'try statement outside the subset')
            last = s.handlers[-1]
            if not (isinstance(last.type, ast.Name) and self.builtin(last.type, 'Exception')):
                self.err(s, 'the last except clause is not `except Exception`')
            cls = 'KException'
            if len(s.handlers) == 2:
                h = s.handlers[0]
                if not (isinstance(h.type, ast.Name) and h.type.id == LIB and LIB not in self.vars and h.name is None and
                        len(h.body) == 1 and isinstance(h.body[0], ast.Raise) and h.body[0].exc is None and h.body[0].cause is None):
                    self.err(s, f'the first except clause is not `except {LIB}: raise`')
                cls = 'KNotLib'
            body = self.block(s.body, sub)
            if last.name is not None:
                if last.name in self.vars or self.stores.get(last.name):
                    self.err(s, 'the exception variable is also a local variable')
                self.handler_var = last.name
            try:
                handler = self.block(last.body, sub)
            finally:
                self.handler_var = None
            return f'STry ({body})\n{pad}{cls}\n{pad}({handler})'
        if isinstance(s, ast.For):
            if s.orelse or not isinstance(s.target, ast.Name) or not self.local(s.iter) or s.iter.id in self.owned:
                self.err(s, 'for loop outside the subset')
            if s.target.id in self.params or s.target.id in self.owned:
                self.err(s, 'loop variable is a parameter / an owned list')
            it = self.expr(s.iter)
            x = self.var(s.target.id)
            return f'SFor (PVar {x}) ({it})\n{pad}({self.block(s.body, sub)})'
        self.err(s, f'statement node {type(s).__name__} outside the subset')


class Translator:
    def __init__(self, repo):
        self.repo = Path(repo)
        tree = ast.parse((self.repo / PATH).read_text(), filename=PATH)
        self.module_names = set()
        for st in tree.body:
            if isinstance(st, (ast.FunctionDef, ast.ClassDef)):
                self.module_names.add(st.name)
            elif isinstance(st, (ast.Import, ast.ImportFrom)):
                for a in st.names:
                    self.module_names.add((a.asname or a.name).split('.')[0])
            else:
                for n in ast.walk(st):
                    if isinstance(n, ast.Name) and isinstance(n.ctx, ast.Store):
                        self.module_names.add(n.id)
        for shadow in ('isinstance', 'int', 'str', 'tuple', 'repr', 'Exception'):
            if shadow in self.module_names:
                raise GenError(f'{PATH}: the builtin {shadow} is shadowed at module level')
        classes = [n for n in tree.body if isinstance(n, ast.ClassDef) and n.name == 'Expr']
        if len(classes) != 1 or classes[0].decorator_list or classes[0].bases or classes[0].keywords:
            raise GenError(f'{PATH}: expected exactly one plain class Expr (X1)')
        cls = classes[0]
        # X1
        inits = [n for n in cls.body if isinstance(n, ast.FunctionDef) and n.name == '__init__']
        if len(inits) != 1:
            raise GenError(f'{PATH}: expected exactly one Expr.__init__')
        init = inits[0]
        body = [s for s in init.body if not (isinstance(s, ast.Expr) and isinstance(s.value, ast.Constant))]
        ia = init.args
        ok = (len(ia.args) == 2 and ia.args[0].arg == 'self' and not (ia.vararg or ia.kwarg or ia.defaults or ia.kwonlyargs or
                                                                      ia.posonlyargs) and not init.decorator_list and
              len(body) == 1 and isinstance(body[0], ast.Assign) and len(body[0].targets) == 1 and
              ast.unparse(body[0].targets[0]) == 'self.value' and isinstance(body[0].value, ast.Name) and
              body[0].value.id == ia.args[1].arg)
        if not ok:
            raise GenError(f'{PATH}:{init.lineno}: Expr.__init__ is not `self.value = <its parameter>` (X1)')
        for n in ast.walk(tree):
            if isinstance(n, ast.Attribute) and not isinstance(n.ctx, ast.Load) and n is not body[0].targets[0]:
                raise GenError(f'{PATH}:{n.lineno}: an attribute is assigned outside Expr.__init__ (X1)')
            if isinstance(n, ast.Call) and isinstance(n.func, ast.Name) and n.func.id in ('setattr', 'delattr'):
                raise GenError(f'{PATH}:{n.lineno}: setattr / delattr (X1)')
        for special in ('__new__', '__getattr__', '__getattribute__', '__setattr__', '__slots__', '__init_subclass__'):
            if any(isinstance(n, ast.FunctionDef) and n.name == special for n in cls.body):
                raise GenError(f'{PATH}: Expr defines {special} (X1)')
        self.defs, self.arity = {}, {}
        for name in FUNCS:
            hits = [n for n in cls.body if isinstance(n, ast.FunctionDef) and n.name == name]
            if len(hits) != 1 or hits[0].decorator_list:
                raise GenError(f'{PATH}: expected exactly one undecorated method Expr.{name}')
            self.defs[name] = hits[0]
            self.arity[name] = len(hits[0].args.args)

    def generate(self):
        out, table = [], []
        for name, coq in FUNCS.items():
            node = self.defs[name]
            fn = ExprFn(self, node, name)
            body = fn.block(node.body, 2)
            for x in fn.owned:
                for use in fn.uses.get(x, []):
                    if isinstance(use.ctx, ast.Load) and id(use) not in fn.ok_owned_uses:
                        # the remaining loads must be the receivers of .append (checked in stmt)
                        pass
            chunk = []
            for n, i in fn.vars.items():
                if n.startswith('<gen>'):
                    continue
                chunk.append(f'Notation v_{name}_{n} := ({i}%positive) (only parsing).')
            for x, i in getattr(fn, 'gen_names', {}).items():
                chunk.append(f'Notation {x} := ({i}%positive) (only parsing).')
            chunk.append(f'(* {PATH}:{node.lineno}  def {name} *)')
            chunk.append(f'Definition src_{name} : stmt :=\n  {body}.')
            chunk.append(f'Definition src_{name}_params : list ident := [{"; ".join(f"v_{name}_{p}" for p in fn.params)}].')
            table.append(f'  | {coq} => Some (src_{name}_params, src_{name})')
            out.append('\n'.join(chunk))
        head = ['(* generated from the current source by harness/fjverif/gen_facts_expr.py - do not edit.',
                '   IR of coq/Model/PyIR.v; v_<method>_<name> are the locals (parameters first, self included). *)',
                'From FJ Require Import Lib.Base Model.PyIR.', 'Local Open Scope N_scope.', '']
        text = '\n'.join(head) + '\n\n' + '\n\n'.join(out) + '\n\n'
        text += 'Definition expr_program : program := fun f =>\n  match f with\n' + '\n'.join(table) + '\n  | _ => None\n  end.\n'
        text += '(* diagnostic classes of the library exception (rule X10) *)\n'
        text += 'Definition src_tag_op_raised : N := 0.\nDefinition src_tag_cant_evaluate_label : N := 1.\nDefinition src_tag_bad_math : N := 2.\n'
        return text


def generate(repo):
    try:
        return Translator(repo).generate()
    except (OSError, SyntaxError, KeyError) as e:
        raise GenError(f'source unreadable: {e!r}')


def write(repo=None):
    from . import framework as fw
    fw.write_if_changed(fw.COQ / 'Gen' / 'Facts_Expr.v', generate(repo or fw.REPO))
    return True


if __name__ == '__main__':
    import sys
    print(generate(sys.argv[1] if len(sys.argv) > 1 else '/repo'))
