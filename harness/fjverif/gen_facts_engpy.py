"""T-gen for Model/EngPy.v: translate the CURRENT source of the Reader's memory methods (fjm/fjm_reader.py) and of the
two pure-Python run loops (interpreter/fjm_run.py) into terms of the Python-subset IR of coq/Model/PyIR.v and write
them to coq/Gen/Facts_EngPy.v.  coq/Tie/EngPy_tie.v then proves, for every state, that PyIR.exec on these terms
computes what the hand model Model/EngPy.v computes.

Fail closed: every ast node that is not explicitly handled raises GenError(file:line); nothing is guessed.
The few non-structural rules (all listed in the header comment of the generated file as well):
  R1  objects are singletons identified by the parameter annotation (`self` of class Reader / fjm_reader.Reader = the
      reader, IODevice = the io device, RunStatistics = the statistics); such parameters are erased, and an argument
      passed in such a position must be exactly a name of the same role.
  R2  `name = <object>.<attr>` for a method / dict / timer attribute, as a top-level statement before the loop and with
      `name` assigned exactly once in the function, is a static alias (no IR statement is emitted; later uses of `name`
      mean the attribute; the attributes concerned are never rebound by the translated code, which cannot assign them).
  R3  `with <statistics.pause_timer>: body` is `body` (PauseTimer only reads the clock and does not swallow exceptions).
  R4  `x = last_ops.append if last_ops is not None else None` (last_ops an alias of statistics.last_ops_addresses) together
      with `if x is not None: x(e)` is `statistics.register_op_address(e)` (that method's body is exactly this test).
  R5  `statistics.detailed_statistics = False` is dropped (a display flag that no modelled observation reads).
  R6  print(..), sleep(..), handle_breakpoint(..), <local>.should_break(..) become EUnsupported (explicit, never equal to a
      model outcome)."""
import ast
from pathlib import Path


class GenError(Exception):
    pass


READER_METHODS = {'_get_memory_word': 'F_get_memory_word', '_set_memory_word': 'F_set_memory_word',
                  '_bit_address_decompose': 'F_bit_address_decompose', 'read_bit': 'F_read_bit',
                  'write_bit': 'F_write_bit', 'get_word': 'F_get_word'}
RUN_FUNCS = {'_handle_input': 'F_handle_input', '_handle_output': 'F_handle_output',
             '_trace_flip': 'F_trace_flip', '_trace_jump': 'F_trace_jump'}
CONST_FUNCS = {'_new_garbage_val': 'F_new_garbage_val'}
ROLE_OF_ANNOTATION = {'fjm_reader.Reader': 'reader', 'Reader': 'reader', 'IODevice': 'io', 'RunStatistics': 'stats'}
PRIMS = {('io', 'read_bit'): ('P_io_read_bit', 0), ('io', 'write_bit'): ('P_io_write_bit', 1),
         ('stats', 'register_op_address'): ('P_register_op_address', 1), ('stats', 'register_op'): ('P_register_op', 3)}
INT_ATTRS = {('reader', 'memory_width'): 'A_memory_width', ('reader', 'garbage_handling'): 'A_garbage_handling'}
ALIASABLE = {('reader', 'memory'), ('stats', 'pause_timer'), ('stats', 'last_ops_addresses')} | \
    {('reader', m) for m in READER_METHODS} | set(PRIMS)
BINOPS = {ast.Add: 'Add', ast.Sub: 'Sub', ast.Mult: 'Mul', ast.BitAnd: 'BAnd', ast.BitOr: 'BOr', ast.BitXor: 'BXor',
          ast.LShift: 'Shl', ast.RShift: 'Shr'}
CMPOPS = {ast.Eq: 'Eq', ast.NotEq: 'NotEq', ast.Lt: 'Lt', ast.LtE: 'LtE', ast.Gt: 'Gt', ast.GtE: 'GtE'}
UNSUPPORTED_CALLS = {'print', 'sleep', 'handle_breakpoint'}
EXN_CLASSES = {'KeyError': 'KKeyError', 'IOReadOnEOF': 'KEOF'}


def unparse(node):
    return ast.unparse(node).replace('\n', ' ')[:80]


class Fn:
    """translation state of one function: file name, variable table, object roles and aliases"""

    self_role = 'reader'          # what `self` is in a method (gen_facts_devices overrides it)

    def __init__(self, tr, fname, node, coq_name, is_method, kwonly_ok=False):
        self.tr, self.file, self.node, self.coq_name = tr, fname, node, coq_name
        self.vars = {}            # python name -> id
        self.roles = {}           # name -> role (object parameters)
        self.alias = {}           # name -> ('attr', role, attr) | ('hist_append',)
        self.dropped = []         # (line, text, rule)
        self.params = []          # [(name, role or None)]
        self.depth = 0            # nesting of the block being translated
        self.in_prelude = False   # R2/R4 aliases are only recognised in the top-level statements before the loop
        a = node.args
        if a.vararg or a.kwarg or a.defaults or a.posonlyargs or ((a.kwonlyargs or a.kw_defaults) and not kwonly_ok):
            self.err(node, 'only plain positional parameters are in the subset')
        # keyword-only parameters (accepted where the caller of this class says so) are value parameters after the
        # positional ones; a default must be a constant and is only recorded: the theorems quantify over every value
        self.defaults = {}
        for p, dflt in zip(a.kwonlyargs, a.kw_defaults):
            if dflt is not None:
                if not isinstance(dflt, ast.Constant):
                    self.err(node, 'default value that is not a constant')
                self.defaults[p.arg] = dflt.value
        args = list(a.args)
        if is_method:
            if not args or args[0].arg != 'self':
                self.err(node, 'method without self')
            self.roles['self'] = self.self_role
            args = args[1:]
        args += list(a.kwonlyargs)
        for p in args:
            role = ROLE_OF_ANNOTATION.get(ast.unparse(p.annotation)) if p.annotation is not None else None
            self.params.append((p.arg, role))
            if role:
                self.roles[p.arg] = role
            else:
                self.var(p.arg)
        # names assigned exactly once (needed by R2)
        self.store_count = {}
        for n in ast.walk(node):
            if isinstance(n, ast.Name) and isinstance(n.ctx, (ast.Store, ast.Del)):
                self.store_count[n.id] = self.store_count.get(n.id, 0) + 1
        for name in self.roles:
            if self.store_count.get(name):
                self.err(node, f'object parameter {name} is reassigned')

    def err(self, node, msg):
        raise GenError(f'{self.file}:{getattr(node, "lineno", "?")}: {msg}: {unparse(node)}')

    def var(self, name):
        if name in self.roles or name in self.alias:
            raise GenError(f'{self.file}: {name} used both as object/alias and as variable in {self.coq_name}')
        if name not in self.vars:
            self.vars[name] = len(self.vars) + 1
        return f'v_{self.coq_name}_{name}'

    # ---- object references ------------------------------------------------------------------
    def ref(self, node):
        """('obj', role) | ('attr', role, attr) | ('hist_append',) | None when the node is not an object reference"""
        if isinstance(node, ast.Name):
            if node.id in self.roles:
                return ('obj', self.roles[node.id])
            if node.id in self.alias:
                return self.alias[node.id]
            return None
        if isinstance(node, ast.Attribute):
            base = self.ref(node.value)
            if base is not None and base[0] == 'obj':
                return ('attr', base[1], node.attr)
        return None

    def callee(self, func):
        """the callable a call expression names: (coq fname, [roles of the callee's parameters]) or None"""
        r = self.ref(func)
        if r is not None and r[0] == 'attr':
            if r[1] == 'reader' and r[2] in READER_METHODS:
                return READER_METHODS[r[2]], self.tr.signature(READER_METHODS[r[2]])
            if (r[1], r[2]) in PRIMS:
                name, arity = PRIMS[(r[1], r[2])]
                return name, [None] * arity
            self.err(func, 'call of an attribute outside the subset')
        if isinstance(func, ast.Name) and func.id not in self.vars:
            table = dict(RUN_FUNCS)
            table.update(CONST_FUNCS)
            if func.id in table:
                return table[func.id], self.tr.signature(table[func.id])
        return None

    # ---- expressions ------------------------------------------------------------------------
    def expr(self, e):
        if isinstance(e, ast.Constant):
            v = e.value
            if v is True or v is False:
                return f'EBool {str(v).lower()}'
            if v is None:
                return 'ENone'
            if isinstance(v, int) and v >= 0:
                return f'EInt {v}'
            if isinstance(v, str):
                return 'EStr []'
            self.err(e, 'constant outside the subset')
        if isinstance(e, ast.JoinedStr):
            return 'EStr [' + '; '.join(self.fstring_reads(e)) + ']'
        if isinstance(e, ast.Name):
            if not isinstance(e.ctx, ast.Load):
                self.err(e, 'unexpected store')
            if self.ref(e) is not None:
                self.err(e, 'an object is used as a value')
            if e.id not in self.vars:
                self.err(e, 'name is neither a local variable nor a known object')
            return f'EVar {self.var(e.id)}'
        if isinstance(e, ast.Attribute):
            r = self.ref(e)
            if r is not None and r[0] == 'attr' and (r[1], r[2]) in INT_ATTRS:
                return f'EAttr {INT_ATTRS[(r[1], r[2])]}'
            if isinstance(e.value, ast.Name) and e.value.id == 'GarbageHandling' and 'GarbageHandling' not in self.vars:
                if e.attr not in self.tr.garbage_enum:
                    self.err(e, 'unknown GarbageHandling member')
                return f'EInt {self.tr.garbage_enum[e.attr]}'
            self.err(e, 'attribute outside the subset')
        if isinstance(e, ast.BinOp):
            if type(e.op) not in BINOPS:
                self.err(e, 'binary operator outside the subset')
            return f'EBin {BINOPS[type(e.op)]} ({self.expr(e.left)}) ({self.expr(e.right)})'
        if isinstance(e, ast.UnaryOp):
            if isinstance(e.op, ast.Not):
                return f'ENot ({self.expr(e.operand)})'
            self.err(e, 'unary operator outside the subset (negative numbers are not modelled)')
        if isinstance(e, ast.BoolOp):
            con = 'EAnd' if isinstance(e.op, ast.And) else 'EOr'
            vals = [self.expr(v) for v in e.values]
            out = vals[-1]
            for v in reversed(vals[:-1]):       # a and b and c == a and (b and c)
                out = f'{con} ({v}) ({out})'
            return out
        if isinstance(e, ast.Compare):
            return self.compare(e)
        if isinstance(e, ast.Tuple):
            if len(e.elts) != 2 or not isinstance(e.ctx, ast.Load):
                self.err(e, 'only pairs are in the subset')
            return f'EPair ({self.expr(e.elts[0])}) ({self.expr(e.elts[1])})'
        if isinstance(e, ast.Subscript):
            if self.ref(e.value) == ('attr', 'reader', 'memory') and isinstance(e.ctx, ast.Load):
                return f'EMemGet ({self.expr(e.slice)})'
            self.err(e, 'subscript outside the subset')
        if isinstance(e, ast.Call):
            return self.call(e)
        self.err(e, f'expression node {type(e).__name__} outside the subset')

    def fstring_reads(self, e):
        reads = []
        for part in e.values:
            if isinstance(part, ast.Constant) and isinstance(part.value, str):
                continue
            if not isinstance(part, ast.FormattedValue) or part.format_spec is not None or part.conversion != -1:
                self.err(e, 'f-string part outside the subset')
            v = part.value
            # only  name  /  hex(name)  /  hex(name)[k:]  : total functions of an int
            if isinstance(v, ast.Subscript) and isinstance(v.slice, ast.Slice) and v.slice.upper is None and \
                    v.slice.step is None and isinstance(v.slice.lower, ast.Constant) and isinstance(v.slice.lower.value, int):
                v = v.value
            if isinstance(v, ast.Call) and isinstance(v.func, ast.Name) and v.func.id == 'hex' and len(v.args) == 1 \
                    and not v.keywords and 'hex' not in self.vars:
                v = v.args[0]
            if not (isinstance(v, ast.Name) and v.id in self.vars):
                self.err(e, 'f-string formats something else than hex(<local variable>)[k:]')
            reads.append(self.var(v.id))
        return reads

    def compare(self, e):
        ops, items = e.ops, [e.left] + list(e.comparators)
        if len(ops) == 1 and isinstance(ops[0], (ast.In, ast.NotIn)):
            if self.ref(items[1]) != ('attr', 'reader', 'memory'):
                self.err(e, 'membership test on something else than the memory dict')
            has = f'EMemHas ({self.expr(items[0])})'
            return has if isinstance(ops[0], ast.In) else f'ENot ({has})'      # `a not in d` is `not (a in d)`
        for o in ops:
            if type(o) not in CMPOPS:
                self.err(e, 'comparison operator outside the subset')
        if len(ops) == 1:
            return f'ECmp {CMPOPS[type(ops[0])]} ({self.expr(items[0])}) ({self.expr(items[1])})'
        if len(ops) == 2:
            return (f'ECmp3 ({self.expr(items[0])}) {CMPOPS[type(ops[0])]} ({self.expr(items[1])}) '
                    f'{CMPOPS[type(ops[1])]} ({self.expr(items[2])})')
        self.err(e, 'comparison chain longer than a op b op c')

    def call(self, e):
        f = e.func
        # R6 (whatever the arguments are: the call is never given a meaning)
        if isinstance(f, ast.Name) and f.id in UNSUPPORTED_CALLS and f.id not in self.vars:
            return 'EUnsupported'
        if isinstance(f, ast.Attribute) and f.attr == 'should_break' and isinstance(f.value, ast.Name) and \
                f.value.id in self.vars:
            return 'EUnsupported'
        if e.keywords or any(isinstance(a, ast.Starred) for a in e.args):
            self.err(e, 'keyword / starred arguments are outside the subset')
        # x.bit_length()
        if isinstance(f, ast.Attribute) and f.attr == 'bit_length' and not e.args and self.ref(f.value) in (None,) + tuple(
                ('attr', r, a) for (r, a) in INT_ATTRS):
            return f'EBitLength ({self.expr(f.value)})'
        # TerminationStatistics(statistics, TerminationCause.X)
        if isinstance(f, ast.Name) and f.id == 'TerminationStatistics' and f.id not in self.vars:
            if len(e.args) == 2 and self.ref(e.args[0]) == ('obj', 'stats') and isinstance(e.args[1], ast.Attribute) and \
                    isinstance(e.args[1].value, ast.Name) and e.args[1].value.id == 'TerminationCause' and \
                    e.args[1].attr in self.tr.cause_enum:
                return f'ETerm {self.tr.cause_enum[e.args[1].attr]}'
            self.err(e, 'TerminationStatistics(...) in an unexpected shape')
        c = self.callee(f)
        if c is None:
            self.err(e, 'call of something outside the subset')
        name, sig = c
        if len(sig) != len(e.args):
            self.err(e, f'{name} takes {len(sig)} arguments')
        args = []
        for role, a in zip(sig, e.args):
            if role is not None:      # R1
                if self.ref(a) != ('obj', role):
                    self.err(e, f'argument in the position of the {role} object is not that object')
            else:
                args.append(f'({self.expr(a)})')
        if len(args) > 3:
            self.err(e, 'more than three value arguments')
        return f'ECall{len(args)} {name}' + ''.join(' ' + a for a in args)

    # ---- statements -------------------------------------------------------------------------
    def block(self, stmts, ind):
        self.depth += 1
        try:
            out = [s for s in (self.stmt(s, ind) for s in stmts) if s is not None]
        finally:
            self.depth -= 1
        if not out:
            return 'SPass'
        text = out[-1]
        for s in reversed(out[:-1]):
            text = f'SSeq ({s})\n{" " * ind}({text})'
        return text

    def drop(self, s, rule):
        self.dropped.append((s.lineno, unparse(s), rule))
        return None

    def stmt(self, s, ind):
        sub = ind + 2
        if isinstance(s, ast.Pass):
            return 'SPass'
        if isinstance(s, ast.Expr):
            if isinstance(s.value, ast.Constant) and isinstance(s.value.value, str):
                return self.drop(s, 'docstring')
            if not isinstance(s.value, ast.Call):
                self.err(s, 'expression statement that is not a call')
            return f'SExpr ({self.expr(s.value)})'
        if isinstance(s, ast.Assign):
            if len(s.targets) != 1:
                self.err(s, 'chained assignment')
            t = s.targets[0]
            if isinstance(t, ast.Name):
                return self.assign_name(s, t)
            if isinstance(t, ast.Tuple):
                if len(t.elts) != 2 or not all(isinstance(x, ast.Name) for x in t.elts):
                    self.err(s, 'only `x, y = e` is in the subset')
                rhs = self.expr(s.value)
                return f'SAssign2 {self.var(t.elts[0].id)} {self.var(t.elts[1].id)} ({rhs})'
            if isinstance(t, ast.Subscript) and self.ref(t.value) == ('attr', 'reader', 'memory'):
                return f'SMemSet ({self.expr(t.slice)}) ({self.expr(s.value)})'
            if self.ref(t) == ('attr', 'stats', 'op_counter'):
                return f'SSetOpCounter ({self.expr(s.value)})'
            if self.ref(t) == ('attr', 'stats', 'detailed_statistics') and isinstance(s.value, ast.Constant) \
                    and s.value.value is False:
                return self.drop(s, 'R5')
            self.err(s, 'assignment target outside the subset')
        if isinstance(s, ast.AugAssign):
            if not isinstance(s.target, ast.Name) or type(s.op) not in BINOPS:
                self.err(s, 'augmented assignment outside the subset')
            if s.target.id not in self.vars:
                self.err(s, 'augmented assignment of an unknown variable')
            return f'SAug {self.var(s.target.id)} {BINOPS[type(s.op)]} ({self.expr(s.value)})'
        if isinstance(s, ast.If):
            r4 = self.r4_use(s)
            if r4 is not None:
                return r4
            c = self.expr(s.test)
            a = self.block(s.body, sub)
            b = self.block(s.orelse, sub)
            return f'SIf ({c})\n{" " * sub}({a})\n{" " * sub}({b})'
        if isinstance(s, ast.Return):
            if s.value is None:
                self.err(s, 'bare return')
            return f'SReturn ({self.expr(s.value)})'
        if isinstance(s, ast.Raise):
            e = s.exc
            if s.cause is None and isinstance(e, ast.Call) and isinstance(e.func, ast.Name) and \
                    e.func.id == 'FlipJumpRuntimeMemoryException' and len(e.args) == 2 and not e.keywords:
                return f'SRaiseMem ({self.expr(e.args[0])}) ({self.expr(e.args[1])})'
            self.err(s, 'raise outside the subset')
        if isinstance(s, ast.Try):
            if s.finalbody or s.orelse or len(s.handlers) != 1:
                self.err(s, 'only try/except with one handler is in the subset here')
            h = s.handlers[0]
            if h.name is not None or not isinstance(h.type, ast.Name) or h.type.id not in EXN_CLASSES:
                self.err(s, 'except clause outside the subset')
            body = self.block(s.body, sub)
            handler = self.block(h.body, sub)
            return f'STry ({body})\n{" " * sub}{EXN_CLASSES[h.type.id]}\n{" " * sub}({handler})'
        if isinstance(s, ast.With):     # R3
            if len(s.items) != 1 or s.items[0].optional_vars is not None or \
                    self.ref(s.items[0].context_expr) != ('attr', 'stats', 'pause_timer'):
                self.err(s, 'with statement outside the subset')
            return self.block(s.body, ind)
        if isinstance(s, ast.For):
            t = s.target
            if s.orelse or self.ref(s.iter) != ('attr', 'reader', 'zeros_boundaries') or not isinstance(t, ast.Tuple) \
                    or len(t.elts) != 2 or not all(isinstance(x, ast.Name) for x in t.elts):
                self.err(s, 'for loop outside the subset')
            x, y = self.var(t.elts[0].id), self.var(t.elts[1].id)
            return f'SForZB {x} {y}\n{" " * sub}({self.block(s.body, sub)})'
        self.err(s, f'statement node {type(s).__name__} outside the subset')

    def assign_name(self, s, t):
        name, v = t.id, s.value
        once = self.store_count.get(name) == 1 and name not in self.vars and self.in_prelude and self.depth == 1
        r = self.ref(v)
        if r is not None and r[0] == 'attr' and (r[1], r[2]) in ALIASABLE:       # R2
            if not once:
                self.err(s, 'alias of an object attribute that is assigned more than once')
            self.alias[name] = r
            return self.drop(s, 'R2')
        # R4:  x = L.append if L is not None else None
        if isinstance(v, ast.IfExp):
            tst = v.test
            ok = (once and isinstance(v.body, ast.Attribute) and v.body.attr == 'append' and
                  self.ref(v.body.value) == ('attr', 'stats', 'last_ops_addresses') and
                  isinstance(v.orelse, ast.Constant) and v.orelse.value is None and
                  isinstance(tst, ast.Compare) and len(tst.ops) == 1 and isinstance(tst.ops[0], ast.IsNot) and
                  self.ref(tst.left) == ('attr', 'stats', 'last_ops_addresses') and
                  isinstance(tst.comparators[0], ast.Constant) and tst.comparators[0].value is None)
            if not ok:
                self.err(s, 'conditional expression outside the subset')
            self.alias[name] = ('hist_append',)
            return self.drop(s, 'R4')
        return f'SAssign {self.var(name)} ({self.expr(v)})'

    def r4_use(self, s):
        """if x is not None: x(e)   with x the R4 alias"""
        t = s.test
        if not (isinstance(t, ast.Compare) and len(t.ops) == 1 and isinstance(t.ops[0], (ast.Is, ast.IsNot))):
            return None
        if not (self.ref(t.left) == ('hist_append',) and isinstance(t.ops[0], ast.IsNot) and
                isinstance(t.comparators[0], ast.Constant) and t.comparators[0].value is None and not s.orelse and
                len(s.body) == 1 and isinstance(s.body[0], ast.Expr) and isinstance(s.body[0].value, ast.Call)):
            self.err(s, '`is` test outside rule R4')
        c = s.body[0].value
        if self.ref(c.func) != ('hist_append',) or len(c.args) != 1 or c.keywords:
            self.err(s, 'body of the `is not None` test outside rule R4')
        return f'SExpr (ECall1 P_register_op_address ({self.expr(c.args[0])}))'


class Translator:
    def __init__(self, repo):
        self.repo = Path(repo)
        self.files = {'reader': 'flipjump/fjm/fjm_reader.py', 'run': 'flipjump/interpreter/fjm_run.py',
                      'consts': 'flipjump/fjm/fjm_consts.py', 'classes': 'flipjump/utils/classes.py'}
        self.trees = {k: ast.parse((self.repo / p).read_text(), filename=p) for k, p in self.files.items()}
        self.garbage_enum = self.int_enum('reader', 'GarbageHandling')
        self.cause_enum = self.int_enum('classes', 'TerminationCause')
        self.defs = {}       # coq fname -> (file key, FunctionDef, is_method)
        reader_cls = self.find(self.trees['reader'].body, ast.ClassDef, 'Reader', 'reader')
        for py, coq in READER_METHODS.items():
            self.defs[coq] = ('reader', self.find(reader_cls.body, ast.FunctionDef, py, 'reader'), True)
        for py, coq in RUN_FUNCS.items():
            self.defs[coq] = ('run', self.find(self.trees['run'].body, ast.FunctionDef, py, 'run'), False)
        for py, coq in CONST_FUNCS.items():
            self.defs[coq] = ('consts', self.find(self.trees['consts'].body, ast.FunctionDef, py, 'consts'), False)
        self.loops = {n: self.find(self.trees['run'].body, ast.FunctionDef, n, 'run') for n in ('_run_featured', '_run_fast')}
        self._sig = {}

    def find(self, body, kind, name, key):
        hits = [n for n in body if isinstance(n, kind) and n.name == name]
        if len(hits) != 1:
            raise GenError(f'{self.files[key]}: expected exactly one {kind.__name__} {name}, found {len(hits)}')
        if getattr(hits[0], 'decorator_list', None):
            raise GenError(f'{self.files[key]}:{hits[0].lineno}: {name} is decorated')
        return hits[0]

    def int_enum(self, key, cls):
        node = self.find(self.trees[key].body, ast.ClassDef, cls, key)
        out = {}
        for t in node.body:
            if isinstance(t, ast.Assign) and len(t.targets) == 1 and isinstance(t.targets[0], ast.Name) and \
                    isinstance(t.value, ast.Constant) and isinstance(t.value.value, int):
                out[t.targets[0].id] = t.value.value
        if not out:
            raise GenError(f'{self.files[key]}: enum {cls} has no integer members')
        return out

    def new_fn(self, coq):
        key, node, is_method = self.defs[coq]
        return Fn(self, self.files[key], node, coq[2:], is_method)

    def signature(self, coq):
        """roles of the parameters of a translated function (None = a value parameter)"""
        if coq not in self._sig:
            self._sig[coq] = [role for _, role in self.new_fn(coq).params]
        return self._sig[coq]

    # ---- output -----------------------------------------------------------------------------
    def emit_fn(self, fn, lines):
        for name, i in fn.vars.items():
            lines.append(f'Notation v_{fn.coq_name}_{name} := ({i}%positive) (only parsing).')

    def generate(self):
        out = []
        notes = []
        table = []
        for coq in list(READER_METHODS.values()) + list(CONST_FUNCS.values()) + list(RUN_FUNCS.values()):
            fn = self.new_fn(coq)
            body = fn.block(fn.node.body, 2)
            chunk = []
            self.emit_fn(fn, chunk)
            chunk.append(f'(* {fn.file}:{fn.node.lineno}  def {fn.node.name} *)')
            chunk.append(f'Definition src_{fn.coq_name} : stmt :=\n  {body}.')
            params = '; '.join(f'v_{fn.coq_name}_{n}' for n, role in fn.params if role is None)
            table.append(f'  | {coq} => Some ([{params}], src_{fn.coq_name})')
            out.append('\n'.join(chunk))
            notes += [(fn.file, *d) for d in fn.dropped]
        for py in ('_run_featured', '_run_fast'):
            node = self.loops[py]
            fn = Fn(self, self.files['run'], node, py[1:], False)
            stmts = list(node.body)
            if stmts and isinstance(stmts[0], ast.Expr) and isinstance(stmts[0].value, ast.Constant):
                stmts = stmts[1:]
            last = stmts[-1] if stmts else None
            final = None
            if isinstance(last, ast.Try) and not last.handlers and not last.orelse and len(last.body) == 1 and last.finalbody:
                final, last = last.finalbody, last.body[0]         # try: while True: ... finally: ...
            if not (isinstance(last, ast.While) and isinstance(last.test, ast.Constant) and last.test.value is True
                    and not last.orelse):
                raise GenError(f'{fn.file}:{node.lineno}: {py} does not end with `while True:` (optionally inside try/finally)')
            fn.in_prelude = True
            prelude = fn.block(stmts[:-1], 2)
            fn.in_prelude = False
            body = fn.block(last.body, 2)
            fin = fn.block(final, 2) if final is not None else 'SPass'
            chunk = []
            self.emit_fn(fn, chunk)
            chunk.append(f'(* {fn.file}:{node.lineno}  def {py}: statements before the loop *)')
            chunk.append(f'Definition src_{fn.coq_name}_prelude : stmt :=\n  {prelude}.')
            chunk.append(f'(* {fn.file}:{last.lineno}  body of `while True:` *)')
            chunk.append(f'Definition src_{fn.coq_name}_body : stmt :=\n  {body}.')
            chunk.append(f'(* the `finally:` clause around the loop (SPass when there is none) *)')
            chunk.append(f'Definition src_{fn.coq_name}_finally : stmt :=\n  {fin}.')
            params = '; '.join(f'v_{fn.coq_name}_{n}' for n, role in fn.params if role is None)
            chunk.append(f'Definition src_{fn.coq_name}_params : list ident := [{params}].')
            out.append('\n'.join(chunk))
            notes += [(fn.file, *d) for d in fn.dropped]
        head = ['(* generated from the current source by harness/fjverif/gen_facts_engpy.py - do not edit.',
                '   IR of coq/Model/PyIR.v; variable ids are per function, in order of first appearance (Notation v_<function>_<name>).',
                '   Statements that produce no IR (rules R2-R5 of the translator, docstrings):']
        for f, line, text, rule in notes:
            if rule != 'docstring':
                head.append(f'     {f}:{line}  [{rule}]  {text}'.replace('*)', '* )').replace('(*', '( *'))
        head.append('*)')
        head.append('From FJ Require Import Lib.Base Model.PyIR.')
        head.append('Local Open Scope N_scope.')
        text = '\n'.join(head) + '\n\n' + '\n\n'.join(out) + '\n\n'
        text += 'Definition src_program : program := fun f =>\n  match f with\n' + '\n'.join(table) + '\n  | _ => None\n  end.\n'
        text += f'Definition src_garbage_stop : N := {self.garbage_enum.get("Stop", "garbage_stop_missing")}.\n'
        for k, v in self.cause_enum.items():
            text += f'Definition src_cause_{k} : N := {v}.\n'
        return text


def generate(repo):
    try:
        return Translator(repo).generate()
    except (OSError, SyntaxError, KeyError) as e:
        raise GenError(f'source unreadable: {e!r}')


def stub(msg):
    return '(* translator failed closed: ' + msg.replace('*)', '* )') + ' *)\nDefinition gen_facts_unavailable := tt.\n'


def write(repo=None):
    from . import framework as fw
    text = generate(repo or fw.REPO)
    fw.write_if_changed(fw.COQ / 'Gen' / 'Facts_EngPy.v', text)
    return True


if __name__ == '__main__':
    import sys
    print(generate(sys.argv[1] if len(sys.argv) > 1 else '/repo'))
