"""macroGen: generator of macro programs for C03 (macro expansion is hygienic inlining).

A Program is built as STRUCTURE first (the generator knows what every spelled name is meant to denote) and rendered to
.fj source text afterwards.  The structure is what harness/fjverif/inliner.py inlines - with its own implementation of
the language's name rules - so the real parser/preprocessor are compared with something that does not depend on them.

What is generated (all sizes small, names drawn from tiny pools so that they collide on purpose):
  * nested namespaces, re-opened several times; definitions and top-level statements interleaved
  * macros in levels (a macro calls only lower levels: nesting depth <= 6), arity overloading, same base name in
    different namespaces, calls spelled bare / absolute `a.b.m` / relative `.m`, `..b.m`
  * parameter kinds: 'v' (any value), 'n' (a small count, used for `rep` counts and `pad`), 'd' (a label that the macro
    DECLARES, directly `p:` or by passing it on to a callee's 'd' parameter)
  * local `@` labels (declared directly or by a callee), global `<` lists, extern `>` labels (macro expanded once)
  * parameters / locals referred to under the alias spellings `.p`, `N.p`, `..M.p` inside namespace N
  * global labels named like parameters / locals / iterators of OTHER macros, passed down as arguments
  * `rep(n, i)` with n in 0..3 (literal, 'n' parameter, outer iterator, small arithmetic), the iterator used in
    arithmetic in the arguments, rep inside rep with the same iterator name, iterator named like a parameter (shadowing)
  * `$`, wflip, pad, segment, reserve
  * directed families: offset chains `((x + BIG) - c1) - c2 ...` over a parameter / local / label inside a body, and an
    argument forwarded through 2-4 macro levels each applying `+ c`, `- c`, `* c`, `<< c`, `^ c` (last level also
    `& c`, `c - x`), the base being a forward / backward label, a constant, a parameter or a local of the caller
  * directed family: `rep` whose count evaluates to 0 (literal, constant, macro parameter, comparison) of a callee that
    is NOT defined (unknown name, or a defined name with another arity), at top level, in namespaces, inside macros,
    inside an outer rep: it contributes nothing and the program must assemble
  * a small share of deliberately broken programs (unknown macro, wrong arity, nesting deeper than the allowed depth,
    a number passed where a label is declared, extern macro expanded twice, unresolvable rep count)

Source expression: int | ('n', spelled) | ('op', opstr, [args]);  never an operator node whose operands are all literals
(the parser would fold it and the structures would no longer be comparable node by node).
"""

IDS = ['a', 'b', 'c', 'd', 'i', 'j', 'x', 'y', 'z', 'p', 'q']
ITERS = ['i', 'j', 'd', 'x']
MACRO_BASES = ['m', 'k', 'f', 'g', 'a', 'x', 'i']
NS_NAMES = ['a', 'b', 'n', 'x', 'm']
BINOPS = ['+', '+', '+', '*', '|', '^', '&', '<<', '>>', '<', '==', '!=', '>=', '%', '/', '-', '&&', '||']


class Program:
    def __init__(self):
        self.w = 64
        self.units = []        # ('def', macro) | ('stmt', ns_path, stmt) in textual order
        self.macros = {}       # (full_name, arity) -> macro dict {'ns','base','params','kinds','locals','body',...}
        self.depth = 900       # max_recursion_depth to assemble with
        self.tags = set()
        self.broken = None     # kind of deliberate defect, or None
        self.consts = {}       # full name -> value of the constants `X = value` (defined first in the source)

    @property
    def main(self):
        return [(u[1], u[2]) for u in self.units if u[0] == 'stmt']


# ---- spelling of names -----------------------------------------------------------------------------------------------

def spellings(full, ns):
    """all ways to write the dotted name `full` from inside namespace `ns`"""
    parts = full.split('.')
    out = [full]                               # absolute (no leading dot): taken as written
    for t in range(len(ns) + 1):
        if ns[:t] == parts[:t] and len(parts) > t:
            out.append('.' * (len(ns) - t + 1) + '.'.join(parts[t:]))
    return out


def spell(rng, full, ns, tags=None):
    sp = rng.choice(spellings(full, ns))
    if tags is not None and sp.startswith('.'):
        tags.add('relative-name' if sp.startswith('..') else 'dot-name')
    return sp


# ---- expressions -----------------------------------------------------------------------------------------------------

def is_lit(e):
    return isinstance(e, int)


def mk_op(rng, op, args):
    """never all-literal operands"""
    if all(is_lit(a) for a in args):
        return args[0]
    return ('op', op, list(args))


class Scope:
    """what a body may refer to, and the bookkeeping the parser's label validation needs"""

    def __init__(self, gen, ns, params=(), kinds=(), locals_=()):
        self.gen = gen
        self.ns = list(ns)
        self.params = list(params)
        self.kinds = dict(zip(params, kinds))
        self.locals = list(locals_)
        self.bare_used = set()          # params/locals used under their plain name
        self.alias_used = set()         # params/locals used under N.p
        self.globals_used = set()       # full names of global labels used
        self.in_macro = bool(params or locals_) or False
        self.iter = None

    def bound(self):
        return set(self.params) | set(self.locals)

    def keys(self):
        ks = set(self.bound())
        if self.ns and self.in_macro:
            ks |= {'.'.join(self.ns + [k]) for k in self.bound()}
        return ks


class Gen:
    def __init__(self, rng):
        self.rng = rng
        self.prog = Program()
        self.globals = []          # full names of global labels (declared somewhere at top level)
        self.level_macros = {}     # level -> [macro]
        self.namespaces = [[]]

    # -- leaves
    def name_leaf(self, sc, allow_dollar, kinds=('v', 'n', 'd', 'l', 'g', 'it')):
        """a name that denotes something in scope; returns ('n', spelled) or None"""
        rng = self.rng
        cands = []
        for p in sc.params:
            if sc.kinds[p] in kinds:
                cands.append(('b', p))
        if 'l' in kinds:
            cands += [('b', l) for l in sc.locals]
        if 'g' in kinds:
            cands += [('g', g) for g in self.globals if g not in sc.keys()]
        if sc.iter is not None and 'it' in kinds:
            cands += [('it', sc.iter)] * 3
        if allow_dollar:
            cands.append(('$', '$'))
        if not cands:
            return None
        kind, x = rng.choice(cands)
        if kind == '$':
            return ('n', '$')
        if kind == 'it':
            return ('n', x)
        if kind == 'g':
            if x == sc.iter:          # inside rep(n, i) every spelling that resolves to `i` is the iterator
                return None
            sps = spellings(x, sc.ns)
            if sc.in_macro:
                sc.globals_used.add(x)
            sp = rng.choice(sps)
            if sp.startswith('.'):
                self.prog.tags.add('relative-name' if sp.startswith('..') else 'dot-name')
            return ('n', sp)
        # a parameter or local: plain, or under its namespace alias
        can_bare = x != sc.iter
        can_alias = bool(sc.ns) and sc.in_macro
        if can_alias and (not can_bare or rng.random() < 0.3):
            sc.alias_used.add(x)
            self.prog.tags.add('alias-spelling')
            full = '.'.join(sc.ns + [x])
            sp = rng.choice([s for s in spellings(full, sc.ns)])
            return ('n', sp)
        if not can_bare:
            return None
        sc.bare_used.add(x)
        return ('n', x)

    def value(self, sc, depth=0, allow_dollar=False):
        rng = self.rng
        r = rng.random()
        if depth >= 2 or r < 0.45:
            if rng.random() < 0.3:
                return rng.choice([0, 1, 2, 3, 5, 7, 64, 128, 200, 0x100])
            leaf = self.name_leaf(sc, allow_dollar)
            return leaf if leaf is not None else rng.randrange(1, 300)
        if r < 0.50 and depth == 0:
            # an offset chain over one name: ((x + BIG) - c1) - c2 ..., same operator twice in a row on purpose
            leaf = self.name_leaf(sc, False, kinds=('v', 'd', 'l', 'g'))
            if leaf is not None:
                self.prog.tags.add('offset-chain')
                return self.offset_chain(leaf, rng.choice([2, 2, 3, 4]))
        if r < 0.52:
            a = self.value(sc, depth + 1, allow_dollar)
            return a if is_lit(a) else ('op', '#', [a])
        if r < 0.6:
            c = self.value(sc, depth + 1, allow_dollar)
            a = self.value(sc, depth + 1, allow_dollar)
            b = self.value(sc, depth + 1, allow_dollar)
            return mk_op(rng, '?:', [c, a, b])
        op = rng.choice(BINOPS)
        a = self.value(sc, depth + 1, allow_dollar)
        if op in ('<<', '>>'):
            b = rng.choice([0, 1, 2, 3])
        elif op in ('%', '/'):
            b = rng.choice([1, 2, 3, 7, 64])
        elif op == '-':
            b = rng.choice([0, 1, 2])
            a = ('op', '+', [a, 1000]) if not is_lit(a) else a + 1000
        elif op == '*':
            b = rng.choice([1, 2, 3])
        else:
            b = self.value(sc, depth + 1, allow_dollar)
        return mk_op(rng, op, [a, b])

    def chain_op(self, e, last=False):
        """one step of an offset chain applied to the (symbolic) expression e"""
        rng = self.rng
        w = self.prog.w
        c = rng.choice([0, 1, 2, w, 2 * w, 64, 128, 192])
        kinds = ['-', '-', '-', '+', '+', '*', '<<', '^']
        if last:
            kinds += ['&', 'c-']
        k = rng.choice(kinds)
        if k == '*':
            return ('op', '*', [e, rng.choice([1, 2])])
        if k == '<<':
            return ('op', '<<', [e, rng.choice([0, 1])])
        if k == '&':
            return ('op', '&', [e, rng.choice([0xfff, 0xff00, w - 1])])
        if k == 'c-':
            return ('op', '-', [1 << 22 if w >= 32 else 60000, e])
        return ('op', k, [e, c])

    def offset_chain(self, base, n):
        e = ('op', '+', [base, 1 << 14])           # keeps the value positive under the subtractions that follow
        for i in range(n):
            e = self.chain_op(e, last=(i == n - 1))
        return e

    # -- an argument forwarded through several macro levels, each applying one operator to it
    def chain_family(self):
        """-> main statements [(ns, stmt)]; defines the macros fw<depth>_<j> in self.prog.macros"""
        rng = self.rng
        prog = self.prog
        prog.tags.add('forwarded-argument-chain')
        out = []
        tops = []
        for fam in range(rng.choice([1, 2])):
            levels = rng.choice([2, 3, 4])
            below = None
            for j in range(levels):
                ns = rng.choice(self.namespaces)
                base = f'fw{fam}l{j}'
                full = '.'.join(ns + [base])
                x = rng.choice(IDS)
                arg = self.chain_op(('n', x), last=(j == 0))
                if below is None:
                    body = [rng.choice([{'t': 'fj', 'f': None, 'j': arg}, {'t': 'fj', 'f': arg, 'j': None},
                                        {'t': 'wflip', 'a': arg, 'v': 1, 'r': None}])]
                else:
                    body = [{'t': 'call', 'name': spell(rng, below['full'], ns, prog.tags), 'args': [arg]}]
                    if rng.random() < 0.4:
                        body.append({'t': 'fj', 'f': None, 'j': self.chain_op(self.chain_op(('n', x)))})
                m = {'ns': list(ns), 'base': base, 'full': full, 'params': [x], 'kinds': ['v'], 'locals': [], 'body': body,
                     'globals': [], 'externs': [], 'level': 99}
                prog.macros[(full, 1)] = m
                below = m
            tops.append(below)
        # a wrapper that forwards its own parameter and its own local label
        ns = rng.choice(self.namespaces)
        y, l = rng.sample(IDS, 2)
        t = rng.choice(tops)
        wrap = {'ns': list(ns), 'base': 'fww', 'full': '.'.join(ns + ['fww']), 'params': [y], 'kinds': ['v'], 'locals': [l],
                'body': [{'t': 'call', 'name': spell(rng, t['full'], ns, prog.tags), 'args': [('op', '+', [('n', y), 1 << 14])]},
                         {'t': 'label', 'name': l},
                         {'t': 'call', 'name': spell(rng, t['full'], ns, prog.tags), 'args': [('op', '+', [('n', l), 1 << 14])]}],
                'globals': [], 'externs': [], 'level': 99}
        prog.macros[(wrap['full'], 1)] = wrap
        for _ in range(rng.choice([2, 3, 4])):
            ns = rng.choice(self.namespaces)
            t = rng.choice(tops + [wrap])
            r = rng.random()
            if r < 0.7 and self.globals:
                g = rng.choice(self.globals)                       # declared somewhere: before or after this call
                base = ('op', '+', [('n', spell(rng, g, ns, prog.tags)), 1 << 14])
            elif r < 0.85:
                base = rng.choice([1 << 14, 20000, 4096 + 64])
            else:
                base = ('op', '+', [('n', spell(rng, rng.choice(self.globals), ns, prog.tags)), 1 << 15]) if self.globals else 1 << 14
            out.append((ns, {'t': 'call', 'name': spell(rng, t['full'], ns, prog.tags), 'args': [base]}))
        return out

    def count(self, sc):
        """a small count: literal 0..3, an 'n' parameter, the iterator, +1 / # of those"""
        rng = self.rng
        r = rng.random()
        leaf = self.name_leaf(sc, False, kinds=('n', 'it')) if r < 0.55 else None
        if leaf is None:
            return rng.choice([0, 1, 1, 2, 2, 3])
        r = rng.random()
        if r < 0.15:
            return ('op', '+', [leaf, 1])
        if r < 0.25:
            return ('op', '#', [leaf])
        if r < 0.32:
            return ('op', '?:', [leaf, 2, 1])
        return leaf

    # -- statements
    def plain_stmt(self, sc):
        rng = self.rng
        r = rng.random()
        if r < 0.62:
            f = None if rng.random() < 0.25 else self.value(sc, allow_dollar=True)
            j = None if rng.random() < 0.3 else self.value(sc, allow_dollar=True)
            return {'t': 'fj', 'f': f, 'j': j}
        if r < 0.9:
            a = self.value(sc, 1, allow_dollar=True)
            v = rng.choice([0, 1, 3, 0x81, 0xff]) if rng.random() < 0.5 else self.value(sc, 1)
            ret = None if rng.random() < 0.5 else self.value(sc, 1, allow_dollar=True)
            self.prog.tags.add('wflip')
            return {'t': 'wflip', 'a': a, 'v': v, 'r': ret}
        self.prog.tags.add('pad')
        e = rng.choice([1, 2, 4])
        if rng.random() < 0.3:
            c = self.count(sc)
            e = ('op', '+', [c, 1]) if not is_lit(c) else c + 1
        return {'t': 'pad', 'e': e}

    def pick_callee(self, max_level, want_d=None, rep=False):
        cands = []
        for lv in range(0, max_level):
            for m in self.level_macros.get(lv, []):
                if m.get('once'):
                    continue
                nd = m['kinds'].count('d')
                if rep and nd:
                    continue
                if want_d is not None and (nd == 0 or nd > want_d):
                    continue
                cands.append(m)
        return self.rng.choice(cands) if cands else None

    def call_stmt(self, sc, callee, need_decl, new_label):
        """a call; for each 'd' parameter pass a name from need_decl (popped) or a new label from new_label()"""
        rng = self.rng
        args = []
        for p, kd in zip(callee['params'], callee['kinds']):
            if kd == 'd':
                x = need_decl.pop() if need_decl else new_label()
                args.append(x)
            elif kd == 'n':
                args.append(self.count(sc))
            else:
                args.append(self.value(sc, 1))
        self.prog.tags.add('label-argument' if 'd' in callee['kinds'] else 'call')
        return {'t': 'call', 'name': spell(rng, callee['full'], sc.ns, self.prog.tags), 'args': args}

    def rep_stmt(self, sc, callee):
        rng = self.rng
        it = rng.choice(ITERS)
        times = self.count(sc)            # the count cannot see the iterator
        old = sc.iter
        sc.iter = it
        if it in sc.bound():
            self.prog.tags.add('iterator-shadows-parameter')
        args = [self.count(sc) if kd == 'n' else self.value(sc, 1) for kd in callee['kinds']]
        sc.iter = old
        self.prog.tags.add('rep')
        if times == 0:
            self.prog.tags.add('rep-0')
        return {'t': 'rep', 'times': times, 'iter': it, 'name': spell(rng, callee['full'], sc.ns, self.prog.tags),
                'args': args}

    # -- macros
    def gen_macro(self, level):
        rng = self.rng
        ns = rng.choice(self.namespaces)
        for _ in range(40):
            base = rng.choice(MACRO_BASES)
            nparams = rng.choice([0, 1, 1, 2, 2, 3])
            full = '.'.join(ns + [base])
            if (full, nparams) not in self.prog.macros:
                break
        else:
            return None
        if any(k[0] == full for k in self.prog.macros):
            self.prog.tags.add('arity-overload')
        names = rng.sample(IDS, nparams + 2)
        params = names[:nparams]
        kinds = [rng.choice(['v', 'v', 'v', 'n', 'd']) for _ in params]
        locals_ = names[nparams:nparams + rng.choice([0, 0, 1, 2])]
        sc = Scope(self, ns, params, kinds, locals_)
        sc.in_macro = True
        need_decl = [p for p, k in zip(params, kinds) if k == 'd'] + list(locals_)
        rng.shuffle(need_decl)
        body = []

        def new_label():
            # a new local, declared by the callee it is passed to; it must not take a name already used as a global
            for _ in range(50):
                x = rng.choice(IDS)
                if x not in sc.bound() and x not in sc.globals_used and '.'.join(ns + [x]) not in sc.globals_used:
                    break
            else:
                x = f'l{len(sc.locals)}'
            sc.locals.append(x)
            sc.bare_used.add(x)
            return ('n', x)

        def decl_arg():
            x = need_decl.pop()
            # mostly the plain name; sometimes the alias
            if sc.ns and rng.random() < 0.2:
                sc.alias_used.add(x)
                self.prog.tags.add('alias-spelling')
                return ('n', rng.choice(spellings('.'.join(sc.ns + [x]), sc.ns)))
            sc.bare_used.add(x)
            return ('n', x)

        nstmts = rng.choice([1, 2, 2, 3, 4, 5])
        for _ in range(nstmts):
            r = rng.random()
            if level > 0 and r < 0.4:
                callee = self.pick_callee(level)
                if callee is not None:
                    body.append(self._call_in_macro(sc, callee, need_decl, decl_arg, new_label))
                    continue
            if level > 0 and r < 0.6:
                callee = self.pick_callee(level, rep=True)
                if callee is not None:
                    body.append(self.rep_stmt(sc, callee))
                    continue
            body.append(self.plain_stmt(sc))
        # declaring sites for what is still undeclared
        declared_here = set()
        while need_decl:
            if level > 0 and rng.random() < 0.4:
                callee = self.pick_callee(level, want_d=len(need_decl))
                if callee is not None:
                    body.insert(rng.randrange(len(body) + 1),
                                self._call_in_macro(sc, callee, need_decl, decl_arg, new_label))
                    continue
            x = need_decl.pop()
            declared_here.add(x)
            body.insert(rng.randrange(len(body) + 1), {'t': 'label', 'name': x})
        # the parser wants every parameter/local used under its plain name, or declared here
        for x in list(params) + list(sc.locals):
            if x not in sc.bare_used and x not in declared_here:
                sc.bare_used.add(x)
                if sc.kinds.get(x) == 'n':
                    body.append({'t': 'pad', 'e': ('op', '+', [('n', x), 1])})
                else:
                    body.append({'t': 'fj', 'f': None, 'j': ('n', x)})
        # `<` list: the globals used, and the aliases N.p of names not declared by a label statement here
        glob = [spell(rng, g, ns) for g in sorted(sc.globals_used)]
        for x in sorted(sc.alias_used):
            if x not in declared_here:
                glob.append(rng.choice(spellings('.'.join(ns + [x]), ns)))
        rng.shuffle(glob)
        m = {'ns': list(ns), 'base': base, 'full': full, 'params': params, 'kinds': kinds, 'locals': list(sc.locals),
             'body': body, 'globals': glob, 'externs': [], 'level': level}
        self.prog.macros[(full, nparams)] = m
        self.level_macros.setdefault(level, []).append(m)
        return m

    def _call_in_macro(self, sc, callee, need_decl, decl_arg, new_label):
        rng = self.rng
        args = []
        for kd in callee['kinds']:
            if kd == 'd':
                args.append(decl_arg() if need_decl else new_label())
            elif kd == 'n':
                args.append(self.count(sc))
            else:
                args.append(self.value(sc, 1))
        self.prog.tags.add('label-argument' if 'd' in callee['kinds'] else 'call')
        return {'t': 'call', 'name': spell(rng, callee['full'], sc.ns, self.prog.tags), 'args': args}

    def gen_extern_macro(self):
        rng = self.rng
        ns = rng.choice(self.namespaces)
        for _ in range(40):
            base = rng.choice(MACRO_BASES)
            full = '.'.join(ns + [base])
            if (full, 0) not in self.prog.macros:
                break
        else:
            return None
        for _ in range(40):
            e = rng.choice(IDS)
            # (the parser compares the bare extern name with the global list textually)
            if '.'.join(ns + [e]) not in self.globals and e not in self.globals:
                break
        else:
            return None
        sc = Scope(self, ns)
        sc.in_macro = True
        body = [self.plain_stmt(sc) for _ in range(rng.choice([0, 1, 2]))]
        body.insert(rng.randrange(len(body) + 1), {'t': 'label', 'name': e})
        m = {'ns': list(ns), 'base': base, 'full': full, 'params': [], 'kinds': [], 'locals': [], 'body': body,
             'globals': [spell(rng, g, ns) for g in sorted(sc.globals_used)], 'externs': [e], 'level': 0, 'once': True}
        self.prog.macros[(full, 0)] = m
        self.globals.append('.'.join(ns + [e]))
        self.prog.tags.add('extern')
        return m

    # -- rep with a count of 0 and an undefined callee
    def undefined_callee(self, ns):
        """(spelled name, number of arguments) of a macro that is not defined for that name/arity"""
        rng = self.rng
        defined = [m for m in self.prog.macros.values()]
        if defined and rng.random() < 0.4:
            m = rng.choice(defined)
            for k in rng.sample(range(0, 5), 5):
                if (m['full'], k) not in self.prog.macros:
                    self.prog.tags.add('rep0-other-arity')
                    return spell(rng, m['full'], ns, self.prog.tags), k
        full = '.'.join(rng.choice(self.namespaces) + [rng.choice(['nosuch', 'opt', 'trace'])])
        k = rng.randrange(0, 3)
        while (full, k) in self.prog.macros:
            full += '_'
        return spell(rng, full, ns, self.prog.tags), k

    def rep0_family(self):
        """-> main statements [(ns, stmt)]; defines the constant ZERO and helper macros in self.prog.macros"""
        rng = self.rng
        prog = self.prog
        prog.consts['ZERO'] = 0
        prog.tags.add('rep0-undefined-callee')

        def args_for(k, names):
            return [rng.choice(names + [1, 7]) for _ in range(k)]

        out = []
        helpers = {}
        for base in rng.sample(['rz0', 'rz1', 'rz2'], rng.choice([1, 2, 3])):
            ns = rng.choice(self.namespaces)
            full = '.'.join(ns + [base])
            if base == 'rz0':        # count = a parameter that the callers bind to 0
                sp, k = self.undefined_callee(ns)
                it = rng.choice(ITERS)
                body = [{'t': 'rep', 'times': ('n', 'n'), 'iter': it, 'name': sp, 'args': args_for(k, [('n', it), ('n', 'v')])},
                        {'t': 'fj', 'f': None, 'j': ('n', 'v')}]
                m = {'params': ['n', 'v'], 'kinds': ['n', 'v']}
            elif base == 'rz1':      # count = a comparison that is false
                sp, k = self.undefined_callee(ns)
                body = [{'t': 'fj', 'f': ('n', 'n'), 'j': None},
                        {'t': 'rep', 'times': ('op', '>', [('n', 'n'), 1]), 'iter': 'j', 'name': sp,
                         'args': args_for(k, [('n', 'j'), ('n', 'n')])}]
                m = {'params': ['n'], 'kinds': ['n']}
            else:                    # count = the constant; and a nested call that binds rz0's count to 0
                sp, k = self.undefined_callee(ns)
                body = [{'t': 'rep', 'times': ('n', 'ZERO'), 'iter': 'i', 'name': sp, 'args': args_for(k, [('n', 'i'), ('n', 'v')])},
                        {'t': 'wflip', 'a': ('n', 'v'), 'v': 1, 'r': None}]
                if 'rz0' in helpers:
                    body.append({'t': 'call', 'name': spell(rng, helpers['rz0']['full'], ns, prog.tags),
                                 'args': [rng.choice([0, ('n', 'ZERO')]), ('n', 'v')]})
                m = {'params': ['v'], 'kinds': ['v']}
            m.update({'ns': list(ns), 'base': base, 'full': full, 'locals': [], 'body': body, 'globals': [], 'externs': [],
                      'level': 99})
            prog.macros[(full, len(m['params']))] = m
            helpers[base] = m
        for _ in range(rng.choice([2, 3, 4, 5])):
            ns = rng.choice(self.namespaces)
            r = rng.random()
            if r < 0.35 or not helpers:
                sp, k = self.undefined_callee(ns)
                it = rng.choice(ITERS)
                times = rng.choice([0, 0, ('n', 'ZERO')])
                out.append((ns, {'t': 'rep', 'times': times, 'iter': it, 'name': sp, 'args': args_for(k, [('n', it)])}))
                continue
            m = rng.choice(list(helpers.values()))
            if m['base'] == 'rz0':
                args = [rng.choice([0, ('n', 'ZERO')]), rng.choice([5, 64, ('n', '$')] if False else [5, 64, 200])]
            elif m['base'] == 'rz1':
                args = [rng.choice([0, 1])]
            else:
                args = [rng.choice([3, 128])]
            name = spell(rng, m['full'], ns, prog.tags)
            if r < 0.6 and m['base'] != 'rz1':
                # from inside an outer rep
                it = rng.choice(ITERS)
                args = [a if i == 0 and m['base'] == 'rz0' else ('n', it) for i, a in enumerate(args)]
                out.append((ns, {'t': 'rep', 'times': rng.choice([1, 2, 3]), 'iter': it, 'name': name, 'args': args}))
            else:
                out.append((ns, {'t': 'call', 'name': name, 'args': args}))
        return out

    # -- whole program
    def build(self):
        rng = self.rng
        prog = self.prog
        prog.w = rng.choice([64, 64, 64, 64, 64, 64, 32, 32, 16])
        # namespaces
        for _ in range(rng.choice([0, 1, 2, 3])):
            parent = rng.choice(self.namespaces)
            if len(parent) < 3:
                nsn = parent + [rng.choice(NS_NAMES)]
                if nsn not in self.namespaces:
                    self.namespaces.append(nsn)
        if len(self.namespaces) > 1:
            prog.tags.add('namespaces')
        # global labels: names from the same pool as parameters and iterators
        label_decls = []                      # (ns, id) declared by a label statement
        pending = []                          # full names to be declared by passing them to a 'd' parameter
        for _ in range(rng.choice([2, 3, 4, 5, 6])):
            ns = rng.choice(self.namespaces)
            x = rng.choice(IDS)
            full = '.'.join(ns + [x])
            if full in self.globals:
                continue
            self.globals.append(full)
            if rng.random() < 0.3:
                pending.append(full)
            else:
                label_decls.append((ns, x))
        # macros, bottom up
        externs = [self.gen_extern_macro() for _ in range(rng.choice([0, 0, 1]))]
        externs = [m for m in externs if m]
        nlevels = rng.choice([1, 2, 2, 3, 3, 4, 5, 6])
        for lv in range(nlevels):
            for _ in range(rng.choice([1, 1, 2, 2, 3]) if lv < 3 else 1):
                self.gen_macro(lv)
        # main statements
        stmts = []                            # (ns, stmt)
        first = {'t': 'fj', 'f': rng.choice([None, 0, 5]), 'j': rng.choice([None, ('n', '$')])}
        n_main = rng.choice([2, 3, 4, 5, 6, 8])

        def new_global(ns):
            def f():
                if pending:
                    full = pending.pop()
                else:
                    for _ in range(100):
                        full = '.'.join(rng.choice(self.namespaces) + [rng.choice(IDS) + rng.choice(['', '1', '2', '_'])])
                        if full not in self.globals:
                            break
                    self.globals.append(full)
                return ('n', spell(rng, full, ns, prog.tags))
            return f

        for _ in range(n_main):
            ns = rng.choice(self.namespaces)
            sc = Scope(self, ns)
            r = rng.random()
            if r < 0.5:
                callee = self.pick_callee(99)
                if callee is not None:
                    stmts.append((ns, self.call_stmt(sc, callee, [], new_global(ns))))
                    continue
            if r < 0.75:
                callee = self.pick_callee(99, rep=True)
                if callee is not None:
                    stmts.append((ns, self.rep_stmt(sc, callee)))
                    continue
            stmts.append((ns, self.plain_stmt(sc)))
        for m in externs:
            ns = rng.choice(self.namespaces)
            stmts.insert(rng.randrange(len(stmts) + 1),
                         (ns, {'t': 'call', 'name': spell(rng, m['full'], ns, prog.tags), 'args': []}))
        if rng.random() < 0.3:
            for ns_, st in self.chain_family():
                stmts.insert(rng.randrange(len(stmts) + 1), (ns_, st))
        if rng.random() < 0.2:
            for ns_, st in self.rep0_family():
                stmts.insert(rng.randrange(len(stmts) + 1), (ns_, st))
        # whatever is still pending is declared by a label statement after all
        for full in pending:
            parts = full.split('.')
            label_decls.append((parts[:-1], parts[-1]))
        del pending[:]
        for ns, x in label_decls:
            stmts.insert(rng.randrange(len(stmts) + 1), (ns, {'t': 'label', 'name': x}))
        stmts.insert(0, ([], first))
        # segment / reserve (not for the narrow widths)
        if prog.w >= 32 and rng.random() < 0.25:
            k = rng.randrange(1, 3)
            pos = rng.randrange(2, len(stmts) + 1)
            start = k << (min(prog.w, 26) - 2)
            stmts.insert(pos, (rng.choice(self.namespaces), {'t': 'segment', 'e': start}))
            prog.tags.add('segment')
        if rng.random() < 0.15:
            pos = rng.randrange(1, len(stmts) + 1)
            stmts.insert(pos, ([], {'t': 'reserve', 'e': 2 * prog.w * rng.choice([1, 2, 5])}))
            prog.tags.add('reserve')
        # interleave definitions and statements
        units = [('stmt', ns, s) for ns, s in stmts]
        defs = [('def', m) for m in prog.macros.values()]
        rng.shuffle(defs)
        for d in defs:
            units.insert(rng.randrange(len(units) + 1), d)
        for name, value in prog.consts.items():       # constants first: they are substituted while parsing
            units.insert(0, ('const', [], name, value))
        prog.units = units
        self.break_something()
        return prog

    def break_something(self):
        """a small share of deliberately broken programs (the model must reproduce the error; no image is compared)"""
        rng = self.rng
        prog = self.prog
        r = rng.random()
        if r > 0.1:
            return
        calls = [i for i, u in enumerate(prog.units) if u[0] == 'stmt' and u[2]['t'] == 'call']
        kind = rng.choice(['unknown', 'arity', 'depth', 'depth0', 'swap', 'extern-twice', 'rep-count', 'layout', 'rep-undefined'])
        if kind == 'layout':
            # statements the preprocessor itself rejects while laying out addresses (the inlined program is rejected alike)
            w = prog.w
            tail = rng.choice([
                [{'t': 'pad', 'e': 0}],
                [{'t': 'reserve', 'e': w}, {'t': 'pad', 'e': 2}],
                [{'t': 'segment', 'e': 5}],
                [{'t': 'reserve', 'e': 3}],
                [{'t': 'reserve', 'e': -w}],
                [{'t': 'reserve', 'e': -3}],
                [{'t': 'pad', 'e': ('n', 'never_declared')}],
                [{'t': 'segment', 'e': ('op', '+', [('n', 'never_declared'), 1])}],
                [{'t': 'reserve', 'e': ('n', 'never_declared')}],
                [{'t': 'segment', 'e': (1 << w) - 4 * w}, {'t': 'fj', 'f': None, 'j': None}, {'t': 'pad', 'e': 5 if w == 32 else 3}],
            ])
            for st in tail:
                prog.units.append(('stmt', [], st))
            prog.broken = kind
            prog.tags.add('broken:layout')
            return
        if kind == 'rep-undefined':
            # the control of the rep-0 family: a positive count of an undefined callee must be rejected
            prog.units.append(('stmt', [], {'t': 'rep', 'times': rng.choice([1, 2, ('op', '>', [5, ('n', '$')])][:2]), 'iter': 'i',
                                            'name': 'nosuch', 'args': [('n', 'i')]}))
            prog.broken = kind
            prog.tags.add('broken:rep-undefined')
            return
        if kind == 'unknown':
            prog.units.insert(rng.randrange(1, len(prog.units) + 1),
                              ('stmt', [], {'t': 'call', 'name': 'nosuch', 'args': [1]}))
        elif kind == 'arity' and calls:
            s = prog.units[rng.choice(calls)][2]
            s['args'] = s['args'] + [7, 8, 9, 10]
        elif kind == 'depth':
            prog.depth = rng.choice([1, 2, 3])
        elif kind == 'depth0':
            prog.depth = 0
        elif kind == 'swap' and calls:
            for i in calls:
                s = prog.units[i][2]
                m = prog.macros.get(self._callee_of(prog.units[i]))
                if m and 'd' in m['kinds']:
                    s['args'][m['kinds'].index('d')] = 5
                    break
            else:
                return
        elif kind == 'extern-twice':
            ext = [m for m in prog.macros.values() if m.get('once')]
            if not ext:
                return
            prog.units.append(('stmt', [], {'t': 'call', 'name': ext[0]['full'], 'args': []}))
        elif kind == 'rep-count':
            cal = [m for m in prog.macros.values() if not m['params'] and not m.get('once')]
            if not cal:
                return
            prog.units.append(('stmt', [], {'t': 'rep', 'times': ('n', 'never_declared'), 'iter': 'i',
                                            'name': cal[0]['full'], 'args': []}))
        else:
            return
        prog.broken = kind
        prog.tags.add('broken:' + kind)

    def _callee_of(self, unit):
        from .inliner import ns_resolve
        _, ns, s = unit
        return ns_resolve(s['name'], ns), len(s['args'])


def generate(rng):
    return Gen(rng).build()


# ---- rendering -------------------------------------------------------------------------------------------------------

def expr_src(e):
    if isinstance(e, int):
        return hex(e) if e > 9 and e % 16 == 0 else str(e)
    if e[0] == 'n':
        return e[1]
    op, args = e[1], e[2]
    if len(args) == 1:
        return f'({op}{expr_src(args[0])})'
    if len(args) == 2:
        return f'({expr_src(args[0])} {op} {expr_src(args[1])})'
    return f'({expr_src(args[0])} ? {expr_src(args[1])} : {expr_src(args[2])})'


def stmt_src(s):
    t = s['t']
    if t == 'fj':
        return f'{"" if s["f"] is None else expr_src(s["f"])};{"" if s["j"] is None else " " + expr_src(s["j"])}'
    if t == 'wflip':
        r = '' if s['r'] is None else ', ' + expr_src(s['r'])
        return f'wflip {expr_src(s["a"])}, {expr_src(s["v"])}{r}'
    if t == 'pad':
        return f'pad {expr_src(s["e"])}'
    if t == 'segment':
        return f'segment {expr_src(s["e"])}'
    if t == 'reserve':
        return f'reserve {expr_src(s["e"])}'
    if t == 'label':
        return f'{s["name"]}:'
    if t == 'call':
        return s['name'] + (' ' + ', '.join(expr_src(a) for a in s['args']) if s['args'] else '')
    if t == 'rep':
        return (f'rep({expr_src(s["times"])}, {s["iter"]}) {s["name"]}'
                + (' ' + ', '.join(expr_src(a) for a in s['args']) if s['args'] else ''))
    raise ValueError(t)


def def_src(m, ind):
    head = f'def {m["base"]}'
    if m['params']:
        head += ' ' + ', '.join(m['params'])
    if m['locals']:
        head += ' @ ' + ', '.join(m['locals'])
    if m['globals']:
        head += ' < ' + ', '.join(m['globals'])
    if m['externs']:
        head += ' > ' + ', '.join(m['externs'])
    lines = [ind + head + ' {']
    lines += [ind + '    ' + stmt_src(s) for s in m['body']]
    lines.append(ind + '}')
    return lines


def _emit(units, depth, rng):
    """-> list of chunks (each a list of lines); at depth 0 every chunk is one top-level element"""
    chunks = []
    i = 0
    ind = '    ' * depth
    while i < len(units):
        u = units[i]
        ns = u[1]['ns'] if u[0] == 'def' else u[1]
        if len(ns) == depth:
            if u[0] == 'const':
                chunks.append([ind + f'{u[2]} = {u[3]}'])
            else:
                chunks.append(def_src(u[1], ind) if u[0] == 'def' else [ind + stmt_src(u[2])])
            i += 1
            continue
        name = ns[depth]
        j = i
        while j < len(units):
            n2 = units[j][1]['ns'] if units[j][0] == 'def' else units[j][1]
            if len(n2) > depth and n2[depth] == name and (j == i or rng.random() < 0.75):
                j += 1
            else:
                break
        inner = _emit(units[i:j], depth + 1, rng)
        lines = [ind + f'ns {name} {{']
        for c in inner:
            lines += c
        lines.append(ind + '}')
        chunks.append(lines)
        i = j
    return chunks


def render(prog, rng):
    """-> list of top-level chunks (strings, each ending with a newline); concatenated they are the one-file program"""
    return ['\n'.join(c) + '\n' for c in _emit(prog.units, 0, rng)]


def split_files(chunks, rng, nfiles):
    """cut the chunk list at random top-level boundaries into nfiles texts (some may be empty)"""
    cuts = sorted(rng.randrange(0, len(chunks) + 1) for _ in range(nfiles - 1))
    bounds = [0] + cuts + [len(chunks)]
    return [''.join(chunks[a:b]) for a, b in zip(bounds, bounds[1:])]
