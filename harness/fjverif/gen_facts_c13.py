"""T-gen for C13: read the cache / global-state layer of the assembler with `ast` and emit coq/Gen/Facts_C13.v.

Fail closed: every function the model transcribes must have exactly the statement shapes recognised here;
anything else raises GenError (the check records a broken tie and writes a stub that makes Tie/C13_tie.v fail).

    python -m fjverif.gen_facts_c13        # (re)writes coq/Gen/Facts_C13.v from fw.REPO
"""
import ast
import subprocess
import sys
from pathlib import Path

from . import framework as fw

OUT = fw.COQ / 'Gen' / 'Facts_C13.v'

# modules whose module-level state the assembly pipeline can touch
SCAN_DIRS = ('assembler', 'utils', 'fjm')
MUTATORS = {'append', 'extend', 'insert', 'pop', 'remove', 'clear', 'add', 'update', 'discard', 'setdefault',
            'popitem', 'sort', 'reverse', 'appendleft', 'popleft', '__setitem__', '__delitem__'}
PROCESS_GLOBAL_CALLS = {'sys.setrecursionlimit', 'sys.getrecursionlimit', 'sys.setswitchinterval', 'os.chdir', 'os.putenv',
                        'os.umask', 'random.seed', 'sys.set_int_max_str_digits', 'locale.setlocale',
                        'sys.settrace', 'sys.setprofile', 'gc.disable', 'gc.enable', 'signal.signal', 'atexit.register'}


class GenError(Exception):
    pass


def need(cond, msg):
    if not cond:
        raise GenError(msg)


def coq_str(s):
    need(all(32 <= ord(c) < 127 for c in s), f'non printable-ASCII text in a fact: {s!r}')
    return '"' + s.replace('"', '""') + '"'


def coq_list(items):
    return '[' + '; '.join(items) + ']'


def coq_strs(xs):
    return coq_list(coq_str(x) for x in xs)


def coq_pairs(ps):
    return coq_list('(' + ', '.join(coq_str(x) for x in p) + ')' for p in ps)


def un(node):
    return ast.unparse(node)


def func(tree, name):
    fs = [n for n in tree.body if isinstance(n, ast.FunctionDef) and n.name == name]
    need(len(fs) == 1, f'expected exactly one top-level def {name}')
    return fs[0]


def body_nodoc(f):
    b = list(f.body)
    if b and isinstance(b[0], ast.Expr) and isinstance(b[0].value, ast.Constant) and isinstance(b[0].value.value, str):
        b = b[1:]
    return b


# ---- _stl_cache_key ------------------------------------------------------------------------------------

def cache_key_facts(tree):
    f = func(tree, '_stl_cache_key')
    params = [a.arg for a in f.args.args]
    need(params == ['input_files', 'prefix_length', 'memory_width', 'warning_as_errors'],
         f'_stl_cache_key parameters changed: {params}')
    b = body_nodoc(f)
    need(len(b) == 3, '_stl_cache_key: expected `files_key = []`, one for-loop, one return')
    need(isinstance(b[0], ast.Assign) and un(b[0]) == 'files_key = []', '_stl_cache_key: first statement is not files_key = []')
    loop = b[1]
    need(isinstance(loop, ast.For) and not loop.orelse, '_stl_cache_key: second statement is not a plain for-loop')
    need(un(loop.target) == '(short_name, file_path)', f'_stl_cache_key: loop target {un(loop.target)}')
    files_slice = un(loop.iter)
    lb = loop.body
    need(len(lb) == 2 and isinstance(lb[0], ast.Try) and isinstance(lb[1], ast.Expr), '_stl_cache_key: loop body shape')
    tr = lb[0]
    need(len(tr.body) == 1 and un(tr.body[0]) == 'file_stat = file_path.stat()' and not tr.orelse and not tr.finalbody,
         '_stl_cache_key: try body is not `file_stat = file_path.stat()`')
    need(len(tr.handlers) == 1 and un(tr.handlers[0].type) == 'OSError' and len(tr.handlers[0].body) == 1
         and un(tr.handlers[0].body[0]) == 'return None', '_stl_cache_key: the stat failure handler is not `except OSError: return None`')
    call = lb[1].value
    need(isinstance(call, ast.Call) and un(call.func) == 'files_key.append' and len(call.args) == 1
         and isinstance(call.args[0], ast.Tuple), '_stl_cache_key: not files_key.append((...))')
    per_file = []
    known = {'short_name': 'short_name', 'str(file_path.resolve())': 'resolved_path',
             'file_stat.st_mtime_ns': 'st_mtime_ns', 'file_stat.st_size': 'st_size'}
    for e in call.args[0].elts:
        s = un(e)
        need(s in known, f'_stl_cache_key: unrecognised per-file key component {s}')
        per_file.append(known[s])
    ret = b[2]
    need(isinstance(ret, ast.Return) and isinstance(ret.value, ast.Tuple), '_stl_cache_key: final return is not a tuple')
    comps = []
    known = {'memory_width': 'memory_width', 'warning_as_errors': 'warning_as_errors', 'tuple(files_key)': 'files'}
    for e in ret.value.elts:
        s = un(e)
        need(s in known, f'_stl_cache_key: unrecognised key component {s}')
        comps.append(known[s])
    return comps, per_file, files_slice


# ---- snapshot / restore --------------------------------------------------------------------------------

def copy_kind(node, base, copier):
    s = un(node)
    if s == f'{copier}({base})':
        return 'copy'
    if s == base:
        return 'share'
    raise GenError(f'unrecognised container expression {s} (expected {copier}({base}) or {base})')


def snapshot_facts(tree):
    f = func(tree, '_snapshot_parser_to_cache')
    need([a.arg for a in f.args.args] == ['parser', 'cache_key'], '_snapshot_parser_to_cache parameters changed')
    b = body_nodoc(f)
    need(len(b) == 1 and isinstance(b[0], ast.Assign) and un(b[0].targets[0]) == '_stl_prefix_cache[cache_key]'
         and isinstance(b[0].value, ast.Tuple) and len(b[0].value.elts) == 3,
         '_snapshot_parser_to_cache: not a single `_stl_prefix_cache[cache_key] = (a, b, c)`')
    e = b[0].value.elts
    return [('consts', copy_kind(e[0], 'parser.consts', 'dict')),
            ('macros', copy_kind(e[1], 'parser.macros', 'dict')),
            ('main_ops', copy_kind(e[2], 'parser.macros[INITIAL_MACRO_NAME].ops', 'list'))]


def restore_facts(tree):
    f = func(tree, '_restore_parser_from_cache')
    need([a.arg for a in f.args.args] == ['parser', 'cached'], '_restore_parser_from_cache parameters changed')
    b = body_nodoc(f)
    need(len(b) == 5, '_restore_parser_from_cache: expected 5 statements')
    need(un(b[0]) == 'cached_consts, cached_macros, cached_main_ops = cached', '_restore: unpacking changed')
    need(isinstance(b[1], ast.Assign) and un(b[1].targets[0]) == 'parser.consts', '_restore: parser.consts assignment')
    need(isinstance(b[2], ast.Assign) and un(b[2].targets[0]) == 'parser.macros', '_restore: parser.macros assignment')
    need(un(b[3]) == 'cached_main_macro = cached_macros[INITIAL_MACRO_NAME]', '_restore: cached_main_macro')
    m = b[4]
    need(isinstance(m, ast.Assign) and un(m.targets[0]) == 'parser.macros[INITIAL_MACRO_NAME]'
         and isinstance(m.value, ast.Call) and un(m.value.func) == 'Macro' and len(m.value.args) == 5 and not m.value.keywords,
         '_restore: the main macro is not rebuilt with Macro(5 positional arguments)')
    a = m.value.args
    return [('consts', copy_kind(b[1].value, 'cached_consts', 'dict')),
            ('macros', copy_kind(b[2].value, 'cached_macros', 'dict')),
            ('main.params', copy_kind(a[0], 'cached_main_macro.params', 'list')),
            ('main.local_params', copy_kind(a[1], 'cached_main_macro.local_params', 'list')),
            ('main.ops', copy_kind(a[2], 'cached_main_ops', 'list')),
            ('main.namespace', copy_kind(a[3], 'cached_main_macro.namespace', 'str')),
            ('main.code_position', copy_kind(a[4], 'cached_main_macro.code_position', 'CodePosition'))]


# ---- statement skeletons --------------------------------------------------------------------------------

def skeleton(stmts, depth=0):
    """one string per statement, nested bodies indented with '> ' (docstrings dropped)"""
    out = []
    pre = '> ' * depth
    for s in stmts:
        if isinstance(s, ast.If):
            out.append(f'{pre}if {un(s.test)}:')
            out += skeleton(s.body, depth + 1)
            if s.orelse:
                out.append(f'{pre}else:')
                out += skeleton(s.orelse, depth + 1)
        elif isinstance(s, ast.For):
            need(not s.orelse, 'for-else is not modelled')
            out.append(f'{pre}for {un(s.target)} in {un(s.iter)}:')
            out += skeleton(s.body, depth + 1)
        elif isinstance(s, ast.Try):
            out.append(f'{pre}try:')
            out += skeleton(s.body, depth + 1)
            for h in s.handlers:
                out.append(f'{pre}except {un(h.type) if h.type else ""}' + (f' as {h.name}' if h.name else '') + ':')
                out += skeleton(h.body, depth + 1)
            if s.orelse:
                out.append(f'{pre}else:')
                out += skeleton(s.orelse, depth + 1)
            if s.finalbody:
                out.append(f'{pre}finally:')
                out += skeleton(s.finalbody, depth + 1)
        elif isinstance(s, ast.With):
            out.append(f'{pre}with ' + ', '.join(un(i) for i in s.items) + ':')
            out += skeleton(s.body, depth + 1)
        elif isinstance(s, (ast.Assign, ast.AnnAssign, ast.AugAssign, ast.Expr, ast.Return, ast.Raise, ast.Global,
                            ast.Continue, ast.Break, ast.Pass)):
            out.append(pre + ' '.join(un(s).split()))
        else:
            raise GenError(f'statement kind {type(s).__name__} is not modelled: {un(s)[:80]}')
    return out


def resets_before(stmts, callee):
    """assignments to names declared `global` in this function that precede the first call of `callee`"""
    declared = set()
    for s in stmts:
        if isinstance(s, ast.Global):
            declared.update(s.names)
    res = []
    for s in stmts:
        if callee in un(s):
            return res
        if isinstance(s, ast.Assign) and len(s.targets) == 1 and isinstance(s.targets[0], ast.Name) \
                and s.targets[0].id in declared:
            res.append(f'{s.targets[0].id}={un(s.value)}')
    raise GenError(f'no call of {callee} found')


# ---- package-wide scans ---------------------------------------------------------------------------------

def qualname_walk(tree):
    """yield (qualified function name, FunctionDef) for every function/method"""
    def rec(node, prefix):
        for ch in ast.iter_child_nodes(node):
            if isinstance(ch, (ast.FunctionDef, ast.AsyncFunctionDef)):
                q = f'{prefix}{ch.name}'
                yield q, ch
                yield from rec(ch, q + '.')
            elif isinstance(ch, ast.ClassDef):
                yield from rec(ch, f'{prefix}{ch.name}.')
            else:
                yield from rec(ch, prefix)
    yield from rec(tree, '')


def dotted(node):
    parts = []
    while isinstance(node, ast.Attribute):
        parts.append(node.attr)
        node = node.value
    if isinstance(node, ast.Name):
        parts.append(node.id)
        return '.'.join(reversed(parts))
    return None


def scan_package(pkg):
    globals_written = []      # (module, function, name)
    container_mutations = []  # (module, function, name, how)
    process_calls = []        # (module, function, call, argument)
    files = []
    for d in SCAN_DIRS:
        files += sorted((pkg / d).rglob('*.py'))
    need(files, 'no python files found to scan')
    for path in files:
        mod = str(path.relative_to(pkg.parent)).replace('\\', '/')
        tree = ast.parse(path.read_text(encoding='utf-8'))
        module_names = set()
        for s in tree.body:
            if isinstance(s, ast.Assign):
                for t in s.targets:
                    if isinstance(t, ast.Name):
                        module_names.add(t.id)
            elif isinstance(s, ast.AnnAssign) and isinstance(s.target, ast.Name):
                module_names.add(s.target.id)
        for q, f in qualname_walk(tree):
            declared = set()
            local_assigned = {a.arg for a in f.args.args + f.args.kwonlyargs + f.args.posonlyargs}
            if f.args.vararg:
                local_assigned.add(f.args.vararg.arg)
            if f.args.kwarg:
                local_assigned.add(f.args.kwarg.arg)
            own = [n for n in ast.walk(f)]
            for n in own:
                if isinstance(n, ast.Global):
                    declared.update(n.names)
            for n in own:
                if isinstance(n, ast.Name) and isinstance(n.ctx, ast.Store) and n.id not in declared:
                    local_assigned.add(n.id)
            for name in sorted(declared):
                globals_written.append((mod, q, name))
            for n in own:
                tgt = None
                how = None
                if isinstance(n, (ast.Assign, ast.AugAssign, ast.Delete)):
                    tgts = n.targets if isinstance(n, (ast.Assign, ast.Delete)) else [n.target]
                    for t in tgts:
                        if isinstance(t, ast.Subscript) and isinstance(t.value, ast.Name):
                            tgt, how = t.value.id, 'item-assignment'
                        elif isinstance(t, ast.Attribute) and isinstance(t.value, ast.Name) and t.value.id in module_names:
                            tgt, how = t.value.id, f'attribute {t.attr}'
                elif isinstance(n, ast.Call) and isinstance(n.func, ast.Attribute) and isinstance(n.func.value, ast.Name) \
                        and n.func.attr in MUTATORS:
                    tgt, how = n.func.value.id, n.func.attr
                if tgt and tgt in module_names and tgt not in local_assigned:
                    container_mutations.append((mod, q, tgt, how))
                if isinstance(n, ast.Call):
                    dn = dotted(n.func)
                    if dn in PROCESS_GLOBAL_CALLS:
                        process_calls.append((mod, q, dn, ', '.join(un(a) for a in n.args)))
                if isinstance(n, ast.Subscript) and isinstance(n.ctx, (ast.Store, ast.Del)) and dotted(n.value) == 'os.environ':
                    process_calls.append((mod, q, 'os.environ[...]=', un(n.slice)))
    return sorted(set(globals_written)), sorted(set(container_mutations)), sorted(set(process_calls))


def limit_restored_in_finally(tree, fname):
    """True iff `fname` contains  x = sys.getrecursionlimit() ... try: ... finally: sys.setrecursionlimit(x)"""
    f = func(tree, fname)
    saved = set()
    for n in ast.walk(f):
        if isinstance(n, ast.Assign) and len(n.targets) == 1 and isinstance(n.targets[0], ast.Name) \
                and un(n.value) == 'sys.getrecursionlimit()':
            saved.add(n.targets[0].id)
    for n in ast.walk(f):
        if isinstance(n, ast.Try) and n.finalbody:
            for s in n.finalbody:
                if isinstance(s, ast.Expr) and isinstance(s.value, ast.Call) and dotted(s.value.func) == 'sys.setrecursionlimit' \
                        and len(s.value.args) == 1 and isinstance(s.value.args[0], ast.Name) and s.value.args[0].id in saved:
                    return True
    return False


def constants(pkg):
    tree = ast.parse((pkg / 'utils' / 'constants.py').read_text())
    vals = {}
    for s in tree.body:
        if isinstance(s, ast.Assign) and len(s.targets) == 1 and isinstance(s.targets[0], ast.Name) \
                and isinstance(s.value, ast.Constant) and isinstance(s.value.value, int):
            vals[s.targets[0].id] = s.value.value
    for k in ('DEFAULT_MAX_MACRO_RECURSION_DEPTH', 'GAP_BETWEEN_PYTHONS_AND_PREPROCESSOR_MACRO_RECURSION_DEPTH'):
        need(k in vals, f'constant {k} is not an integer literal in utils/constants.py')
    return vals


def fresh_recursion_limit():
    p = subprocess.run([fw.PY, '-c', 'import sys; import flipjump.assembler.assembler; print(sys.getrecursionlimit())'],
                       env=fw.env_for_repo(), stdout=subprocess.PIPE, stderr=subprocess.PIPE, text=True)
    need(p.returncode == 0, 'cannot import flipjump.assembler.assembler in a fresh process: ' + p.stderr[-500:])
    return int(p.stdout.strip().splitlines()[-1])


# ---- main ---------------------------------------------------------------------------------------------

def generate():
    pkg = fw.REPO / 'flipjump'
    ptree = ast.parse((pkg / 'assembler' / 'fj_parser.py').read_text(encoding='utf-8'))
    atree = ast.parse((pkg / 'assembler' / 'assembler.py').read_text(encoding='utf-8'))
    pptree = ast.parse((pkg / 'assembler' / 'preprocessor.py').read_text(encoding='utf-8'))

    comps, per_file, files_slice = cache_key_facts(ptree)
    snap = snapshot_facts(ptree)
    rest = restore_facts(ptree)

    pmt = func(ptree, 'parse_macro_tree')
    need([a.arg for a in pmt.args.args] == ['input_files', 'memory_width', 'warning_as_errors'], 'parse_macro_tree parameters changed')
    pmt_resets = resets_before(body_nodoc(pmt), '_parse_files_into_parser')
    pmt_skel = skeleton(body_nodoc(pmt))

    lp = func(ptree, 'lex_parse_curr_file')
    lp_skel = skeleton(body_nodoc(lp))
    lp_resets = resets_before(body_nodoc(lp), 'lexer.tokenize')

    pfip = func(ptree, '_parse_files_into_parser')
    pfip_skel = skeleton(body_nodoc(pfip))
    plen_skel = skeleton(body_nodoc(func(ptree, '_stl_prefix_length')))
    val_skel = skeleton(body_nodoc(func(ptree, 'validate_current_file')))
    exit_skel = skeleton(body_nodoc(func(ptree, 'exit_if_errors')))

    asm = func(atree, 'assemble')
    asm_skel = skeleton(body_nodoc(asm))
    rm_skel = skeleton(body_nodoc(func(pptree, 'resolve_macros')))

    # the statement of PreprocessorData.__init__ that sets the limit
    init_limit = []
    for q, f in qualname_walk(pptree):
        if q == 'PreprocessorData.__init__':
            for s in f.body:
                if 'setrecursionlimit' in un(s):
                    init_limit.append(' '.join(un(s).split()))
    globals_written, container_mutations, process_calls = scan_package(pkg)
    consts = constants(pkg)
    restored = limit_restored_in_finally(atree, 'assemble') or limit_restored_in_finally(pptree, 'resolve_macros')
    fresh = fresh_recursion_limit()

    def triples(ts):
        return coq_list('(' + ', '.join(coq_str(x) for x in t) + ')' for t in ts)

    lines = [
        '(* GENERATED by harness/fjverif/gen_facts_c13.py from the repository under test - do not edit. *)',
        'From Coq Require Import String List ZArith.',
        'Import ListNotations.',
        'Local Open Scope string_scope.',
        '',
        '(* _stl_cache_key: components of the returned tuple, and of each per-file entry *)',
        f'Definition key_components : list string := {coq_strs(comps)}.',
        f'Definition key_file_components : list string := {coq_strs(per_file)}.',
        f'Definition key_files_range : string := {coq_str(files_slice)}.',
        '',
        '(* _snapshot_parser_to_cache / _restore_parser_from_cache: what is stored / rebuilt and whether it is a fresh copy *)',
        f'Definition snapshot_fields : list (string * string) := {coq_pairs(snap)}.',
        f'Definition restore_fields : list (string * string) := {coq_pairs(rest)}.',
        '',
        '(* globals assigned before the files are parsed (parse_macro_tree) / before the lexer runs (lex_parse_curr_file) *)',
        f'Definition parse_macro_tree_resets : list string := {coq_strs(pmt_resets)}.',
        f'Definition lex_parse_resets : list string := {coq_strs(lp_resets)}.',
        '',
        '(* statement skeletons of the transcribed functions *)',
        f'Definition skel_parse_macro_tree : list string := {coq_strs(pmt_skel)}.',
        f'Definition skel_lex_parse_curr_file : list string := {coq_strs(lp_skel)}.',
        f'Definition skel_parse_files_into_parser : list string := {coq_strs(pfip_skel)}.',
        f'Definition skel_stl_prefix_length : list string := {coq_strs(plen_skel)}.',
        f'Definition skel_validate_current_file : list string := {coq_strs(val_skel)}.',
        f'Definition skel_exit_if_errors : list string := {coq_strs(exit_skel)}.',
        f'Definition skel_assemble : list string := {coq_strs(asm_skel)}.',
        f'Definition skel_resolve_macros : list string := {coq_strs(rm_skel)}.',
        f'Definition preprocessor_init_limit : list string := {coq_strs(init_limit)}.',
        '',
        '(* every `global` declaration, every mutation of a module-level container and every call that changes',
        '   interpreter-wide state, in flipjump/{assembler,utils,fjm} *)',
        f'Definition globals_written : list (string * string * string) := {triples(globals_written)}.',
        f'Definition container_mutations : list (string * string * string * string) := {triples(container_mutations)}.',
        f'Definition process_global_calls : list (string * string * string * string) := {triples(process_calls)}.',
        f'Definition limit_restored_in_finally : bool := {"true" if restored else "false"}.',
        '',
        f'Definition default_max_macro_recursion_depth : Z := {consts["DEFAULT_MAX_MACRO_RECURSION_DEPTH"]}%Z.',
        f'Definition gap_pythons_preprocessor : Z := {consts["GAP_BETWEEN_PYTHONS_AND_PREPROCESSOR_MACRO_RECURSION_DEPTH"]}%Z.',
        '(* measured: sys.getrecursionlimit() right after importing the assembler in a fresh process *)',
        f'Definition fresh_process_recursion_limit : Z := {fresh}%Z.',
        '',
    ]
    return '\n'.join(lines)


def write(ctx=None):
    """returns (ok, message). On failure a stub is written so that nothing depending on the facts compiles."""
    try:
        text = generate()
    except (GenError, SyntaxError, OSError) as e:
        fw.write_if_changed(OUT, f'(* GENERATION FAILED (fail-closed): {str(e).replace("*)", "* )")} *)\n')
        return False, f'{type(e).__name__}: {e}'
    fw.write_if_changed(OUT, text)
    return True, str(OUT)


if __name__ == '__main__':
    ok, msg = write()
    print(('ok: ' if ok else 'FAILED: ') + msg)
    sys.exit(0 if ok else 1)
