"""C08 machinery: pointer, stack and call/return macros (stl/ptrlib.fj, stl/hex/pointers/*.fj, stl/bit/pointers.fj).

Built on fjverif/stl.py (assembly of blocks into images, real-engine worker, image emission, parallel coqc); what is
new here, and why it is not in stl.py:

 * EXPLICIT-LIST OPERAND DOMAINS.  A pointer operand is a hex.vec w/4 (bit.vec w) variable whose VALUE is a bit address
   of a cell of a buffer declared in the same block; an index operand takes negative values.  A domain is a finite
   UNION of PRODUCTS of explicit value lists (class LDom renders each list as a short Gallina term: `from lo n`,
   `addrs base step k`, `map (set_cell cb pat j) l`, or the literal list) - Spec/StlPtrSpec.v in_ldom / in_udom,
   lifting lemmas Proofs/StlPtrProps.v ptr_blocks_by_list_enumeration, ldom_split_at, udom_cons.
   The addresses are known only after assembly, so domains and spec instances are FUNCTIONS of the label table.
 * POINTER-CELL CONSISTENCY.  The library's shared ops hex.pointers.to_flip / to_jump (bit.pointers likewise) and their
   variable copies to_flip_var / to_jump_var, nth_ptr, read_byte are global scratch for the frame equation, but they must
   satisfy the invariant set_flip_pointer / set_jump_pointer rely on: flip word of to_flip = value of to_flip_var,
   jump word of to_jump = value of to_jump_var (StlPtrSpec.ptr_consistent).  It is an extra clause of the generated
   theorems (ptr_block_correct, checker StlPtrRun.check_ptr_block) and of the real-engine judgement.
 * BLOCKS WITH THEIR OWN TEXT (class PBlock): variables at global labels (hex.pointers.sp, the stack cells), buffers of
   byte cells, sub-routines after the exits, exit 0 printing a whole marker sequence (call trees).

Generated per image:  Gen/Img_C08_*.v (image, blocks, `pcs`), Gen/StlP_C08_*.v (pieces), Gen/StlT_C08_*.v
    Theorem T_<block>_w<w> : forall vs, in_udom [<product>; ...] vs -> ptr_block_correct ww segs img b<k> pcs <spec> vs.
Gen/StlTie_C08_*.v (mirror check of the Python specs below against StlPtrSpec.v, op-count equality machine vs engine).
A failing piece is searched for its first failing operands, which are CONFIRMED ON THE REAL ENGINES before anything is
reported; replay = stand-alone .fj program (operands as literals, addresses written symbolically as label+offset).
"""
import atexit
import dataclasses
import itertools
import json
import math
import os
import re
import threading
import time
from concurrent.futures import ThreadPoolExecutor
from dataclasses import dataclass, field
from pathlib import Path

from . import framework as fw
from . import stl

GEN = stl.GEN
HDR = ('From FJ Require Import Lib.Base Spec.MachineSpec Spec.StlSpec Spec.StlPtrSpec Model.StlRun Model.StlPtrRun '
       'Proofs.StlProps Proofs.StlPtrProps')
PIECE_STEPS = int(os.environ.get('FJVERIF_PIECE_STEPS', '1200000'))   # machine steps per generated piece file
IMG_EXTRA_WORDS = 80_000     # words of blocks per image beyond the start-up code (image compile is memory-budgeted, see coqc_weighted)


# ---------------------------------------------------------------------------------------------------------
# explicit value lists

class LDom:
    """a list of operand values with a readable Gallina rendering; split() cuts it into consecutive chunks"""

    def __init__(self, kind, vals, args=None):
        self.kind = kind
        self.vals = list(vals)
        self.args = args

    @staticmethod
    def explicit(vals):
        return LDom('list', vals)

    @staticmethod
    def one(v):
        return LDom('list', [v])

    @staticmethod
    def rng(lo, n):
        return LDom('from', [lo + i for i in range(n)], (lo, n))

    @staticmethod
    def addrs(base, step, k):
        return LDom('addrs', [base + step * i for i in range(k)], (base, step, k))

    @staticmethod
    def cells(cb, pat, j, inner):
        return LDom('cells', [py_set_cell(cb, pat, j, v) for v in inner.vals], (cb, pat, j, inner))

    def coq(self):
        if self.kind == 'from':
            return f'(from {self.args[0]} {self.args[1]})'
        if self.kind == 'addrs':
            return f'(addrs {self.args[0]} {self.args[1]} {self.args[2]})'
        if self.kind == 'cells':
            cb, pat, j, inner = self.args
            return f'(map (set_cell {cb} {pat} {j}) {inner.coq()})'
        return fw.nlist(self.vals)

    def __len__(self):
        return len(self.vals)

    def split(self, parts):
        n = len(self.vals)
        parts = max(1, min(parts, n))
        cuts = [n * i // parts for i in range(parts + 1)]
        out = []
        for a, b in zip(cuts, cuts[1:]):
            if a == b:
                continue
            if self.kind == 'from':
                out.append(LDom.rng(self.args[0] + a, b - a))
            elif self.kind == 'addrs':
                base, step, _ = self.args
                out.append(LDom.addrs(base + step * a, step, b - a))
            elif self.kind == 'cells':
                cb, pat, j, inner = self.args
                # cut the inner list at the same positions
                sub = LDom(inner.kind, inner.vals, inner.args)._slice(a, b)
                out.append(LDom.cells(cb, pat, j, sub))
            else:
                out.append(LDom.explicit(self.vals[a:b]))
        return out

    def _slice(self, a, b):
        if self.kind == 'from':
            return LDom.rng(self.args[0] + a, b - a)
        if self.kind == 'addrs':
            base, step, _ = self.args
            return LDom.addrs(base + step * a, step, b - a)
        if self.kind == 'cells':
            cb, pat, j, inner = self.args
            return LDom.cells(cb, pat, j, inner._slice(a, b))
        return LDom.explicit(self.vals[a:b])


def prod_coq(prod):
    return '[' + '; '.join(d.coq() for d in prod) + ']'


def udom_coq(udom):
    return '[' + ';\n     '.join(prod_coq(p) for p in udom) + ']'


def prod_cases(prod):
    return math.prod(len(d) for d in prod)


# ---------------------------------------------------------------------------------------------------------
# Python mirror of coq/Spec/StlPtrSpec.v (same names, same argument order; checked against Coq on every run)

def py_cell(cb, B, i):
    return (B >> (cb * i)) & ((1 << cb) - 1)


def py_set_cell(cb, B, i, v):
    m = (1 << cb) - 1
    return (B & ~(m << (cb * i))) | ((v & m) << (cb * i))


def _ok(vs):
    return list(vs), 0


class _P:
    """the section variables of StlPtrSpec.P"""

    def __init__(self, ww):
        self.ww = ww
        self.w = 1 << ww
        self.DW = 2 * self.w
        self.DBIT = self.w + ww + 1
        self.WMOD = 1 << self.w

    def cell_index(self, base, k, p):
        if base <= p and (p - base) % self.DW == 0 and (p - base) // self.DW < k:
            return (p - base) // self.DW
        return None


def _gather(cb, md, db, B, i, n):
    return sum((py_cell(cb, B, i + j) % md) << (db * j) for j in range(n))


def _scatter(cb, db, f, B, i, s, n):
    for j in range(n):
        B = py_set_cell(cb, B, i + j, f(py_cell(cb, B, i + j), (s >> (db * j)) & ((1 << db) - 1)))
    return B


def _keep_high(md):
    return lambda old, new: (old // md) * md + new


def _arity(k, f):
    return lambda vs: f(*vs) if len(vs) == k else None


def _with_cell(P, base, k, p, f):
    i = P.cell_index(base, k, p)
    return None if i is None else f(i)


def sp_ptr_load(ww, cb, md, base, k):
    P = _P(ww)
    return _arity(3, lambda d, p, B: _with_cell(P, base, k, p, lambda i: _ok([py_cell(cb, B, i) % md, p, B])))


def sp_ptr_xor_load(ww, cb, md, base, k):
    P = _P(ww)
    return _arity(3, lambda d, p, B: _with_cell(P, base, k, p, lambda i: _ok([d ^ (py_cell(cb, B, i) % md), p, B])))


def sp_ptr_load_inc(ww, cb, md, base, k):
    P = _P(ww)
    return _arity(3, lambda d, p, B: _with_cell(P, base, k, p,
                                                lambda i: _ok([py_cell(cb, B, i) % md, (p + P.DW) % P.WMOD, B])))


def sp_ptr_load_n(ww, cb, md, db, base, k, n):
    P = _P(ww)
    return _arity(3, lambda d, p, B: _with_cell(P, base, k, p,
                                                lambda i: _ok([_gather(cb, md, db, B, i, n), p, B]) if i + n <= k else None))


def sp_ptr_load_nth(ww, cb, md, base, k):
    P = _P(ww)
    return _arity(4, lambda d, p, ix, B: _with_cell(P, base, k, (p + ix * P.DW) % P.WMOD,
                                                    lambda i: _ok([py_cell(cb, B, i) % md, p, ix, B])))


def sp_ptr_store(ww, cb, md, base, k):
    P = _P(ww)
    kh = _keep_high(md)
    return _arity(3, lambda p, s, B: _with_cell(P, base, k, p,
                                                lambda i: _ok([p, s, py_set_cell(cb, B, i, kh(py_cell(cb, B, i), s))])))


def sp_ptr_store_inc(ww, cb, md, base, k):
    P = _P(ww)
    kh = _keep_high(md)
    return _arity(3, lambda p, s, B: _with_cell(
        P, base, k, p, lambda i: _ok([(p + P.DW) % P.WMOD, s, py_set_cell(cb, B, i, kh(py_cell(cb, B, i), s))])))


def sp_ptr_store_n(ww, cb, md, db, base, k, n):
    P = _P(ww)
    return _arity(3, lambda p, s, B: _with_cell(
        P, base, k, p, lambda i: _ok([p, s, _scatter(cb, db, _keep_high(md), B, i, s, n)]) if i + n <= k else None))


def sp_ptr_zero(ww, cb, base, k):
    P = _P(ww)
    return _arity(2, lambda p, B: _with_cell(P, base, k, p, lambda i: _ok([p, py_set_cell(cb, B, i, 0)])))


def sp_ptr_store_nth(ww, cb, md, base, k):
    P = _P(ww)
    kh = _keep_high(md)
    return _arity(4, lambda p, ix, s, B: _with_cell(
        P, base, k, (p + ix * P.DW) % P.WMOD, lambda i: _ok([p, ix, s, py_set_cell(cb, B, i, kh(py_cell(cb, B, i), s))])))


def sp_ptr_xor_store(ww, cb, base, k):
    P = _P(ww)
    return _arity(3, lambda p, s, B: _with_cell(P, base, k, p,
                                                lambda i: _ok([p, s, py_set_cell(cb, B, i, py_cell(cb, B, i) ^ s)])))


def sp_ptr_xor_store_n(ww, cb, db, base, k, n):
    P = _P(ww)
    return _arity(3, lambda p, s, B: _with_cell(
        P, base, k, p, lambda i: _ok([p, s, _scatter(cb, db, lambda a, b: a ^ b, B, i, s, n)]) if i + n <= k else None))


def sp_ptr_flip_bit(ww, cb, base, k):
    P = _P(ww)

    def f(p, B):
        o = p - base - P.DBIT
        if o >= 0 and o % P.DW < cb and o // P.DW < k:
            return _ok([p, B ^ (1 << (cb * (o // P.DW) + o % P.DW))])
        return None
    return _arity(2, f)


def sp_ptr_flip_dbit(ww, cb, base, k):
    P = _P(ww)
    return _arity(2, lambda p, B: _with_cell(P, base, k, p, lambda i: _ok([p, py_set_cell(cb, B, i, py_cell(cb, B, i) ^ 1)])))


def sp_ptr_wflip_cell(ww, cb, off, base, k, c):
    P = _P(ww)
    return _arity(2, lambda p, B: _with_cell(P, base + off, k, p,
                                             lambda i: _ok([p, py_set_cell(cb, B, i, py_cell(cb, B, i) ^ c)])))


def sp_ptr_jump_to(x1, stride, k):
    def f(p):
        if x1 <= p and (p - x1) % stride == 0 and (p - x1) // stride < k:
            return [p], 1 + (p - x1) // stride
        return None
    return _arity(1, f)


def sp_ptr_add_c(ww, c):
    P = _P(ww)
    return _arity(1, lambda p: _ok([(p + c * P.DW) % P.WMOD]))


def sp_ptr_sub_c(ww, c):
    P = _P(ww)
    return _arity(1, lambda p: _ok([(p - c * P.DW) % P.WMOD]))


def sp_ptr_index_of(ww):
    P = _P(ww)
    return _arity(3, lambda d, p, ix: _ok([(p + ix * P.DW) % P.WMOD, p, ix]))


def sp_ptr_get():
    return _arity(2, lambda d, s: _ok([s, s]))


def sp_stack_word(ops):
    """ops: [('Push'|'Pop', kind, operand position)], kind = 'Hex' | 'Byte' | ('Vec', n)"""
    def f(vs):
        vs = list(vs)
        stk = []
        for op, kind, i in ops:
            if op == 'Push':
                stk.append((kind, vs[i] if i < len(vs) else 0))
            else:
                if not stk or stk[-1][0] != kind:
                    return None
                vs[i] = stk.pop()[1]
        return None if stk else _ok(vs)
    return f


def sp_calls_keep():
    return lambda vs: _ok(vs)


def call_trace(fuel, fs, body):
    if fuel == 0:
        return []
    out = []
    for it in body:
        if it[0] == 'Mark':
            out.append(it[1])
        else:
            out += call_trace(fuel - 1, fs, fs[it[1]] if it[1] < len(fs) else [])
    return out


PYSPEC = {n[3:]: f for n, f in list(globals().items()) if n.startswith('sp_')}


def coq_arg(a):
    if isinstance(a, bool):
        raise TypeError(a)
    if isinstance(a, int):
        return str(a)
    if isinstance(a, str):
        return a
    if isinstance(a, list):
        return '[' + '; '.join(coq_arg(x) for x in a) + ']'
    if isinstance(a, tuple):
        return '(' + ' '.join(coq_arg(x) for x in a) + ')'
    raise TypeError(a)


def spec_term(spec):
    """spec: (name, [args]) | ('seq', [(idx, (name, args)), ...]) -> Coq term"""
    if spec[0] == 'seq':
        terms = ['(at_vars [' + ';'.join(f'{i}%nat' for i in idx) + f'] {spec_term(s)})' for idx, s in spec[1]]
        t = terms[-1]
        for u in reversed(terms[:-1]):
            t = f'(seq_spec {u} {t})'
        return t
    name, args = spec
    return '(' + ' '.join([name] + [coq_arg(a) for a in args]) + ')'


def _nat_args(a):
    """Coq rendering marks nat literals as strings like '3%nat' / constructor tuples; python wants plain values"""
    if isinstance(a, str) and a.endswith('%nat'):
        return int(a[:-4])
    if isinstance(a, list):
        return [_nat_args(x) for x in a]
    if isinstance(a, tuple):
        return tuple(_nat_args(x) for x in a)
    return a


def spec_py(spec):
    if spec[0] == 'seq':
        parts = [(idx, spec_py(s)) for idx, s in spec[1]]

        def f(vs):
            vs = list(vs)
            for j, (idx, g) in enumerate(parts):
                r = g([vs[i] for i in idx])
                if r is None:
                    return None
                out, x = r
                for i, v in zip(idx, out):
                    vs[i] = v
                if x != 0:
                    return (vs, x) if j == len(parts) - 1 else None
            return vs, 0
        return f
    name, args = spec
    return PYSPEC[name](*[_nat_args(a) for a in args])


def spec_text(spec):
    return spec_term(spec)


# ---------------------------------------------------------------------------------------------------------
# blocks

KIND_BITS = {'hex': 4, 'bit': 1, 'byte': 8}
PAT8 = [0x5A, 0xC3, 0x3C, 0xA5, 0x69, 0x96, 0x0F, 0xF0]


@dataclass
class PV:
    """an operand variable.  label None: declared by the block as b<k>_<name>; otherwise a global label (+ op offset)"""
    name: str
    kind: str                   # 'hex' | 'bit' | 'byte' (a buffer of n cells, each holding a byte in its jump word)
    n: int
    label: str = None
    op_off: int = 0
    rel: tuple = ()             # labels ('@name' block-local or global) an address VALUE of this operand is written relative to
    straddle: bool = False      # place the buffer across a 32-op alignment boundary (cell addresses differ in many bits)


@dataclass
class PBlock(stl.Block):
    ns: str = 'hex'
    code: list = field(default_factory=list)        # lines after `b<k>:`; '@x' = block-local label b<k>_x
    tail: list = field(default_factory=list)        # lines after the exits (sub-routines, return registers)
    pvars: list = field(default_factory=list)
    markers: list = None                            # marker bytes per exit (default: [] for exit 0, [0x30+i] for exit i)
    spec_of: object = None                          # A -> spec structure
    udom_of: object = None                          # A -> [[LDom]]
    scratch_ops: list = field(default_factory=list)  # [(global label, first op, ops, 'byte'|'all')]
    builder: tuple = None                           # (builder name, params) to rebuild the block from a replay
    doc: str = ''
    udom: list = None
    pyf: object = None
    extra_thm: list = field(default_factory=list)    # extra generated Coq statements (A -> text), e.g. the call-trace tie

    def ncases(self):
        return sum(prod_cases(p) for p in self.udom) if self.udom else 0

    # ---- text ----
    def ptr_text(self, k, literal=None):
        pre = f'b{k}'

        def loc(s):
            return s.replace('@', pre + '_')
        lines = [f'{pre}:'] + ['    ' + loc(c) for c in self.code]
        marks = self.exit_markers()
        lines.append(f'{pre}_l0: stl.loop')
        for i in range(1, self.exits + 1):
            lines.append(f'{pre}_x{i}: stl.output_char {marks[i][0]}')
            lines.append(f'{pre}_l{i}: stl.loop')
        lines += [loc(c) for c in self.tail]
        ci = 0
        for i, pv in enumerate(self.pvars):
            if pv.label is not None:
                continue
            if pv.straddle:
                lines += ['pad 32', f'{pre}_fill{i}: hex.vec 30']
            lines.append(f'{pre}_c{i}: ' + ('bit.bit 1' if pv.kind == 'bit' else ('hex.hex 0xA' if ci % 2 == 0 else 'hex.hex 0x5')))
            ci += 1
            lit = None if literal is None else literal[i]
            if pv.kind == 'byte':
                lines.append(f'{pre}_{pv.name}:')
                for j in range(pv.n):
                    v = 0 if lit is None else (lit >> (8 * j)) & 0xFF
                    lines.append(f'    ;{v}*dw')
            else:
                val = '' if lit is None else f', {loc(lit) if isinstance(lit, str) else lit}'
                lines.append(f'{pre}_{pv.name}: {pv.kind}.vec {pv.n}{val}')
        lines.append(f'{pre}_cz: ' + ('bit.bit 1' if self.ns == 'bit' else 'hex.hex 0xC'))
        return '\n'.join(lines) + '\n'

    def exit_markers(self):
        if self.markers is not None:
            return self.markers
        return [[]] + [[0x30 + i] for i in range(1, self.exits + 1)]

    # ---- addresses ----
    def ptr_resolve(self, k, res, w, extra_scratch):
        L = res['labels']
        pre = f'b{k}'
        ww = w.bit_length() - 1
        allm = (1 << w) - 1
        entry = L[pre]
        l0 = L[f'{pre}_l0']
        marks = self.exit_markers()
        exits = [(L[f'{pre}_l{i}'], marks[i]) for i in range(self.exits + 1)]
        A = {'ww': ww, 'w': w, 'dw': 2 * w, 'dbit': w + ww + 1}
        for name, a in L.items():
            if name.startswith(pre + '_'):
                A['@' + name[len(pre) + 1:]] = a
            elif not name.startswith('b') or '.' in name:
                A[name] = a
        vars_ = []
        for pv in self.pvars:
            a = (L[f'{pre}_{pv.name}'] if pv.label is None else L[pv.label]) + pv.op_off * 2 * w
            A['var:' + pv.name] = a
            vars_.append((KIND_BITS[pv.kind], (a >> ww) + 1, pv.n))
        scratch = {0: 1, 2: 3, 1: 0xF << (ww + 1)}
        tsz = dict(self.temps)
        found = {}
        for nm, a in res['locals']:
            if nm in tsz and entry <= a < l0:
                found[nm] = found.get(nm, 0) + 1
                for j in range(tsz[nm]):
                    scratch[(a >> ww) + 1 + 2 * j] = allm
        pcs = []
        nib = 0xF << (ww + 1)
        one = 1 << (ww + 1)
        # the global pointer cells are scratch only for the blocks of their own namespace (a hex macro must not touch
        # bit.pointers.* and vice versa); the consistency pairs cover every pointer-cell pair the image has
        if 'hex.pointers.to_flip' in L:
            q = w // 4
            if self.ns.startswith('hex'):
                scratch[L['hex.pointers.to_flip'] >> ww] = allm
                scratch[(L['hex.pointers.to_jump'] >> ww) + 1] = allm
                for lbl, nops in (('hex.pointers.to_flip_var', q), ('hex.pointers.to_jump_var', q), ('hex.pointers.nth_ptr', q),
                                  ('hex.pointers.read_byte', 2)):
                    for j in range(nops):
                        wa = (L[lbl] >> ww) + 1 + 2 * j
                        scratch[wa] = scratch.get(wa, 0) | nib
            pcs.append((L['hex.pointers.to_flip'] >> ww, (4, (L['hex.pointers.to_flip_var'] >> ww) + 1, q)))
            pcs.append(((L['hex.pointers.to_jump'] >> ww) + 1, (4, (L['hex.pointers.to_jump_var'] >> ww) + 1, q)))
        if 'bit.pointers.to_flip' in L:
            if self.ns == 'bit':
                scratch[L['bit.pointers.to_flip'] >> ww] = allm
                scratch[(L['bit.pointers.to_jump'] >> ww) + 1] = allm
                for lbl in ('bit.pointers.to_flip_var', 'bit.pointers.to_jump_var'):
                    for j in range(w):
                        wa = (L[lbl] >> ww) + 1 + 2 * j
                        scratch[wa] = scratch.get(wa, 0) | one
            pcs.append((L['bit.pointers.to_flip'] >> ww, (1, (L['bit.pointers.to_flip_var'] >> ww) + 1, w)))
            pcs.append(((L['bit.pointers.to_jump'] >> ww) + 1, (1, (L['bit.pointers.to_jump_var'] >> ww) + 1, w)))
        for lbl, first, nops, mk in self.scratch_ops:
            for j in range(nops):
                wa = (L[lbl] >> ww) + 1 + 2 * (first + j)
                scratch[wa] = scratch.get(wa, 0) | (allm if mk == 'all' else 0xFF << (ww + 1))
        self.addr = {'entry': entry, 'exits': exits, 'vars': vars_, 'scratch': scratch, 'temps_found': found,
                     'end': L.get(f'{pre}_cz', l0), 'A': A, 'pcs': pcs}
        self.k = k
        self.w = w
        sp = self.spec_of(A)
        self.spec_struct = sp
        self.spec = spec_term(sp)
        self.pyf = spec_py(sp)
        self.udom = self.udom_of(A)
        for p in self.udom:
            assert len(p) == len(self.pvars), (self.bid, len(p), len(self.pvars))
        self.dom = []

    # ---- operands as literals (stand-alone replay program) ----
    def symbolic(self, values):
        """operand values -> literals of the stand-alone program: an address is written as label+offset"""
        A = self.addr['A']
        out = []
        for pv, v in zip(self.pvars, values):
            s = v
            for lbl in pv.rel:
                if lbl in A and A[lbl] <= v < A[lbl] + (1 << 14) * 2 * self.w:
                    s = f'{lbl}+{v - A[lbl]}'
                    break
            out.append(s)
        return out


def pcs_coq(pcs):
    return '[' + '; '.join(f'({wa}, mkvar {b} {jw} {n})' for wa, (b, jw, n) in pcs) + ']'


# ---------------------------------------------------------------------------------------------------------
# operands: sampling, engine cases, judgement

def sample_udom(rng, udom, count):
    """edge combinations of every product first, then random tuples"""
    out, seen = [], set()
    per = max(1, count // max(1, len(udom)))
    # every value of a short explicit list once (edge values such as carry chains decide the op count)
    for prod in udom:
        base = [d.vals[len(d) // 2] for d in prod]
        for i, d in enumerate(prod):
            if d.kind == 'list' and 2 < len(d) <= 16:
                for v in d.vals:
                    c = tuple(base[:i] + [v] + base[i + 1:])
                    if c not in seen and len(out) < 3 * count:
                        seen.add(c)
                        out.append(list(c))
    for prod in udom:
        edges = []
        for d in prod:
            n = len(d)
            idx = sorted({0, n - 1, n // 2, min(1, n - 1), (n * 2) // 3})
            edges.append([d.vals[i] for i in idx])
        combos = list(itertools.islice(itertools.product(*edges), 2048))
        rng.shuffle(combos)
        for c in combos[:per]:
            if c not in seen:
                seen.add(c)
                out.append(list(c))
    tries = 0
    target = len(out) + max(2, count // 3) if len(out) >= count else count
    while len(out) < target and tries < 10 * count:
        tries += 1
        prod = udom[rng.randrange(len(udom))]
        c = tuple(d.vals[rng.randrange(len(d))] for d in prod)
        if c not in seen:
            seen.add(c)
            out.append(list(c))
    return out


def pcs_words(b):
    out = []
    for wa, (bits, jw, n) in b.addr['pcs']:
        out.append(wa)
        out += [jw + 2 * i for i in range(n)]
    return out


def engine_case(b, values, ww, cid, watchdog=60.0, patch_all=True):
    case, exp = stl.engine_case(b, values, ww, b.pyf, cid, watchdog)
    case['read'] = case['read'] + pcs_words(b)
    return case, exp


def consistency_of(b, r):
    """None when the pointer cells read back are consistent, else a description"""
    rd = r.get('read')
    if not rd:
        return None
    ww = b.w.bit_length() - 1
    bad = []
    for wa, (bits, jw, n) in b.addr['pcs']:
        opw = rd.get(str(wa), 0)
        val = 0
        for i in range(n):
            val |= ((rd.get(str(jw + 2 * i), 0) >> (ww + 1)) & ((1 << bits) - 1)) << (bits * i)
        if opw != val:
            bad.append(f'op word {wa} holds {opw} but its variable copy (jump words from {jw}) holds {val}')
    return '; '.join(bad) if bad else None


def judge(b, exp, r):
    bad = stl.judge(b, exp, r)
    if bad or exp is None:
        return bad
    c = consistency_of(b, r)
    return f'pointer cells inconsistent after the run: {c}' if c else None


# ---------------------------------------------------------------------------------------------------------
# Coq generation

FUEL_MARGIN = 6     # evaluation budget of a block = FUEL_MARGIN x the largest op count seen on the sampled operands (carry chains!)


def emit_image(im):
    saved = [(b, b.ops) for b in im['blocks']]
    for b, o in saved:
        b.ops = max(o, 64) * FUEL_MARGIN
    try:
        path = stl.emit_image(im)
    finally:
        for b, o in saved:
            b.ops = o
    pcs = im['blocks'][0].addr['pcs']
    with open(path, 'a') as f:
        f.write('(* the shared pointer ops and their variable copies: (word address of the op word, variable) *)\n')
        f.write(f'Definition pcs : list (N * var) := Eval vm_compute in {pcs_coq(pcs)}.\n')
    return path


def coqc_weighted(items, timeout):
    """items: [(path, image words)].  Compiling an image takes about 17 KB of memory per image word (1.7 GB for 100k words):
    images are compiled in parallel under a memory budget (40% of the memory available now, at least 6 GB)"""
    try:
        avail = int(re.search(r'MemAvailable:\s+(\d+)', Path('/proc/meminfo').read_text()).group(1)) * 1024
    except Exception:  # noqa
        avail = 16 << 30
    budget = max(6 << 30, int(avail * 0.4))
    cond = threading.Condition()
    state = {'used': 0}

    def one(item):
        path, words = item
        need = min(budget, 300_000_000 + 17_000 * words)
        with cond:
            while state['used'] + need > budget and state['used'] > 0:
                cond.wait()
            state['used'] += need
        try:
            t = time.time()
            rc, out = fw.coqc_file(path, timeout)
            return path, (rc, out, time.time() - t)
        finally:
            with cond:
                state['used'] -= need
                cond.notify_all()
    with ThreadPoolExecutor(max_workers=fw.NCPU) as ex:
        return dict(ex.map(one, sorted(items, key=lambda it: -it[1])))


def plan_pieces(im):
    """units: one per (block, product, chunk); bundled into files of about PIECE_STEPS machine steps"""
    units = []
    for b in im['blocks']:
        b.pieces = []
        for pi, prod in enumerate(b.udom):
            cost = prod_cases(prod) * (b.ops + 30)
            pos = max(range(len(prod)), key=lambda i: len(prod[i])) if prod else 0
            nparts = max(1, min(len(prod[pos]) if prod else 1, math.ceil(cost / PIECE_STEPS)))
            chunks = prod[pos].split(nparts) if prod else [None]
            group = []
            for j, ch in enumerate(chunks):
                p2 = list(prod)
                if ch is not None:
                    p2[pos] = ch
                nc = prod_cases(p2)
                u = {'b': b, 'pi': pi, 'pos': pos, 'j': j, 'prod': p2, 'cost': nc * (b.ops + 30), 'ncases': nc}
                group.append(u)
                units.append(u)
            b.pieces.append(group)
    units.sort(key=lambda u: -u['cost'])
    files, cur, cur_cost = [], [], 0
    for u in units:
        if cur and cur_cost + u['cost'] > PIECE_STEPS:
            files.append(cur)
            cur, cur_cost = [], 0
        cur.append(u)
        cur_cost += u['cost']
    if cur:
        files.append(cur)
    return files


def P_of(b):
    return f'ptr_block_correct ww segs img b{b.k} pcs {b.spec}'


def emit_piece_file(im, idx, units):
    name = f'StlP_{im["name"]}_{idx}'
    txt = [f'(* GENERATED - pieces of image {im["name"]} *)', f'{HDR} Gen.Img_{im["name"]}.', 'Local Open Scope N_scope.']
    for u in units:
        b = u['b']
        u['file'] = name
        tag = f'{b.bid}_{u["pi"]}_{u["j"]}'
        u['thm'] = f'p_{tag}'
        D = prod_coq(u['prod'])
        txt.append(f'Lemma c_{tag} : forallb (check_ptr_block ww segs img b{b.k} pcs {b.spec}) (enum_ldom {D}) = true.')
        txt.append('Proof. vm_cast_no_check (eq_refl true). Qed.')
        txt.append(f'Theorem {u["thm"]} : forall vs, in_ldom {D} vs -> {P_of(b)} vs.')
        txt.append(f'Proof. exact (ptr_blocks_by_list_enumeration _ _ _ _ _ _ _ c_{tag}). Qed.')
    path = GEN / f'{name}.v'
    path.write_text('\n'.join(txt) + '\n')
    return path


def theorem_name(b):
    return f'T_{b.bid}_w{b.w}'


def emit_master(im, ok_blocks):
    files = sorted({u['file'] for b in ok_blocks for g in b.pieces for u in g})
    name = f'StlT_{im["name"]}'
    txt = [f'(* GENERATED - instance theorems of image {im["name"]} (w = {im["w"]}) *)',
           f'{HDR} Gen.Img_{im["name"]}' + ''.join(f' Gen.{f}' for f in files) + '.', 'Local Open Scope N_scope.']
    for b in ok_blocks:
        P = f'(fun vs => {P_of(b)} vs)'

        def struct(us, pos):
            """the concatenation term whose nesting mirrors the split tree of build()"""
            if len(us) == 1:
                return us[0]['prod'][pos].coq()
            h = len(us) // 2
            return f'({struct(us[:h], pos)} ++ {struct(us[h:], pos)})'

        def build(us):
            if len(us) == 1:
                return f'{us[0]["file"]}.{us[0]["thm"]}'
            h = len(us) // 2
            pos = us[0]['pos']
            pre = prod_coq(us[0]['prod'][:pos])
            post = prod_coq(us[0]['prod'][pos + 1:])
            return (f'(ldom_split_at {pre} {P} {struct(us[:h], pos)} {struct(us[h:], pos)} {post} '
                    f'{build(us[:h])} {build(us[h:])})')

        def group_term(pi, prod, us):
            """proof of `forall vs, in_ldom prod vs -> P vs` from the pieces of this product"""
            if len(us) == 1:
                return f'{us[0]["file"]}.{us[0]["thm"]}'
            pos = us[0]['pos']
            pre = prod_coq(prod[:pos])
            post = prod_coq(prod[pos + 1:])
            en = f'e_{b.bid}_{pi}'
            # the operand's value list equals the concatenation of its shards: by computation, once
            txt.append(f'Lemma {en} : {prod[pos].coq()} = {struct(us, pos)}.')
            txt.append('Proof. vm_compute. reflexivity. Qed.')
            return f'(ldom_recut {pre} {P} _ _ {post} {en} {build(us)})'
        tn = theorem_name(b)
        txt.append(f'(* {b.title} *)')
        term = f'(udom_nil {P})'
        gts = [group_term(pi, prod, group) for pi, (prod, group) in enumerate(zip(b.udom, b.pieces))]
        for prod, gt in reversed(list(zip(b.udom, gts))):
            term = f'(udom_cons {P} {prod_coq(prod)} _\n   ({gt} : forall vs, in_ldom {prod_coq(prod)} vs -> {P_of(b)} vs)\n   {term})'
        txt.append(f'Theorem {tn} : forall vs,\n  in_udom\n    {udom_coq(b.udom)} vs ->\n  {P_of(b)} vs.')
        txt.append(f'Proof. exact {term}. Qed.')
        txt.append(f'Print Assumptions {tn}.')
        for t in b.extra_thm:
            txt.append(t(b, tn))
    path = GEN / f'{name}.v'
    path.write_text('\n'.join(txt) + '\n')
    return path


def emit_tie(im, samples):
    name = f'StlTie_{im["name"]}'
    txt = [f'(* GENERATED - mirror check and op-count tie of image {im["name"]} *)', f'{HDR} Gen.Img_{im["name"]}.',
           'Local Open Scope N_scope.']
    order = []
    for b in im['blocks']:
        ss = samples.get(b.bid, [])
        if not ss:
            continue
        order.append(b)
        cases = '; '.join(
            f'({fw.nlist(v)}, ' + ('None' if e is None else f'Some ({fw.nlist(e[0])}, {e[1]})') + ')' for v, e, _ in ss)
        txt.append(f'Eval vm_compute in (forallb (fun c => res_eqb ({b.spec} (fst c)) (snd c)) [{cases}], '
                   f'map (fun c => block_ops ww segs img b{b.k} (fst c)) [{cases}]).')
    path = GEN / f'{name}.v'
    path.write_text('\n'.join(txt) + '\n')
    return path, order


# ---------------------------------------------------------------------------------------------------------
# configuration, the property run

@dataclass
class Config:
    prop: str
    table: list                 # entries: dict(name, file, sig, note, build=callable(ctx, w) -> [PBlock]), see checks/c08.py
    widths: dict                # ns -> tier -> [w]
    startup: dict               # ns -> first lines of the harness program
    builders: dict = field(default_factory=dict)   # name -> callable(w=.., **params) -> PBlock  (replays)


def _subcfg(cfg, ns):
    return stl.Config(prop=cfg.prop, ns=ns, table=[], widths={}, startup=cfg.startup[ns], seq_n=1, seq_pairs_quick=0)


def standalone_program(cfg, b, values):
    return stl.program_text(_subcfg(cfg, b.ns), [b], literal=b.symbolic(values), direct=True)


def report_failure(ctx, cfg, b, values, exp, model_obs, engine_obs, verdicts, origin):
    sig = {'kind': 'stl-spec', 'macro': b.macro, 'defect': None}
    what = (f'{b.title} (w={b.w}) on operands {values}: documented result {b.spec} = '
            f'{None if exp is None else exp[0]} exit {None if exp is None else exp[1]}; real engine: {verdicts}')
    replay = {'block': b.title, 'macro': b.macro, 'w': b.w, 'ns': b.ns, 'operands': values,
              'operands_symbolic': b.symbolic(values), 'spec': b.spec, 'builder': list(b.builder) if b.builder else None,
              'expected_values': None if exp is None else exp[0], 'expected_exit': None if exp is None else exp[1],
              'variables': [f'{pv.name}: {pv.kind} x{pv.n}' + (f' at {pv.label}' if pv.label else '') for pv in b.pvars],
              'model_observation': model_obs, 'engine_observation': engine_obs, 'found_by': origin,
              'fj_program': standalone_program(cfg, b, values),
              'how': f'./check {ctx.prop} --replay <this file>   (assembles fj_program with the current repo - operand addresses are '
                     'label+offset, so they follow the new layout - runs it on the real engines and compares every memory word '
                     'with image + documented values, plus the pointer-cell consistency)'}
    ctx.violation(sig, what, replay)


def e_doc(docs, b):
    d = docs.get(getattr(b, 'entry_name', ''), {})
    return ' '.join(d.get('doc', []))[:200]


def run_property(ctx, cfg):
    t_start = time.time()
    only = os.environ.get('FJVERIF_STL_ONLY')
    table = [e for e in cfg.table if not only or re.search(only, e['name'])]
    prop = ctx.prop
    fw.static_proofs(ctx, [f'Properties/{prop}.v'])
    # generated files carry the pid of this run in their names (same convention as stl.run_property): concurrent runs of the
    # check cannot clobber each other; stale files of dead runs are removed, ours are removed at exit
    tag = f'{prop}p{os.getpid()}'
    stl.clean_stale_gen()
    gen_prefixes = [f'{d}{k}_{tag}_' for k in ('Img', 'StlP', 'StlT', 'StlTie', 'StlD') for d in ('', '.')]
    atexit.register(stl.clean_gen, gen_prefixes)
    dc = stl.DistinctCount()
    ctx._distinct = dc
    cov = ctx.coverage
    so = fw.build_fjcore(ctx)

    # ---- documentation of the current source
    docs = {}
    for e in table:
        d = stl.doc_of(e)
        if d is None:
            ctx.broken_tie(f'macro signature `{e["sig"]}` not found in {e["file"]}',
                           f'the macro table of {prop} names `{e["sig"]}` ({e["name"]}); the current source has no such definition')
            continue
        docs[e['name']] = {'doc': d['formula_lines'], 'at': d['at'], 'spec': e.get('spec_name'), 'note': e.get('note')}
    cov['documented_macros'] = docs

    # ---- blocks and images (one assembly group per namespace: the start-up differs)
    blocks = []
    for e in table:
        for ns_w in cfg.widths[e['ns']][ctx.tier]:
            for b in e['build'](ctx, ns_w):
                b.entry_name = e['name']
                blocks.append(b)
    images = []
    cap = stl.IMG_EXTRA_WORDS
    stl.IMG_EXTRA_WORDS = IMG_EXTRA_WORDS       # pointer blocks are 6-20k words each: larger images, fewer image compilations
    try:
        # one assembly group per (namespace, width): the start-up differs per namespace, and block sizes are measured at the
        # group's (single) width - many blocks exist at one width only
        for ns, w in sorted({(b.ns, b.w) for b in blocks}):
            images += stl.assemble_blocks(ctx, _subcfg(cfg, ns), [b for b in blocks if b.ns == ns and b.w == w], f'{tag}_{ns}{w}')
    finally:
        stl.IMG_EXTRA_WORDS = cap
    for b in blocks:
        if b.asm_error:
            known = getattr(b, 'asm_defect', None)
            if known and known[1] in b.asm_error:
                prog = stl.program_text(_subcfg(cfg, b.ns), [b], direct=True)
                ctx.violation(known[0], f'{b.title} (w={b.w}) does not assemble: {b.asm_error[:300]}; documented: {e_doc(docs, b)}',
                              {'block': b.title, 'macro': b.macro, 'w': b.w, 'ns': b.ns, 'asm_only': True, 'fj_program': prog,
                               'builder': list(b.builder), 'observed': b.asm_error[:600], 'required': 'the program assembles (and the '
                               'operand is left unchanged)', 'how': f'./check {ctx.prop} --replay <this file>   (assembles fj_program with the current repo)'})
            else:
                ctx.broken_tie(f'assembly of harness block {b.title} (w={b.w})', b.asm_error)
    t_asm = time.time()

    # ---- real engines on sampled operands (tests; also measures op counts)
    nsm = ctx.n(6, 14)
    jobs, meta = [], []
    for im in images:
        ww = im['w'].bit_length() - 1
        for b in im['blocks']:
            vals = sample_udom(ctx.rng, b.udom, nsm)
            for eng in ('fast', 'native') + (('featured',) if ctx.tier == 'thorough' else ()):
                vv = vals if eng != 'featured' else vals[:2]
                cases, exps = [], []
                for i, v in enumerate(vv):
                    c, e = engine_case(b, v, ww, i)
                    cases.append(c)
                    exps.append(e)
                jobs.append({'fjm': im['res']['fjm'], 'w': im['w'], 'engine': eng, 'cases': cases})
                meta.append((im, b, eng, vv, exps))
    results = stl.run_engines(ctx, so, jobs)
    tie_samples = {}
    engine_runs = engine_fail = 0
    for (im, b, eng, vv, exps), rs in zip(meta, results):
        for v, e, r in zip(vv, exps, rs):
            engine_runs += 1
            cov['evaluations'] += 1
            dc.add((b.bid, b.w, eng, tuple(v)))
            ctx.hist('engine_runs', eng)
            if 'ops' in r:
                b.ops = max(b.ops, r['ops'])
            bad = judge(b, e, r)
            if bad:
                engine_fail += 1
                report_failure(ctx, cfg, b, v, e, None, {k: r.get(k) for k in ('cause', 'ops', 'out', 'out_bits', 'diffs', 'exc')},
                               f'{eng}: {bad}', f'sampled operands on the real {eng} engine')
            elif eng == 'fast' and e is not None:
                tie_samples.setdefault((im['name'], b.bid), []).append((v, e, r['ops']))
    for (im, b, eng, vv, exps), rs in list(zip(meta, results))[:2]:
        ctx.sample({'kind': 'real-engine run', 'block': b.title, 'w': b.w, 'engine': eng, 'operands': vv[0],
                    'spec_result': exps[0], 'observed': {k: rs[0].get(k) for k in ('cause', 'ops', 'out', 'ndiffs')}})
    t_eng = time.time()

    # ---- Coq: images, pieces, ties
    img_paths = {im['name']: emit_image(im) for im in images}
    rimg = coqc_weighted([(img_paths[im['name']], im['res']['nwords']) for im in images], ctx.n(1500, 3000))
    live = []
    for im in images:
        rc, out, _ = rimg[img_paths[im['name']]]
        if rc != 0:
            ctx.broken_tie(f'generated image {im["name"]} does not compile', out)
            cov['obligations'] += len(im['blocks'])
        else:
            live.append(im)
    piece_files = []
    for im in live:
        for idx, units in enumerate(plan_pieces(im)):
            piece_files.append((im, units, emit_piece_file(im, idx, units)))
    tie_files = []
    for im in live:
        path, order = emit_tie(im, {bid: s[:6] for (nm, bid), s in tie_samples.items() if nm == im['name']})
        tie_files.append((im, order, path))
    piece_files.sort(key=lambda t: -sum(u['cost'] for u in t[1]))
    total_steps = sum(u['cost'] for _, us, _ in piece_files for u in us)
    rp = stl.coqc_many([p for _, _, p in piece_files] + [p for _, _, p in tie_files], ctx.n(1200, 3000))
    failed_units = []
    for im, units, path in piece_files:
        rc, out, secs = rp[path]
        for u in units:
            u['ok'] = rc == 0
            u['out'] = out
        if rc != 0:
            failed_units += [(im, u) for u in units]
    t_pieces = time.time()

    if failed_units:
        diagnose(ctx, cfg, so, failed_units)

    # ---- master theorems
    masters = []
    for im in live:
        okb = [b for b in im['blocks'] if all(u['ok'] for g in b.pieces for u in g)]
        cov['obligations'] += len(im['blocks'])
        if okb:
            masters.append((im, okb, emit_master(im, okb)))
    rm = stl.coqc_many([p for _, _, p in masters], 1200)
    names, inst = [], []
    proved_cases = 0
    for im, okb, path in masters:
        rc, out, _ = rm[path]
        if rc != 0:
            ctx.broken_tie(f'generated theorem file {path.name} does not compile', out)
            continue
        closed = out.count('Closed under the global context')
        if closed != len(okb):
            ctx.broken_tie(f'{path.name}: Print Assumptions is not "Closed under the global context" for every theorem', out)
            continue
        cov['discharged'] += len(okb)
        for b in okb:
            names.append(theorem_name(b))
            proved_cases += b.ncases()
            inst.append({'theorem': theorem_name(b), 'block': b.title, 'w': b.w, 'spec': b.spec[:300],
                         'domain_products': [[len(d) for d in p] for p in b.udom], 'cases': b.ncases(), 'max_ops_sampled': b.ops,
                         'pieces': sum(len(g) for g in b.pieces), 'scratch_words': len(b.addr['scratch'])})
            ctx.hist('exhaustive_instances_by_width', b.w)
            ctx.hist('exhaustive_instances_by_family', b.kind)
            ctx.hist('exhaustive_cases_by_macro', b.entry_name, b.ncases())
    cov['evaluations'] += proved_cases
    dc.bulk += proved_cases
    cov.setdefault('theorems', []).extend(names)
    cov['generated_theorems'] = len(names)
    cov['instances'] = inst if len(inst) <= 400 else inst[:400] + [{'note': f'{len(inst) - 400} more omitted'}]
    for b in [b for im in live for b in im['blocks']][:3]:
        ctx.sample({'kind': 'generated theorem', 'name': theorem_name(b),
                    'statement': f'forall vs, in_udom {udom_coq(b.udom)[:400]} vs -> {P_of(b)[:300]} vs',
                    'program': b.ptr_text(b.k).splitlines()[:6]})

    # ---- ties
    tie_checked = 0
    for im, order, path in tie_files:
        rc, out, _ = rp[path]
        if rc != 0:
            ctx.broken_tie(f'{path.name} does not compile', out)
            continue
        groups = re.findall(r'=\s*\((true|false),\s*\[([^\]]*)\]\)', re.sub(r'\s+', ' ', out))
        if len(groups) != len(order):
            ctx.broken_tie(f'{path.name}: unexpected output', out)
            continue
        for b, (ok, opsl) in zip(order, groups):
            ss = tie_samples[(im['name'], b.bid)][:6]
            mops = [int(x) for x in opsl.replace(';', ' ').split()]
            tie_checked += len(ss)
            if ok != 'true':
                ctx.broken_tie(f'mirror check: python spec of {b.title} differs from StlPtrSpec.v', f'{b.spec} on {[s[0] for s in ss]}')
            if mops != [s[2] for s in ss]:
                ctx.broken_tie(f'op-count tie: machine definition and fast engine execute different op counts for {b.title} (w={b.w})',
                               f'operands {[s[0] for s in ss]} machine {mops} engine {[s[2] for s in ss]}')
    cov['mirror_and_opcount_samples'] = tie_checked
    t_end = time.time()

    # ---- evidence
    cov['rule'] = (
        'Coq: for every block (pointer macro instance, pair of dereferences, balanced push/pop word, call tree) the whole operand '
        'domain stated in its theorem - a finite union of products of explicit value lists: every cell address of the buffer, every '
        'stored hex/byte value of the target cell, signed indices - is enumerated by vm_compute (check_ptr_block = frame equation over '
        'every memory word + exit + output + pointer-cell consistency); distinct = distinct (block, w, operand tuple), all non-trivial '
        '(every run executes the macro: >= 50 ops); engine: sampled operand tuples per block on fast/native/featured with the same '
        'judgement on the whole memory, distinct (block, w, engine, operands).  evaluations = enumerated cases of compiled theorems + engine runs')
    cov['exhaustive'] = True
    cov['engine_runs'] = engine_runs
    cov['engine_failures'] = engine_fail
    cov['coq_cases_proved'] = proved_cases
    cov['estimated_machine_steps'] = total_steps
    cov['images'] = [{'name': im['name'], 'w': im['w'], 'words': im['res']['nwords'], 'blocks': len(im['blocks'])} for im in images]
    cov['checker_cmd'] += f' ; coqc (parallel, {fw.NCPU} jobs) on coq/Gen/Img_{tag}_*.v StlP_{tag}_*.v StlT_{tag}_*.v StlTie_{tag}_*.v'
    cov['timing_s'] = {'assembly': round(t_asm - t_start, 1), 'engines': round(t_eng - t_asm, 1),
                       'coq_pieces': round(t_pieces - t_eng, 1), 'rest': round(t_end - t_pieces, 1)}
    cov['trusted_base'] += [
        'the assembler that produced the images is the implementation under test (C02/C03/C12 cover it); images are regenerated every run',
        'harness/fjverif/stl.py + stl_ptr.py label resolution (debug-label file of the same assembly), scratch declarations '
        '(word 0 bit 0, the IO word, the library\'s global pointer cells - constrained by the consistency clause -, stack cells above sp)',
        'generated theorems: Print Assumptions = Closed under the global context (checked for each)']
    ctx.assumptions += [
        'every theorem is about THIS image (w, layout, the buffer placed across a 32-op boundary): pointers range over every cell '
        'of a k-cell buffer, not over every address of the address space',
        'each block starts from the initial library state; residue between dereferences is covered by the ordered-pair blocks '
        '(two dereferences through two pointers, all address pairs) and by the consistency clause, not for arbitrary sequences (_partial)',
        'stack words: every balanced push/pop word up to the stated length over {hex, byte, vector n}; pushed values exhaustive for one '
        'push at a time (the others fixed); stack cells above sp are scratch (their byte bits), initial stale content is an operand',
        'call trees are a generated finite family (listed in the evidence), recursion is not covered',
        'a pointed cell holds a byte (hex namespace) or a bit (bit namespace); write_hex is specified on the hex of the cell, the four '
        'bits above it must stay']
    if stl.fw_keep_gen():
        atexit.unregister(stl.clean_gen)


def diagnose(ctx, cfg, so, failed_units):
    """per failed piece: first failing operands (in Coq), then confirmation on the real engines"""
    files = []
    for i, (im, u) in enumerate(failed_units):
        b = u['b']
        name = f'StlD_{im["name"]}_{i}'
        txt = [f'{HDR} Gen.Img_{im["name"]}.', 'Local Open Scope N_scope.',
               f'Eval vm_compute in (first_fails 3 (check_ptr_block ww segs img b{b.k} pcs {b.spec}) (enum_ldom {prod_coq(u["prod"])})).']
        path = GEN / f'{name}.v'
        path.write_text('\n'.join(txt) + '\n')
        files.append(path)
    res = stl.coqc_many(files, ctx.n(1200, 3000))
    confirm = []
    for (im, u), path in zip(failed_units, files):
        rc, out, _ = res[path]
        b = u['b']
        if rc != 0:
            u['ok'] = False
            ctx.broken_tie(f'piece {u["thm"]} of {b.title} (w={b.w}) fails and its diagnosis does not evaluate', (u['out'] + out)[-2000:])
            continue
        flat = re.sub(r'\s+', ' ', out)
        m = re.search(r'=\s*\[(.*)\]\s*:\s*list \(list N\)', flat)
        ops_lists = re.findall(r'\[([0-9; ]*)\]', m.group(1)) if m and m.group(1).strip() else []
        if not ops_lists:
            u['ok'] = True
            u['recheck'] = True
            continue
        for s in ops_lists:
            confirm.append((im, u, [int(x) for x in s.replace(';', ' ').split()]))
    victims = [(im, u) for im, u in failed_units if u.get('recheck')]
    if victims:
        paths = [emit_piece_file(im, f'r{i}', [u]) for i, (im, u) in enumerate(victims)]
        rr = stl.coqc_many(paths, ctx.n(1200, 3000))
        for (im, u), p in zip(victims, paths):
            u['ok'] = rr[p][0] == 0
            if not u['ok']:
                ctx.broken_tie(f'piece {u["thm"]} of {u["b"].title} does not compile', rr[p][1])
    if not confirm:
        return
    jobs, meta, obs_files = [], [], []
    for i, (im, u, vals) in enumerate(confirm):
        b = u['b']
        ww = im['w'].bit_length() - 1
        exp = b.pyf(vals)
        ev = exp[0] if exp else vals
        path = GEN / f'StlD_{im["name"]}_o{i}.v'
        path.write_text(f'{HDR} Gen.Img_{im["name"]}.\nLocal Open Scope N_scope.\n'
                        f'Eval vm_compute in (observe_ptr_block ww segs img b{b.k} pcs {fw.nlist(vals)} {fw.nlist(ev)}).\n')
        obs_files.append(path)
        for eng in ('fast', 'native'):
            c, e = engine_case(b, vals, ww, i)
            jobs.append({'fjm': im['res']['fjm'], 'w': im['w'], 'engine': eng, 'cases': [c]})
            meta.append((i, eng, e))
    robs = stl.coqc_many(obs_files, 900)
    rs = stl.run_engines(ctx, so, jobs)
    per = {}
    for (i, eng, e), r in zip(meta, rs):
        per.setdefault(i, []).append((eng, e, r[0]))
    for i, (im, u, vals) in enumerate(confirm):
        b = u['b']
        u['ok'] = False
        model = re.sub(r'\s+', ' ', robs[obs_files[i]][1])[-700:]
        verdicts = {eng: judge(b, e, r) for eng, e, r in per[i]}
        exp = per[i][0][1]
        eobs = {eng: {k: r.get(k) for k in ('cause', 'ops', 'out', 'out_bits', 'diffs', 'exc')} for eng, e, r in per[i]}
        ctx.coverage['evaluations'] += len(per[i])
        if any(v for v in verdicts.values()):
            report_failure(ctx, cfg, b, vals, exp, model, eobs, verdicts,
                           f'Coq: check_ptr_block is false for this operand in piece {u["thm"]} (theorem {theorem_name(b)} not provable)')
        else:
            ctx.broken_tie(f'{b.title} (w={b.w}) operands {vals}: the machine definition violates the C08 statement but the real engines satisfy it',
                           f'model observation ((cause, ops, ip, output, differing words), pointer cells): {model}; engines: {eobs}')


# ---------------------------------------------------------------------------------------------------------
# replay

def replay(ctx, cfg, path):
    rp = json.loads(Path(path).read_text())['replay']
    if 'fj_program' not in rp:
        print(f'replay {path}: names a broken theorem/correspondence, no operand to re-run: {rp.get("theorem_or_correspondence")}')
        return 1
    name, params = rp['builder']
    w = rp['w']
    if rp.get('asm_only'):
        res = stl._asm_jobs(ctx, [{'name': 'replay', 'fj': rp['fj_program'], 'w': w, 'dir': str(ctx.scratch / 'replay'), 'temps': [],
                                   'want_words': False}])[0]
        print(f'[{ctx.prop} replay] {rp["block"]} w={w}: required: {rp["required"]}; observed: '
              + ('assembles -> ok' if res['ok'] else f'{res.get("error", "?")[:300]} -> VIOLATION: does not assemble'))
        return 0 if res['ok'] else 1
    b = cfg.builders[name](w=w, **params)
    ww = w.bit_length() - 1
    d = str(ctx.scratch / 'replay')
    temps = [nm for nm, _ in b.temps]
    res = stl._asm_jobs(ctx, [{'name': 'replay', 'fj': rp['fj_program'], 'w': w, 'dir': d, 'temps': temps, 'want_words': False}])[0]
    if not res['ok']:
        print(f'replay: the program does not assemble with the current repo: {res.get("error")}')
        return 1
    b.ptr_resolve(0, res, w, {})
    # operands follow the layout of THIS assembly: symbolic addresses are resolved against the new label table
    A = b.addr['A']
    vals = []
    for s in rp['operands_symbolic']:
        if isinstance(s, str):
            lbl, off = s.rsplit('+', 1)
            vals.append(A[lbl] + int(off))
        else:
            vals.append(s)
    so = fw.build_fjcore(ctx)
    exp = b.pyf(vals)
    status = 0
    for eng in ('fast', 'native'):
        # operands declared at global labels (stack pointer, stack cells) are patched, the others are literals of the program
        gpatch = []
        for pv, var, v in zip(b.pvars, b.addr['vars'], vals):
            if pv.label is not None:
                gpatch += stl.var_patch(var, v, ww)
        case = {'id': 0, 'patch': gpatch, 'scratch': [[a, a + 1, m] for a, m in b.addr['scratch'].items()], 'watchdog': 60.0,
                'read': [jw + 2 * i for _, jw, n in b.addr['vars'] for i in range(n)] + pcs_words(b),
                'expect': [p for p in stl.patches(b, exp[0], ww) if p[0] != 1] if exp else []}
        r = stl.run_engines(ctx, so, [{'fjm': res['fjm'], 'w': w, 'engine': eng, 'cases': [case]}])[0][0]
        bad = judge(b, exp, r)
        print(f'[{ctx.prop} replay] {rp["block"]} w={w} operands={vals} engine={eng}: required values={exp[0] if exp else None} '
              f'exit={exp[1] if exp else None}; observed values={stl.observed_values(b, r, w)} cause={r.get("cause")} out={r.get("out")} '
              f'differing words={r.get("diffs")} pointer cells: {consistency_of(b, r) or "consistent"}'
              f' -> {"VIOLATION: " + bad if bad else "ok"}')
        if bad:
            status = 1
    return status
