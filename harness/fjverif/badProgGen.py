"""C14: grammar-derived INVALID FlipJump programs, one generator per error class, plus token / byte mutations of valid
programs.  Nothing here knows what the assembler answers; `hint` only names the class the text was built for.

A case is a dict  {"cls": generator name, "text": str | bytes, "stl": bool, "hint": str,
                   "pre": optional un-folded main-macro ops as JSON statements (the dump_tree.py format) when the text is a
                          macro-free program whose expressions the generator built itself, so the Coq model can be run from
                          BEFORE the parser-time folding (the real parser only returns folded trees),
                   "w": optional fixed width, "v": optional fixed version, "max_depth": optional, "slow": bool}
Expression JSON (same as dump_tree.py): int | "label" | [opstr, [args]].
"""
import re
from pathlib import Path

BINOPS = ['+', '-', '*', '/', '%', '**', '<<', '>>', '^', '|', '&', '&&', '||', '<', '>', '<=', '>=', '==', '!=']
SAFE_BINOPS = ['+', '-', '*', '^', '|', '&', '&&', '||', '<', '>', '<=', '>=', '==', '!=']
UNOPS = ['#', '~']
KEYWORDS = ['def', 'rep', 'ns', 'wflip', 'pad', 'segment', 'reserve']
PUNCT = [';', ':', ',', '(', ')', '{', '}', '@', '<', '>', '=', '+', '-', '*', '/', '%', '$', '^', '|', '&', '~', '?', '#',
         '"', "'", '.', '<<', '>>', '**', '&&', '||', '<=', '>=', '==', '!=', '\n', '\\', '!', '`', '[', ']']
WIDTHS = [8, 16, 32, 64]
# what a cyclic macro recursion has to end in: the preprocessor's own check (macro_resolve_error)
DEPTH_DIAGNOSTIC = {'cls': 'FlipJumpPreprocessorException', 'msg': 'maximal macro-expansion recursive depth'}
VERSIONS = [0, 1, 2, 3]


# ---- expressions ---------------------------------------------------------------------------------------------------

def esrc(e):
    """fully parenthesised source text of an expression JSON"""
    if isinstance(e, int):
        return str(e) if e >= 0 else f'(0-{-e})'
    if isinstance(e, str):
        return e
    op, args = e
    if len(args) == 1:
        return f'({op}{esrc(args[0])})'
    if len(args) == 2:
        return f'({esrc(args[0])} {op} {esrc(args[1])})'
    return f'({esrc(args[0])} ? {esrc(args[1])} : {esrc(args[2])})'


def neg(n):
    return ['-', [0, n]]


def rnd_safe_expr(rng, depth, leaves):
    """an expression without division / shift / power (cannot fail arithmetically)"""
    if depth <= 0 or rng.random() < 0.3:
        return rng.choice(leaves)
    r = rng.random()
    if r < 0.12:
        return [rng.choice(UNOPS), [rnd_safe_expr(rng, depth - 1, leaves)]]
    if r < 0.2:
        return ['?:', [rnd_safe_expr(rng, depth - 1, leaves) for _ in range(3)]]
    return [rng.choice(SAFE_BINOPS), [rnd_safe_expr(rng, depth - 1, leaves), rnd_safe_expr(rng, depth - 1, leaves)]]


def fault_ops(zero, neg1):
    """the five arithmetic failures; `zero` / `neg1` are expressions that evaluate to 0 / a negative number"""
    return {'div0': ['/', [7, zero]], 'mod0': ['%', [7, zero]], 'shl-neg': ['<<', [1, neg1]],
            'shr-neg': ['>>', [9, neg1]], 'pow-neg': ['**', [2, neg1]]}


def wrap_fault(rng, f, leaves):
    """embed the failing sub-expression: bare, inside arithmetic, in the UNTAKEN branch of ?: (evaluation is eager), in && / ||"""
    k = rng.randrange(5)
    if k == 0:
        return f
    if k == 1:
        return ['+', [rnd_safe_expr(rng, 1, leaves), f]]
    if k == 2:
        return ['?:', [1, 5, f]]
    if k == 3:
        return ['&&', [0, f]]
    return ['*', [f, rnd_safe_expr(rng, 1, leaves)]]


POS = {'file': 'p.fj', 'short': 'f1', 'line': 1}


def st_fj(flip, jump, line=1):
    return {'t': 'FlipJump', 'flip': flip, 'jump': jump, 'pos': dict(POS, line=line)}


def place(ctx_name, e, line=1):
    """a one-line statement that uses expression e in the given context -> (source line, JSON stmt or None)"""
    p = dict(POS, line=line)
    s = esrc(e)
    if ctx_name == 'jump':
        return f';{s}', {'t': 'FlipJump', 'flip': 0, 'jump': e, 'pos': p}
    if ctx_name == 'flip':
        return f'{s};', {'t': 'FlipJump', 'flip': e, 'jump': '$', 'pos': p}
    if ctx_name == 'wflip-addr':
        return f'wflip {s}, 1', {'t': 'WordFlip', 'addr': e, 'value': 1, 'ret': '$', 'pos': p}
    if ctx_name == 'wflip-value':
        return f'wflip 0, {s}', {'t': 'WordFlip', 'addr': 0, 'value': e, 'ret': '$', 'pos': p}
    if ctx_name == 'wflip-ret':
        return f'wflip 0, 1, {s}', {'t': 'WordFlip', 'addr': 0, 'value': 1, 'ret': e, 'pos': p}
    if ctx_name == 'pad':
        return f'pad {s}', {'t': 'Pad', 'align': e, 'pos': p}
    if ctx_name == 'segment':
        return f'segment {s}', {'t': 'Segment', 'start': e, 'pos': p}
    if ctx_name == 'reserve':
        return f'reserve {s}', {'t': 'Reserve', 'size': e, 'pos': p}
    raise KeyError(ctx_name)


PRIM_CONTEXTS = ['jump', 'flip', 'wflip-addr', 'wflip-value', 'wflip-ret', 'pad', 'segment', 'reserve']


def case(cls, text, hint, stl=False, pre=None, **kw):
    d = {'cls': cls, 'text': text, 'stl': stl, 'hint': hint, 'pre': pre}
    d.update(kw)
    return d


# ---- 1. lexing -----------------------------------------------------------------------------------------------------

def gen_lexing(rng, n):
    bad_chars = ['!', '`', '[', ']', '\\', '\x01', '\x7f', '\x00', 'é', '→', '\ufeff', "'ab'", "''", '"abc', '"\\q"', "'\\x4'",
                 '0x', '0b2', '1e5', '09a', '$$', '..', 'a..b', '.', '\\ x', '#!', '"\n"', '\x0c', '\x0b']
    out = []
    for i in range(n):
        c = bad_chars[i % len(bad_chars)]
        k = rng.randrange(5)
        if k == 0:
            t = f';{c}\n'
        elif k == 1:
            t = f'x{c}:\n;x\n'
        elif k == 2:
            t = f'def m {c} {{\n;\n}}\nm\n'
        elif k == 3:
            t = f';\n{c}\n;\n'
        else:
            t = f'wflip 0, {c}\n'
        out.append(case('lexing', t, f'illegal text {c!r}'))
    out.append(case('lexing', b';\xff\n', 'byte that is not UTF-8'))
    out.append(case('lexing', b'\xc3\n;', 'truncated UTF-8 sequence'))
    out.append(case('lexing', b';\n\x80\x80', 'stray UTF-8 continuation bytes'))
    out.append(case('lexing', '\ufeff;\n'.encode('utf-8'), 'UTF-8 byte order mark'))
    out.append(case('lexing', ';\n'.encode('utf-16'), 'UTF-16 file'))
    return out


# ---- 1b. unterminated / badly escaped string and character literals of every length ------------------------------------

LITERAL_LENGTHS = [1, 2, 3, 5, 8, 12, 16] + list(range(20, 61)) + [64, 70, 80, 100, 128, 150, 200]
LEX_WATCHDOG = 3.0      # the lexer has to refuse these at once: a short limit of their own (expiries are confirmed at 8 s)


def gen_unterminated(rng, n):
    """a quote followed by N plain characters and no (valid) end of the literal on that line: the lexer must report it at
    once - a regular expression that backtracks over the 2^N ways to split the run never returns"""
    plain = 'abcdefghijklmnopqrstuvwxyzABCDEFGHIJKLMNOPQRSTUVWXYZ0123456789 _.,;:+-*/()<>=!?#$%&@[]{}|^~'
    contexts = [
        ('top level, no closing quote', ';"{X}\n;\n'), ('top level, end of file', ';"{X}'),
        ('in a macro body', 'def m {{\n;"{X}\n}}\nm\n'), ('as a macro argument', 'def m a {{\n;a\n}}\nm "{X}\n'),
        ('after a valid string on the same line', 'def m a, b {{\n;a\n;b\n}}\nm "ok", "{X}\n'),
        ('after a valid string in an expression', ';"ab" + "{X}\n'), ('in a rep count', 'def m {{\n;\n}}\nrep("{X}, i) m\n'),
        ('invalid escape at the end', ';"{X}\\q"\n'), ('short hex escape at the end', ';"{X}\\x4"\n'),
        ('backslash at the end of the line', ';"{X}\\\n;\n'), ('tab inside the string', ';"{X}\t"\n'),
        ('non-ASCII character at the end', ';"{X}\u00e9"\n'), ('stray quote before a line of code', '" wflip {X}, 1\n'),
        ('in a constant definition', 'c = "{X}\n;c\n'), ('in pad', ';\npad "{X}\n'),
        ('character literal without the closing quote', ";'{X}\n;\n"), ('character literal that is too long', ";'{X}'\n"),
        ('character literal with an invalid escape', ";'{X}\\q'\n"), ('closing quote of the other kind', ';"{X}\'\n'),
        ('quote inside a comment line then a real one', '// "{X}\n;"{X}\n'),
    ]
    out = []
    for i in range(n):
        hint, tpl = contexts[i % len(contexts)]
        ln = LITERAL_LENGTHS[(i // len(contexts) + 7 * (i % len(contexts))) % len(LITERAL_LENGTHS)]
        k = rng.randrange(3)
        run = ('a' * ln) if k == 0 else ''.join(rng.choice(plain) for _ in range(ln)) if k == 1 else \
            ''.join(rng.choice('ab c') for _ in range(ln))
        out.append(case('unterminated', tpl.replace('{X}', run).replace('{{', '{').replace('}}', '}'),
                        f'{hint}, {ln} plain characters', must_finish=True, watchdog=LEX_WATCHDOG))
    return out


# ---- 2. syntax -----------------------------------------------------------------------------------------------------

def gen_syntax(rng, n):
    frags = [
        ';;;', '; ;', ':', 'x::', ': x', 'x: y: ;', '= 3', 'x = ', 'x == 3', 'x = 3 4', 'x = y', '3 = x', 'def', 'def m', 'def m {',
        'def m {\n;', 'def m {\n;\n}}', 'def m {\n}', 'def {\n;\n}', 'def 3 {\n;\n}', 'def m a b {\n;\n}', 'def m a, {\n;\n}',
        'def m @ {\n;\n}', 'def m < {\n;\n}', 'def m > {\n;\n}', 'def m a @ b @ c {\n;b\nb:\n}', 'def m {;}', 'def m { \n;\n} ;',
        'def m {\ndef q {\n;\n}\n}', 'def m {\nns a {\n;\n}\n}', 'ns', 'ns a', 'ns a {', 'ns a {\n;', 'ns a {\n;\n}}', 'ns {\n;\n}',
        'ns 3 {\n;\n}', 'ns a.b {\n;\n}', 'ns a {;}', '}', '{', '{\n;\n}', 'rep', 'rep(', 'rep(3', 'rep(3,', 'rep(3, i', 'rep(3, i)',
        'rep 3, i m', 'rep(3; i) m', 'rep(3, 4) m', 'rep(3, i, j) m', 'rep(, i) m', 'rep(3, i) 4', 'rep(3, i) rep(2, j) m',
        'rep(3, i) ;', 'wflip', 'wflip 1', 'wflip 1,', 'wflip 1, 2,', 'wflip 1, 2, 3, 4', 'wflip , 2', 'wflip 1 2', 'pad', 'pad ,',
        'pad 1, 2', 'segment', 'segment 0, 0', 'reserve', 'reserve 64 64', ';1+', ';+', ';1 +* 2', ';(1', ';1)', ';()', ';1 ? 2',
        ';1 ? 2 :', ';1 : 2', ';? 1 : 2', ';1 < 2 < 3', ';1 <= 2 >= 3', ';a b', 'm 1,', 'm ,1', 'm 1,,2', 'm (', 'm 1 2', 'm.', '.m.',
        'm..q', ';1 2', '1 2;', ';"a" "b"', ';#', ';~', ';-', ';1 -', ';**2', ';2**', ';$ $', 'x: x: ;', 'x = 1 = 2', '@', ',', '$',
        '?', '#', '<', '>', '=', '(', ')', '"', "'", 'def m a {\n;a\n', 'def m a {\n;a\n}\ndef', 'ns a {\ndef m {\n;\n}\n',
        'x:\n}\n', 'pad\n1', ';\\', ';1 \\\n+', '\\\n', 'def m \\\n{\n;\n}', 'def m {\\\n;\n}',
    ]
    out = []
    for i in range(n):
        f = frags[i % len(frags)]
        k = rng.randrange(4)
        if k == 0:
            t = f
        elif k == 1:
            t = f + '\n'
        elif k == 2:
            t = ';\n' + f + '\n;\n'
        else:
            t = 'def ok {\n;\n}\nok\n' + f
        out.append(case('syntax', t, f'syntax: {f!r}'))
    # macro-only rules: segment / reserve inside a macro, undeclared / unused label classes (warnings are errors)
    extra = ['def m {\nsegment 0\n}\nm', 'def m {\nreserve 64\n}\nm', 'def m a {\n;\n}\nm 1', 'def m {\n;x\n}\nm\nx:',
             'def m @ a {\n;\n}\nm', 'def m @ a {\n;a\n}\nm', 'def m {\nx:\n;\n}\nm', 'def m < g {\n;\n}\nm', 'def m > e {\n;\n}\nm',
             'def m a < a {\n;a\n}\nm 1', 'def m a > a {\na:\n;\n}\nm x', 'def m @ a < a {\na:\n;a\n}\nm',
             'def m < g > g {\ng:\n;g\n}\nm', 'ns a {\ndef m {\n;..x\n}\n}\na.m\nx:', 'ns a {\ndef m {\n;....x\n}\n}\na.m\nx:',
             ';...x\nx:', 'ns a {\nx:\n}\n;a.x', 'ns a {\nx:\n}\n;x', 'ns a {\n;.x\nx:\n}']
    for f in extra:
        out.append(case('syntax', f + '\n', f'macro-level rule: {f!r}'))
    return out


# ---- 3. unknown / duplicate macro or label, wrong arity --------------------------------------------------------------

def gen_names(rng, n):
    frags = [
        ('unknown macro', 'm'), ('unknown macro', 'a.b.c'), ('unknown macro', 'def q {\n;\n}\nq\nm 1, 2'),
        ('wrong arity', 'def m a {\n;a\n}\nm'), ('wrong arity', 'def m a {\n;a\n}\nm 1, 2'), ('wrong arity', 'def m {\n;\n}\nm 1'),
        ('wrong arity', 'def m a, b {\n;a\n;b\n}\nrep(2, i) m i'), ('unknown macro in rep', 'rep(2, i) m i'),
        ('unknown macro in rep (0 times)', 'rep(0, i) m i'), ('unknown macro in rep (negative times)', 'rep(0-3, i) m i'),
        ('unknown macro nested', 'def a {\nb\n}\ndef b {\nc 1\n}\na'),
        ('duplicate macro', 'def m {\n;\n}\ndef m {\n;\n}\nm'), ('duplicate macro arity', 'def m a {\n;a\n}\ndef m b {\n;b\n}\nm 1'),
        ('same name different arity (legal)', 'def m a {\n;a\n}\ndef m {\n;\n}\nm 0\nm'),
        ('duplicate macro in ns', 'ns a {\ndef m {\n;\n}\n}\nns a {\ndef m {\n;\n}\n}\na.m'),
        ('duplicate label', 'x:\nx:\n;x'), ('duplicate label', ';x\nx:\n;\nx:'), ('duplicate label ns', 'ns a {\nx:\n}\nns a {\nx:\n}\n;a.x'),
        ('duplicate label through macro', 'def m > x {\nx:\n;\n}\nm\nm\n;x'),
        ('duplicate label through rep', 'def m > x {\nx:\n;\n}\nrep(2, i) m\n;x'),
        ('duplicate label: parameter', 'def m a {\na:\n;\n}\nm x\nm x\n;x'),
        ('label swapped to a number', 'def m a {\na:\n;\n}\nm 5'), ('label swapped to an expression', 'def m a {\na:\n;\n}\nm x+1\nx:'),
        ('unknown label', ';x'), ('unknown label', 'x;'), ('unknown label', 'wflip x, 1'), ('unknown label', 'wflip 0, x'),
        ('unknown label', 'wflip 0, 1, x'), ('unknown label in pad', ';\npad x'), ('forward label in pad', ';\npad x\nx:'),
        ('unknown label in segment', ';\nsegment x\n;'), ('forward label in segment', ';\nsegment x\nx:\n;'),
        ('unknown label in reserve', ';\nreserve x'), ('unknown label in rep', 'def m {\n;\n}\nrep(x, i) m'),
        ('forward label in rep', 'def m {\n;\n}\nrep(x, i) m\nx:'), ('unknown label as arg', 'def m a {\n;a\n}\nm x'),
        ('duplicate parameter', 'def m a, a {\n;a\n}\nm 1, 2'), ('duplicate local', 'def m @ a, a {\na:\n;a\n}\nm'),
        ('parameter equals local', 'def m a @ a {\n;a\n}\nm 1'), ('rep iterator captured', 'def m a {\n;a\n}\ndef q i {\nrep(2, i) m i\n}\nq 7'),
        ('rep iterator used in times', 'def m {\n;\n}\nrep(i, i) m'),
    ]
    out = []
    for i in range(n):
        h, f = frags[i % len(frags)]
        t = f + '\n'
        if rng.random() < 0.3:
            t = ';\n' + t
        out.append(case('names', t, h))
    return out


# ---- 4. alignment / overlap / segments -------------------------------------------------------------------------------

def gen_layout(rng, n):
    out = []
    for i in range(n):
        w = WIDTHS[i % 4]
        k = (i // 4) % 22
        odd = rng.choice([1, 3, w - 1, w + 1, 2 * w + 5])
        t, h = {
            0: (f'segment {odd}\n;', 'segment not w-aligned'),
            1: (f';\nreserve {odd}', 'reserve not w-aligned'),
            2: (f';\nreserve {w}\npad 1', 'pad after a reserve that is not 2w-aligned'),
            3: (f';\nsegment {3 * w}\n;', 'segment w- but not 2w-aligned (writer refuses)'),
            4: (f';\nreserve {w}', 'segment length odd (writer refuses)'),
            5: (';\npad 0', 'pad 0'), 6: (f';\npad 0-{rng.randrange(1, 9)}', 'negative pad'),
            7: (';\nsegment 0\n;', 'segment overlaps the first one'),
            8: (f';\n;\nsegment {2 * w}\n;', 'segment starts inside the previous one'),
            9: (f'segment {8 * w}\n;\nsegment {8 * w}\n;', 'two segments at the same address'),
            10: (f'segment {8 * w}\n;\n;\nsegment {6 * w}\n;\n;', 'second segment runs into the first'),
            11: (f';\nreserve {4 * w}\nsegment {4 * w}\n;', 'segment inside a reserved area'),
            12: (f'segment {4 * w}\n;', 'no op at address 0'), 13: ('', 'empty program'), 14: ('// nothing\n\n', 'only a comment'),
            15: (f'segment 0\nsegment {2 * w}\n;', 'empty first segment'),
            16: (f';\nsegment 0-{2 * w}\n;', 'negative segment address'),
            17: (f';\nreserve 0-{2 * w}\n;', 'negative reserve'),
            18: (f'wflip {4 * w}, 3\nsegment {2 * w}\n;', 'wflip area runs into the next segment'),
            19: (f';\npad 4\nwflip 0, 3\nsegment {2 * w}\n;', 'wflip placed in padding, then overlap'),
            20: (f'reserve {2 * w}\n;', 'reserve first (zero data, legal)'),
            21: (f';\nsegment {16 * w}\nreserve {2 * w}\nsegment {16 * w}\n;', 'segment over a reserve'),
        }[k]
        out.append(case('layout', t + '\n', h, w=w))
    return out


# ---- 5. out-of-range values (F8 family) ------------------------------------------------------------------------------

def gen_range(rng, n):
    out = []
    combos = [(w, v) for w in WIDTHS for v in VERSIONS]
    for i in range(n):
        w, v = combos[i % 16]
        k = (i // 16) % 16
        big = rng.choice([f'1<<{w}', f'(1<<{w})+{rng.randrange(1, 99)}', f'1<<{w + rng.randrange(1, 70)}', f'0-{rng.randrange(1, 99)}',
                          f'0-(1<<{w})', f'(1<<{w})-1+1'])
        edge_ok = rng.choice([f'(1<<{w})-1', f'(1<<{w})-{w}', '0'])
        t, h = {
            0: (f';{big}', 'jump word out of range'), 1: (f'{big};', 'flip word out of range'),
            2: (f'{big};{big}', 'both words out of range'), 3: (f';{edge_ok}', 'jump word at the edge (legal)'),
            4: (f'wflip 0, {big}', 'wflip value out of range'), 5: (f'wflip {big}, 1', 'wflip address out of range'),
            6: (f'wflip 0, 1, {big}', 'wflip return address out of range'),
            7: (f'wflip (1<<{w})-{w // 2}, (1<<{w})-1', 'wflip bit addresses run past 2^w'),
            8: (f'segment 1<<{w}\n;', 'segment at 2^w'), 9: (f';\nreserve 1<<{w}', 'reserve to 2^w'),
            10: (f'segment (1<<{w})-{2 * w}\n;\n;', 'code runs past 2^w'),
            11: (f'segment (1<<{w})-{2 * w}\nwflip 0, 3', 'wflip area runs past 2^w'),
            12: (f'def m a {{\n;a\n}}\nm {big}', 'out-of-range value through a macro parameter'),
            13: (f';x-{w * 8}\nx:', 'negative value through a label'),
            14: (f'def m a {{\n;a\n}}\nrep(3, i) m i-1', 'negative value through a rep iterator'),
            15: (f';\nsegment (1<<{w})-{4 * w}\n;$+{4 * w}', 'jump past the end through $'),
        }[k]
        out.append(case('range', t + '\n', h, w=w, v=v))
    return out


# ---- 6. arithmetic failures at each of the three evaluation stages ----------------------------------------------------

def gen_arith(rng, n):
    out = []
    names = list(fault_ops(0, 0))
    i = 0
    while len(out) < n:
        fname = names[i % 5]
        stage = (i // 5) % 3
        ctxi = (i // 15) % 12
        i += 1
        leaves = [1, 2, 3, 'w']
        if stage == 0:      # parser-time folding: every leaf is a literal or a constant
            zero = rng.choice([0, ['-', [5, 5]], ['&', [1, 2]], ['-', ['w', 'w']], 'z0'])
            neg1 = rng.choice([neg(1), ['-', [2, 7]], ['~', [0]], 'n1'])
            f = wrap_fault(rng, fault_ops(zero, neg1)[fname], [1, 2, 3])
            head = 'z0 = 0\nn1 = 0-1\n'
            uses_const = 'z0' in esrc(f) or 'n1' in esrc(f) or 'w' in re.findall(r'[a-z]\w*', esrc(f))
            if ctxi < 8:
                cname = PRIM_CONTEXTS[ctxi]
                line, st = place(cname, f, line=4)
                text = head + ';\n' + line + '\n'
                pre = None if uses_const else [st_fj(0, '$', 3), st]
                out.append(case('arith', text, f'{fname} in {cname}, literals only (parser-time folding)', pre=pre))
            elif ctxi == 8:
                out.append(case('arith', head + f'x = {esrc(f)}\n;x\n', f'{fname} in a constant definition (parser-time folding)'))
            elif ctxi == 9:
                out.append(case('arith', head + f'def m a {{\n;a\n}}\nm {esrc(f)}\n', f'{fname} in a macro argument (parser-time folding)'))
            elif ctxi == 10:
                out.append(case('arith', head + f'def m {{\n;\n}}\nrep({esrc(f)}, i) m\n', f'{fname} in rep times (parser-time folding)'))
            else:
                out.append(case('arith', head + f'def m {{\n;{esrc(f)}\n}}\n;\n', f'{fname} inside an unused macro body (parser-time folding)'))
        elif stage == 1:    # macro-parameter / rep-iterator substitution
            f = wrap_fault(rng, fault_ops('a', 'b')[fname], [1, 2, 'a'])
            body_ctx = ['jump', 'flip', 'wflip-addr', 'wflip-value', 'wflip-ret', 'pad'][ctxi % 6]
            line, _ = place(body_ctx, f)
            how = ctxi % 4
            if how == 0:
                call = 'm 0, 0-1'
            elif how == 1:
                call = 'q 5\ndef q c {\nm c-5, 4-c\n}'
            elif how == 2:
                call = 'rep(2, i) m i, i-1'
            else:
                call = 'rep(1, i) q i\ndef q c {\nrep(1, j) m c+j, c-1\n}'
            text = f';\ndef m a, b {{\n;a\n;b\n{line}\n}}\n{call}\n'
            out.append(case('arith', text, f'{fname} in {body_ctx}, after parameter substitution ({call.splitlines()[0]})'))
        else:               # label resolution
            zero = rng.choice([['-', ['x', 'x']], ['-', ['$', '$']], ['*', ['y', 0]], ['-', ['y', 'y']]])
            neg1 = rng.choice([['-', ['x', ['+', ['x', 1]]]], ['-', [0, 'y']], ['-', ['x', 'y']]])
            f = wrap_fault(rng, fault_ops(zero, neg1)[fname], [1, 2, 'x'])
            cname = PRIM_CONTEXTS[ctxi % 8]
            line, st = place(cname, f, line=3)
            before = ctxi >= 8 or cname in ('pad', 'segment', 'reserve')
            if before:      # labels declared before the use (pad / segment / reserve are evaluated during macro resolution)
                text = f'x:\n;\n{line}\ny:\n;x\n;y\n'
                pre = [{'t': 'Label', 'name': 'x', 'pos': dict(POS, line=1)}, st_fj(0, '$', 2), st,
                       {'t': 'Label', 'name': 'y', 'pos': dict(POS, line=4)}, st_fj(0, 'x', 5), st_fj(0, 'y', 6)]
                if cname in ('pad', 'segment', 'reserve') and 'y' in esrc(f):
                    pre = None
                    text = f'x:\n;\ny:\n{line}\n;x\n;y\n'
                    pre = [{'t': 'Label', 'name': 'x', 'pos': dict(POS, line=1)}, st_fj(0, '$', 2),
                           {'t': 'Label', 'name': 'y', 'pos': dict(POS, line=3)}, dict(st, pos=dict(POS, line=4)),
                           st_fj(0, 'x', 5), st_fj(0, 'y', 6)]
            else:
                text = f';\n;\n{line}\nx:\n;x\ny:\n;y\n'
                pre = [st_fj(0, '$', 1), st_fj(0, '$', 2), st, {'t': 'Label', 'name': 'x', 'pos': dict(POS, line=4)},
                       st_fj(0, 'x', 5), {'t': 'Label', 'name': 'y', 'pos': dict(POS, line=6)}, st_fj(0, 'y', 7)]
            out.append(case('arith', text, f'{fname} in {cname}, through labels (label resolution)', pre=pre))
    return out


# ---- 7. recursion: macro depth and expression depth (F10 family) ------------------------------------------------------

def deep_expr_src(kind, n, leaf):
    if kind == 'left-sum':
        return '+'.join([leaf] * n)
    if kind == 'right-sum':
        return '(' * 0 + '+('.join([leaf] * n) + ')' * (n - 1)
    if kind == 'unary':
        return '~' * n + leaf
    if kind == 'parens':
        return '(' * n + leaf + ')' * n
    if kind == 'cond':
        return ' ? 1 : '.join([leaf] * n)
    raise KeyError(kind)


def deep_expr_json(kind, n, leaf):
    """a marker node: the check renders it as a call of a Coq builder (a literal term thousands of levels deep is slow to
    type-check); ["@deep", [kind, how many wrappers, leaf]]"""
    if kind == 'parens':
        return leaf
    return ['@deep', [kind, n if kind == 'unary' else n - 1, leaf]]


def _deep_expr_json_literal(kind, n, leaf):
    e = leaf
    if kind in ('left-sum', 'right-sum'):
        for _ in range(n - 1):
            e = ['+', [e, leaf]] if kind == 'left-sum' else ['+', [leaf, e]]
    elif kind == 'unary':
        for _ in range(n):
            e = ['~', [e]]
    elif kind == 'cond':
        for _ in range(n - 1):
            e = ['?:', [leaf, 1, e]]
    return e


def gen_recursion(rng, n):
    out = [
        case('recursion', 'def m {\nm\n}\nm\n', 'macro calls itself', require=DEPTH_DIAGNOSTIC),
        case('recursion', 'def a {\nb\n}\ndef b {\na\n}\na\n', 'mutual macro recursion', require=DEPTH_DIAGNOSTIC),
        case('recursion', 'def m a {\nm a+1\n}\nm 0\n', 'recursion with a growing argument', require=DEPTH_DIAGNOSTIC),
        case('recursion', 'def m a {\nrep(1, i) m a\n}\nm 0\n', 'recursion through rep', require=DEPTH_DIAGNOSTIC),
        case('recursion', 'def m {\nm\n}\nm\n', 'macro recursion, small limit', max_depth=5, require=DEPTH_DIAGNOSTIC),
        case('recursion', 'def m {\nm\n}\nm\n', 'macro recursion, limit 1', max_depth=1, require=DEPTH_DIAGNOSTIC),
        case('recursion', 'def m {\n;\n}\nm\n', 'one call, limit 0', max_depth=0),
        case('recursion', 'def a {\nb\n}\ndef b {\nc\n}\ndef c {\n;\n}\na\n', 'depth 3 with limit 3 (legal)', max_depth=3),
        case('recursion', 'def a {\nb\n}\ndef b {\nc\n}\ndef c {\n;\n}\na\n', 'depth 3 with limit 2', max_depth=2),
    ]
    kinds = ['left-sum', 'right-sum', 'unary', 'parens', 'cond']
    sizes_ok = [40, 150, 300]
    sizes_bad = [1100, 1500, 2000, 3000]     # above every traversal's threshold (eval_new ~985, exact_eval / label walk ~496)
    i = 0
    while len(out) < n:
        kind = kinds[i % 5]
        size = (sizes_ok + sizes_bad)[(i // 5) % 7]
        where = (i // 35) % 5
        i += 1
        if where == 0:      # a label: nothing can be folded, the tree keeps its depth
            src = deep_expr_src(kind, size, 'x')
            pre = [st_fj(0, deep_expr_json(kind, size, 'x'), 1), {'t': 'Label', 'name': 'x', 'pos': dict(POS, line=2)}]
            out.append(case('recursion', f';{src}\nx:\n', f'expression depth {size} ({kind}) over a label', pre=pre))
        elif where == 1:    # literals: folded by the parser as it goes, no deep tree is ever built
            src = deep_expr_src(kind, size, '1')
            out.append(case('recursion', f';({src})*0\n', f'expression depth {size} ({kind}) over literals (folded)'))
        elif where == 2:    # inside a macro body (label-usage validation walks the tree at parse time)
            src = deep_expr_src(kind, size, 'a')
            out.append(case('recursion', f'def m a {{\n;{src}\n}}\nm 0\n', f'expression depth {size} ({kind}) in a macro body'))
        elif where == 3:    # in a macro argument
            src = deep_expr_src(kind, size, 'x')
            out.append(case('recursion', f'def m a {{\n;a\n}}\nm {src}\nx:\n', f'expression depth {size} ({kind}) as a macro argument'))
        else:               # depth built by substitution: each level wraps the argument once more
            d = size
            out.append(case('recursion', f'def m a, k {{\nrep(k>0, i) m a+x, k-1\nrep(k==0, i) fin a\n}}\ndef fin a {{\n;a\n}}\nm x, {d}\nx:\n',
                            f'expression depth {d} built by {d} nested substitutions', max_depth=d + 50 if d < 800 else None,
                            nomodel=True))     # macro nesting x expression depth share the Python stack: not modelled
    return out


# ---- 7b. cyclic macro recursion through rep / mixed call kinds, at several depth limits -------------------------------

REC_DEPTHS = [None, 50, 200, 900, 2000]


def gen_rep_recursion(rng, n):
    """every cyclic macro recursion must end in the library's depth diagnostic, whatever kind of call closes the cycle
    (the expressions here are all shallow: this is not F10)"""
    progs = [
        ('self recursion through rep', 'def loop {\nrep(1, i) loop\n}\nloop'),
        ('self recursion, plain call', 'def loop {\nloop\n}\nloop'),
        ('a -> rep b -> a', 'def a {\nrep(1, i) b\n}\ndef b {\na\n}\na'),
        ('a -> b -> rep c -> a', 'def a {\nb\n}\ndef b {\nrep(1, i) c\n}\ndef c {\na\n}\na'),
        ('a -> rep b -> rep a', 'def a {\nrep(1, i) b\n}\ndef b {\nrep(1, j) a\n}\na'),
        ('rep with a growing argument', 'def loop k {\nrep(1, i) loop k+i+1\n}\nloop 0'),
        ('rep with the iterator as argument', 'def loop k {\nrep(2, i) loop i+k\n}\nloop 0'),
        ('rep count from the parameter', 'def loop k {\nrep(k, i) loop k\n}\nloop 1'),
        ('rep twice per level', 'def loop {\nrep(2, i) loop\n}\nloop'),
        ('rep after an op', 'def loop {\n;\nrep(1, i) loop\n}\nloop'),
        ('rep inside a namespace', 'ns n {\ndef loop {\nrep(1, i) .loop\n}\n}\nn.loop'),
        ('nested namespaces, mixed calls', 'ns p {\nns q {\ndef a {\nrep(1, i) ..b\n}\n}\ndef b {\n.q.a\n}\n}\np.q.a'),
        ('plain call then rep in one body', 'def a {\nb\n}\ndef b {\n;\nrep(1, i) a\n}\n;\na'),
        ('conditional rep that never stops', 'def loop k {\nrep(k>0, i) loop k+1\n}\nloop 1'),
        ('rep started from a rep', 'def loop {\nrep(1, i) loop\n}\nrep(3, j) loop'),
        ('countdown that stops in time (legal)', 'def d a {\nrep(a>0, i) d a-1\n;\n}\nd 30'),
    ]
    out = []
    for i in range(n):
        hint, text = progs[i % len(progs)]
        md = REC_DEPTHS[(i // len(progs)) % len(REC_DEPTHS)]
        c = case('recursion', text + '\n', f'macro recursion: {hint}, max_recursion_depth={md}', max_depth=md)
        if 'legal' not in hint:
            c['require'] = DEPTH_DIAGNOSTIC
        if md is not None and md > 900:
            c['nomodel'] = True         # fuel 2000 with path strings of 40 KB: too slow for vm_compute
        out.append(c)
    return out


# ---- 7c. several assemblies in one process -----------------------------------------------------------------------------

def sum_of(leaf, k):
    return '+'.join([leaf] * k)


def seq_steps():
    """(label, source) pools: programs that fail in each stage or succeed, and probes with moderately deep (legal) structure"""
    first = [
        ('lexing error', '`\n'), ('syntax error', ';1 +* 2\n'), ('syntax error at the end', 'def m {\n;\n'),
        ('parser-fold error', ';1/0\n'), ('undefined macro', 'nope 1\n'), ('duplicate label', 'x:\nx:\n;x\n'),
        ('wrong arity', 'def m a {\n;a\n}\nm\n'), ('macro recursion', 'def m {\nm\n}\nm\n'),
        ('macro recursion through rep', 'def l {\nrep(1, i) l\n}\nl\n'), ('substitution error', 'def m a {\n;1/a\n}\nm 0\n'),
        ('pad 0', ';\npad 0\n'), ('unaligned segment', ';\nsegment 1\n;\n'), ('unknown label', ';x\n'),
        ('word out of range', ';0-1\n'), ('no first op', 'segment 64*w\n;\n'), ('overlap', ';\nsegment 0\n;\n'),
        ('valid', ';\n'), ('valid with macros', NOSTL_SAMPLES[3]), ('valid nesting 20', 'def d a {\nrep(a>0, i) d a-1\n;\n}\nd 20\n'),
    ]
    probes = []
    for k in (100, 150, 250, 400):
        probes.append((f'{k}-term sum in a macro body', f'def m a {{\n;{sum_of("a", k)}\n}}\nm 1\n'))
        probes.append((f'{k}-term sum over a label', f';{sum_of("x", k)}\nx:\n'))
        probes.append((f'{k}-term sum as a macro argument', f'def m a {{\n;a\n}}\nm {sum_of("x", k)}\nx:\n'))
    for d in (100, 300, 600):
        probes.append((f'macro nesting {d} deep', f'def d a {{\nrep(a>0, i) d a-1\n;\n}}\nd {d}\n'))
    probes.append(('unknown label in a 150-term sum (invalid)', f';{sum_of("x", 150)}\n'))
    probes.append(('undefined macro with a 150-term argument (invalid)', f'nope {sum_of("x", 150)}\nx:\n'))
    return first, probes


def gen_sequences(rng, n):
    """cases with "seq": 2-4 assemblies performed in ONE process; the last one is a probe"""
    first, probes = seq_steps()
    depths = [50, None, 5, 200, 2000, 50]
    out = []
    for i in range(n):
        steps = []
        for j in range(rng.choice([1, 1, 2, 3])):
            lab, text = first[(i + 7 * j) % len(first)] if j == 0 else rng.choice(first)
            steps.append({'label': lab, 'text': text, 'max_depth': depths[(i // len(first) + j) % len(depths)],
                          'w': rng.choice(WIDTHS), 'v': rng.choice(VERSIONS), 'debug': rng.random() < 0.3})
        lab, text = probes[(i // 3) % len(probes)] if i % 3 else rng.choice(probes)
        steps.append({'label': lab, 'text': text, 'max_depth': None if rng.random() < 0.8 else rng.choice([50, 200, 2000]),
                      'w': rng.choice([16, 32, 64]), 'v': rng.choice(VERSIONS), 'debug': rng.random() < 0.3})
        hint = ' ; then '.join(f'{st["label"]} (max_recursion_depth={st["max_depth"]})' for st in steps)
        out.append({'cls': 'sequence', 'hint': hint, 'steps': steps, 'stl': False})
    return out


# ---- 8. label / constant collisions and reserved names ----------------------------------------------------------------

def gen_collisions(rng, n):
    frags = [
        ('label named like the width constant', 'w:\n;w'), ('label collides with a constant', 'x = 3\nx:\n;x'),
        ('constant defined after the label', 'x:\n;x\nx = 3'), ('constant redeclared', 'x = 3\nx = 4\n;x'),
        ('constant w redeclared', 'w = 3\n;w'), ('constant refers to itself', 'x = x + 1\n;x'),
        ('constant refers to a label', 'x = y\ny:\n;x'), ('constant refers to $', 'x = $\n;x'),
        ('parameter named like a constant', 'x = 3\ndef m x {\n;x\n}\nm 1'), ('parameter named w', 'def m w {\n;w\n}\nm 1'),
        ('local named like a constant', 'x = 3\ndef m @ x {\nx:\n;x\n}\nm'), ('rep iterator named like a constant', 'x = 3\ndef m a {\n;a\n}\nrep(2, x) m x'),
        ('rep iterator named w', 'def m a {\n;a\n}\nrep(2, w) m w'), ('macro named like a constant', 'x = 3\ndef x {\n;\n}\nx'),
        ('constant in a namespace', 'ns a {\nx = 3\n}\n;a.x\n;x\nx:'), ('label in ns collides with ns constant', 'ns a {\nx = 3\nx:\n}\n;a.x'),
        ('keyword as label', 'def:\n;def'), ('keyword as label', 'rep:\n;'), ('keyword as label', 'pad:\n;'), ('keyword as label', 'wflip:\n;'),
        ('keyword as macro name', 'def def {\n;\n}\ndef'), ('keyword as macro name', 'def segment {\n;\n}\nsegment'),
        ('keyword as macro name', 'def ns {\n;\n}\nns'), ('keyword as parameter', 'def m rep {\n;rep\n}\nm 1'),
        ('keyword as constant', 'pad = 3\n;pad'), ('keyword as constant', 'reserve = 3\n;'), ('keyword as namespace', 'ns def {\nx:\n}\n;def.x'),
        ('keyword as iterator', 'def m a {\n;a\n}\nrep(2, ns) m ns'), ('keyword inside a dotted name', ';a.def\nns a {\ndef:\n}'),
        ('internal label name: wflip area start', ';\nsegment 1024\nns _ {\nwflip_area_start_0:\n}\n;'),
        ('internal label name declared before the segment', 'ns _ {\nwflip_area_start_0:\n}\n;\nsegment 1024\n;_.wflip_area_start_0'),
        ('internal label name used', ';_.wflip_area_start_0\nsegment 1024\n;'), ('internal label name: second segment', ';\nsegment 1024\n;\nsegment 2048\nns _ {\nwflip_area_start_1:\n}\n;'),
        ('underscore names', '_:\n;_\n__x = 3\n;__x'), ('label named like a macro', 'def m {\n;\n}\nm:\nm\n;m'),
        ('dollar as a name', '$:\n;'), ('dollar as constant', '$ = 3'), ('label named like a local of the caller', 'def m @ x {\nx:\nq x\n}\ndef q x {\n;x\n}\nm'),
    ]
    out = []
    for i in range(n):
        h, f = frags[i % len(frags)]
        out.append(case('collisions', f + '\n', h))
    return out


# ---- 9. counts and magnitudes that cannot be materialised (F9 family); huge literals ---------------------------------

def gen_huge(rng, n, mem_mb):
    frags = [
        ('pad 2^70 ops (beyond every address space)', ';\npad 1<<70', False),
        ('pad 2^50 ops inside the 64-bit address space', ';\npad 1<<50', True, 64), ('pad 2^40 ops inside the 64-bit address space', ';\npad 1<<40', True, 64),
        ('pad 2^40 ops after a macro', 'def m {\n;\n}\nm\npad 1<<40', True, 64), ('pad by a string literal', ';\npad "abcdef"', True, 64), ('pad 2^70 at address 0 (nothing to pad)', 'pad 1<<70\n;', False),
        ('rep 2^40 times', 'def m {\n;\n}\nrep(1<<40, i) m', True), ('rep 2^70 times of an empty macro', 'def m {\n\n}\n;\nrep(1<<70, i) m', True),
        ('reserve 2^70 bits', ';\nreserve 1<<70', False), ('shift by 2^40 (parser)', ';1<<(1<<40)', True), ('shift by 2^70 (parser)', ';1<<(1<<70)', False),
        ('shift by 2^40 (labels)', ';x<<(1<<40)\nx:', True), ('shift by 2^70 (labels)', ';x<<(1<<70)\nx:', False),
        ('shift by 2^40 (parameter)', 'def m a {\n;1<<a\n}\nm 1<<40', True), ('power 2^(2^34) (parser)', ';2**(1<<34)', True),
        ('power (labels)', ';(x+2)**(1<<34)\nx:', True), ('power 3^(10^9) (parameter)', 'def m a {\n;3**a\n}\nm 1000000000', True),
        ('decimal literal of 5000 digits', ';' + '1' * 5000, False), ('decimal literal of 4301 digits', ';' + '9' * 4301, False),
        ('decimal literal of 4300 digits (legal text)', ';' + '9' * 4300, False), ('hex literal of 5000 digits', ';0x' + 'f' * 5000, False),
        ('binary literal of 20000 digits', ';0b' + '1' * 20000, False), ('string literal of 3000 characters', ';"' + 'a' * 3000 + '"', False),
        ('huge constant shown in a collision message', 'x = 1<<20000\nx:', False), ('huge constant in a parameter-collision message', 'x = 1<<20000\ndef m x {\n;x\n}\nm 1', False),
        ('huge number in an unknown-label message', ';x+(1<<20000)', False), ('huge number in a bad-math message', ';(x+(1<<20000))/0\nx:', False),
        ('huge number in a bad-math message (parameter)', 'def m a {\n;((1<<20000)+a)/(a-a)\n}\nm 3', False),
        ('huge number as a label swap', 'def m a {\na:\n;\n}\nm 1<<20000', False), ('huge negative pad', ';\npad 0-(1<<20000)', False), ('huge pad', ';\npad 1<<20000', False),
        ('huge unaligned segment', ';\nsegment (1<<20000)+1', False), ('huge unaligned reserve', ';\nreserve (1<<20000)+1', False), ('huge negative reserve', ';\nreserve 0-(1<<20000)', False),
        ('pad after a huge reserve (the address is printed)', ';\nreserve 1<<20000\npad 2', False, 64),
        ('unaligned pad after a huge reserve (the address is printed)', ';\nreserve (1<<20000)+64\npad 2', False, 64),
        ('wflip chain into a wflip area pushed out by a huge reserve', 'wflip 0, 3\nreserve 128\n;\nreserve 1<<20000', False, 64),
        ('wflip chain into a wflip area beyond 2^w', 'wflip 0, 3\nreserve 128\n;\nreserve 1<<70', False, 64),
        ('huge aligned segment', ';\nsegment 1<<20000\n;', False), ('huge aligned reserve', ';\nreserve 1<<20000', False),
        ('huge rep times (negative)', 'def m {\n;\n}\n;\nrep(0-(1<<20000), i) m', False), ('huge flip', '1<<20000;', False),
        ('huge wflip value', 'wflip 0, 1<<20000', False), ('huge wflip address', 'wflip 1<<20000, 1', False),
        ('huge number in a duplicate-macro message', 'def m {\n;1<<20000\n}\ndef m {\n;\n}\nm', False),
        ('huge number in the recursion trace', 'def m a {\nm a\n}\nm 1<<20000', False),
        ('huge rep count in the recursion trace', 'def m {\nrep(1, i) m\n}\nm', False),
        ('many lines', ';\n' * 20000, False), ('one long line', ';' + '+'.join(['1'] * 20000), False), ('many macros', ''.join(f'def m{i} {{\n;\n}}\n' for i in range(3000)) + 'm7', False),
        ('many labels', ''.join(f'l{i}:\n' for i in range(5000)) + ';l9', False), ('rep 100000 times', 'def m {\n;\n}\nrep(100000, i) m', False),
    ]
    out = []
    for i in range(n):
        fr = frags[i % len(frags)]
        h, f, slow = fr[:3]
        c = case('huge', f + '\n', h, slow=slow)
        if h.startswith(('many ', 'one long line', 'rep 100000')):
            c['nomodel'] = True         # fine for the assembler, minutes for the vm_compute evaluation of the model
        if len(fr) > 3:
            c['w'] = fr[3]
        if slow:
            c['mem_mb'] = mem_mb
        out.append(c)
    return out


# ---- 9b. the SIZE of big integers at every site that prints a number -------------------------------------------------

BIG_BITS = [1000, 4000, 4095, 4096, 4097, 8000, 13000, 14284, 14285, 14286, 14287, 15000, 16383, 16384, 16385, 20000, 40000]
DECIMAL_LENGTHS = [4299, 4300, 4301, 4302, 5000]


def gen_bigint(rng, n):
    """every diagnostic that shows a number, with numbers of every bit length around the points where the representation
    (decimal / hex) or python's int<->str limit (4300 digits = 14285 bits) changes"""
    sites = [   # (hint, template with {N} = the big number, needs a multiple of w)
        ('parser fold error', ';{N}/0', False), ('parser fold error (shift)', ';1<<(0-{N})', False),
        ('eval_new error', 'def m a {{\n;({N}+a)/(a-a)\n}}\nm 3', False),
        ('exact_eval error', ';(x+{N})/0\nx:', False), ('unknown label next to it', ';x+{N}', False),
        ('label / constant collision', 'x = {N}\nx:', False), ('parameter / constant collision', 'x = {N}\ndef m x {{\n;x\n}}\nm 1', False),
        ('constant redeclared', 'x = {N}\nx = 3', False), ('label swapped to a number', 'def m a {{\na:\n;\n}}\nm {N}', False),
        ('pad not positive', ';\npad 0-{N}', False), ('pad too big', ';\npad {N}', False),
        ('pad evaluation error', ';\npad {N}/(x-x)\nx:', False), ('pad with unknown label', ';\npad {N}+x', False),
        ('pad after a reserve of that size', ';\nreserve {N}\npad 2', True),
        ('unaligned pad after a reserve of that size', ';\nreserve {N}+w\npad 2', True),
        ('negative reserve', ';\nreserve 0-{N}', False), ('unaligned reserve', ';\nreserve {N}+1', True),
        ('aligned reserve', ';\nreserve {N}', True), ('unaligned segment', ';\nsegment {N}+1\n;', True),
        ('aligned segment', ';\nsegment {N}\n;', True), ('negative segment', ';\nsegment 0-{N}\n;', True),
        ('wflip area pushed out (add_data word)', 'wflip 0, 3\nreserve 2*w\n;\nreserve {N}', True),
        ('flip word', '{N};', False), ('jump word', ';{N}', False), ('negative jump word', ';0-{N}', False),
        ('wflip value', 'wflip 0, {N}', False), ('wflip address', 'wflip {N}, 1', False), ('wflip return', 'wflip 0, 1, {N}', False),
        ('rep times (negative)', 'def m {{\n;\n}}\n;\nrep(0-{N}, i) m', False), ('rep argument error', 'def m a {{\n;a\n}}\nrep(2, i) m {N}/i', False),
        ('macro argument of an undefined macro', 'nope {N}', False), ('recursion trace', 'def m a {{\nm a\n}}\nm {N}', False),
        # the label table (saved to the debugging file after the .fjm is written) holds addresses of that size
        ('empty segment there, then a label', ';\nsegment {N}\nlab:', True), ('empty segment there', ';\nsegment {N}', True),
        ('empty segment at the negative address, then a label', ';\nsegment 0-{N}\nlab:', True),
        ('label after a reserve of that size', ';\nreserve {N}\nlab:', True),
        ('label after a reserve of that size, used', ';lab\nreserve {N}\nlab:', True),
        ('label in a segment there, used', ';lab\nsegment {N}\nlab:\n;', True),
    ]
    bits = BIG_BITS + [rng.randrange(900, 45000) for _ in range(3)]
    out = []
    k = 0
    while len(out) < n:
        hint, tpl, aligned = sites[k % len(sites)]
        b = bits[(k // len(sites)) % len(bits)]
        form = (k // (len(sites) * len(bits))) % 3
        k += 1
        if form == 0 or aligned:
            num = f'(1<<{b - 1})'
        elif form == 1:
            num = f'((1<<{b})-1)'
        else:
            num = hex(rng.getrandbits(b) | (1 << (b - 1)))
        c = case('bigint', tpl.format(N=num) + '\n', f'{hint}, {b} bits')
        if any(t in tpl for t in ('segment', 'reserve', ':')):
            c['debug'] = True
        out.append(c)
    # the edge of the address space, with the debugging file (N7: `;` / `segment 1<<15000` / `lab:` with a debugging file
    # wrote the .fjm, then json.dumps refused the label table)
    for w in WIDTHS:
        for text, hint in [(';\nsegment 1<<15000\nlab:', 'N7: empty segment at 2^15000 and a label, debugging file'),
                           (';\nsegment 1<<w\nlab:', 'empty segment at exactly 2^w, then a label'), (';\nsegment 1<<w', 'empty segment at exactly 2^w'),
                           (';\nsegment (1<<w)-w\nlab:', 'empty segment at 2^w - w, then a label'), (';\nsegment (1<<w)-w', 'empty segment at 2^w - w'),
                           (';\nsegment (1<<w)-2*w\nlab:\n;', 'last op of the address space, labelled'),
                           (';\nsegment 0-w\nlab:', 'empty segment at -w, then a label'), (';\nreserve (1<<w)-2*w\nlab:', 'label at 2^w after a reserve')]:
            for dbg in (True, False):
                out.append(case('bigint', text + '\n', hint + ('' if dbg else ' (no debugging file)'), w=w, debug=dbg))
    for ln in DECIMAL_LENGTHS:
        for d in ('9', '1'):
            out.append(case('bigint', ';' + d * ln + '\n', f'decimal literal of {ln} digits'))
            out.append(case('bigint', ';x+' + d * ln + '\n', f'decimal literal of {ln} digits next to an unknown label'))
            out.append(case('bigint', ';\npad 0-' + d * ln + '\n', f'decimal literal of {ln} digits as a negative pad'))
    return out


# ---- 9c. pad / reserve / segment / wflip interleavings inside one segment ---------------------------------------------

def gen_interleave(rng, n):
    """short primitive programs that mix padding holes, reserves, new segments and multi-bit wflips in every order (the
    bookkeeping BinaryData shares between them: pad-hole indices, word lists, the wflip area), valid more often than not"""
    out = []
    for i in range(n):
        w = WIDTHS[i % 4]
        v = VERSIONS[(i // 4) % 4]
        lines = [rng.choice([';0', ';x', ';'])]
        seg = 1
        for _ in range(rng.randrange(2, 9)):
            r = rng.random()
            if r < 0.25:
                lines.append(f'pad {rng.choice([2, 4, 4, 8])}')
            elif r < 0.45:
                lines.append(f'reserve {rng.choice([2, 2, 4, 6])}*w' + ('' if rng.random() < 0.9 else '+w'))
            elif r < 0.75:
                val = rng.choice([3, 5, 7, 15, 6, 255, 1, 0]) & ((1 << w) - 1)
                tgt = rng.choice(['x', 'x+w', 't', '0'])
                ret = rng.choice(['', '', ', x', ', t'])
                lines.append(f'wflip {tgt}, {val}{ret}')
            elif r < 0.85 and w > 8:
                lines.append(f'segment {seg * 64}*w')
                seg += 1
            else:
                lines.append(rng.choice([';0', ';x', ';t', ';$']))
        lines += ['x:', ';0', 't:', ';0']
        out.append(case('interleave', '\n'.join(lines) + '\n', 'pad / reserve / segment / wflip interleaving', w=w, v=v))
    return out


# ---- 10. valid programs (mutation corpus) ----------------------------------------------------------------------------

NOSTL_SAMPLES = [
    ';\n',
    'start:\n;start\n',
    'a = 3\nb = a * w\n;b\nwflip b, a, start\nstart:\n;start\n',
    'def m a, b @ loc {\n;a\nloc:\n;b\nwflip a, 3, loc\n}\nm x, y\nx:\n;x\ny:\n;y\n',
    'ns n {\ndef m a {\n;a\n;.l\n}\nl:\n;\n}\nn.m n.l\n',
    'def m a {\n;a+$\n}\nrep(4, i) m i*w\n;0\n',
    ';\npad 4\nwflip 2*w, 5\nsegment 64*w\n;\nreserve 4*w\n;\n',
    'def inner x {\n;x\n}\ndef outer a, b {\ninner a\nrep(b, i) inner a+i\n}\nouter q, 3\nq:\n;"ab"\n',
    "x = 'a'\n;x ? 2*w : 4*w\n;(x > 3) && (x < 200)\n;#x\n;~x & 0xff\n;1 << 3 >> 1\n;7 / 2 % 3 ** 2\n;x ^ 3 | 4\n",
    'def m @ a, b {\n;a\na:\n;b\nb:\n}\nm\nm\n',
]
STL_SAMPLES = [
    'stl.startup\nstl.output "Hi"\nstl.loop\n',
    'stl.startup\nbit.xor a, b\nstl.loop\na: bit.bit 1\nb: bit.bit 0\n',
    'stl.startup_and_init_all\nhex.add 2, a, b\nhex.print_uint 2, a, 1, 1\nstl.loop\na: hex.vec 2, 7\nb: hex.vec 2, 9\n',
    'stl.startup\nrep(3, i) bit.not v+i*dw\nstl.loop\nv: bit.vec 3, 5\n',
]


def repo_corpus(repo, rng, k, max_size=2500):
    files = sorted(p for p in (Path(repo) / 'programs').rglob('*.fj') if p.stat().st_size <= max_size)
    top = sorted((Path(repo) / 'programs').glob('*.fj'))
    pick = rng.sample(files, min(k, len(files)))
    res = []
    for p in pick + [t for t in top if t.stat().st_size <= 40000]:
        try:
            res.append((str(p.relative_to(repo)), p.read_text(encoding='utf-8')))
        except (OSError, UnicodeDecodeError):
            pass
    return res


def gen_valid(rng, n):
    """random valid macro programs without the stl (also used for the model correspondence)"""
    out = []
    for _ in range(n):
        lines = []
        nm = rng.randrange(0, 4)
        labels = [f'l{j}' for j in range(rng.randrange(1, 4))]
        macros = []
        for j in range(nm):
            ar = rng.randrange(0, 3)
            ps = [f'p{k}' for k in range(ar)]
            body = []
            has_loc = rng.random() < 0.5
            for _k in range(rng.randrange(1, 4)):
                leaves = ps + [1, 2, 'w'] + (['loc'] if has_loc else []) + ['$']
                r = rng.random()
                if r < 0.5:
                    body.append(f';{esrc(rnd_safe_expr(rng, 2, leaves))}')
                elif r < 0.7:
                    body.append(f'wflip {esrc(rnd_safe_expr(rng, 1, ps + [0, "w"]))}, {rng.randrange(0, 200)}')
                elif r < 0.85 and macros:
                    cn, car = rng.choice(macros)
                    body.append(f'{cn} ' + ', '.join(esrc(rnd_safe_expr(rng, 1, leaves)) for _a in range(car)))
                elif macros:
                    cn, car = rng.choice(macros)
                    body.append(f'rep({rng.randrange(0, 4)}, it) {cn} ' + ', '.join(esrc(rnd_safe_expr(rng, 1, leaves + ['it'])) for _a in range(car)))
                else:
                    body.append(';')
            if has_loc:
                body.append('loc:')
                body.append(';loc')
            head = f'def m{j} ' + ', '.join(ps) + (' @ loc' if has_loc else '') + ' {'
            lines += [head] + body + ['}']
            macros.append((f'm{j}', ar))
        for _k in range(rng.randrange(1, 6)):
            leaves = labels + [0, 1, 'w', '$']
            r = rng.random()
            if r < 0.4:
                lines.append(f';{esrc(rnd_safe_expr(rng, 2, leaves))}')
            elif r < 0.55:
                lines.append(f'wflip {esrc(rnd_safe_expr(rng, 1, labels + ["w"]))}, {rng.randrange(0, 255)}')
            elif r < 0.65:
                lines.append(f'pad {rng.choice([1, 2, 4, 8])}')
            elif macros:
                cn, car = rng.choice(macros)
                lines.append(f'{cn} ' + ', '.join(esrc(rnd_safe_expr(rng, 1, leaves)) for _a in range(car)))
            else:
                lines.append(';')
        for lb in labels:
            lines.append(f'{lb}:')
            lines.append(';')
        out.append(case('valid', '\n'.join(lines) + '\n', 'random program built to be valid'))
    return out


# ---- 11. mutations ---------------------------------------------------------------------------------------------------

TOKEN_RE = re.compile(r'//[^\n]*|[A-Za-z_][A-Za-z_0-9]*(?:\.[A-Za-z_][A-Za-z_0-9]*)*|\.+[A-Za-z_][A-Za-z_0-9.]*|0[xX][0-9a-fA-F]+|0[bB][01]+|\d+|'
                      r'"(?:[^"\\\n]|\\.)*"|\'(?:[^\'\\\n]|\\.)*\'|<<|>>|<=|>=|==|!=|\*\*|&&|\|\||\n|[ \t]+|.', re.S)


def tokens_of(text):
    return TOKEN_RE.findall(text)


def mutate_tokens(rng, text):
    toks = tokens_of(text)
    if not toks:
        return text, 'empty'
    idents = [t for t in toks if re.fullmatch(r'[A-Za-z_][A-Za-z_0-9.]*', t)] or ['x']
    vocab = KEYWORDS + PUNCT + idents[:50] + ['0', '1', '64', '0-1', '1/0', '1<<64', 'w', 'dw', '$', 'x', '""', "'a'"]
    sig = [i for i, t in enumerate(toks) if t.strip() or t == '\n']
    nmut = rng.choice([1, 1, 1, 2, 3])
    what = []
    for _ in range(nmut):
        if not sig:
            break
        i = rng.choice(sig)
        k = rng.randrange(8)
        if k == 0:
            what.append(f'delete {toks[i]!r}')
            toks[i] = ''
        elif k == 1:
            what.append(f'duplicate {toks[i]!r}')
            toks[i] = toks[i] + ' ' + toks[i]
        elif k == 2:
            j = rng.choice(sig)
            what.append(f'swap {toks[i]!r} {toks[j]!r}')
            toks[i], toks[j] = toks[j], toks[i]
        elif k == 3:
            t = rng.choice(vocab)
            what.append(f'replace {toks[i]!r} by {t!r}')
            toks[i] = t
        elif k == 4:
            t = rng.choice(vocab)
            what.append(f'insert {t!r}')
            toks[i] = toks[i] + ' ' + t + ' '
        elif k == 5:
            nums = [x for x in sig if re.fullmatch(r'\d+|0[xX][0-9a-fA-F]+', toks[x])]
            if nums:
                i = rng.choice(nums)
                t = rng.choice(['0', '(0-1)', '3', '1', '2', str(rng.randrange(1 << 7)), str(rng.randrange(1 << 10))])
                if rng.random() < 0.04:     # rarely: a count nothing can materialise (each such case may cost a watchdog period)
                    t = rng.choice(['(1<<70)', '1' * 30, '(1<<64)'])
                what.append(f'number {toks[i]!r} -> {t}')
                toks[i] = t
        elif k == 6:
            ids = [x for x in sig if toks[x] in idents]
            if ids:
                i = rng.choice(ids)
                t = rng.choice(idents + KEYWORDS)
                what.append(f'identifier {toks[i]!r} -> {t!r}')
                toks[i] = t
        else:
            j = min(len(toks), i + rng.randrange(1, 12))
            what.append(f'delete {j - i} tokens')
            for x in range(i, j):
                toks[x] = ''
    return ''.join(toks), '; '.join(what)


def mutate_bytes(rng, data):
    b = bytearray(data)
    k = rng.randrange(8)
    if not b:
        return bytes([rng.randrange(256)]), 'one random byte'
    i = rng.randrange(len(b))
    if k == 0:
        b[i] ^= 1 << rng.randrange(8)
        return bytes(b), f'bit flip at {i}'
    if k == 1:
        del b[i]
        return bytes(b), f'delete byte {i}'
    if k == 2:
        x = rng.choice([0, 0x80, 0xff, 0xc3, 0x0d, 0x09, 0x5c, 0x22, 0x27, rng.randrange(256)])
        b.insert(i, x)
        return bytes(b), f'insert byte {x:#x} at {i}'
    if k == 3:
        return bytes(b[:i]), f'truncate at {i}'
    if k == 4:
        j = min(len(b), i + rng.randrange(1, 40))
        return bytes(b[:j] + b[i:j] + b[j:]), f'duplicate bytes {i}..{j}'
    lines = bytes(b).split(b'\n')
    li = rng.randrange(len(lines))
    if k == 5:
        del lines[li]
        return b'\n'.join(lines), f'delete line {li + 1}'
    if k == 6:
        lj = rng.randrange(len(lines))
        lines[li], lines[lj] = lines[lj], lines[li]
        return b'\n'.join(lines), f'swap lines {li + 1} and {lj + 1}'
    lines.insert(li, lines[li])
    return b'\n'.join(lines), f'duplicate line {li + 1}'


def gen_mutations(rng, n, corpus):
    """corpus: list of (name, text, stl, w) - programs known to assemble at width w"""
    out = []
    for i in range(n):
        name, text, stl, w = corpus[i % len(corpus)]
        if rng.random() < 0.6:
            t, what = mutate_tokens(rng, text)
            out.append(case('mutation-token', t, f'{name}: {what}', stl=stl, w=w))
        else:
            t, what = mutate_bytes(rng, text.encode('utf-8'))
            out.append(case('mutation-byte', t, f'{name}: {what}', stl=stl, w=w))
    return out
