"""T-gen for C12: read the CURRENT source of expr.py / fj_parser.py with Python's `ast` and emit
coq/Gen/Facts_C12.v (operator table, precedence tuple, lexer tokens, escape table, grammar actions,
and the normalised text of every function the Gallina model transcribes by hand).

Fail closed: every AST shape that is not explicitly recognised raises GenError - the check then
records a broken tie instead of guessing.  Nothing of the repository is imported or executed here."""
import ast
import sys
from pathlib import Path


class GenError(Exception):
    pass


def fail(where, node=None, why='unrecognised shape'):
    loc = f' (line {getattr(node, "lineno", "?")})' if node is not None else ''
    src = ''
    if node is not None:
        try:
            src = ': ' + ast.unparse(node)[:200]
        except Exception:
            src = ''
    raise GenError(f'{where}{loc}: {why}{src}')


# ---- Coq printing ---------------------------------------------------------------------------

def cstr(s):
    if not isinstance(s, str):
        raise GenError(f'not a string: {s!r}')
    for ch in s:
        if ord(ch) > 126 or (ord(ch) < 32 and ch not in '\n\t'):
            raise GenError(f'character {ord(ch)} in a string that must be printable ASCII: {s[:60]!r}')
    return '"' + s.replace('"', '""') + '"'


def clist(items, sep='; '):
    return '[' + sep.join(items) + ']'


def cz(n):
    if isinstance(n, bool) or not isinstance(n, int):
        raise GenError(f'not an int: {n!r}')
    return f'({n})' if n < 0 else str(n)


# ---- expr.py: the operator table ---------------------------------------------------------------

CMP = {ast.Lt: 'Lt', ast.Gt: 'Gt', ast.LtE: 'LtE', ast.GtE: 'GtE', ast.Eq: 'Eq', ast.NotEq: 'NotEq'}


def py_expr(e, names, where):
    """translate an expression of the fragment; `names` = the bound parameter names"""
    if isinstance(e, ast.Name) and isinstance(e.ctx, ast.Load):
        if e.id not in names:
            fail(where, e, 'free name')
        return f'PName {cstr(e.id)}'
    if isinstance(e, ast.Constant) and isinstance(e.value, int) and not isinstance(e.value, bool):
        return f'PConst {cz(e.value)}'
    if isinstance(e, ast.IfExp):
        return f'PIfExp ({py_expr(e.test, names, where)}) ({py_expr(e.body, names, where)}) ({py_expr(e.orelse, names, where)})'
    if isinstance(e, ast.BoolOp) and len(e.values) == 2 and isinstance(e.op, (ast.And, ast.Or)):
        c = 'PAnd' if isinstance(e.op, ast.And) else 'POr'
        return f'{c} ({py_expr(e.values[0], names, where)}) ({py_expr(e.values[1], names, where)})'
    if isinstance(e, ast.Compare) and len(e.ops) == 1 and type(e.ops[0]) in CMP:
        return f'PCompare {cstr(CMP[type(e.ops[0])])} ({py_expr(e.left, names, where)}) ({py_expr(e.comparators[0], names, where)})'
    if isinstance(e, ast.UnaryOp) and isinstance(e.op, ast.Invert):
        return f'PInvert ({py_expr(e.operand, names, where)})'
    if (isinstance(e, ast.Call) and isinstance(e.func, ast.Attribute) and e.func.attr == 'bit_length'
            and not e.args and not e.keywords):
        return f'PBitLength ({py_expr(e.func.value, names, where)})'
    if isinstance(e, ast.BinOp) and isinstance(e.op, ast.Pow):
        return f'PPow ({py_expr(e.left, names, where)}) ({py_expr(e.right, names, where)})'
    if (isinstance(e, ast.Call) and isinstance(e.func, ast.Name) and e.func.id == 'int' and len(e.args) == 1
            and not e.keywords):
        return f'PInt ({py_expr(e.args[0], names, where)})'
    fail(where, e)


def plain_params(args, where):
    if (args.posonlyargs or args.kwonlyargs or args.vararg or args.kwarg or args.defaults or args.kw_defaults):
        fail(where, None, 'only plain positional parameters are recognised')
    return [a.arg for a in args.args]


def strip_docstring(body):
    if body and isinstance(body[0], ast.Expr) and isinstance(body[0].value, ast.Constant) \
            and isinstance(body[0].value.value, str):
        return body[1:]
    return body


def py_def(fn, where):
    if fn.decorator_list:
        fail(where, fn, 'decorated function')
    params = plain_params(fn.args, where)
    stmts = []
    for st in strip_docstring(fn.body):
        if (isinstance(st, ast.If) and not st.orelse and len(st.body) == 1 and isinstance(st.body[0], ast.Raise)
                and st.body[0].cause is None and isinstance(st.body[0].exc, ast.Call)
                and isinstance(st.body[0].exc.func, ast.Name)):
            stmts.append(f'PIfRaise ({py_expr(st.test, params, where)}) {cstr(st.body[0].exc.func.id)}')
        elif isinstance(st, ast.Return) and st.value is not None:
            stmts.append(f'PReturn ({py_expr(st.value, params, where)})')
        else:
            fail(where, st)
    return f'PDef {clist([cstr(p) for p in params])} {clist(stmts, sep=";" + chr(10) + "        ")}'


def module_bindings(tree):
    """every name bound at module level -> list of binding nodes"""
    b = {}

    def add(name, node):
        b.setdefault(name, []).append(node)

    for st in tree.body:
        if isinstance(st, (ast.Import, ast.ImportFrom)):
            for a in st.names:
                add((a.asname or a.name).split('.')[0], st)
        elif isinstance(st, (ast.FunctionDef, ast.AsyncFunctionDef, ast.ClassDef)):
            add(st.name, st)
        elif isinstance(st, ast.Assign):
            for t in st.targets:
                for n in ast.walk(t):
                    if isinstance(n, ast.Name):
                        add(n.id, st)
        elif isinstance(st, (ast.AnnAssign, ast.AugAssign)):
            for n in ast.walk(st.target):
                if isinstance(n, ast.Name):
                    add(n.id, st)
        elif isinstance(st, ast.Expr) and isinstance(st.value, ast.Constant):
            pass                                       # docstring
        elif isinstance(st, ast.If) or isinstance(st, ast.Try) or isinstance(st, (ast.For, ast.While, ast.With)):
            fail('module level', st, 'conditional / compound statement at module level')
        else:
            fail('module level', st)
    return b


def forbid_rebinding(tree, name, where):
    """`name` must be bound exactly once at module level and never stored to / deleted / mutated elsewhere"""
    for n in ast.walk(tree):
        if isinstance(n, ast.Name) and n.id == name and not isinstance(n.ctx, ast.Load):
            pass                                           # counted through module_bindings below
        if isinstance(n, (ast.Global, ast.Nonlocal)) and name in n.names:
            fail(where, n, f'{name} declared global/nonlocal')
        if isinstance(n, ast.Subscript) and isinstance(n.value, ast.Name) and n.value.id == name \
                and not isinstance(n.ctx, ast.Load):
            fail(where, n, f'{name} is modified after its definition')
        if isinstance(n, ast.Call) and isinstance(n.func, ast.Attribute) and isinstance(n.func.value, ast.Name) \
                and n.func.value.id == name and n.func.attr not in ('get', 'keys', 'values', 'items'):
            fail(where, n, f'{name}.{n.func.attr}(...) may modify the table')
    stores = [n for n in ast.walk(tree) if isinstance(n, ast.Name) and n.id == name and not isinstance(n.ctx, ast.Load)]
    if len(stores) != 1:
        fail(where, None, f'{name} is assigned {len(stores)} times')


def op_table(tree, where='expr.py'):
    binds = module_bindings(tree)
    imported_from_operator = {}
    for st in tree.body:
        if isinstance(st, ast.ImportFrom) and st.module == 'operator' and st.level == 0:
            for a in st.names:
                imported_from_operator[a.asname or a.name] = a.name
    forbid_rebinding(tree, 'op_string_to_function', where)
    if 'int' in binds:
        fail(where, binds['int'][0], 'the builtin int is shadowed')
    table = None
    for st in tree.body:
        tgt = None
        if isinstance(st, ast.AnnAssign) and isinstance(st.target, ast.Name):
            tgt, val = st.target.id, st.value
        elif isinstance(st, ast.Assign) and len(st.targets) == 1 and isinstance(st.targets[0], ast.Name):
            tgt, val = st.targets[0].id, st.value
        if tgt == 'op_string_to_function':
            table = val
    if not isinstance(table, ast.Dict):
        fail(where, table, 'op_string_to_function is not a dict display')
    rows = []
    seen = set()
    for k, v in zip(table.keys, table.values):
        if not (isinstance(k, ast.Constant) and isinstance(k.value, str)):
            fail(where, k, 'key is not a string literal')
        if k.value in seen:
            fail(where, k, 'duplicate key')
        seen.add(k.value)
        w = f'{where}: op_string_to_function[{k.value!r}]'
        if isinstance(v, ast.Name):
            bs = binds.get(v.id, [])
            if len(bs) != 1:
                fail(w, v, f'{v.id} is bound {len(bs)} times at module level')
            if v.id in imported_from_operator and isinstance(bs[0], ast.ImportFrom):
                fun = f'POperator {cstr(imported_from_operator[v.id])}'
            elif isinstance(bs[0], ast.FunctionDef):
                fun = py_def(bs[0], w)
            else:
                fail(w, v, 'neither an `operator` import nor a module-level def')
        elif isinstance(v, ast.Lambda):
            params = plain_params(v.args, w)
            fun = f'PLambda {clist([cstr(p) for p in params])} ({py_expr(v.body, params, w)})'
        else:
            fail(w, v)
        rows.append(f'({cstr(k.value)}, {fun})')
    return rows


def normalised_source(node):
    """ast.unparse of a function without its docstring (comments and layout do not survive ast)"""
    node = ast.parse(ast.unparse(node)).body[0]
    node.body = strip_docstring(node.body) or [ast.Pass()]
    return ast.unparse(node)


def find_class(tree, name, where):
    cs = [st for st in tree.body if isinstance(st, ast.ClassDef) and st.name == name]
    if len(cs) != 1:
        fail(where, None, f'class {name} defined {len(cs)} times')
    return cs[0]


def find_defs(body, name):
    return [st for st in body if isinstance(st, ast.FunctionDef) and st.name == name]


def one_def(body, name, where):
    ds = find_defs(body, name)
    if len(ds) != 1:
        fail(where, None, f'{name} defined {len(ds)} times')
    return ds[0]


# ---- fj_parser.py ----------------------------------------------------------------------------------

def precedence_rows(parser_cls, where):
    assigns = [st for st in parser_cls.body if isinstance(st, ast.Assign) and len(st.targets) == 1
               and isinstance(st.targets[0], ast.Name) and st.targets[0].id == 'precedence']
    if len(assigns) != 1:
        fail(where, None, f'precedence assigned {len(assigns)} times')
    val = assigns[0].value
    if not isinstance(val, ast.Tuple):
        fail(where, val)
    rows = []
    for row in val.elts:
        if not (isinstance(row, ast.Tuple) and len(row.elts) >= 2 and isinstance(row.elts[0], ast.Constant)):
            fail(where, row)
        a = {'left': 'LeftA', 'right': 'RightA', 'nonassoc': 'NonA'}.get(row.elts[0].value)
        if a is None:
            fail(where, row, 'unknown associativity')
        names = []
        for t in row.elts[1:]:
            if isinstance(t, ast.Constant) and isinstance(t.value, str):
                names.append(t.value)
            elif isinstance(t, ast.Name):
                names.append(t.id)                       # a token name (sly binds it to its own name)
            else:
                fail(where, t)
        rows.append(f'({a}, {clist([cstr(n) for n in names])})')
    return rows


def lexer_tables(lexer_cls, where):
    toks, literals = [], None
    for st in lexer_cls.body:
        if isinstance(st, ast.Assign) and len(st.targets) == 1 and isinstance(st.targets[0], ast.Name):
            name, v = st.targets[0].id, st.value
            if name == 'literals':
                if not (isinstance(v, ast.Set) and all(isinstance(e, ast.Constant) and isinstance(e.value, str) for e in v.elts)):
                    fail(where, st)
                literals = sorted(e.value for e in v.elts)
            elif name == 'tokens':
                continue
            elif isinstance(v, ast.Constant) and isinstance(v.value, str):
                toks.append((name, v.value))
            elif isinstance(v, ast.Name):
                toks.append((name, '=' + v.id))          # defined by a module-level regex (see sources)
            else:
                fail(where, st)
        elif isinstance(st, ast.Assign) and len(st.targets) == 1 and isinstance(st.targets[0], ast.Subscript):
            t = st.targets[0]                            # ID['def'] = DEF  (keyword remapping)
            if not (isinstance(t.value, ast.Name) and isinstance(t.slice, ast.Constant) and isinstance(st.value, ast.Name)):
                fail(where, st)
            toks.append((f'{t.value.id}[{t.slice.value}]', '=' + st.value.id))
        elif isinstance(st, (ast.FunctionDef, ast.Expr)):
            continue                                     # token actions: see literal sources; docstrings
        else:
            fail(where, st)
    if literals is None:
        fail(where, None, 'no literals set')
    return toks, literals


def escape_rows(tree, where):
    forbid_rebinding(tree, 'char_escape_dict', where)
    for st in tree.body:
        if isinstance(st, ast.Assign) and len(st.targets) == 1 and isinstance(st.targets[0], ast.Name) \
                and st.targets[0].id == 'char_escape_dict':
            if not isinstance(st.value, ast.Dict):
                fail(where, st)
            rows = []
            for k, v in zip(st.value.keys, st.value.values):
                if not (isinstance(k, ast.Constant) and isinstance(k.value, str) and len(k.value) == 1
                        and isinstance(v, ast.Constant) and isinstance(v.value, int) and not isinstance(v.value, bool)):
                    fail(where, k)
                rows.append(f'({ord(k.value)}, {cz(v.value)})')
            return rows
    fail(where, None, 'char_escape_dict not found')


def grammar_rules(parser_cls, where):
    """the expr_ productions: operator rules structurally, the others as normalised text"""
    op_rules, other_rules = [], []
    for fn in parser_cls.body:
        if not (isinstance(fn, ast.FunctionDef) and fn.name in ('expr_', 'expr')):
            continue
        prods = []
        for d in fn.decorator_list:
            if not (isinstance(d, ast.Call) and isinstance(d.func, ast.Name) and d.func.id == '_' and d.args
                    and not d.keywords and all(isinstance(a, ast.Constant) and isinstance(a.value, str) for a in d.args)):
                fail(where, d, 'decorator')
            prods += [a.value for a in d.args]
        if not prods:
            fail(where, fn, 'grammar method without a production')
        body = strip_docstring(fn.body)
        structured = None
        if len(body) == 1 and isinstance(body[0], ast.Return) and isinstance(body[0].value, ast.Tuple) \
                and len(body[0].value.elts) == 2:
            call, lineno = body[0].value.elts
            if (isinstance(call, ast.Call) and isinstance(call.func, ast.Name) and call.func.id == 'get_minimized_expr'):
                if not (len(call.args) == 2 and not call.keywords and isinstance(call.args[0], ast.Constant)
                        and isinstance(call.args[0].value, str) and isinstance(call.args[1], ast.Tuple)
                        and isinstance(lineno, ast.Attribute) and ast.unparse(lineno) == 'p.lineno'):
                    fail(where, fn, 'get_minimized_expr call')
                args = []
                for a in call.args[1].elts:
                    u = ast.unparse(a)
                    if u in ('p.expr_[0]', 'p.expr_0[0]'):
                        args.append('RSub 0')
                    elif u == 'p.expr_1[0]':
                        args.append('RSub 1')
                    elif u == 'p.expr_2[0]':
                        args.append('RSub 2')
                    elif u == 'Expr(0)':
                        args.append('RZero')
                    else:
                        fail(where, a, 'argument of get_minimized_expr')
                structured = (call.args[0].value, args)
        for pr in prods:
            if structured:
                op_rules.append(f'({cstr(pr)}, ({cstr(structured[0])}, {clist(structured[1])}))')
            else:
                if any(isinstance(n, ast.Name) and n.id == 'get_minimized_expr' for n in ast.walk(fn)):
                    fail(where, fn, 'get_minimized_expr used in an unrecognised way')
                other_rules.append(f'({cstr(fn.name + " : " + pr)}, {cstr(ast.unparse(ast.Module(body=body, type_ignores=[])))})')
    return op_rules, other_rules


def module_assign_source(tree, name, where):
    vals = [st for st in tree.body if isinstance(st, ast.Assign) and len(st.targets) == 1
            and isinstance(st.targets[0], ast.Name) and st.targets[0].id == name]
    if len(vals) != 1:
        fail(where, None, f'{name} assigned {len(vals)} times at module level')
    forbid_rebinding(tree, name, where)
    return ast.unparse(vals[0].value)


def occurrences_elsewhere(repo, word, allowed):
    bad = []
    for p in sorted((repo / 'flipjump').rglob('*.py')):
        rel = str(p.relative_to(repo))
        if rel in allowed:
            continue
        if word in p.read_text(encoding='utf-8', errors='replace'):
            bad.append(rel)
    return bad


def generate(repo):
    repo = Path(repo)
    expr_path = repo / 'flipjump' / 'assembler' / 'inner_classes' / 'expr.py'
    parser_path = repo / 'flipjump' / 'assembler' / 'fj_parser.py'
    et = ast.parse(expr_path.read_text(encoding='utf-8'))
    pt = ast.parse(parser_path.read_text(encoding='utf-8'))

    for word, allowed in (('op_string_to_function', {'flipjump/assembler/inner_classes/expr.py'}),
                          ('char_escape_dict', {'flipjump/assembler/fj_parser.py'})):
        bad = occurrences_elsewhere(repo, word, allowed)
        if bad:
            raise GenError(f'{word} is referenced outside its module: {bad}')

    ops = op_table(et)
    expr_cls = find_class(et, 'Expr', 'expr.py')
    model_sources = [
        ('expr.get_minimized_expr', normalised_source(one_def(et.body, 'get_minimized_expr', 'expr.py'))),
        ('expr.Expr.__init__', normalised_source(one_def(expr_cls.body, '__init__', 'expr.py'))),
        ('expr.Expr.is_int', normalised_source(one_def(expr_cls.body, 'is_int', 'expr.py'))),
        ('expr.Expr.__int__', normalised_source(one_def(expr_cls.body, '__int__', 'expr.py'))),
        # Expr.eval_new / Expr.exact_eval are not tied by their text any more: gen_facts_expr translates them into the IR of
        # Model/PyIR.v and Tie/Expr_tie.v proves the interpreter on that IR equal to the hand model (their text in
        # Model/Expr.modelled_sources is kept as documentation)
    ]
    for name in ('eval_new', 'exact_eval'):
        one_def(expr_cls.body, name, 'expr.py')

    lexer_cls = find_class(pt, 'FJLexer', 'fj_parser.py')
    parser_cls = find_class(pt, 'FJParser', 'fj_parser.py')
    prec = precedence_rows(parser_cls, 'fj_parser.py: FJParser.precedence')
    toks, literals = lexer_tables(lexer_cls, 'fj_parser.py: FJLexer')
    esc = escape_rows(pt, 'fj_parser.py: char_escape_dict')
    op_rules, other_rules = grammar_rules(parser_cls, 'fj_parser.py: FJParser')
    for name in ('bin_num', 'hex_num', 'dec_num', 'escape_chars', 'char', 'number_re', 'string_char', 'string_re'):
        model_sources.append(('fj_parser.' + name, module_assign_source(pt, name, 'fj_parser.py')))
    model_sources += [
        ('fj_parser.get_char_value_and_length',
         normalised_source(one_def(pt.body, 'get_char_value_and_length', 'fj_parser.py'))),
        ('fj_parser.FJLexer.NUMBER', normalised_source(one_def(lexer_cls.body, 'NUMBER', 'fj_parser.py'))),
        ('fj_parser.FJLexer._decimal_value',
         normalised_source(one_def(lexer_cls.body, '_decimal_value', 'fj_parser.py'))),
        ('fj_parser.FJLexer.STRING', normalised_source(one_def(lexer_cls.body, 'STRING', 'fj_parser.py'))),
        ('fj_parser.FJParser.statement : ID "=" expr',
         normalised_source(const_statement(parser_cls))),
    ]

    nl = ';\n    '
    out = [
        '(* GENERATED by harness/fjverif/gen_facts_c12.py from the current source - do not edit. *)',
        'From FJ Require Import Lib.Base Spec.ExprSpec.',
        'Local Open Scope string_scope.',
        'Local Open Scope Z_scope.',
        '',
        'Definition gen_op_table : list (string * pyfun) :=\n  [ ' + nl.join(ops) + ' ].',
        '',
        'Definition gen_precedence : list (assoc * list string) :=\n  [ ' + nl.join(prec) + ' ].',
        '',
        'Definition gen_lexer_tokens : list (string * string) :=\n  [ '
        + nl.join(f'({cstr(a)}, {cstr(b)})' for a, b in toks) + ' ].',
        '',
        'Definition gen_lexer_literals : list string :=\n  ' + clist([cstr(x) for x in literals]) + '.',
        '',
        'Definition gen_char_escapes : list (Z * Z) :=\n  [ ' + '; '.join(esc) + ' ].',
        '',
        'Definition gen_grammar_rules : list (string * (string * list rule_arg)) :=\n  [ ' + nl.join(op_rules) + ' ].',
        '',
        'Definition gen_other_expr_rules : list (string * string) :=\n  [ ' + nl.join(other_rules) + ' ].',
        '',
        'Definition gen_model_sources : list (string * string) :=\n  [ '
        + nl.join(f'({cstr(a)},\n{cstr(b)})' for a, b in model_sources) + ' ].',
        '',
    ]
    return '\n'.join(out)


def const_statement(parser_cls):
    """the `ID "=" expr` action (constant definition)"""
    for fn in parser_cls.body:
        if isinstance(fn, ast.FunctionDef) and fn.name == 'statement':
            for d in fn.decorator_list:
                if isinstance(d, ast.Call) and d.args and isinstance(d.args[0], ast.Constant) \
                        and d.args[0].value == 'ID "=" expr':
                    return fn
    fail('fj_parser.py: FJParser', None, 'no `ID "=" expr` action')


STUB = ('(* GENERATED by harness/fjverif/gen_facts_c12.py: the translator FAILED CLOSED on the current source,\n'
        '   so no facts are defined and Tie/C12_tie.v cannot compile.\n   {msg} *)\n')


def stub(msg):
    return STUB.format(msg=msg.replace('*)', '* )').replace('(*', '( *').replace('"', "'"))


if __name__ == '__main__':
    try:
        sys.stdout.write(generate(sys.argv[1] if len(sys.argv) > 1 else '/repo'))
    except GenError as e:
        sys.stderr.write(f'GenError: {e}\n')
        sys.exit(3)
