"""C10 source tie for the loading stage of the Reader (wiring used by checks/c10.py).

prepare(ctx)                       regenerate coq/Gen/Facts_Loader.v (gen_facts_loader, fail closed), build Tie/Loader_steps.vo,
                                   Tie/Loader_tie.vo, Properties/C10_source.vo; returns (property files, extra targets).
compare(ctx, header, items)        the translator's own tie: the reader model with the REGENERATED _init_memory /
                                   _validate_segments (run by PyIR.exec inside Coq, Tie/Loader_steps.check10_src) is evaluated on
                                   files of the campaign and compared with what the REAL Reader did (image: width, version,
                                   memory_segments, memory dict, zeros_boundaries; or read error)."""
from . import framework as fw
from . import gen_facts_loader as gen
from .source_tie import SourceTie

TIE = SourceTie('Loader source tie', gen, 'Facts_Loader', 'Tie/Loader_steps.v', 'Tie/Loader_tie.v',
                'Properties/C10_source.v', ['Proofs/FjmReader.vo', 'Proofs/PyIRProps.vo', 'Model/PyIR.vo'])


def prepare(ctx):
    props, targets = TIE.prepare(ctx)
    if TIE.state(ctx)['text'] is not None:
        ctx.coverage['trusted_base'] += [
            'Model/PyIR.v (semantics of the Python subset: lists/tuples, for over a list with tuple targets, range, comprehension, '
            'sorted on int pairs, zip, %, dict clear, attribute append) and harness/fjverif/gen_facts_loader.py (fail-closed ast '
            'translator of Reader._init_memory / _validate_segments, rules L1-L9 in its header, incl. the message -> diagnostic-class '
            'table); cross-checked on every run by running the regenerated stage inside Coq against the real Reader '
            '(coverage.source_ir_agreeing)',
            'Tie/Loader_steps.v: the Reader object read as the attribute list of the interpreter world, Reader.memory as its memory, '
            'the outcome of _init_memory as an mres; the parsing before the stage (struct.unpack, lzma) stays Fjm.read_thr']
        ctx.assumptions += ['Loader source tie: covers Reader._init_memory and Reader._validate_segments; _init_header_fields, '
                            '_validate_header, _init_segments, _read_decompressed_data stay hand-transcribed (Model/Fjm.v)']
    return props, targets


def compare(ctx, header, items, limit=None):
    """items: (term, reaches_stage) in campaign order; cases that reach the loading stage are preferred"""
    st = TIE.state(ctx)
    if not st or not st['steps']:
        return
    limit = limit or ctx.n(900, 6000)
    chosen = [t for t, stage in items if stage][:limit] + [t for t, stage in items if not stage][:max(50, limit // 6)]
    full = header + 'From FJ Require Import Model.PyIR.\n' + TIE.steps_import(ctx)
    oks = fw.coq_eval_shards(ctx, 'src_loader', full, chosen, 'check10_src', shard=max(40, len(chosen) // (fw.NCPU * 2) + 1))
    good = sum(1 for ok in oks if ok)
    ctx.coverage['source_ir_agreeing'] = ctx.coverage.get('source_ir_agreeing', 0) + good
    for t, ok in zip(chosen, oks):
        if ok is None:
            continue
        ctx.count(('source-ir', t), True)
        ctx.hist('source_ir_cases', 'agrees' if ok else 'DISAGREES')
    for t in [t for t, ok in zip(chosen, oks) if ok is False][:3]:
        ctx.broken_tie('Loader source tie: the reader model with the regenerated loading stage (PyIR.exec) disagrees with the real Reader',
                       f'case: {t[:3000]}')
    TIE.check_unchanged(ctx)
