import argparse
import importlib
import os
import sys
import traceback

from . import framework as fw


def main():
    ap = argparse.ArgumentParser()
    ap.add_argument('prop')
    ap.add_argument('--tier', default=None, choices=['quick', 'thorough'])
    ap.add_argument('--replay', default=None)
    a = ap.parse_args()
    tier = os.environ.get('VERIF_TIER') or a.tier or 'quick'
    if tier not in ('quick', 'thorough'):
        tier = 'quick'
    seed = int(os.environ.get('VERIF_SEED', '0') or 0)
    ctx = fw.Ctx(a.prop, tier, seed, replay=a.replay)
    mod = importlib.import_module(f'fjverif.checks.{a.prop.lower()}')
    try:
        if a.replay:
            rc = mod.replay(ctx, a.replay)
            sys.exit(rc)
        mod.run(ctx)
    except Exception:
        # the correspondence could not be evaluated on this tree (a worker or the harness tripped over behaviour it does
        # not expect - on the unchanged tree this never happens): the property is no longer shown to hold, which is
        # reported like any other broken tie (VIOLATION ... no-failing-input-found, the replay names what broke), next to
        # whatever violations with failing inputs were already found
        tb = traceback.format_exc()
        sys.stderr.write(tb)
        print(f'[{a.prop}] CHECK ERROR (machinery failure): reported as a broken correspondence')
        try:
            ctx.broken_tie(f'correspondence harness of {a.prop} (machinery failure, the campaign could not be evaluated)', tb[-3000:])
            rc = ctx.finish()
        except Exception:
            traceback.print_exc()
            sys.exit(2)
        sys.exit(rc if rc else 1)
    sys.exit(ctx.finish())


if __name__ == '__main__':
    main()
