import argparse
import importlib
import os
import sys
import traceback

from . import framework as fw


def main():
    ap = argparse.ArgumentParser()
    ap.add_argument('prop')
    ap.add_argument('--tier', default=None, choices=['quick', 'thorough'])
    ap.add_argument('--replay', default=None)
    a = ap.parse_args()
    tier = os.environ.get('VERIF_TIER') or a.tier or 'quick'
    if tier not in ('quick', 'thorough'):
        tier = 'quick'
    seed = int(os.environ.get('VERIF_SEED', '0') or 0)
    ctx = fw.Ctx(a.prop, tier, seed, replay=a.replay)
    mod = importlib.import_module(f'fjverif.checks.{a.prop.lower()}')
    try:
        if a.replay:
            rc = mod.replay(ctx, a.replay)
            sys.exit(rc)
        mod.run(ctx)
    except Exception:
        # a crash of the machinery is not a verdict about the property: report it as a broken check (exit 2)
        traceback.print_exc()
        print(f'[{a.prop}] CHECK ERROR (machinery failure, no verdict)')
        sys.exit(2)
    sys.exit(ctx.finish())


if __name__ == '__main__':
    main()
