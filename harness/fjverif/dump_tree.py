"""Dump the macro tree produced by the REAL parser (flipjump.assembler.fj_parser.parse_macro_tree of fw.REPO)
as JSON and as a Coq term of the types of coq/Model/Ast.v.  Fail closed: any node, attribute or value shape that is
not listed below raises DumpError (a translator failure = broken tie, never a guess).

JSON format (what `tree_to_json` returns and workers/dump.py writes)
--------------------------------------------------------------------
  tree   := {"w": int, "macros": [macro, ...]}          macros in dict (definition) order; main macro = name "" arity 0
  macro  := {"name": str, "arity": int, "params": [str], "locals": [str], "namespace": str, "pos": pos, "ops": [stmt]}
  pos    := {"file": str, "short": str, "line": int}    CodePosition(file, file_short_name, line)
  stmt   := {"t": "FlipJump", "flip": expr, "jump": expr, "pos": pos}
          | {"t": "WordFlip", "addr": expr, "value": expr, "ret": expr, "pos": pos}
          | {"t": "Pad", "align": expr, "pos": pos}
          | {"t": "Label", "name": str, "pos": pos}
          | {"t": "MacroCall", "name": str, "args": [expr], "pos": pos}
          | {"t": "RepCall", "times": expr, "iter": str, "name": str, "args": [expr], "pos": pos}
          | {"t": "Segment", "start": expr, "pos": pos}
          | {"t": "Reserve", "size": expr, "pos": pos}
  expr   := int                       Expr(int)   (arbitrary precision JSON integer)
          | str                       Expr(str)   (label / parameter / "$")
          | [opstr, [expr, ...]]      Expr((op, args)); opstr is a key of op_string_to_function, arity checked

Coq format (what `tree_to_coq` returns; type `macro_dict` of Model/Ast.v)
-------------------------------------------------------------------------
  [ (("name", 2%N), mkmacro ["p";"q"] ["loc"] [ stmt; ... ] "ns" (mkpos "file" "f1" 3%N)); ... ]
  stmt : SFlipJump e e pos | SWordFlip e e e pos | SPad e pos | SLabel "name" pos | SMacroCall "name" [e;..] pos
       | SRepCall e "iter" "name" [e;..] pos | SSegment e pos | SReserve e pos
  expr : EInt (5)%Z | EInt (-5)%Z | ELbl "x" | EOp OAdd [e; e]
  Strings are Coq `string` literals (`"` doubled); only printable ASCII is accepted (else DumpError).
  Use with the header COQ_HEADER (imports Ast, opens string_scope for the literals).

Python API
----------
  dump_sources(ctx, jobs)  jobs = [{"w": 64, "sources": [["f1", "<text>"], ...], "warning_as_errors": True}, ...]
                           (or "files": [["f1", "/abs/path.fj"], ...]); runs the real parser in worker processes;
                           returns per job {"tree": tree} or {"error": {"class": str, "message": str}}
  tree_to_coq(tree) -> str ; expr_to_coq(e) ; stmt_to_coq(s) ; coq_string(s) ; main_ops(tree) -> [stmt]
CLI:  PYTHONPATH=/verif/harness python3 -m fjverif.dump_tree --w 64 [--coq|--json] f1.fj [f2.fj ...]
"""
import json
import sys

OPS_ARITY = {'+': 2, '-': 2, '*': 2, '/': 2, '%': 2, '**': 2, '<<': 2, '>>': 2, '^': 2, '|': 2, '&': 2, '&&': 2,
             '||': 2, '#': 1, '~': 1, '?:': 3, '<': 2, '>': 2, '<=': 2, '>=': 2, '==': 2, '!=': 2}
OPS_COQ = {'+': 'OAdd', '-': 'OSub', '*': 'OMul', '/': 'ODiv', '%': 'OMod', '**': 'OPow', '<<': 'OShl', '>>': 'OShr',
           '^': 'OXor', '|': 'OOr', '&': 'OAnd', '&&': 'OLand', '||': 'OLor', '#': 'OBitlen', '~': 'ONot',
           '?:': 'OCond', '<': 'OLt', '>': 'OGt', '<=': 'OLe', '>=': 'OGe', '==': 'OEq', '!=': 'ONe'}
COQ_HEADER = ('From FJ Require Import Lib.Base Model.Ast.\n'
              'Local Open Scope string_scope.\nLocal Open Scope N_scope.\n')


class DumpError(Exception):
    pass


# ---- real objects -> JSON (runs inside the worker, where the repo's classes are importable) ----------------------

def _attrs(obj, expected):
    got = set(vars(obj))
    if got != set(expected):
        raise DumpError(f'{type(obj).__name__}: attributes {sorted(got)} != expected {sorted(expected)}')


def _str(x, what):
    if type(x) is not str:
        raise DumpError(f'{what}: expected str, got {type(x).__name__}')
    return x


def expr_to_json(e):
    from flipjump.assembler.inner_classes.expr import Expr, op_string_to_function
    if type(e) is not Expr:
        raise DumpError(f'expression node of type {type(e).__name__}')
    _attrs(e, ['value'])
    v = e.value
    if type(v) is int:
        return v
    if type(v) is str:
        return v
    if type(v) is tuple and len(v) == 2 and type(v[0]) is str and type(v[1]) is tuple:
        op, args = v
        if op not in OPS_ARITY or op not in op_string_to_function:
            raise DumpError(f'unknown operator {op!r}')
        if len(args) != OPS_ARITY[op]:
            raise DumpError(f'operator {op!r} with {len(args)} arguments')
        return [op, [expr_to_json(a) for a in args]]
    raise DumpError(f'expression value of shape {type(v).__name__}: {v!r}')


def pos_to_json(p):
    from flipjump.assembler.inner_classes.ops import CodePosition
    if type(p) is not CodePosition:
        raise DumpError(f'code position of type {type(p).__name__}')
    _attrs(p, ['file', 'file_short_name', 'line'])
    if type(p.line) is not int or p.line < 0:
        raise DumpError(f'code position line {p.line!r}')
    return {'file': _str(p.file, 'file'), 'short': _str(p.file_short_name, 'short'), 'line': p.line}


def _macro_name(mn, nargs=None):
    from flipjump.assembler.inner_classes.ops import MacroName
    if type(mn) is not MacroName:
        raise DumpError(f'macro name of type {type(mn).__name__}')
    _attrs(mn, ['name', 'parameter_num'])
    if type(mn.parameter_num) is not int or mn.parameter_num < 0 or (nargs is not None and mn.parameter_num != nargs):
        raise DumpError(f'macro name {mn.name!r} arity {mn.parameter_num!r} (arguments: {nargs})')
    return _str(mn.name, 'macro name'), mn.parameter_num


def _exprs(xs):
    if type(xs) not in (list, tuple):
        raise DumpError(f'argument list of type {type(xs).__name__}')
    return [expr_to_json(x) for x in xs]


def stmt_to_json(op):
    from flipjump.assembler.inner_classes import ops as O
    t = type(op)
    if t is O.FlipJump:
        _attrs(op, ['flip', 'jump', 'code_position'])
        return {'t': 'FlipJump', 'flip': expr_to_json(op.flip), 'jump': expr_to_json(op.jump),
                'pos': pos_to_json(op.code_position)}
    if t is O.WordFlip:
        _attrs(op, ['word_address', 'flip_value', 'return_address', 'code_position'])
        return {'t': 'WordFlip', 'addr': expr_to_json(op.word_address), 'value': expr_to_json(op.flip_value),
                'ret': expr_to_json(op.return_address), 'pos': pos_to_json(op.code_position)}
    if t is O.Pad:
        _attrs(op, ['ops_alignment', 'code_position'])
        return {'t': 'Pad', 'align': expr_to_json(op.ops_alignment), 'pos': pos_to_json(op.code_position)}
    if t is O.Label:
        _attrs(op, ['name', 'code_position'])
        return {'t': 'Label', 'name': _str(op.name, 'label'), 'pos': pos_to_json(op.code_position)}
    if t is O.MacroCall:
        _attrs(op, ['macro_name', 'arguments', 'code_position'])
        args = _exprs(op.arguments)
        name, _ = _macro_name(op.macro_name, len(args))
        return {'t': 'MacroCall', 'name': name, 'args': args, 'pos': pos_to_json(op.code_position)}
    if t is O.RepCall:
        _attrs(op, ['current_index', 'repeat_times', 'iterator_name', 'source_iterator_name', 'macro_name',
                    'arguments', 'code_position'])
        if op.current_index != 0 or op.source_iterator_name != op.iterator_name:
            raise DumpError('RepCall is not in its freshly parsed state')
        args = _exprs(op.arguments)
        name, _ = _macro_name(op.macro_name, len(args))
        return {'t': 'RepCall', 'times': expr_to_json(op.repeat_times), 'iter': _str(op.iterator_name, 'iterator'),
                'name': name, 'args': args, 'pos': pos_to_json(op.code_position)}
    if t is O.Segment:
        _attrs(op, ['start_address', 'code_position'])
        return {'t': 'Segment', 'start': expr_to_json(op.start_address), 'pos': pos_to_json(op.code_position)}
    if t is O.Reserve:
        _attrs(op, ['reserved_bit_size', 'code_position'])
        return {'t': 'Reserve', 'size': expr_to_json(op.reserved_bit_size), 'pos': pos_to_json(op.code_position)}
    raise DumpError(f'unknown statement type {t.__module__}.{t.__name__}')


def tree_to_json(macros, w):
    from flipjump.assembler.inner_classes.ops import Macro
    if type(macros) is not dict:
        raise DumpError(f'macro dictionary of type {type(macros).__name__}')
    out = []
    for mn, m in macros.items():
        name, arity = _macro_name(mn)
        if type(m) is not Macro:
            raise DumpError(f'macro of type {type(m).__name__}')
        _attrs(m, ['params', 'local_params', 'ops', 'namespace', 'code_position'])
        if type(m.params) is not list or type(m.local_params) is not list or type(m.ops) is not list:
            raise DumpError('macro fields are not lists')
        if len(m.params) != arity:
            raise DumpError(f'macro {name!r}: {len(m.params)} params but arity {arity}')
        out.append({'name': name, 'arity': arity, 'params': [_str(p, 'param') for p in m.params],
                    'locals': [_str(p, 'local') for p in m.local_params], 'namespace': _str(m.namespace, 'namespace'),
                    'pos': pos_to_json(m.code_position), 'ops': [stmt_to_json(o) for o in m.ops]})
    if not out or (out[0]['name'], out[0]['arity']) != ('', 0):
        raise DumpError('the first macro of the dictionary is not the main macro')
    return {'w': w, 'macros': out}


# ---- JSON -> Coq -------------------------------------------------------------------------------------------------

def coq_string(s):
    if type(s) is not str:
        raise DumpError(f'string expected, got {type(s).__name__}')
    for ch in s:
        if not (0x20 <= ord(ch) <= 0x7e):
            raise DumpError(f'non printable-ASCII character {ch!r} in {s!r}')
    return '"' + s.replace('"', '""') + '"'


def coq_z(z):
    if type(z) is not int:
        raise DumpError(f'integer expected, got {type(z).__name__}')
    return f'({z})%Z'


def expr_to_coq(e):
    if type(e) is int:
        return f'EInt {coq_z(e)}'
    if type(e) is str:
        return f'ELbl {coq_string(e)}'
    if type(e) is list and len(e) == 2 and e[0] in OPS_COQ and type(e[1]) is list and len(e[1]) == OPS_ARITY[e[0]]:
        return f'EOp {OPS_COQ[e[0]]} [' + '; '.join(expr_to_coq(a) for a in e[1]) + ']'
    raise DumpError(f'bad expression JSON {e!r}')


def exprs_to_coq(es):
    return '[' + '; '.join(f'{expr_to_coq(a)}' for a in es) + ']'


def pos_to_coq(p):
    if set(p) != {'file', 'short', 'line'}:
        raise DumpError(f'bad position JSON {p!r}')
    return f'(mkpos {coq_string(p["file"])} {coq_string(p["short"])} {int(p["line"])}%N)'


def _e(e):
    return '(' + expr_to_coq(e) + ')'


def stmt_to_coq(s):
    t = s.get('t')
    p = pos_to_coq(s['pos'])
    keys = set(s) - {'t', 'pos'}
    if t == 'FlipJump' and keys == {'flip', 'jump'}:
        return f'SFlipJump {_e(s["flip"])} {_e(s["jump"])} {p}'
    if t == 'WordFlip' and keys == {'addr', 'value', 'ret'}:
        return f'SWordFlip {_e(s["addr"])} {_e(s["value"])} {_e(s["ret"])} {p}'
    if t == 'Pad' and keys == {'align'}:
        return f'SPad {_e(s["align"])} {p}'
    if t == 'Label' and keys == {'name'}:
        return f'SLabel {coq_string(s["name"])} {p}'
    if t == 'MacroCall' and keys == {'name', 'args'}:
        return f'SMacroCall {coq_string(s["name"])} {exprs_to_coq(s["args"])} {p}'
    if t == 'RepCall' and keys == {'times', 'iter', 'name', 'args'}:
        return (f'SRepCall {_e(s["times"])} {coq_string(s["iter"])} {coq_string(s["name"])} '
                f'{exprs_to_coq(s["args"])} {p}')
    if t == 'Segment' and keys == {'start'}:
        return f'SSegment {_e(s["start"])} {p}'
    if t == 'Reserve' and keys == {'size'}:
        return f'SReserve {_e(s["size"])} {p}'
    raise DumpError(f'bad statement JSON {s!r}')


def stmts_to_coq(ss, sep='; '):
    return '[' + sep.join(stmt_to_coq(s) for s in ss) + ']'


def strs_to_coq(xs):
    return '[' + '; '.join(coq_string(x) for x in xs) + ']'


def macro_to_coq(m):
    if set(m) != {'name', 'arity', 'params', 'locals', 'namespace', 'pos', 'ops'}:
        raise DumpError(f'bad macro JSON keys {sorted(m)}')
    return (f'(({coq_string(m["name"])}, {int(m["arity"])}%N), mkmacro {strs_to_coq(m["params"])} '
            f'{strs_to_coq(m["locals"])} {stmts_to_coq(m["ops"], ";" + chr(10) + "   ")} {coq_string(m["namespace"])} '
            f'{pos_to_coq(m["pos"])})')


def tree_to_coq(tree):
    return '[' + ';\n '.join(macro_to_coq(m) for m in tree['macros']) + ']'


def main_ops(tree):
    m = tree['macros'][0]
    if (m['name'], m['arity']) != ('', 0):
        raise DumpError('first macro is not the main macro')
    return m['ops']


# ---- running the real parser --------------------------------------------------------------------------------------

def dump_sources(ctx, jobs, nworkers=None):
    """jobs: list of {"w", "sources" | "files", "warning_as_errors"?}.  Returns a list aligned with jobs."""
    from . import framework as fw
    if not jobs:
        return []
    k = nworkers or fw.NCPU
    size = max(1, (len(jobs) + k - 1) // k)
    chunks = [jobs[i:i + size] for i in range(0, len(jobs), size)]
    outs = fw.run_workers_parallel(ctx, 'dump', [{'jobs': c} for c in chunks])
    res = []
    for o in outs:
        res += o
    return res


def main(argv):
    import argparse
    import os
    import subprocess
    import tempfile
    from . import framework as fw
    ap = argparse.ArgumentParser(description='dump the macro tree of .fj files as JSON or as a Coq term')
    ap.add_argument('--w', type=int, default=64)
    ap.add_argument('--coq', action='store_true')
    ap.add_argument('--json', action='store_true')
    ap.add_argument('files', nargs='+')
    a = ap.parse_args(argv)
    base = '/var/tmp' if os.access('/var/tmp', os.W_OK) else '/dev/shm'
    with tempfile.TemporaryDirectory(dir=base, prefix='fjverif.dump.') as d:
        inp, outp = os.path.join(d, 'in.json'), os.path.join(d, 'out.json')
        files = [[f'f{i + 1}', os.path.abspath(f)] for i, f in enumerate(a.files)]
        with open(inp, 'w') as f:
            json.dump({'jobs': [{'w': a.w, 'files': files}]}, f)
        p = subprocess.run([fw.PY, '-m', 'fjverif.workers.dump', inp, outp], env=fw.env_for_repo(), cwd=d,
                           stdout=subprocess.PIPE, stderr=subprocess.STDOUT, text=True)
        if p.returncode != 0:
            sys.stderr.write(p.stdout)
            return 2
        r = json.load(open(outp))[0]
    if 'error' in r:
        print(json.dumps(r))
        return 1
    if a.coq:
        print(COQ_HEADER + 'Definition tree : macro_dict :=\n ' + tree_to_coq(r['tree']) + '.')
    else:
        print(json.dumps(r['tree'], indent=1))
    return 0


if __name__ == '__main__':
    sys.exit(main(sys.argv[1:]))
