"""C17 source tie for FixedIO / StandardIO (wiring used by checks/c17.py).

prepare(ctx)                  regenerate coq/Gen/Facts_Devices.v (gen_facts_devices, fail closed), build Tie/Devices_steps.vo,
                              Tie/Devices_tie.vo, Properties/C17_source.vo; returns (property files, extra targets).
compare(ctx, kind, terms)     the translator's own tie: the regenerated methods are run by PyIR.exec inside Coq (vm_compute,
                              Tie/Devices_steps.check_fixed_src / check_standard_src) on the trace cases of the campaign and
                              compared with what the REAL classes answered (every answer; for StandardIO also the stdout text)."""
from . import framework as fw
from . import gen_facts_devices as gen
from .source_tie import SourceTie

TIE = SourceTie('Devices source tie', gen, 'Facts_Devices', 'Tie/Devices_steps.v', 'Tie/Devices_tie.v',
                'Properties/C17_source.v', ['Proofs/DevicesProps.vo', 'Proofs/PyIRProps.vo', 'Model/PyIR.vo'])
HEADER = 'From FJ Require Import Lib.Base Spec.MachineSpec Spec.IOSpec Model.PyIR Model.Devices.\n'
CHECK = {'fixed': 'check_fixed_src', 'standard': 'check_standard_src'}


def prepare(ctx):
    props, targets = TIE.prepare(ctx)
    if TIE.state(ctx)['text'] is not None:
        ctx.coverage['trusted_base'] += [
            'Model/PyIR.v (semantics of the Python subset: device attributes, bytes, to_bytes, raw_unicode_escape below 256, '
            'sys.stdin/sys.stdout as character lists) and harness/fjverif/gen_facts_devices.py (fail-closed ast translator of '
            'FixedIO / StandardIO, rules D1-D7 in its header); cross-checked on every run by running the regenerated methods '
            'inside Coq against the real classes (coverage.source_ir_agreeing)',
            'Tie/Devices_steps.v: a device object read as the attribute list of the interpreter world, one operation = one '
            'method call, the returned value / raised exception = the observation']
        ctx.assumptions += ['Devices source tie: FixedIO and StandardIO only (KeyboardIO, BrokenIO stay hand-transcribed); '
                            'stdin characters < 256; keyword-only arguments are passed positionally']
    return props, targets


def compare(ctx, kind, terms, limit=None):
    st = TIE.state(ctx)
    if not st or not st['steps']:
        return
    terms = terms[:limit or ctx.n(600, 4000)]
    header = HEADER + TIE.steps_import(ctx) + 'Local Open Scope N_scope.\n'
    oks = fw.coq_eval_shards(ctx, f'src_{kind}', header, terms, CHECK[kind], shard=150)
    good = sum(1 for ok in oks if ok)
    ctx.coverage['source_ir_agreeing'] = ctx.coverage.get('source_ir_agreeing', 0) + good
    for t, ok in zip(terms, oks):
        if ok is None:
            continue
        ctx.count(('source-ir', kind, t), True)
        ctx.hist('source_ir_cases', kind)
    bad = [t for t, ok in zip(terms, oks) if ok is False]
    for t in bad[:3]:
        ctx.broken_tie(f'Devices source tie: PyIR.exec on the regenerated {kind} device disagrees with the real class',
                       f'case (input, operations, observed answers): {t[:1500]}')
    TIE.check_unchanged(ctx)
