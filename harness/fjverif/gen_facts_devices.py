"""T-gen for Model/Devices.v: translate the CURRENT source of FixedIO and StandardIO (flipjump/interpreter/io_devices) into
the Python-subset IR of coq/Model/PyIR.v and write coq/Gen/Facts_Devices.v; coq/Tie/Devices_tie.v proves, for every device
state and argument, that PyIR.exec on these terms computes what Model/Devices.v computes.

Same fail-closed translator as gen_facts_engpy (class Fn), extended by the constructs the devices use:
  D1  `self.<name>` of a device method is an attribute of the device object: EField / SFieldSet / SFieldAug with one id per
      attribute name and class (table printed in the generated file).
  D2  bytes literals, `x[k]`, `x[k:]`, `len(x)`, `x.to_bytes(1, 'little')` (exactly these arguments).
  D3  `stdin` / `stdout` must be the names imported by `from sys import stdin, stdout`; `stdin.read(1)`, `stdout.write(x)`,
      `stdout.flush()` are the primitives P_stdin_read / P_stdout_write / P_stdout_flush.
  D4  `x.encode(encoding=IO_BYTES_ENCODING)` / `x.decode(encoding=IO_BYTES_ENCODING)` with IO_BYTES_ENCODING imported from
      flipjump.utils.constants and equal to 'raw_unicode_escape' there: EEncode / EDecode.
  D5  `raise IOReadOnEOF(<string>)` / `raise IncompleteOutput(<string>)` (names imported from flipjump.utils.exceptions).
  D6  keyword-only parameters with a constant default are value parameters (the default is recorded in a comment).
  D7  `name: annotation = value` is `name = value`."""
import ast
from pathlib import Path

from .gen_facts_engpy import Fn, GenError, stub  # noqa: F401  (stub re-exported)

CLASSES = {'FixedIO': ('flipjump/interpreter/io_devices/FixedIO.py', 'fixed'),
           'StandardIO': ('flipjump/interpreter/io_devices/StandardIO.py', 'std')}
METHODS = ['__init__', 'read_bit', 'write_bit', 'get_output']
RAISABLE = {'IOReadOnEOF': 'XEOF', 'IncompleteOutput': 'XIncomplete'}


class DevFn(Fn):
    self_role = 'device'

    def __init__(self, tr, fname, node, coq_name, cls):
        self.cls = cls
        super().__init__(tr, fname, node, coq_name, True, kwonly_ok=True)

    def field(self, name):
        tab = self.tr.fields[self.cls]
        if name not in tab:
            tab[name] = len(tab) + 1
        return f'f_{self.tr.short[self.cls]}_{name}'

    def is_field(self, node):
        return isinstance(node, ast.Attribute) and self.ref(node.value) == ('obj', 'device')

    def sys_name(self, node, name):
        """the module-level name `stdin` / `stdout` imported from sys (D3)"""
        return isinstance(node, ast.Name) and node.id == name and name not in self.vars and \
            name in self.tr.imported[self.cls].get('sys', ())

    # ---- expressions ----------------------------------------------------------------------------
    def expr(self, e):
        if isinstance(e, ast.Constant) and isinstance(e.value, bytes):
            return 'EBytes [' + '; '.join(str(b) for b in e.value) + ']'
        if self.is_field(e):
            if not isinstance(e.ctx, ast.Load):
                self.err(e, 'unexpected store')
            return f'EField {self.field(e.attr)}'
        if isinstance(e, ast.Subscript) and isinstance(e.ctx, ast.Load):
            s = e.slice
            if isinstance(s, ast.Slice):
                if s.upper is None and s.step is None and s.lower is not None:
                    return f'ESliceFrom ({self.expr(e.value)}) ({self.expr(s.lower)})'
                self.err(e, 'only x[k:] slices are in the subset')
            return f'EIndex ({self.expr(e.value)}) ({self.expr(s)})'
        return super().expr(e)

    def call(self, e):
        f = e.func
        if isinstance(f, ast.Name) and f.id == 'len' and 'len' not in self.vars and len(e.args) == 1 and not e.keywords:
            return f'ELen ({self.expr(e.args[0])})'
        if isinstance(f, ast.Attribute):
            if f.attr == 'to_bytes':
                a = e.args
                if len(a) == 2 and not e.keywords and isinstance(a[0], ast.Constant) and a[0].value == 1 and \
                        a[0].value is not True and isinstance(a[1], ast.Constant) and a[1].value in ('little', 'big'):
                    return f'EToBytes1 ({self.expr(f.value)})'
                self.err(e, 'to_bytes with other arguments than (1, byteorder)')
            if f.attr in ('encode', 'decode'):
                k = e.keywords
                if not e.args and len(k) == 1 and k[0].arg == 'encoding' and isinstance(k[0].value, ast.Name) and \
                        k[0].value.id == 'IO_BYTES_ENCODING' and 'IO_BYTES_ENCODING' not in self.vars and \
                        'IO_BYTES_ENCODING' in self.tr.imported[self.cls].get('flipjump.utils.constants', ()) and \
                        self.tr.io_encoding == 'raw_unicode_escape':
                    return ('EEncode' if f.attr == 'encode' else 'EDecode') + f' ({self.expr(f.value)})'
                self.err(e, 'encode/decode with something else than encoding=IO_BYTES_ENCODING (raw_unicode_escape)')
            if self.sys_name(f.value, 'stdin') and f.attr == 'read' and len(e.args) == 1 and not e.keywords:
                return f'ECall1 P_stdin_read ({self.expr(e.args[0])})'
            if self.sys_name(f.value, 'stdout') and f.attr == 'write' and len(e.args) == 1 and not e.keywords:
                return f'ECall1 P_stdout_write ({self.expr(e.args[0])})'
            if self.sys_name(f.value, 'stdout') and f.attr == 'flush' and not e.args and not e.keywords:
                return 'ECall0 P_stdout_flush'
        return super().call(e)

    # ---- statements -----------------------------------------------------------------------------
    def stmt(self, s, ind):
        if isinstance(s, ast.Assign) and len(s.targets) == 1 and self.is_field(s.targets[0]):
            return f'SFieldSet {self.field(s.targets[0].attr)} ({self.expr(s.value)})'
        if isinstance(s, ast.AugAssign) and self.is_field(s.target):
            from .gen_facts_engpy import BINOPS
            if type(s.op) not in BINOPS:
                self.err(s, 'augmented assignment operator outside the subset')
            return f'SFieldAug {self.field(s.target.attr)} {BINOPS[type(s.op)]} ({self.expr(s.value)})'
        if isinstance(s, ast.AnnAssign):        # D7
            if not (isinstance(s.target, ast.Name) and s.simple and s.value is not None):
                self.err(s, 'annotated assignment outside the subset')
            return f'SAssign {self.var(s.target.id)} ({self.expr(s.value)})'
        if isinstance(s, ast.Raise):
            x = s.exc
            if s.cause is None and isinstance(x, ast.Call) and isinstance(x.func, ast.Name) and x.func.id in RAISABLE and \
                    x.func.id in self.tr.imported[self.cls].get('flipjump.utils.exceptions', ()) and len(x.args) == 1 and \
                    not x.keywords and isinstance(x.args[0], ast.Constant) and isinstance(x.args[0].value, str):
                return f'SRaiseExn {RAISABLE[x.func.id]} (EStr [])'
            self.err(s, 'raise outside the subset')
        return super().stmt(s, ind)


class Translator:
    def __init__(self, repo):
        self.repo = Path(repo)
        self.fields = {c: {} for c in CLASSES}
        self.short = {c: s for c, (_, s) in CLASSES.items()}
        self.imported = {}
        self.defs = {}
        consts = ast.parse((self.repo / 'flipjump/utils/constants.py').read_text())
        enc = [n.value.value for n in consts.body if isinstance(n, ast.Assign) and len(n.targets) == 1 and
               isinstance(n.targets[0], ast.Name) and n.targets[0].id == 'IO_BYTES_ENCODING' and
               isinstance(n.value, ast.Constant)]
        self.io_encoding = enc[0] if len(enc) == 1 else None
        for cls, (path, _) in CLASSES.items():
            tree = ast.parse((self.repo / path).read_text(), filename=path)
            imp = {}
            for n in tree.body:
                if isinstance(n, ast.ImportFrom) and n.level == 0:
                    imp.setdefault(n.module, set()).update(a.name for a in n.names if a.asname is None)
            self.imported[cls] = imp
            hits = [n for n in tree.body if isinstance(n, ast.ClassDef) and n.name == cls]
            if len(hits) != 1 or hits[0].decorator_list:
                raise GenError(f'{path}: expected exactly one undecorated class {cls}')
            for m in METHODS:
                ms = [n for n in hits[0].body if isinstance(n, ast.FunctionDef) and n.name == m]
                if len(ms) != 1 or ms[0].decorator_list:
                    raise GenError(f'{path}: expected exactly one undecorated method {cls}.{m}')
                self.defs[(cls, m)] = (path, ms[0])
            # nothing else in the class may define or shadow the translated methods (properties, __getattr__, ...)
            extra = [n.name for n in hits[0].body if isinstance(n, (ast.FunctionDef, ast.AsyncFunctionDef)) and n.name not in METHODS]
            if any(x.startswith('__') for x in extra):
                raise GenError(f'{path}: class {cls} defines special methods {extra} (attribute access would not be plain)')

    def signature(self, coq):
        raise GenError(f'device methods do not call translated functions ({coq})')

    def generate(self):
        out, table, notes = [], [], []
        for cls in CLASSES:
            for m in METHODS:
                path, node = self.defs[(cls, m)]
                coq = f'{self.short[cls]}_{m.strip("_")}'
                fn = DevFn(self, path, node, coq, cls)
                body = fn.block(node.body, 2)
                chunk = [f'Notation v_{coq}_{n} := ({i}%positive) (only parsing).' for n, i in fn.vars.items()]
                dflt = ''.join(f'  default {k}={v!r}' for k, v in fn.defaults.items())
                chunk.append(f'(* {path}:{node.lineno}  def {cls}.{m}{dflt} *)')
                chunk.append(f'Definition src_{coq} : stmt :=\n  {body}.')
                params = '; '.join(f'v_{coq}_{n}' for n, role in fn.params if role is None)
                table.append(f'  | F_{coq} => Some ([{params}], src_{coq})')
                out.append('\n'.join(chunk))
                notes += [(path, *d) for d in fn.dropped if d[2] != 'docstring']
        head = ['(* generated from the current source by harness/fjverif/gen_facts_devices.py - do not edit.',
                '   IR of coq/Model/PyIR.v; f_<class>_<attribute> are the attributes of the device object, v_<method>_<name> the locals. *)',
                'From FJ Require Import Lib.Base Model.PyIR.', 'Local Open Scope N_scope.', '']
        for cls in CLASSES:
            for n, i in self.fields[cls].items():
                head.append(f'Notation f_{self.short[cls]}_{n} := ({i}%positive) (only parsing).')
        if notes:
            raise GenError(f'statements without IR in a device method: {notes}')
        text = '\n'.join(head) + '\n\n' + '\n\n'.join(out) + '\n\n'
        text += 'Definition dev_program : program := fun f =>\n  match f with\n' + '\n'.join(table) + '\n  | _ => None\n  end.\n'
        return text


def generate(repo):
    try:
        return Translator(repo).generate()
    except (OSError, SyntaxError, KeyError) as e:
        raise GenError(f'source unreadable: {e!r}')


def write(repo=None):
    from . import framework as fw
    fw.write_if_changed(fw.COQ / 'Gen' / 'Facts_Devices.v', generate(repo or fw.REPO))
    return True


if __name__ == '__main__':
    import sys
    print(generate(sys.argv[1] if len(sys.argv) > 1 else '/repo'))
