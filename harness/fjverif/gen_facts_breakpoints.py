"""T-gen for the breakpoint part of Model/Labels.v: translate the CURRENT source of the three update_breakpoints_* functions
of flipjump/interpreter/debugging/breakpoints.py into the Python-subset IR of coq/Model/PyIR.v, together with the order
in which get_breakpoints calls them, and write coq/Gen/Facts_Breakpoints.v; coq/Tie/Breakpoints_tie.v proves that
PyIR.exec on these terms computes Labels.bp_addresses / bp_contains / bp_exact and prints the warnings of Labels.bp_warnings.

Same fail-closed translator as gen_facts_loader (class LoaderFn), extended by:
  B1  the parameters are values: a set is the list of its elements in iteration order, a dict the list of its items in
      insertion order.  `x[k] = v` on a parameter x that is never rebound is SVarItemSet (the caller's dict is the final
      value of x).
  B2  `a in b` / `a not in b` is EIn (key of a dict, substring of a data string); `tuple(x)` / `list(x)` is ETupleOf;
      `x[::-1]` is EReverse; `d[k]` on a variable is EIndex (KeyError on a dict).
  B3  `print(<f-string>)` is P_print of EJoinText: the literal parts are data strings, the formatted values must be data
      strings (a label), no format spec.
  B4  get_breakpoints must be: a fresh dict, then calls of the three functions on it (each with its own set and, for two of
      them, the label table), then `return` of the dict; the order of the calls is emitted as a fact."""
import ast
from pathlib import Path

from .gen_facts_engpy import GenError, stub  # noqa: F401
from .gen_facts_loader import LoaderFn

PATH = 'flipjump/interpreter/debugging/breakpoints.py'
FUNCS = {'update_breakpoints_from_addresses_set': 'F_bp_from_addresses',
         'update_breakpoints_from_breakpoint_contains_set': 'F_bp_from_contains',
         'update_breakpoints_from_breakpoint_set': 'F_bp_from_labels'}


def text_lit(s):
    return 'ETextLit [' + '; '.join(str(ord(ch)) for ch in s) + ']'


class BpFn(LoaderFn):
    cls_name, path = 'Bp', PATH

    def __init__(self, tr, node, coq_name):
        super().__init__(tr, node, coq_name, True)
        self.param_names = {a.arg for a in node.args.args}

    def cons(self, items):
        out = 'ENil'
        for x in reversed(items):
            out = f'ECons ({x}) ({out})'
        return out

    def expr(self, e):
        if isinstance(e, ast.Subscript) and isinstance(e.ctx, ast.Load) and isinstance(e.slice, ast.Slice):
            s = e.slice
            if s.lower is None and s.upper is None and isinstance(s.step, ast.UnaryOp) and isinstance(s.step.op, ast.USub) and \
                    isinstance(s.step.operand, ast.Constant) and s.step.operand.value == 1:
                return f'EReverse ({self.expr(e.value)})'
        return super().expr(e)

    def compare(self, e):
        if len(e.ops) == 1 and isinstance(e.ops[0], (ast.In, ast.NotIn)) and not isinstance(e.comparators[0], ast.Tuple):     # B2
            x = f'EIn ({self.expr(e.left)}) ({self.expr(e.comparators[0])})'
            return x if isinstance(e.ops[0], ast.In) else f'ENot ({x})'
        return super().compare(e)

    def call(self, e):
        f = e.func
        if isinstance(f, ast.Name) and f.id not in self.vars and not e.keywords and len(e.args) == 1:
            if f.id in ('tuple', 'list'):
                return f'ETupleOf ({self.expr(e.args[0])})'
            if f.id == 'print':      # B3
                m = e.args[0]
                parts = []
                if isinstance(m, ast.Constant) and isinstance(m.value, str):
                    parts.append(text_lit(m.value))
                elif isinstance(m, ast.JoinedStr):
                    for part in m.values:
                        if isinstance(part, ast.Constant) and isinstance(part.value, str):
                            parts.append(text_lit(part.value))
                        elif isinstance(part, ast.FormattedValue) and part.format_spec is None and part.conversion == -1 and \
                                isinstance(part.value, ast.Name) and part.value.id in self.vars:
                            parts.append(f'EVar {self.var(part.value.id)}')
                        else:
                            self.err(e, 'print of an f-string outside rule B3')
                else:
                    self.err(e, 'print of something else than a string')
                return f'ECall1 P_print (EJoinText ({self.cons(parts)}))'
        return super().call(e)

    def stmt(self, s, ind):
        if isinstance(s, ast.Assign) and len(s.targets) == 1 and isinstance(s.targets[0], ast.Subscript) and \
                isinstance(s.targets[0].value, ast.Name) and not isinstance(s.targets[0].slice, ast.Slice):      # B1
            x = s.targets[0].value.id
            if x not in self.param_names or self.store_count.get(x):
                self.err(s, 'item assignment on something else than a parameter that is never rebound')
            return f'SVarItemSet {self.var(x)} ({self.expr(s.targets[0].slice)}) ({self.expr(s.value)})'
        return super().stmt(s, ind)


class Translator:
    def __init__(self, repo):
        self.repo = Path(repo)
        self.fields = {'Bp': {}}
        self.short = {'Bp': 'bp'}
        self.imported = {'Bp': {}}
        self.threshold, self.memseg_fields, self.versions, self.static, self.arity = None, None, {}, {}, {}
        tree = ast.parse((self.repo / PATH).read_text(), filename=PATH)
        self.defs = {}
        for name in list(FUNCS) + ['get_breakpoints']:
            hits = [n for n in tree.body if isinstance(n, ast.FunctionDef) and n.name == name]
            if len(hits) != 1 or hits[0].decorator_list:
                raise GenError(f'{PATH}: expected exactly one undecorated function {name}')
            self.defs[name] = hits[0]

    def signature(self, coq):
        raise GenError(f'unexpected call of {coq}')

    def call_order(self):
        """B4"""
        node = self.defs['get_breakpoints']
        params = [a.arg for a in node.args.args]
        body = [s for s in node.body if not (isinstance(s, ast.Expr) and isinstance(s.value, ast.Constant))]
        bad = GenError(f'{PATH}:{node.lineno}: get_breakpoints is not `d = {{}}; update_..(set, d[, table]) x3; return d`')
        if len(params) != 4 or len(body) != 5:
            raise bad
        first, last = body[0], body[-1]
        tgt = first.target if isinstance(first, ast.AnnAssign) else first.targets[0] if isinstance(first, ast.Assign) and len(first.targets) == 1 else None
        if not (isinstance(tgt, ast.Name) and isinstance(first.value, ast.Dict) and not first.value.keys and
                isinstance(last, ast.Return) and isinstance(last.value, ast.Name) and last.value.id == tgt.id):
            raise bad
        d, table = tgt.id, params[3]
        expect = {'update_breakpoints_from_addresses_set': [params[0], d],
                  'update_breakpoints_from_breakpoint_contains_set': [params[2], d, table],
                  'update_breakpoints_from_breakpoint_set': [params[1], d, table]}
        order = []
        for s in body[1:4]:
            c = s.value if isinstance(s, ast.Expr) else None
            if not (isinstance(c, ast.Call) and isinstance(c.func, ast.Name) and c.func.id in expect and not c.keywords and
                    all(isinstance(a, ast.Name) for a in c.args) and [a.id for a in c.args] == expect[c.func.id]):
                raise bad
            order.append(FUNCS[c.func.id])
        if len(set(order)) != 3:
            raise bad
        return order

    def generate(self):
        out, table = [], []
        for name, coq in FUNCS.items():
            node = self.defs[name]
            short = coq[2:]
            fn = BpFn(self, node, short)
            body = fn.block(node.body, 2)
            dropped = [d for d in fn.dropped if d[2] != 'docstring']
            if dropped:
                raise GenError(f'statements without IR in {name}: {dropped}')
            chunk = [f'Notation v_{short}_{n} := ({i}%positive) (only parsing).' for n, i in fn.vars.items()]
            chunk.append(f'(* {PATH}:{node.lineno}  def {name} *)')
            chunk.append(f'Definition src_{short} : stmt :=\n  {body}.')
            chunk.append(f'Definition src_{short}_params : list ident := [{"; ".join(f"v_{short}_{n}" for n, _ in fn.params)}].')
            table.append(f'  | {coq} => Some (src_{short}_params, src_{short})')
            out.append('\n'.join(chunk))
        head = ['(* generated from the current source by harness/fjverif/gen_facts_breakpoints.py - do not edit.',
                '   IR of coq/Model/PyIR.v; v_<function>_<name> are the locals (parameters first). *)',
                'From FJ Require Import Lib.Base Model.PyIR.', 'Local Open Scope N_scope.', '']
        text = '\n'.join(head) + '\n\n' + '\n\n'.join(out) + '\n\n'
        text += 'Definition bp_program : program := fun f =>\n  match f with\n' + '\n'.join(table) + '\n  | _ => None\n  end.\n'
        text += '(* the order in which get_breakpoints calls them on its fresh dict *)\n'
        text += 'Definition src_get_breakpoints_order : list fname := [' + '; '.join(self.call_order()) + '].\n'
        return text


def generate(repo):
    try:
        return Translator(repo).generate()
    except (OSError, SyntaxError, KeyError) as e:
        raise GenError(f'source unreadable: {e!r}')


def write(repo=None):
    from . import framework as fw
    fw.write_if_changed(fw.COQ / 'Gen' / 'Facts_Breakpoints.v', generate(repo or fw.REPO))
    return True


if __name__ == '__main__':
    import sys
    print(generate(sys.argv[1] if len(sys.argv) > 1 else '/repo'))
