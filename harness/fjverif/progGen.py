"""Generator of macro-free FlipJump programs (source text) for the assembler campaigns (C02; reusable).

gen_program(rng, w, fault=None) -> (source_text, [feature tags]);  gen_jobs(rng, n) -> [{"src","w","version","features"}].

A program is a random interleaving of: ops (`f;j`, `;j`, `f;`, `;`), labels, constant definitions, wflip (2 and 3
arguments), pad, segment, reserve.  The generator lays the program out itself (its own small address calculation and
a symbolic count of the wflip chain ops - used ONLY to steer generation: to build expressions that evaluate to
in-range values and to place the next segment exactly after / one op inside the previous wflip area; the oracle is
Coq, never this file) and then writes every number as an expression over labels (backward AND forward), `$`,
constants and literals in all the language's operators.
Faults (expected to be rejected, or to hit a stated side condition) are injected on request: see FAULTS."""

KEYWORDS = {'def', 'rep', 'ns', 'wflip', 'pad', 'segment', 'reserve', 'w'}

FAULTS = ['seg-overlap', 'seg-overlap-tight', 'seg-unaligned', 'seg-odd-word', 'reserve-unaligned', 'reserve-odd-word',
          'too-high', 'seg-at-top', 'pad-unaligned', 'pad-nonpositive', 'label-twice', 'undefined-label',
          'forward-in-directive', 'wflip-value-range', 'value-range', 'no-first-op', 'fold-error', 'reserve-0-at-0',
          'negative-segment', 'eval-error', 'negative-reserve']


def popcount(x):
    return bin(x).count('1')


class Prog:
    def __init__(self, rng, w, fault=None):
        self.rng = rng
        self.w = w
        self.dw = 2 * w
        self.fault = fault
        self.items = []          # dicts
        self.labels = {}         # name -> address (generator's own calculation)
        self.consts = {}         # name -> value
        self.features = set()
        self.nlabel = 0
        self.space = 1 << w      # bits of address space

    # ---------------- skeleton ----------------
    def new_label(self):
        self.nlabel += 1
        stem = self.rng.choice(['L', 'lab_', 'x', 'loop', 'ret', 'data', 'p_'])
        return f'{stem}{self.nlabel}'

    def skeleton(self):
        rng, w, dw = self.rng, self.w, self.dw
        max_stmts = rng.choice([3, 6, 10, 16, 24, 40, 60])
        # the ops that fit: keep well inside the address space (w=8 has room for 16 ops in total)
        budget_ops = min(400, (self.space // dw) * 3 // 4)
        cur = 0
        seg_first = 0
        used_ops = 0             # ops of address space consumed in total (code + wflip areas + reserves)
        area = 0                 # chain ops in the wflip area of the current segment (symbolic count)
        holes = 0                # pad holes available
        table = set()            # symbolic sharing table
        ends = []                # (segment first, end incl. wflip area) of closed segments
        labels_here = []         # label names defined so far
        pool_ret = []            # label names reused as wflip return addresses
        pool_tgt = []            # label names used as wflip targets
        n_wflip = 0
        pending = []             # labels to define later (forward references are created by using them before)
        items = self.items
        tight_seg = rng.random() < 0.4
        keep_io_op = rng.random() < 0.93

        def emit(it):
            items.append(it)

        def maybe_label(p=0.35):
            if rng.random() < p:
                name = self.new_label()
                emit({'k': 'label', 'name': name, 'addr': cur, 'inline': rng.random() < 0.6})
                labels_here.append(name)
                self.labels[name] = cur
                if rng.random() < 0.4:
                    pool_ret.append(name)
                if rng.random() < 0.4:
                    pool_tgt.append(name)

        first_stmt = True
        while len(items) < max_stmts and used_ops < budget_ops:
            r = rng.random()
            if first_stmt and self.fault == 'no-first-op':
                a = rng.choice([2, 4, 6, 64]) * w
                emit({'k': 'segment', 'addr': a})
                cur = seg_first = a
                first_stmt = False
                continue
            if first_stmt and self.fault == 'reserve-0-at-0':
                emit({'k': 'reserve', 'bits': 0})
                first_stmt = False
                continue
            first_stmt = False
            if used_ops < 2 and cur < 2 * dw and seg_first == 0 and keep_io_op and r >= 0.08:
                r = 0.3          # real programs keep their first two ops (entry + the op holding the IO cell) as plain ops
            if r < 0.08:
                name = f'c{len(self.consts) + 1}'
                val = rng.choice([rng.randrange(0, 16), rng.randrange(0, 1 << min(w, 16)), w, dw, 3 * w + w.bit_length(),
                                  rng.randrange(0, self.space)])
                emit({'k': 'const', 'name': name, 'val': val})
                self.consts[name] = val
                continue
            if r < 0.50:
                maybe_label()
                emit({'k': 'op', 'addr': cur, 'form': rng.choice(['fj', 'fj', 'j', 'f', '']),
                      'flip': self.pick_target(labels_here, 'flip'), 'jump': self.pick_target(labels_here, 'jump')})
                cur += dw
                used_ops += 1
            elif r < 0.72:
                maybe_label()
                pc = rng.choice([0, 1, 1, 2, 2, 3, 4, rng.randrange(1, w + 1), w])
                bits = sorted(rng.sample(range(w), pc))
                if rng.random() < 0.35 and n_wflip:
                    # same high bits as an earlier wflip: suffix sharing when target and return also agree
                    prev = rng.choice([it for it in items if it['k'] == 'wflip'])
                    hb = [b for b in prev['bits'] if b >= (prev['bits'][len(prev['bits']) // 2] if prev['bits'] else 0)]
                    low = sorted(rng.sample(range(min(hb) if hb else w), min(rng.choice([0, 1, 2]), (min(hb) if hb else w))))
                    bits = sorted(set(low) | set(hb))
                    tgt, ret = prev['tgt'], prev['ret']
                    if rng.random() < 0.25:
                        ret = self.pick_ret(pool_ret, labels_here)
                    self.features.add('suffix-candidate')
                else:
                    tgt = self.pick_wtarget(pool_tgt, labels_here)
                    ret = self.pick_ret(pool_ret, labels_here)
                if budget_ops - used_ops < len(bits) + 2:
                    bits = bits[:1]
                V = sum(1 << b for b in bits)
                emit({'k': 'wflip', 'addr': cur, 'bits': bits, 'V': V, 'tgt': tgt, 'ret': ret})
                n_wflip += 1
                # symbolic count of the chain ops this wflip adds
                rkey = ret if ret is not None else ('$', len(items))
                for i in range(1, len(bits)):
                    key = (rkey, tgt, tuple(bits[i:]))
                    if key in table:
                        self.features.add('shared-chain')
                        break
                    table.add(key)
                    if holes:
                        holes -= 1
                        self.features.add('pad-hole-reuse')
                    else:
                        area += 1
                        used_ops += 1
                cur += dw
                used_ops += 1
            elif r < 0.82:
                maybe_label(0.15)
                n = rng.choice([1, 2, 2, 3, 4, 4, 5, 8, 16])
                if self.fault == 'pad-nonpositive' and rng.random() < 0.5:
                    n = rng.choice([0, -1, -4])
                    self.fault_done = True
                k = (-(cur // dw)) % n if n > 0 else 0
                if used_ops + k > budget_ops:
                    continue
                emit({'k': 'pad', 'n': n, 'addr': cur})
                cur += k * dw
                used_ops += k
                holes += k
                if k:
                    self.features.add('pad-holes')
            elif r < 0.90 and w > 8 or r < 0.84:
                # reserve: splits the segment; pad holes are forgotten
                words = rng.choice([2, 2, 4, 6, 8, 16, 64, 1000, 1024, 2500]) if w > 8 else rng.choice([2, 2, 4])
                if used_ops + words // 2 > budget_ops:
                    continue
                maybe_label(0.5)
                bits_ = words * w
                if self.fault == 'negative-reserve' and rng.random() < 0.6:
                    back = rng.choice([cur - seg_first, cur - seg_first, dw, 2 * dw, cur])
                    emit({'k': 'reserve', 'bits': -back, 'addr': cur})
                    cur -= back
                    holes = 0
                    continue
                if self.fault == 'reserve-unaligned' and rng.random() < 0.6:
                    bits_ += rng.randrange(1, w)
                elif self.fault == 'reserve-odd-word' and rng.random() < 0.6:
                    bits_ += w
                emit({'k': 'reserve', 'bits': bits_, 'addr': cur})
                cur += bits_
                used_ops += words // 2
                if holes:
                    self.features.add('reserve-after-pad')
                holes = 0
                self.features.add('reserve-split')
            else:
                # a new segment: after the wflip area of the current one
                end = cur + area * dw
                ends.append((seg_first, end))
                gap_choice = rng.random()
                if self.fault == 'seg-overlap-tight' and end > seg_first:
                    start = end - dw
                elif self.fault == 'seg-overlap' and rng.random() < 0.7:
                    s0, e0 = rng.choice(ends)
                    start = s0 + ((rng.randrange(0, max(1, (e0 - s0) // dw))) * dw if e0 > s0 else 0)
                elif gap_choice < 0.45 or tight_seg:
                    start = end                               # abuts the previous wflip area exactly
                    self.features.add('abutting-segment')
                elif gap_choice < 0.8:
                    start = end + dw * rng.randrange(1, 6)
                else:
                    top = self.space - dw * 8
                    lo = end + dw
                    start = (rng.randrange(lo, top) // dw) * dw if top > lo else end + dw
                    used_ops = max(used_ops, 0)
                if self.fault == 'seg-unaligned' and rng.random() < 0.7:
                    start += rng.randrange(1, w)
                elif self.fault == 'seg-odd-word' and rng.random() < 0.7:
                    start += w
                elif self.fault == 'pad-unaligned' and rng.random() < 0.7:
                    start += w
                    self.want_pad = True
                elif self.fault == 'negative-segment' and rng.random() < 0.7:
                    start = -dw * rng.randrange(1, 5)
                elif self.fault == 'seg-at-top' and rng.random() < 0.7:
                    start = self.space - dw * rng.randrange(0, 3)
                if start + dw * 4 >= self.space and self.fault not in ('seg-at-top', 'too-high'):
                    continue
                maybe_label(0.2)
                emit({'k': 'segment', 'addr': start, 'prev_end': end})
                cur = seg_first = start
                area = 0
                holes = 0
                self.features.add('multi-segment')
                if getattr(self, 'want_pad', False):
                    emit({'k': 'pad', 'n': 2, 'addr': cur})
                    self.want_pad = False
        if rng.random() < 0.5:
            maybe_label(1.0)
        if self.fault == 'too-high':
            # code that runs over the top of the address space
            start = self.space - dw * rng.randrange(1, 3)
            emit({'k': 'segment', 'addr': start, 'prev_end': cur + area * dw})
            for _ in range(rng.randrange(2, 5)):
                emit({'k': 'op', 'addr': start, 'form': 'j', 'flip': ('abs', 0), 'jump': ('abs', 0)})
                start += dw
        self.end_addr = cur

    def pick_target(self, labels_here, what):
        """symbolic target of a flip / jump word"""
        rng = self.rng
        r = rng.random()
        if r < 0.45:
            return ('lbl', None, rng.choice([0, 0, 0, self.w, self.dw, -self.dw, rng.randrange(0, self.w)]))  # any label (fwd/back)
        if r < 0.6:
            return ('dollar', rng.choice([0, 0, -self.dw, self.dw, rng.randrange(0, 4) * self.dw]))
        if r < 0.75:
            return ('abs', rng.randrange(0, min(self.space, 4096)))
        if r < 0.9:
            return ('abs', rng.randrange(0, self.space))
        return ('abs', rng.choice([0, self.space - 1, self.space - self.dw, self.dw, self.dw + 1, 3 * self.w + self.w.bit_length()]))

    def pick_ret(self, pool_ret, labels_here):
        rng = self.rng
        r = rng.random()
        if r < 0.3:
            return None                                       # two-argument form: returns to $
        if r < 0.75 and pool_ret:
            return ('lbl', rng.choice(pool_ret), 0)
        if r < 0.9:
            return ('lbl', None, 0)
        return ('abs', rng.choice([0, self.w, self.dw, self.dw * rng.randrange(0, 8)]))

    def pick_wtarget(self, pool_tgt, labels_here):
        rng = self.rng
        r = rng.random()
        if r < 0.55 and pool_tgt:
            return ('lbl', rng.choice(pool_tgt), rng.choice([0, 0, 0, self.w, rng.randrange(0, self.w)]))
        if r < 0.85:
            return ('lbl', None, rng.choice([0, 0, self.w]))
        if r < 0.93:
            return ('abs', rng.choice([0, self.dw, self.dw + 1, 3 * self.w, rng.randrange(0, self.space - self.w)]))
        return ('dollar', rng.choice([0, -self.dw, -self.w]))     # its own words / the next op

    # ---------------- numbers ----------------
    def resolve(self, ref, dollar):
        rng = self.rng
        if ref is None:
            return None
        if ref[0] == 'abs':
            return ref[1], None
        if ref[0] == 'dollar':
            return max(0, dollar + ref[1]), '$'
        name = ref[1]
        if name is None or name not in self.labels:
            if not self.labels:
                return max(0, dollar + ref[2]), '$'
            name = rng.choice(sorted(self.labels))
        return max(0, self.labels[name] + ref[2]), name

    # ---------------- expressions ----------------
    def lit(self, v):
        rng = self.rng
        if v < 0:
            return f'(0-{self.lit(-v)})' if rng.random() < 0.5 else f'(-{self.lit(-v)})'
        r = rng.random()
        if r < 0.55:
            return str(v)
        if r < 0.85:
            return ('0x%x' if rng.random() < 0.5 else '0X%X') % v
        if r < 0.93 and v < (1 << 20):
            return '0b' + bin(v)[2:]
        if 0x20 <= v <= 0x7e and chr(v) not in '\\\'"':
            return f"'{chr(v)}'"
        return str(v)

    def atom_names(self, with_dollar, allowed_labels):
        names = [(n, v) for n, v in self.labels.items() if allowed_labels is None or n in allowed_labels]
        names += list(self.consts_before.items())
        if with_dollar is not None:
            names += [('$', with_dollar)] * 2
        return names

    def atom(self, T, atoms, prefer=None):
        """an expression of value T of depth 0/1"""
        rng = self.rng
        if prefer is not None and rng.random() < 0.8:
            cand = [(n, v) for n, v in atoms if n == prefer]
        else:
            cand = atoms
        if cand and rng.random() < 0.8:
            n, v = rng.choice(cand)
            if v == T and rng.random() < 0.8:
                return n
            if T >= v:
                return f'({n} + {self.lit(T - v)})' if rng.random() < 0.8 else f'({self.lit(T - v)} + {n})'
            return f'({n} - {self.lit(v - T)})'
        return self.lit(T)

    def cond(self, truth, atoms, depth):
        rng = self.rng
        a = rng.randrange(0, 50)
        b = rng.choice([a, a + 1, rng.randrange(0, 50)])
        ops = {'<': a < b, '>': a > b, '<=': a <= b, '>=': a >= b, '==': a == b, '!=': a != b}
        op = rng.choice([o for o, t in ops.items() if t == truth])
        return f'({self.expr(a, atoms, depth - 1)} {op} {self.expr(b, atoms, depth - 1)})'

    def expr(self, T, atoms, depth, prefer=None):
        rng = self.rng
        W = self.w
        if T < 0:
            if rng.random() < 0.5:
                return f'(0 - {self.expr(-T, atoms, depth, prefer)})'
            y = rng.randrange(0, 1000)
            return f'({self.expr(y, atoms, depth - 1)} - {self.expr(y - T, atoms, depth - 1)})'
        if depth <= 0 or rng.random() < 0.3:
            return self.atom(T, atoms, prefer)
        big = 1 << (W + 6)
        op = rng.choice(['+', '+', '-', '*', '/', '%', '<<', '>>', '^', '|', '&', '?:', '?:', 'cmp', '&&', '||', '#', '~',
                         '**', 'neg'])
        d = depth - 1
        if op == '+':
            x = rng.randrange(0, T + 1)
            return f'({self.expr(x, atoms, d, prefer)} + {self.expr(T - x, atoms, d)})'
        if op == '-':
            y = rng.randrange(0, min(T + 1000, big))
            return f'({self.expr(T + y, atoms, d, prefer)} - {self.expr(y, atoms, d)})'
        if op == '*':
            k = rng.choice([1, 2, 3, W, 2 * W, rng.randrange(1, 40)])
            return f'(({self.expr(T // k, atoms, d, prefer)} * {self.expr(k, atoms, d)}) + {self.lit(T % k)})'
        if op == '/' and T < big:
            k = rng.choice([1, 2, 3, W, rng.randrange(1, 40)])
            return f'({self.expr(T * k + rng.randrange(0, k), atoms, d, prefer)} / {self.expr(k, atoms, d)})'
        if op == '%' and T < big:
            k = T + 1 + rng.randrange(0, 100)
            return f'({self.expr(rng.randrange(0, 8) * k + T, atoms, d, prefer)} % {self.expr(k, atoms, d)})'
        if op == '<<':
            s = rng.randrange(0, 9)
            if T % (1 << s) == 0:
                return f'({self.expr(T >> s, atoms, d, prefer)} << {self.expr(s, atoms, d)})'
        if op == '>>' and T < big:
            s = rng.randrange(0, 9)
            return f'({self.expr((T << s) + rng.randrange(0, 1 << s), atoms, d, prefer)} >> {self.expr(s, atoms, d)})'
        if op == '^':
            x = rng.randrange(0, max(2, min(T * 2 + 2, big)))
            return f'({self.expr(T ^ x, atoms, d, prefer)} ^ {self.expr(x, atoms, d)})'
        if op == '|':
            m = rng.randrange(0, max(2, T * 2 + 1))
            return f'({self.expr(T & m, atoms, d, prefer)} | {self.expr(T & ~m | (T & m & rng.randrange(0, T + 1)), atoms, d)})'
        if op == '&' and T < big:
            m = rng.randrange(0, 1 << (W + 2))
            n = rng.randrange(0, 1 << (W + 2)) & ~m
            return f'({self.expr(T | m, atoms, d, prefer)} & {self.expr(T | n, atoms, d)})'
        if op == '?:':
            t = rng.random() < 0.5
            other = rng.choice([0, T + 1, rng.randrange(0, 1 << W)])
            a, b = (T, other) if t else (other, T)
            if rng.random() < 0.4:
                c = self.expr(rng.randrange(1, 100) if t else 0, atoms, d)
            else:
                c = self.cond(t, atoms, d)
            return f'({c} ? {self.expr(a, atoms, d, prefer)} : {self.expr(b, atoms, d)})'
        if op == 'cmp' and T in (0, 1):
            return self.cond(T == 1, atoms, depth)
        if op in ('&&', '||') and T in (0, 1):
            x, y = rng.choice([(0, 0), (0, 1), (1, 0), (1, 1)])
            if ((x and y) if op == '&&' else (x or y)) == T:
                fx = lambda b: self.expr(rng.randrange(1, 9) if b else 0, atoms, d)
                return f'({fx(x)} {op} {fx(y)})'
        if op == '#' and T <= W + 4:
            v = 0 if T == 0 else rng.randrange(1 << (T - 1), 1 << T)
            if rng.random() < 0.3 and v:
                return f'(#{self.expr(-v, atoms, d)})'
            return f'(#{self.expr(v, atoms, d, prefer)})'
        if op == '~':
            return f'(~{self.expr(-T - 1, atoms, d)})'
        if op == '**' and T > 0 and T & (T - 1) == 0 and T.bit_length() <= W + 1:
            return f'({self.expr(2, atoms, d)} ** {self.expr(T.bit_length() - 1, atoms, d)})'
        if op == 'neg':
            return f'(-{self.expr(-T, atoms, d)})' if T else '(-0)'
        return self.atom(T, atoms, prefer)

    def num(self, T, dollar, allowed=None, prefer=None, plain=False):
        rng = self.rng
        atoms = self.atom_names(dollar, allowed)
        if plain or rng.random() < 0.15:
            return self.atom(T, atoms, prefer)
        return self.expr(T, atoms, rng.choice([1, 1, 2, 2, 3]), prefer)

    # ---------------- text ----------------
    def render(self):
        rng, w, dw = self.rng, self.w, self.dw
        lines = []
        pending_label = None
        self.consts_before = {}
        defined = set()
        fault = self.fault
        fault_at = rng.randrange(0, max(1, len(self.items)))
        for idx, it in enumerate(self.items):
            k = it['k']
            hit = fault is not None and idx >= fault_at and not getattr(self, 'fault_done', False)
            if k == 'const':
                if pending_label:
                    lines.append(pending_label)
                    pending_label = None
                cs = [(n, v) for n, v in self.consts_before.items()]
                T = it['val']
                if cs and rng.random() < 0.5:
                    n, v = rng.choice(cs)
                    e = f'{n} + {T - v}' if T >= v else f'{n} - {v - T}'
                else:
                    e = rng.choice([str(T), hex(T), f'{T // w}*w + {T % w}', f'({T} << 1) >> 1', f'{T} ^ 5 ^ 5'])
                lines.append(f'{it["name"]} = {e}')
                self.consts_before[it['name']] = T
                continue
            if k == 'label':
                name = it['name']
                if hit and fault == 'label-twice' and defined:
                    name = rng.choice(sorted(defined))
                    self.fault_done = True
                defined.add(name)
                if pending_label:
                    lines.append(pending_label)
                    pending_label = None
                if it['inline']:
                    pending_label = f'{name}:'
                else:
                    lines.append(f'{name}:')
                continue
            pre = (pending_label + ' ') if pending_label else ''
            pending_label = None
            if rng.random() < 0.05:
                pre = pre + ' '
            if k == 'op':
                dollar = it['addr'] + dw
                f, fn = self.resolve(it['flip'], dollar)
                j, jn = self.resolve(it['jump'], dollar)
                if hit and fault == 'value-range':
                    if rng.random() < 0.5:
                        j = rng.choice([self.space, self.space + dw, -1, -dw, self.space * 3 + 5])
                    else:
                        f = rng.choice([self.space, -1, self.space + 7])
                    self.fault_done = True
                    it['form'] = 'fj'
                fe = self.num(f, dollar, prefer=fn)
                je = self.num(j, dollar, prefer=jn)
                if hit and fault == 'undefined-label':
                    je = f'({je} + nowhere_{idx})'
                    self.fault_done = True
                    it['form'] = 'fj'
                if hit and fault == 'fold-error':
                    je = rng.choice([f'({je} / ($ - $))', f'(1 << ($ - $ - 1)) + {je}', f'({je} % (0 * $))', f'(2 ** (0 - $))'])
                    self.fault_done = True
                    it['form'] = 'fj'
                if hit and fault == 'eval-error' and self.labels:
                    l = rng.choice(sorted(self.labels))
                    je = rng.choice([f'({je} / ({l} - {l}))', f'({je} >> ({l} - {l} - 1))', f'(3 ** (0 - {l} - 1))'])
                    self.fault_done = True
                    it['form'] = 'fj'
                form = it['form']
                if form == 'fj':
                    lines.append(f'{pre}{fe};{rng.choice(["", " "])}{je}')
                elif form == 'j':
                    lines.append(f'{pre};{je}')
                elif form == 'f':
                    lines.append(f'{pre}{fe};')
                else:
                    lines.append(f'{pre};')
            elif k == 'wflip':
                dollar = it['addr'] + dw
                A, an = self.resolve(it['tgt'], dollar)
                V = it['V']
                if hit and fault == 'wflip-value-range':
                    V = rng.choice([self.space, self.space + 3, -1, -5, self.space << 2])
                    self.fault_done = True
                if A + w > self.space:
                    A = max(0, self.space - w - rng.randrange(0, 4) * w)
                ae = self.num(A, dollar, prefer=an)
                ve = self.num(V, dollar)
                if it['ret'] is None:
                    lines.append(f'{pre}wflip {ae}, {ve}')
                else:
                    R, rn = self.resolve(it['ret'], dollar)
                    # the same return label is written the same way, so that returns compare equal by construction
                    re_ = self.num(R, dollar, prefer=rn, plain=rng.random() < 0.7)
                    lines.append(f'{pre}wflip {ae}, {ve}, {re_}')
            elif k == 'pad':
                allowed = set(defined)
                if hit and fault == 'forward-in-directive':
                    allowed = None
                    self.fault_done = True
                e = self.num(it['n'], None, allowed=allowed) if it['n'] > 0 else self.lit(it['n'])
                lines.append(f'{pre}pad {e}')
            elif k == 'segment':
                allowed = set(defined)
                if hit and fault == 'forward-in-directive':
                    allowed = set(self.labels) - set(defined) or None
                    self.fault_done = True
                lines.append(f'{pre}segment {self.num(it["addr"], None, allowed=allowed)}')
            elif k == 'reserve':
                allowed = set(defined)
                if hit and fault == 'forward-in-directive':
                    allowed = set(self.labels) - set(defined) or None
                    self.fault_done = True
                lines.append(f'{pre}reserve {self.num(it["bits"], None, allowed=allowed)}')
        if pending_label:
            lines.append(pending_label)
        if rng.random() < 0.1:
            lines.insert(rng.randrange(0, len(lines) + 1), '// a comment line')
        return '\n'.join(lines) + '\n'


def gen_program(rng, w, fault=None):
    p = Prog(rng, w, fault)
    p.skeleton()
    src = p.render()
    feats = sorted(p.features)
    if fault:
        feats.append('fault:' + fault)
    return src, feats


# directed programs that are always part of a campaign: (name, w, source)
def directed(w):
    dw = 2 * w
    return [
        ('io-cell-pad-hole', f';start\npad 4\nstart: wflip t, 15, done\ndone: ;done\nt: ;0\n'),
        ('io-cell-wflip-area', f'wflip {64 * w}, 3, {32 * w}\nsegment {32 * w}\n;{32 * w}\nsegment {64 * w}\n;0\n'),
        ('share-return-and-suffix',
         f';a\nr: ;r\nt: ;0\n;0\na: wflip t, 14, r\nwflip t, 13, r\nwflip t+{w}, 12, r\nwflip t, 12, r\nwflip t, 12\nwflip t, 8, r\n'),
        ('share-needs-return-in-key', f';a\nr1: ;r1\nr2: ;r2\nt: ;0\na: wflip t, 7, r1\nwflip t, 7, r2\nwflip t, 6, r2\n'),
        ('pad-holes-before-and-after', f';a\npad 8\na: wflip t, 7, a\npad 4\nwflip t, 15, a\nwflip t+{w}, 0x1f, a\nt: ;0\n;0\n'),
        ('reserve-forgets-holes', f';a\n;a\npad 4\na: reserve {4 * w}\nwflip t, 7, a\nt: ;0\nreserve {2 * w}\nwflip t, 3\n'),
        ('dollar-is-after-the-op', f'$;$\n$+{dw};$-{dw}\nwflip $, 1, $\nwflip $+{w}, 3\n;$\n'),
        ('abutting-segments', f';b\nwflip b, 7\nsegment {8 * w}\nb: ;0\nwflip b, 3, b\nsegment {14 * w}\n;0\n'),
        ('overlap-by-one-op', f';b\nwflip b, 7\nsegment {6 * w}\nb: ;0\n'),
        ('label-before-segment', f';x\nx:\nsegment {16 * w}\ny: ;x\n;y\nz:\n'),
        ('reserve-large', f';a\na: reserve {1200 * w}\n;a\n' if w > 8 else f';a\na: reserve {4 * w}\n;a\n'),
        ('wflip-null-and-small-return', f';a\na: wflip a, 0, 0\nwflip a, 0\nwflip a, 1, {w}\nb: wflip b, 1, b\n'),
        ('generated-label-collision', f'ns _ {{\nwflip_area_start_0:\n;_.wflip_area_start_0\n}}\n;_.wflip_area_start_0\nsegment {16 * w}\n;\n'),
        ('negative-reserve', f';s\nsegment {64 * w}\ns: ;\n;\nreserve 0-{4 * w}\nx: ;x\nreserve {8 * w}\n' if w > 8 else
         f';s\nsegment {8 * w}\ns: ;\n;\nreserve 0-{4 * w}\nx: ;x\nreserve {8 * w}\n'),
        ('writer-word-range', f';0\nsegment {(1 << w) - 4 * w}\nwflip 0, 3, 0\nreserve {2 * w}\n'),
        ('unaligned-target', f';a\na: wflip t+3, 0x1f, a\nt: ;0\n;0\n'),
    ]


# ---------------- expression trees owned by the harness: printed with MINIMAL parentheses ----------------
# The harness chooses the TREE, prints it with parentheses only where the documented precedence / associativity
# (coq/Spec/ExprSpec.v: doc_precedence, read at run time, fail closed) requires them, and hands the tree itself to Coq
# as the program's AST: the expected words are computed from the TREE by the spec (eval_expr inside check_denotes and
# Layout.v), never by re-parsing.  A parser that groups operators differently produces other words -> violation.
# tree := ('lit', v) | ('lbl', name) | ('par', tree) | ('un', op, t) | ('bin', op, a, b) | ('cond', c, a, b)
import re as _re
from pathlib import Path as _Path

BIN_TOKEN = {'+': '+', '-': '-', '*': '*', '/': '/', '%': '%', '**': 'POW', '<<': 'SHL', '>>': 'SHR', '^': '^', '|': '|',
             '&': '&', '&&': 'LAND', '||': 'LOR', '<': '<', '>': '>', '<=': 'LE', '>=': 'GE', '==': 'EQ', '!=': 'NEQ'}
UN_TOKEN = {'-': 'UMINUS', '~': 'UNOT', '#': '#'}
BIN_OPS = list(BIN_TOKEN)
UN_OPS = list(UN_TOKEN)
_PREC = None


def doc_precedence():
    """token name -> (row, assoc) from Spec/ExprSpec.v (row 1 binds weakest)"""
    global _PREC
    if _PREC is None:
        text = (_Path(__file__).resolve().parents[2] / 'coq' / 'Spec' / 'ExprSpec.v').read_text()
        m = _re.search(r'Definition doc_precedence[^=]*:=\s*\[(.*?)\]\s*\.', text, _re.S)
        if not m:
            raise RuntimeError('doc_precedence not found in Spec/ExprSpec.v')
        rows = _re.findall(r'\((LeftA|RightA|NonA),\s*\[([^\]]*)\]\)', m.group(1))
        tbl = {}
        for r, (a, names) in enumerate(rows, 1):
            for nm in _re.findall(r'"([^"]+)"', names):
                tbl[nm] = (r, {'LeftA': 'left', 'RightA': 'right', 'NonA': 'non'}[a])
        need = set(BIN_TOKEN.values()) | set(UN_TOKEN.values()) | {'?'}
        if not need <= set(tbl) or len(rows) != 14:
            raise RuntimeError(f'doc_precedence of Spec/ExprSpec.v has an unexpected shape: {sorted(tbl)}')
        _PREC = tbl
    return _PREC


def t_level(t):
    P = doc_precedence()
    k = t[0]
    if k in ('lit', 'lbl', 'par'):
        return 99
    if k == 'un':
        return P[UN_TOKEN[t[1]]][0]
    if k == 'bin':
        return P[BIN_TOKEN[t[1]]][0]
    return P['?'][0]


def t_text(t):
    """source text with parentheses only where precedence / associativity needs them"""
    P = doc_precedence()
    k = t[0]
    if k == 'lit':
        return str(t[1])
    if k == 'lbl':
        return t[1]
    if k == 'par':
        return '(' + t_text(t[1]) + ')'
    par = lambda x: '(' + t_text(x) + ')'
    if k == 'un':
        x = t[2]
        xs = par(x) if t_level(x) < t_level(t) else t_text(x)
        return t[1] + (' ' if xs[0] in '-~#' else '') + xs
    if k == 'bin':
        p, assoc = P[BIN_TOKEN[t[1]]]
        a, b = t[2], t[3]
        la, lb = t_level(a), t_level(b)
        as_ = par(a) if la < p or (la == p and assoc != 'left') else t_text(a)
        if b[0] == 'un':
            bs = t_text(b)                 # a prefix operator needs no parentheses as a right operand
        else:
            bs = par(b) if lb < p or (lb == p and assoc != 'right') else t_text(b)
        return f'{as_} {t[1]} {bs}'
    c, a, b = t[1], t[2], t[3]
    cs = par(c) if c[0] == 'cond' else t_text(c)
    as_ = par(a) if a[0] == 'cond' else t_text(a)
    return f'{cs} ? {as_} : {t_text(b)}'


def t_ast(t):
    """the tree in the JSON expression format of dump_tree.py (what the parser must produce, up to folding)"""
    k = t[0]
    if k == 'lit':
        return t[1]
    if k == 'lbl':
        return t[1]
    if k == 'par':
        return t_ast(t[1])
    if k == 'un':
        return ['-', [0, t_ast(t[2])]] if t[1] == '-' else [t[1], [t_ast(t[2])]]
    if k == 'bin':
        return [t[1], [t_ast(t[2]), t_ast(t[3])]]
    return ['?:', [t_ast(t[1]), t_ast(t[2]), t_ast(t[3])]]


def t_eval(t, env):
    """generator-side evaluation, used ONLY to pick operands (defined values, discriminating ones); None = error/too big"""
    k = t[0]
    if k == 'lit':
        return t[1]
    if k == 'lbl':
        return env.get(t[1])
    if k == 'par':
        return t_eval(t[1], env)
    vs = [t_eval(x, env) for x in t[1 if k == 'cond' else 2:]]
    if any(v is None for v in vs):
        return None
    if k == 'cond':
        return vs[1] if vs[0] else vs[2]
    op = t[1]
    try:
        if k == 'un':
            x = vs[0]
            return -x if op == '-' else ~x if op == '~' else x.bit_length()
        a, b = vs
        if op in ('**', '<<') and not 0 <= b <= 64:
            return None
        if op == '**' and abs(a) > 64:
            return None
        if op == '>>' and b < 0:
            return None
        r = {'+': lambda: a + b, '-': lambda: a - b, '*': lambda: a * b, '/': lambda: a // b, '%': lambda: a % b,
             '**': lambda: a ** b, '<<': lambda: a << b, '>>': lambda: a >> b, '^': lambda: a ^ b, '|': lambda: a | b,
             '&': lambda: a & b, '&&': lambda: int(bool(a and b)), '||': lambda: int(bool(a or b)),
             '<': lambda: int(a < b), '>': lambda: int(a > b), '<=': lambda: int(a <= b), '>=': lambda: int(a >= b),
             '==': lambda: int(a == b), '!=': lambda: int(a != b)}[op]()
        return r if abs(r) < (1 << 200) else None
    except (ZeroDivisionError, ValueError, OverflowError):
        return None


def _fill(shape, vals, labelled):
    """shape with operand holes ('x', i) -> tree; labelled: write operands as (z + v) with the label z = 0"""
    k = shape[0]
    if k == 'x':
        v = vals[shape[1]]
        if not labelled:
            return ('lit', v)
        return ('lbl', 'z') if v == 0 else ('par', ('bin', '+', ('lbl', 'z'), ('lit', v)))
    if k == 'un':
        return ('un', shape[1], _fill(shape[2], vals, labelled))
    if k == 'bin':
        return ('bin', shape[1], _fill(shape[2], vals, labelled), _fill(shape[3], vals, labelled))
    return ('cond', _fill(shape[1], vals, labelled), _fill(shape[2], vals, labelled), _fill(shape[3], vals, labelled))


def _ops_of(shape):
    if shape[0] == 'x':
        return []
    return ([shape[1]] if shape[0] in ('un', 'bin') else ['?:']) + [o for c in shape[1 if shape[0] == 'cond' else 2:]
                                                                     for o in _ops_of(c)]


def _regroupings(shape):
    """the other ways to group the same operator / operand sequence (what a wrong precedence table would build)"""
    k = shape[0]
    out = []
    if k == 'bin' and shape[2][0] == 'bin':        # (x o2 y) o1 z  ->  x o2 (y o1 z)
        i = shape[2]
        out.append(('bin', i[1], i[2], ('bin', shape[1], i[3], shape[3])))
    if k == 'bin' and shape[3][0] == 'bin':        # x o1 (y o2 z)  ->  (x o1 y) o2 z
        i = shape[3]
        out.append(('bin', i[1], ('bin', shape[1], shape[2], i[2]), i[3]))
    if k == 'un' and shape[2][0] == 'bin':         # u (x o y) -> (u x) o y
        i = shape[2]
        out.append(('bin', i[1], ('un', shape[1], i[2]), i[3]))
    if k == 'bin' and shape[2][0] == 'un':         # (u x) o y -> u (x o y)
        out.append(('un', shape[2][1], ('bin', shape[1], shape[2][2], shape[3])))
    if k == 'bin' and shape[3][0] == 'cond':       # x o (c ? a : b) -> (x o c) ? a : b
        i = shape[3]
        out.append(('cond', ('bin', shape[1], shape[2], i[1]), i[2], i[3]))
    if k == 'cond' and shape[3][0] == 'bin':       # c ? a : (x o y) -> (c ? a : x) o y
        i = shape[3]
        out.append(('bin', i[1], ('cond', shape[1], shape[2], i[2]), i[3]))
    if k == 'cond' and shape[1][0] == 'bin':       # (x o y) ? a : b -> x o (y ? a : b)
        i = shape[1]
        out.append(('bin', i[1], i[2], ('cond', i[3], shape[2], shape[3])))
    return out


def _choose_operands(rng, shape, nholes, mask):
    """operand values for which the tree has a value and, when possible, every regrouping has another one"""
    small = any(o in ('**', '<<', '>>') for o in _ops_of(shape))
    pool = [0, 1, 2, 3] if small else [0, 1, 2, 3, 5, 6, 7, 9, 12, 13]
    alts = _regroupings(shape)
    best = None
    for _ in range(60):
        vals = [rng.choice(pool) for _ in range(nholes)]
        v = t_eval(_fill(shape, vals, False), {})
        if v is None:
            continue
        score = sum(1 for a in alts if (lambda x: x is None or (x & mask) != (v & mask))(t_eval(_fill(a, vals, False), {})))
        if best is None or score > best[0]:
            best = (score, vals)
        if score == len(alts):
            break
    return best[1] if best else None


def precedence_shapes(rng, nrandom=160):
    """every ordered pair of operators in both nesting positions, unary and ternary combinations, random deeper trees"""
    X = lambda i: ('x', i)
    shapes = []
    for o1 in BIN_OPS:
        for o2 in BIN_OPS:
            shapes.append((('bin', o1, ('bin', o2, X(0), X(1)), X(2)), 3))
            shapes.append((('bin', o1, X(0), ('bin', o2, X(1), X(2))), 3))
    for u in UN_OPS:
        for o in BIN_OPS:
            shapes.append((('un', u, ('bin', o, X(0), X(1))), 2))
            shapes.append((('bin', o, ('un', u, X(0)), X(1)), 2))
            shapes.append((('bin', o, X(0), ('un', u, X(1))), 2))
        for u2 in UN_OPS:
            shapes.append((('un', u, ('un', u2, X(0))), 1))
        shapes.append((('un', u, ('cond', X(0), X(1), X(2))), 3))
        shapes.append((('cond', ('un', u, X(0)), X(1), X(2)), 3))
        shapes.append((('cond', X(0), ('un', u, X(1)), X(2)), 3))
        shapes.append((('cond', X(0), X(1), ('un', u, X(2))), 3))
    for o in BIN_OPS:
        shapes.append((('cond', ('bin', o, X(0), X(1)), X(2), X(3)), 4))
        shapes.append((('cond', X(0), ('bin', o, X(1), X(2)), X(3)), 4))
        shapes.append((('cond', X(0), X(1), ('bin', o, X(2), X(3))), 4))
        shapes.append((('bin', o, ('cond', X(0), X(1), X(2)), X(3)), 4))
        shapes.append((('bin', o, X(0), ('cond', X(1), X(2), X(3))), 4))
    shapes.append((('cond', ('cond', X(0), X(1), X(2)), X(3), X(4)), 5))
    shapes.append((('cond', X(0), ('cond', X(1), X(2), X(3)), X(4)), 5))
    shapes.append((('cond', X(0), X(1), ('cond', X(2), X(3), X(4))), 5))

    def rnd(depth, ctr):
        r = rng.random()
        if depth == 0 or r < 0.2:
            ctr[0] += 1
            return X(ctr[0] - 1)
        if r < 0.35:
            return ('un', rng.choice(UN_OPS), rnd(depth - 1, ctr))
        if r < 0.45:
            return ('cond', rnd(depth - 1, ctr), rnd(depth - 1, ctr), rnd(depth - 1, ctr))
        return ('bin', rng.choice(BIN_OPS), rnd(depth - 1, ctr), rnd(depth - 1, ctr))
    for _ in range(nrandom):
        ctr = [0]
        shapes.append((rnd(rng.choice([2, 3, 3]), ctr), ctr[0]))
    return shapes


def gen_precedence_jobs(rng, per_program=24):
    """programs `z:` + `;(EXPR) & MASK` lines; job['ast'] = the harness's own statement list (dump_tree JSON format)"""
    shapes = precedence_shapes(rng)
    items = []                                       # (w, labelled, tree)
    for n, (shape, holes) in enumerate(shapes):
        for labelled in (False, True):
            w = 16 if (n + labelled) % 2 == 0 else 64
            vals = _choose_operands(rng, shape, holes, (1 << w) - 1)
            if vals is not None:
                items.append((w, labelled, _fill(shape, vals, labelled)))
    jobs = []
    for w in (16, 64):
        mine = [it for it in items if it[0] == w]
        for b in range(0, len(mine), per_program):
            part = mine[b:b + per_program]
            mask = (1 << w) - 1
            pos = lambda ln: {'file': 'f1.fj', 'short': 'f1', 'line': ln}
            lines, ast = ['z:'], [{'t': 'Label', 'name': 'z', 'pos': pos(1)}]
            for k, (_, _, tree) in enumerate(part):
                lines.append(f';({t_text(tree)}) & {mask}')
                ast.append({'t': 'FlipJump', 'flip': 0, 'jump': ['&', [t_ast(tree), mask]], 'pos': pos(k + 2)})
            jobs.append({'src': '\n'.join(lines) + '\n', 'w': w, 'version': rng.choice([0, 1, 2, 3]), 'ast': ast,
                         'features': ['directed:operator-precedence']})
    return jobs


def gen_jobs(rng, n, directed_too=True):
    jobs = []
    if directed_too:
        for w in (8, 16, 32, 64):
            for name, src in directed(w):
                for v in ((0, 2) if w in (8, 64) else (1, 3)):
                    jobs.append({'src': src, 'w': w, 'version': v, 'features': ['directed:' + name]})
        jobs += gen_precedence_jobs(rng)
    while len(jobs) < n:
        w = rng.choice([8, 16, 32, 64])
        fault = rng.choice(FAULTS) if rng.random() < 0.25 else None
        src, feats = gen_program(rng, w, fault)
        jobs.append({'src': src, 'w': w, 'version': rng.choice([0, 1, 2, 3]), 'features': feats})
    return jobs
