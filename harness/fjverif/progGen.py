"""Generator of macro-free FlipJump programs (source text) for the assembler campaigns (C02; reusable).

gen_program(rng, w, fault=None) -> (source_text, [feature tags]);  gen_jobs(rng, n) -> [{"src","w","version","features"}].

A program is a random interleaving of: ops (`f;j`, `;j`, `f;`, `;`), labels, constant definitions, wflip (2 and 3
arguments), pad, segment, reserve.  The generator lays the program out itself (its own small address calculation and
a symbolic count of the wflip chain ops - used ONLY to steer generation: to build expressions that evaluate to
in-range values and to place the next segment exactly after / one op inside the previous wflip area; the oracle is
Coq, never this file) and then writes every number as an expression over labels (backward AND forward), `$`,
constants and literals in all the language's operators.
Faults (expected to be rejected, or to hit a stated side condition) are injected on request: see FAULTS."""

KEYWORDS = {'def', 'rep', 'ns', 'wflip', 'pad', 'segment', 'reserve', 'w'}

FAULTS = ['seg-overlap', 'seg-overlap-tight', 'seg-unaligned', 'seg-odd-word', 'reserve-unaligned', 'reserve-odd-word',
          'too-high', 'seg-at-top', 'pad-unaligned', 'pad-nonpositive', 'label-twice', 'undefined-label',
          'forward-in-directive', 'wflip-value-range', 'value-range', 'no-first-op', 'fold-error', 'reserve-0-at-0',
          'negative-segment', 'eval-error', 'negative-reserve']


def popcount(x):
    return bin(x).count('1')


class Prog:
    def __init__(self, rng, w, fault=None):
        self.rng = rng
        self.w = w
        self.dw = 2 * w
        self.fault = fault
        self.items = []          # dicts
        self.labels = {}         # name -> address (generator's own calculation)
        self.consts = {}         # name -> value
        self.features = set()
        self.nlabel = 0
        self.space = 1 << w      # bits of address space

    # ---------------- skeleton ----------------
    def new_label(self):
        self.nlabel += 1
        stem = self.rng.choice(['L', 'lab_', 'x', 'loop', 'ret', 'data', 'p_'])
        return f'{stem}{self.nlabel}'

    def skeleton(self):
        rng, w, dw = self.rng, self.w, self.dw
        max_stmts = rng.choice([3, 6, 10, 16, 24, 40, 60])
        # the ops that fit: keep well inside the address space (w=8 has room for 16 ops in total)
        budget_ops = min(400, (self.space // dw) * 3 // 4)
        cur = 0
        seg_first = 0
        used_ops = 0             # ops of address space consumed in total (code + wflip areas + reserves)
        area = 0                 # chain ops in the wflip area of the current segment (symbolic count)
        holes = 0                # pad holes available
        table = set()            # symbolic sharing table
        ends = []                # (segment first, end incl. wflip area) of closed segments
        labels_here = []         # label names defined so far
        pool_ret = []            # label names reused as wflip return addresses
        pool_tgt = []            # label names used as wflip targets
        n_wflip = 0
        pending = []             # labels to define later (forward references are created by using them before)
        items = self.items
        tight_seg = rng.random() < 0.4
        keep_io_op = rng.random() < 0.93

        def emit(it):
            items.append(it)

        def maybe_label(p=0.35):
            if rng.random() < p:
                name = self.new_label()
                emit({'k': 'label', 'name': name, 'addr': cur, 'inline': rng.random() < 0.6})
                labels_here.append(name)
                self.labels[name] = cur
                if rng.random() < 0.4:
                    pool_ret.append(name)
                if rng.random() < 0.4:
                    pool_tgt.append(name)

        first_stmt = True
        while len(items) < max_stmts and used_ops < budget_ops:
            r = rng.random()
            if first_stmt and self.fault == 'no-first-op':
                a = rng.choice([2, 4, 6, 64]) * w
                emit({'k': 'segment', 'addr': a})
                cur = seg_first = a
                first_stmt = False
                continue
            if first_stmt and self.fault == 'reserve-0-at-0':
                emit({'k': 'reserve', 'bits': 0})
                first_stmt = False
                continue
            first_stmt = False
            if used_ops < 2 and cur < 2 * dw and seg_first == 0 and keep_io_op and r >= 0.08:
                r = 0.3          # real programs keep their first two ops (entry + the op holding the IO cell) as plain ops
            if r < 0.08:
                name = f'c{len(self.consts) + 1}'
                val = rng.choice([rng.randrange(0, 16), rng.randrange(0, 1 << min(w, 16)), w, dw, 3 * w + w.bit_length(),
                                  rng.randrange(0, self.space)])
                emit({'k': 'const', 'name': name, 'val': val})
                self.consts[name] = val
                continue
            if r < 0.50:
                maybe_label()
                emit({'k': 'op', 'addr': cur, 'form': rng.choice(['fj', 'fj', 'j', 'f', '']),
                      'flip': self.pick_target(labels_here, 'flip'), 'jump': self.pick_target(labels_here, 'jump')})
                cur += dw
                used_ops += 1
            elif r < 0.72:
                maybe_label()
                pc = rng.choice([0, 1, 1, 2, 2, 3, 4, rng.randrange(1, w + 1), w])
                bits = sorted(rng.sample(range(w), pc))
                if rng.random() < 0.35 and n_wflip:
                    # same high bits as an earlier wflip: suffix sharing when target and return also agree
                    prev = rng.choice([it for it in items if it['k'] == 'wflip'])
                    hb = [b for b in prev['bits'] if b >= (prev['bits'][len(prev['bits']) // 2] if prev['bits'] else 0)]
                    low = sorted(rng.sample(range(min(hb) if hb else w), min(rng.choice([0, 1, 2]), (min(hb) if hb else w))))
                    bits = sorted(set(low) | set(hb))
                    tgt, ret = prev['tgt'], prev['ret']
                    if rng.random() < 0.25:
                        ret = self.pick_ret(pool_ret, labels_here)
                    self.features.add('suffix-candidate')
                else:
                    tgt = self.pick_wtarget(pool_tgt, labels_here)
                    ret = self.pick_ret(pool_ret, labels_here)
                if budget_ops - used_ops < len(bits) + 2:
                    bits = bits[:1]
                V = sum(1 << b for b in bits)
                emit({'k': 'wflip', 'addr': cur, 'bits': bits, 'V': V, 'tgt': tgt, 'ret': ret})
                n_wflip += 1
                # symbolic count of the chain ops this wflip adds
                rkey = ret if ret is not None else ('$', len(items))
                for i in range(1, len(bits)):
                    key = (rkey, tgt, tuple(bits[i:]))
                    if key in table:
                        self.features.add('shared-chain')
                        break
                    table.add(key)
                    if holes:
                        holes -= 1
                        self.features.add('pad-hole-reuse')
                    else:
                        area += 1
                        used_ops += 1
                cur += dw
                used_ops += 1
            elif r < 0.82:
                maybe_label(0.15)
                n = rng.choice([1, 2, 2, 3, 4, 4, 5, 8, 16])
                if self.fault == 'pad-nonpositive' and rng.random() < 0.5:
                    n = rng.choice([0, -1, -4])
                    self.fault_done = True
                k = (-(cur // dw)) % n if n > 0 else 0
                if used_ops + k > budget_ops:
                    continue
                emit({'k': 'pad', 'n': n, 'addr': cur})
                cur += k * dw
                used_ops += k
                holes += k
                if k:
                    self.features.add('pad-holes')
            elif r < 0.90 and w > 8 or r < 0.84:
                # reserve: splits the segment; pad holes are forgotten
                words = rng.choice([2, 2, 4, 6, 8, 16, 64, 1000, 1024, 2500]) if w > 8 else rng.choice([2, 2, 4])
                if used_ops + words // 2 > budget_ops:
                    continue
                maybe_label(0.5)
                bits_ = words * w
                if self.fault == 'negative-reserve' and rng.random() < 0.6:
                    back = rng.choice([cur - seg_first, cur - seg_first, dw, 2 * dw, cur])
                    emit({'k': 'reserve', 'bits': -back, 'addr': cur})
                    cur -= back
                    holes = 0
                    continue
                if self.fault == 'reserve-unaligned' and rng.random() < 0.6:
                    bits_ += rng.randrange(1, w)
                elif self.fault == 'reserve-odd-word' and rng.random() < 0.6:
                    bits_ += w
                emit({'k': 'reserve', 'bits': bits_, 'addr': cur})
                cur += bits_
                used_ops += words // 2
                if holes:
                    self.features.add('reserve-after-pad')
                holes = 0
                self.features.add('reserve-split')
            else:
                # a new segment: after the wflip area of the current one
                end = cur + area * dw
                ends.append((seg_first, end))
                gap_choice = rng.random()
                if self.fault == 'seg-overlap-tight' and end > seg_first:
                    start = end - dw
                elif self.fault == 'seg-overlap' and rng.random() < 0.7:
                    s0, e0 = rng.choice(ends)
                    start = s0 + ((rng.randrange(0, max(1, (e0 - s0) // dw))) * dw if e0 > s0 else 0)
                elif gap_choice < 0.45 or tight_seg:
                    start = end                               # abuts the previous wflip area exactly
                    self.features.add('abutting-segment')
                elif gap_choice < 0.8:
                    start = end + dw * rng.randrange(1, 6)
                else:
                    top = self.space - dw * 8
                    lo = end + dw
                    start = (rng.randrange(lo, top) // dw) * dw if top > lo else end + dw
                    used_ops = max(used_ops, 0)
                if self.fault == 'seg-unaligned' and rng.random() < 0.7:
                    start += rng.randrange(1, w)
                elif self.fault == 'seg-odd-word' and rng.random() < 0.7:
                    start += w
                elif self.fault == 'pad-unaligned' and rng.random() < 0.7:
                    start += w
                    self.want_pad = True
                elif self.fault == 'negative-segment' and rng.random() < 0.7:
                    start = -dw * rng.randrange(1, 5)
                elif self.fault == 'seg-at-top' and rng.random() < 0.7:
                    start = self.space - dw * rng.randrange(0, 3)
                if start + dw * 4 >= self.space and self.fault not in ('seg-at-top', 'too-high'):
                    continue
                maybe_label(0.2)
                emit({'k': 'segment', 'addr': start, 'prev_end': end})
                cur = seg_first = start
                area = 0
                holes = 0
                self.features.add('multi-segment')
                if getattr(self, 'want_pad', False):
                    emit({'k': 'pad', 'n': 2, 'addr': cur})
                    self.want_pad = False
        if rng.random() < 0.5:
            maybe_label(1.0)
        if self.fault == 'too-high':
            # code that runs over the top of the address space
            start = self.space - dw * rng.randrange(1, 3)
            emit({'k': 'segment', 'addr': start, 'prev_end': cur + area * dw})
            for _ in range(rng.randrange(2, 5)):
                emit({'k': 'op', 'addr': start, 'form': 'j', 'flip': ('abs', 0), 'jump': ('abs', 0)})
                start += dw
        self.end_addr = cur

    def pick_target(self, labels_here, what):
        """symbolic target of a flip / jump word"""
        rng = self.rng
        r = rng.random()
        if r < 0.45:
            return ('lbl', None, rng.choice([0, 0, 0, self.w, self.dw, -self.dw, rng.randrange(0, self.w)]))  # any label (fwd/back)
        if r < 0.6:
            return ('dollar', rng.choice([0, 0, -self.dw, self.dw, rng.randrange(0, 4) * self.dw]))
        if r < 0.75:
            return ('abs', rng.randrange(0, min(self.space, 4096)))
        if r < 0.9:
            return ('abs', rng.randrange(0, self.space))
        return ('abs', rng.choice([0, self.space - 1, self.space - self.dw, self.dw, self.dw + 1, 3 * self.w + self.w.bit_length()]))

    def pick_ret(self, pool_ret, labels_here):
        rng = self.rng
        r = rng.random()
        if r < 0.3:
            return None                                       # two-argument form: returns to $
        if r < 0.75 and pool_ret:
            return ('lbl', rng.choice(pool_ret), 0)
        if r < 0.9:
            return ('lbl', None, 0)
        return ('abs', rng.choice([0, self.w, self.dw, self.dw * rng.randrange(0, 8)]))

    def pick_wtarget(self, pool_tgt, labels_here):
        rng = self.rng
        r = rng.random()
        if r < 0.55 and pool_tgt:
            return ('lbl', rng.choice(pool_tgt), rng.choice([0, 0, 0, self.w, rng.randrange(0, self.w)]))
        if r < 0.85:
            return ('lbl', None, rng.choice([0, 0, self.w]))
        if r < 0.93:
            return ('abs', rng.choice([0, self.dw, self.dw + 1, 3 * self.w, rng.randrange(0, self.space - self.w)]))
        return ('dollar', rng.choice([0, -self.dw, -self.w]))     # its own words / the next op

    # ---------------- numbers ----------------
    def resolve(self, ref, dollar):
        rng = self.rng
        if ref is None:
            return None
        if ref[0] == 'abs':
            return ref[1], None
        if ref[0] == 'dollar':
            return max(0, dollar + ref[1]), '$'
        name = ref[1]
        if name is None or name not in self.labels:
            if not self.labels:
                return max(0, dollar + ref[2]), '$'
            name = rng.choice(sorted(self.labels))
        return max(0, self.labels[name] + ref[2]), name

    # ---------------- expressions ----------------
    def lit(self, v):
        rng = self.rng
        if v < 0:
            return f'(0-{self.lit(-v)})' if rng.random() < 0.5 else f'(-{self.lit(-v)})'
        r = rng.random()
        if r < 0.55:
            return str(v)
        if r < 0.85:
            return ('0x%x' if rng.random() < 0.5 else '0X%X') % v
        if r < 0.93 and v < (1 << 20):
            return '0b' + bin(v)[2:]
        if 0x20 <= v <= 0x7e and chr(v) not in '\\\'"':
            return f"'{chr(v)}'"
        return str(v)

    def atom_names(self, with_dollar, allowed_labels):
        names = [(n, v) for n, v in self.labels.items() if allowed_labels is None or n in allowed_labels]
        names += list(self.consts_before.items())
        if with_dollar is not None:
            names += [('$', with_dollar)] * 2
        return names

    def atom(self, T, atoms, prefer=None):
        """an expression of value T of depth 0/1"""
        rng = self.rng
        if prefer is not None and rng.random() < 0.8:
            cand = [(n, v) for n, v in atoms if n == prefer]
        else:
            cand = atoms
        if cand and rng.random() < 0.8:
            n, v = rng.choice(cand)
            if v == T and rng.random() < 0.8:
                return n
            if T >= v:
                return f'({n} + {self.lit(T - v)})' if rng.random() < 0.8 else f'({self.lit(T - v)} + {n})'
            return f'({n} - {self.lit(v - T)})'
        return self.lit(T)

    def cond(self, truth, atoms, depth):
        rng = self.rng
        a = rng.randrange(0, 50)
        b = rng.choice([a, a + 1, rng.randrange(0, 50)])
        ops = {'<': a < b, '>': a > b, '<=': a <= b, '>=': a >= b, '==': a == b, '!=': a != b}
        op = rng.choice([o for o, t in ops.items() if t == truth])
        return f'({self.expr(a, atoms, depth - 1)} {op} {self.expr(b, atoms, depth - 1)})'

    def expr(self, T, atoms, depth, prefer=None):
        rng = self.rng
        W = self.w
        if T < 0:
            if rng.random() < 0.5:
                return f'(0 - {self.expr(-T, atoms, depth, prefer)})'
            y = rng.randrange(0, 1000)
            return f'({self.expr(y, atoms, depth - 1)} - {self.expr(y - T, atoms, depth - 1)})'
        if depth <= 0 or rng.random() < 0.3:
            return self.atom(T, atoms, prefer)
        big = 1 << (W + 6)
        op = rng.choice(['+', '+', '-', '*', '/', '%', '<<', '>>', '^', '|', '&', '?:', '?:', 'cmp', '&&', '||', '#', '~',
                         '**', 'neg'])
        d = depth - 1
        if op == '+':
            x = rng.randrange(0, T + 1)
            return f'({self.expr(x, atoms, d, prefer)} + {self.expr(T - x, atoms, d)})'
        if op == '-':
            y = rng.randrange(0, min(T + 1000, big))
            return f'({self.expr(T + y, atoms, d, prefer)} - {self.expr(y, atoms, d)})'
        if op == '*':
            k = rng.choice([1, 2, 3, W, 2 * W, rng.randrange(1, 40)])
            return f'(({self.expr(T // k, atoms, d, prefer)} * {self.expr(k, atoms, d)}) + {self.lit(T % k)})'
        if op == '/' and T < big:
            k = rng.choice([1, 2, 3, W, rng.randrange(1, 40)])
            return f'({self.expr(T * k + rng.randrange(0, k), atoms, d, prefer)} / {self.expr(k, atoms, d)})'
        if op == '%' and T < big:
            k = T + 1 + rng.randrange(0, 100)
            return f'({self.expr(rng.randrange(0, 8) * k + T, atoms, d, prefer)} % {self.expr(k, atoms, d)})'
        if op == '<<':
            s = rng.randrange(0, 9)
            if T % (1 << s) == 0:
                return f'({self.expr(T >> s, atoms, d, prefer)} << {self.expr(s, atoms, d)})'
        if op == '>>' and T < big:
            s = rng.randrange(0, 9)
            return f'({self.expr((T << s) + rng.randrange(0, 1 << s), atoms, d, prefer)} >> {self.expr(s, atoms, d)})'
        if op == '^':
            x = rng.randrange(0, max(2, min(T * 2 + 2, big)))
            return f'({self.expr(T ^ x, atoms, d, prefer)} ^ {self.expr(x, atoms, d)})'
        if op == '|':
            m = rng.randrange(0, max(2, T * 2 + 1))
            return f'({self.expr(T & m, atoms, d, prefer)} | {self.expr(T & ~m | (T & m & rng.randrange(0, T + 1)), atoms, d)})'
        if op == '&' and T < big:
            m = rng.randrange(0, 1 << (W + 2))
            n = rng.randrange(0, 1 << (W + 2)) & ~m
            return f'({self.expr(T | m, atoms, d, prefer)} & {self.expr(T | n, atoms, d)})'
        if op == '?:':
            t = rng.random() < 0.5
            other = rng.choice([0, T + 1, rng.randrange(0, 1 << W)])
            a, b = (T, other) if t else (other, T)
            if rng.random() < 0.4:
                c = self.expr(rng.randrange(1, 100) if t else 0, atoms, d)
            else:
                c = self.cond(t, atoms, d)
            return f'({c} ? {self.expr(a, atoms, d, prefer)} : {self.expr(b, atoms, d)})'
        if op == 'cmp' and T in (0, 1):
            return self.cond(T == 1, atoms, depth)
        if op in ('&&', '||') and T in (0, 1):
            x, y = rng.choice([(0, 0), (0, 1), (1, 0), (1, 1)])
            if ((x and y) if op == '&&' else (x or y)) == T:
                fx = lambda b: self.expr(rng.randrange(1, 9) if b else 0, atoms, d)
                return f'({fx(x)} {op} {fx(y)})'
        if op == '#' and T <= W + 4:
            v = 0 if T == 0 else rng.randrange(1 << (T - 1), 1 << T)
            if rng.random() < 0.3 and v:
                return f'(#{self.expr(-v, atoms, d)})'
            return f'(#{self.expr(v, atoms, d, prefer)})'
        if op == '~':
            return f'(~{self.expr(-T - 1, atoms, d)})'
        if op == '**' and T > 0 and T & (T - 1) == 0 and T.bit_length() <= W + 1:
            return f'({self.expr(2, atoms, d)} ** {self.expr(T.bit_length() - 1, atoms, d)})'
        if op == 'neg':
            return f'(-{self.expr(-T, atoms, d)})' if T else '(-0)'
        return self.atom(T, atoms, prefer)

    def num(self, T, dollar, allowed=None, prefer=None, plain=False):
        rng = self.rng
        atoms = self.atom_names(dollar, allowed)
        if plain or rng.random() < 0.15:
            return self.atom(T, atoms, prefer)
        return self.expr(T, atoms, rng.choice([1, 1, 2, 2, 3]), prefer)

    # ---------------- text ----------------
    def render(self):
        rng, w, dw = self.rng, self.w, self.dw
        lines = []
        pending_label = None
        self.consts_before = {}
        defined = set()
        fault = self.fault
        fault_at = rng.randrange(0, max(1, len(self.items)))
        for idx, it in enumerate(self.items):
            k = it['k']
            hit = fault is not None and idx >= fault_at and not getattr(self, 'fault_done', False)
            if k == 'const':
                if pending_label:
                    lines.append(pending_label)
                    pending_label = None
                cs = [(n, v) for n, v in self.consts_before.items()]
                T = it['val']
                if cs and rng.random() < 0.5:
                    n, v = rng.choice(cs)
                    e = f'{n} + {T - v}' if T >= v else f'{n} - {v - T}'
                else:
                    e = rng.choice([str(T), hex(T), f'{T // w}*w + {T % w}', f'({T} << 1) >> 1', f'{T} ^ 5 ^ 5'])
                lines.append(f'{it["name"]} = {e}')
                self.consts_before[it['name']] = T
                continue
            if k == 'label':
                name = it['name']
                if hit and fault == 'label-twice' and defined:
                    name = rng.choice(sorted(defined))
                    self.fault_done = True
                defined.add(name)
                if pending_label:
                    lines.append(pending_label)
                    pending_label = None
                if it['inline']:
                    pending_label = f'{name}:'
                else:
                    lines.append(f'{name}:')
                continue
            pre = (pending_label + ' ') if pending_label else ''
            pending_label = None
            if rng.random() < 0.05:
                pre = pre + ' '
            if k == 'op':
                dollar = it['addr'] + dw
                f, fn = self.resolve(it['flip'], dollar)
                j, jn = self.resolve(it['jump'], dollar)
                if hit and fault == 'value-range':
                    if rng.random() < 0.5:
                        j = rng.choice([self.space, self.space + dw, -1, -dw, self.space * 3 + 5])
                    else:
                        f = rng.choice([self.space, -1, self.space + 7])
                    self.fault_done = True
                    it['form'] = 'fj'
                fe = self.num(f, dollar, prefer=fn)
                je = self.num(j, dollar, prefer=jn)
                if hit and fault == 'undefined-label':
                    je = f'({je} + nowhere_{idx})'
                    self.fault_done = True
                    it['form'] = 'fj'
                if hit and fault == 'fold-error':
                    je = rng.choice([f'({je} / ($ - $))', f'(1 << ($ - $ - 1)) + {je}', f'({je} % (0 * $))', f'(2 ** (0 - $))'])
                    self.fault_done = True
                    it['form'] = 'fj'
                if hit and fault == 'eval-error' and self.labels:
                    l = rng.choice(sorted(self.labels))
                    je = rng.choice([f'({je} / ({l} - {l}))', f'({je} >> ({l} - {l} - 1))', f'(3 ** (0 - {l} - 1))'])
                    self.fault_done = True
                    it['form'] = 'fj'
                form = it['form']
                if form == 'fj':
                    lines.append(f'{pre}{fe};{rng.choice(["", " "])}{je}')
                elif form == 'j':
                    lines.append(f'{pre};{je}')
                elif form == 'f':
                    lines.append(f'{pre}{fe};')
                else:
                    lines.append(f'{pre};')
            elif k == 'wflip':
                dollar = it['addr'] + dw
                A, an = self.resolve(it['tgt'], dollar)
                V = it['V']
                if hit and fault == 'wflip-value-range':
                    V = rng.choice([self.space, self.space + 3, -1, -5, self.space << 2])
                    self.fault_done = True
                if A + w > self.space:
                    A = max(0, self.space - w - rng.randrange(0, 4) * w)
                ae = self.num(A, dollar, prefer=an)
                ve = self.num(V, dollar)
                if it['ret'] is None:
                    lines.append(f'{pre}wflip {ae}, {ve}')
                else:
                    R, rn = self.resolve(it['ret'], dollar)
                    # the same return label is written the same way, so that returns compare equal by construction
                    re_ = self.num(R, dollar, prefer=rn, plain=rng.random() < 0.7)
                    lines.append(f'{pre}wflip {ae}, {ve}, {re_}')
            elif k == 'pad':
                allowed = set(defined)
                if hit and fault == 'forward-in-directive':
                    allowed = None
                    self.fault_done = True
                e = self.num(it['n'], None, allowed=allowed) if it['n'] > 0 else self.lit(it['n'])
                lines.append(f'{pre}pad {e}')
            elif k == 'segment':
                allowed = set(defined)
                if hit and fault == 'forward-in-directive':
                    allowed = set(self.labels) - set(defined) or None
                    self.fault_done = True
                lines.append(f'{pre}segment {self.num(it["addr"], None, allowed=allowed)}')
            elif k == 'reserve':
                allowed = set(defined)
                if hit and fault == 'forward-in-directive':
                    allowed = set(self.labels) - set(defined) or None
                    self.fault_done = True
                lines.append(f'{pre}reserve {self.num(it["bits"], None, allowed=allowed)}')
        if pending_label:
            lines.append(pending_label)
        if rng.random() < 0.1:
            lines.insert(rng.randrange(0, len(lines) + 1), '// a comment line')
        return '\n'.join(lines) + '\n'


def gen_program(rng, w, fault=None):
    p = Prog(rng, w, fault)
    p.skeleton()
    src = p.render()
    feats = sorted(p.features)
    if fault:
        feats.append('fault:' + fault)
    return src, feats


# directed programs that are always part of a campaign: (name, w, source)
def directed(w):
    dw = 2 * w
    return [
        ('io-cell-pad-hole', f';start\npad 4\nstart: wflip t, 15, done\ndone: ;done\nt: ;0\n'),
        ('io-cell-wflip-area', f'wflip {64 * w}, 3, {32 * w}\nsegment {32 * w}\n;{32 * w}\nsegment {64 * w}\n;0\n'),
        ('share-return-and-suffix',
         f';a\nr: ;r\nt: ;0\n;0\na: wflip t, 14, r\nwflip t, 13, r\nwflip t+{w}, 12, r\nwflip t, 12, r\nwflip t, 12\nwflip t, 8, r\n'),
        ('share-needs-return-in-key', f';a\nr1: ;r1\nr2: ;r2\nt: ;0\na: wflip t, 7, r1\nwflip t, 7, r2\nwflip t, 6, r2\n'),
        ('pad-holes-before-and-after', f';a\npad 8\na: wflip t, 7, a\npad 4\nwflip t, 15, a\nwflip t+{w}, 0x1f, a\nt: ;0\n;0\n'),
        ('reserve-forgets-holes', f';a\n;a\npad 4\na: reserve {4 * w}\nwflip t, 7, a\nt: ;0\nreserve {2 * w}\nwflip t, 3\n'),
        ('dollar-is-after-the-op', f'$;$\n$+{dw};$-{dw}\nwflip $, 1, $\nwflip $+{w}, 3\n;$\n'),
        ('abutting-segments', f';b\nwflip b, 7\nsegment {8 * w}\nb: ;0\nwflip b, 3, b\nsegment {14 * w}\n;0\n'),
        ('overlap-by-one-op', f';b\nwflip b, 7\nsegment {6 * w}\nb: ;0\n'),
        ('label-before-segment', f';x\nx:\nsegment {16 * w}\ny: ;x\n;y\nz:\n'),
        ('reserve-large', f';a\na: reserve {1200 * w}\n;a\n' if w > 8 else f';a\na: reserve {4 * w}\n;a\n'),
        ('wflip-null-and-small-return', f';a\na: wflip a, 0, 0\nwflip a, 0\nwflip a, 1, {w}\nb: wflip b, 1, b\n'),
        ('generated-label-collision', f'ns _ {{\nwflip_area_start_0:\n;_.wflip_area_start_0\n}}\n;_.wflip_area_start_0\nsegment {16 * w}\n;\n'),
        ('negative-reserve', f';s\nsegment {64 * w}\ns: ;\n;\nreserve 0-{4 * w}\nx: ;x\nreserve {8 * w}\n' if w > 8 else
         f';s\nsegment {8 * w}\ns: ;\n;\nreserve 0-{4 * w}\nx: ;x\nreserve {8 * w}\n'),
        ('writer-word-range', f';0\nsegment {(1 << w) - 4 * w}\nwflip 0, 3, 0\nreserve {2 * w}\n'),
        ('unaligned-target', f';a\na: wflip t+3, 0x1f, a\nt: ;0\n;0\n'),
    ]


def gen_jobs(rng, n, directed_too=True):
    jobs = []
    if directed_too:
        for w in (8, 16, 32, 64):
            for name, src in directed(w):
                for v in ((0, 2) if w in (8, 64) else (1, 3)):
                    jobs.append({'src': src, 'w': w, 'version': v, 'features': ['directed:' + name]})
    while len(jobs) < n:
        w = rng.choice([8, 16, 32, 64])
        fault = rng.choice(FAULTS) if rng.random() < 0.25 else None
        src, feats = gen_program(rng, w, fault)
        jobs.append({'src': src, 'w': w, 'version': rng.choice([0, 1, 2, 3]), 'features': feats})
    return jobs
