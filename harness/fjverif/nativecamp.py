"""Correspondence of the Gallina model of _fjcore.c (coq/Model/EngNative.v) with the real native engine.

`compare_native(ctx, cases, results)` takes the same case/result dicts as enginecamp.compare_with_machine,
keeps the cases with engine == 'native', loads and runs each on the model inside Coq (Model/NativeCase.v:
load like fjm_run._run_native, Memory_run with the case's knobs) and compares cause / ops / fault address /
output / last-ops list / final words / storage mode with what the real engine produced.

A model/implementation disagreement is triaged with the SPEC (Spec/MachineSpec.v via RunCase.check_case):
  * the real engine agrees with the machine definition, the model does not -> the model no longer describes
    the code: ctx.broken_tie (reported as no-failing-input-found);
  * the real engine disagrees with the machine definition too -> a genuine violation, reported with the same
    signature enginecamp uses (so it de-duplicates with enginecamp's own report and matches known findings).
"""
import re
from concurrent.futures import ThreadPoolExecutor

from . import enginecamp as ec
from . import framework as fw

HEADER = ('From FJ Require Import Lib.Base Spec.MachineSpec Model.RunCase Model.EngNative Model.NativeCase.\n'
          'Local Open Scope N_scope.\n')
STORAGE = {'flat': 0, 'hybrid': 1, 'paged': 2}
STORAGE_NAME = {0: 'flat', 1: 'hybrid', 2: 'paged', 9: 'model-raised'}
LOOP_NAME = {0: 'measured', 1: 'flat', 2: 'paged', 3: 'ring', 9: 'model-raised'}
_EVAL_RE = re.compile(r'\((true|false),\s*\((\d+),\s*(\d+),\s*(\d+)\)\)')


MODEL_WATCHDOG_FUEL = 20000     # fuel of the model evaluation for runs the watchdog stopped (model: ~25k steps/s)


def coq_ncase(case, res):
    base = ec.coq_case(case, res, fuel=MODEL_WATCHDOG_FUEL if res.get('cause') == 6 else None)
    fmw = int(case.get('flat_max_words') or 0)
    no_flat = 'true' if case.get('no_flat') else 'false'
    measure = 'true' if case.get('measure') else 'false'
    last = int(case.get('last_ops') or 0)
    storage = STORAGE.get(res.get('storage'), 3)
    return f'mkncase ({base}) {fmw} {no_flat} {measure} {last} {storage}'


def _eval_shards(ctx, name, terms, weights=None, shard=12, timeout=1200):
    """[(ok, storage, loop, cause) | None] for every term; heavy terms are spread over the shards"""
    n = len(terms)
    nsh = max(1, (n + shard - 1) // shard)
    order = sorted(range(n), key=lambda i: -(weights[i] if weights else 0))
    buckets = [[] for _ in range(nsh)]
    for pos, i in enumerate(order):
        buckets[pos % nsh].append(i)

    def one(idx_b):
        idx, b = idx_b
        path = ctx.scratch / f'{name}_{idx}.v'
        path.write_text(HEADER + '\nDefinition cases := [\n' + ';\n'.join(terms[i] for i in b) + '\n].\n'
                        'Eval vm_compute in (map native_eval cases).\n')
        rc, out = fw.coqc_file(path, timeout)
        found = _EVAL_RE.findall(out) if rc == 0 else []
        if len(found) != len(b):
            return b, [None] * len(b), out
        return b, [(a == 'true', int(x), int(y), int(z)) for a, x, y, z in found], ''

    res, errs = [None] * n, []
    with ThreadPoolExecutor(max_workers=fw.NCPU) as ex:
        for b, rs, err in ex.map(one, list(enumerate(buckets))):
            for i, r in zip(b, rs):
                res[i] = r
            if err:
                errs.append(err)
    if errs:
        ctx.broken_tie(f'coq evaluation of {name} (native model)', errs[0])
    return res


def compare_native(ctx, cases, results, name='native'):
    """Evaluates the native-engine model on every native case and compares with the observed behaviour.
    Returns a dict with the counts (also added to the evidence histograms)."""
    terms, idx, weights = [], [], []
    for i, (c, r) in enumerate(zip(cases, results)):
        if c.get('engine') != 'native' or 'exc' in r:
            continue
        terms.append(coq_ncase(c, r))
        idx.append(i)
        weights.append(MODEL_WATCHDOG_FUEL if r.get('cause') == 6 else r.get('ops', 0) + sum(len(d) for _, _, d in c['segs']) // 8)
    stats = {'compared': 0, 'model_differs': 0, 'broken_tie': 0, 'violations': 0, 'storage_mismatch': 0}
    if not terms:
        return stats
    evals = _eval_shards(ctx, f'{name}_model', terms, weights)
    bad = []
    for k, ev, term in zip(idx, evals, terms):
        if ev is None:
            continue
        ok, sm, lk, cause = ev
        stats['compared'] += 1
        ctx.hist('native_model_storage', STORAGE_NAME.get(sm, sm))
        ctx.hist('native_model_path', f'{LOOP_NAME.get(lk, lk)}:{STORAGE_NAME.get(sm, sm)}:cause{cause}')
        if not ok:
            bad.append((k, term, sm, lk, cause))
    stats['model_differs'] = len(bad)
    for k, term, sm, lk, cause in bad[:12]:
        c, r = cases[k], results[k]
        rc, model = fw.coq_eval_term(ctx, f'{name}_ndiag{k}', HEADER, f'observe_native ({term})')
        model_storage = STORAGE_NAME.get(sm, sm)
        if r.get('storage') is not None and model_storage != r.get('storage'):
            stats['storage_mismatch'] += 1
        # spec triage: is the REAL behaviour what the machine definition requires?
        spec_ok = fw.coq_eval_shards(ctx, f'{name}_ntriage{k}', ec.HEADER, [ec.coq_case(c, r)], 'check_case')
        knobs = {q: c.get(q) for q in ('flat_max_words', 'no_flat', 'measure', 'last_ops')}
        detail = (f'native engine (w={c["w"]}, knobs={knobs}) observed cause={r.get("cause")} ops={r.get("ops")} '
                  f'fault={r.get("fault")} storage={r.get("storage")} last_ops={r.get("last_ops")}; '
                  f'model Model/EngNative.v (loop={LOOP_NAME.get(lk, lk)}, storage={model_storage}) gives {model[-500:]}')
        if spec_ok == [True]:
            stats['broken_tie'] += 1
            ctx.broken_tie('correspondence EngNative.v <-> _fjcore.c (the refinement theorems C01_native_* no longer '
                           'speak about this code)', detail + f'\ncase: {c}')
        else:
            stats['violations'] += 1
            rc2, mdef = fw.coq_eval_term(ctx, f'{name}_nspec{k}', ec.HEADER, f'observe ({ec.coq_case(c, r)})')
            sig = {'kind': 'engine-differs', 'engine': 'native', 'w': c['w'], 'loop': r.get('storage'),
                   'obs_cause': r.get('cause')}
            sig.update(ec.classify(c, r))
            sig['machine_fault_at_2_64'] = 'o_fault := 18446744073709551616' in mdef
            ctx.violation(sig, 'native engine differs from the machine definition AND from its model: ' + detail +
                          f'; machine definition gives {mdef[-300:]}',
                          {'case': c, 'observed': r, 'machine_definition': mdef, 'native_model': model,
                           'how': 'PYTHONPATH=/repo:/verif/harness /venv/bin/python -m fjverif.replay <this file>'})
    for q, v in stats.items():
        ctx.hist('native_model_campaign', q, v)
    return stats
