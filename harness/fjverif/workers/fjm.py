"""Runs .fjm writer / reader cases against the REAL implementation (C06, C10). argv: in.json out.json

Input:  {"mode": "probe" | "c06" | "c10", "cases": [...]}
Output: a list with one observation per case (or a dict for "probe").
Nothing here decides anything: it only records what the code under test did.
"""
import json
import lzma
import os
import signal
import struct
import sys
import tempfile
from pathlib import Path

sys.set_int_max_str_digits(0)

from fjverif.workers._load import load_native  # noqa: E402

NATIVE = load_native()

from flipjump.fjm import fjm_consts  # noqa: E402
from flipjump.fjm.fjm_consts import FJMVersion  # noqa: E402
from flipjump.fjm.fjm_reader import Reader  # noqa: E402
from flipjump.fjm.fjm_writer import Writer  # noqa: E402
from flipjump.interpreter import fjm_run  # noqa: E402
from flipjump.interpreter.io_devices.FixedIO import FixedIO  # noqa: E402
from flipjump.utils.exceptions import (FlipJumpException, FlipJumpReadFjmException,  # noqa: E402
                                       FlipJumpRuntimeException, FlipJumpRuntimeMemoryException,
                                       FlipJumpWriteFjmException)

RAW_FILTERS = [{"id": lzma.FILTER_LZMA2, "dict_size": 1 << 26}]   # the largest dictionary a preset uses
WB = {8: 1, 16: 2, 32: 4, 64: 8}
EXC_CODE = {'struct.error': 2, 'IndexError': 3, 'KeyError': 4}


def exc_name(e):
    return 'struct.error' if isinstance(e, struct.error) else type(e).__name__


def real_decompress(payload):
    """the real codec's answer on a raw LZMA2 payload, asked directly (not through the Reader)"""
    try:
        return lzma.decompress(payload, format=lzma.FORMAT_RAW, filters=RAW_FILTERS)
    except lzma.LZMAError:
        return None


def observe_reader(path, probes):
    """Reader(path): class, image, get_word answers"""
    try:
        r = Reader(path)
    except FlipJumpReadFjmException as e:
        return {'cls': 1, 'msg': str(e)[:60]}
    except BaseException as e:  # noqa
        return {'cls': 2, 'exc': exc_name(e), 'msg': str(e)[:80]}
    o = {'cls': 0, 'w': r.memory_width, 'ver': r.version.value, 'flags': r.flags,
         'segs': [[s.segment_start, s.segment_length] for s in r.memory_segments],
         'mem': sorted([a, v] for a, v in r.memory.items()),
         'zeros': [list(z) for z in r.zeros_boundaries]}
    pr = []
    for ba in probes:
        try:
            pr.append([ba, 0, r.get_word(ba)])
        except FlipJumpRuntimeMemoryException as e:
            pr.append([ba, 1, e.memory_address])
        except BaseException as e:  # noqa
            pr.append([ba, 2, 0])
            o['probe_exc'] = exc_name(e)
    o['probes'] = pr
    return o


def run_c06(case, tmp):
    path = Path(tmp) / 'c.fjm'
    if path.exists():
        path.unlink()
    o = {'ctor': True, 'opres': [], 'write': 9, 'file': '', 'lz': None, 'read': {'cls': 9}}
    try:
        wr = Writer(path, case['w'], FJMVersion(case['ver']), flags=case['flags'], lzma_preset=case['preset'])
    except FlipJumpWriteFjmException:
        o['ctor'] = False
        return o
    except BaseException as e:  # noqa
        o['ctor'] = False
        o['ctor_exc'] = exc_name(e)
        return o
    nseg = 0
    for op in case['ops']:
        try:
            if op[0] == 'd':
                ret = wr.add_data(list(op[1]))
            else:
                wr.add_segment(op[1], op[2], op[3], op[4])
                ret = 0
                nseg += 1
            o['opres'].append([0, ret])
        except FlipJumpWriteFjmException:
            o['opres'].append([1, 0])
        except BaseException as e:  # noqa
            o['opres'].append([EXC_CODE.get(exc_name(e), 7), 0])
            o['raw_exc'] = exc_name(e)
            o['raw_where'] = 'add_data' if op[0] == 'd' else 'add_segment'
            return o
    try:
        wr.write_to_file()
        o['write'] = 0
    except FlipJumpWriteFjmException:
        o['write'] = 1
    except BaseException as e:  # noqa
        o['write'] = EXC_CODE.get(exc_name(e), 7)
        o['raw_exc'] = exc_name(e)
        o['raw_where'] = 'write_to_file'
    data = path.read_bytes() if path.exists() else b''
    o['file'] = data.hex()
    if o['write'] != 0:
        return o
    if case['ver'] == 3:
        payload = data[32 + 32 * nseg:]
        d = real_decompress(payload)
        o['lz'] = [payload.hex(), d.hex()] if d is not None else None
    o['read'] = observe_reader(path, case.get('probes', []))
    return o


def _alarm(signum, frame):
    raise KeyboardInterrupt()


def parse_layout(data):
    """format-document parse of the file (independent of the Reader): payload offset, version, table"""
    if len(data) < 20:
        return {'off': len(data), 'ver': None}
    magic, w, ver, n = struct.unpack('<HHQQ', data[:20])
    off = 20 + (12 if ver != 0 else 0) + 32 * n
    lay = {'off': min(off, len(data)), 'ver': ver, 'w': w, 'n': n}
    return lay


def run_c10(case, tmp):
    data = bytes.fromhex(case['file'])
    path = Path(tmp) / 'd.fjm'
    path.write_bytes(data)
    lay = parse_layout(data)
    payload = data[lay['off']:]
    o = {'off': lay['off'], 'lz': None, 'run': 9}
    raw = payload
    if lay['ver'] == 3:
        raw = real_decompress(payload)
        o['lz'] = raw.hex() if raw is not None else None
    import time
    t0 = time.time()
    o['read'] = observe_reader(path, [])
    o['t_read'] = round(time.time() - t0, 3)
    if o['read']['cls'] == 0:
        w, n = lay['w'], lay['n']
        o['nseg'], o['hdr'] = n, 20 + (12 if lay['ver'] != 0 else 0)
        o['wb'] = WB.get(w, 1)
        o['fd_len'] = len(raw) if raw is not None else 0
        tb = data[lay['off'] - 32 * n: lay['off']]
        # only the entries that are completely in the file (a Reader that accepts a file whose table is cut short is
        #  judged by the check, not by a crash here)
        o['table'] = [list(struct.unpack('<QQQQ', tb[32 * i: 32 * i + 32])) for i in range(min(n, len(tb) // 32, 1 << 16))]
        o['pool'] = len(raw) // WB[w] if raw is not None and w in WB else 0
        o['memsize'] = len(o['read']['mem'])
    if case.get('run'):
        os.environ.pop('FLIPJUMP_NO_NATIVE', None)
        if case['run'] == 'fast' or NATIVE is None:
            os.environ['FLIPJUMP_NO_NATIVE'] = '1'
        signal.signal(signal.SIGALRM, _alarm)
        signal.setitimer(signal.ITIMER_REAL, 0.4)
        try:
            try:
                fjm_run.run(path, io_device=FixedIO(b''))
                o['run'] = 0
            finally:
                signal.setitimer(signal.ITIMER_REAL, 0)
        except FlipJumpReadFjmException:
            o['run'] = 1
        except KeyboardInterrupt:
            o['run'] = 0          # watchdog fired outside the engine's own handler: it was running
        except FlipJumpRuntimeException as e:
            # the catch-all "Unknown exception ... please report this bug" is an other exception
            if e.__cause__ is not None and not isinstance(e.__cause__, FlipJumpException):
                o['run'] = 2
                o['run_exc'] = 'FlipJumpRuntimeException<-' + exc_name(e.__cause__)
            else:
                o['run'] = 0
        except FlipJumpException:
            o['run'] = 0          # IO-device / runtime errors of the library happen after loading
        except BaseException as e:  # noqa
            o['run'] = 2
            o['run_exc'] = exc_name(e)
    return o


def run_asm(case, tmp):
    """assemble one source text with the real assembler in all four versions; observe each written file"""
    from flipjump import flipjump_quickstart as qs
    src = Path(tmp) / 'p.fj'
    src.write_text(case['src'])
    outs = []
    for ver in range(4):
        out = Path(tmp) / f'p{ver}.fjm'
        if out.exists():
            out.unlink()
        try:
            qs.assemble([src] if not case.get('path') else [Path(case['path'])], out, memory_width=case['w'],
                        use_stl=bool(case.get('stl')), fjm_version=FJMVersion(ver), print_time=False)
        except FlipJumpException as e:
            outs.append({'asm_error': type(e).__name__ + ': ' + str(e)[:200]})
            continue
        except BaseException as e:  # noqa
            outs.append({'asm_error': 'RAW ' + exc_name(e) + ': ' + str(e)[:200]})
            continue
        o = run_c10({'file': out.read_bytes().hex(), 'run': None}, tmp)
        o['file'] = out.read_bytes().hex()
        outs.append(o)
    return outs


def run_large(case, tmp):
    """large-window family: one pseudo-random block as the data of two segments, version 3; real Writer + Reader only"""
    import random
    import time
    t0 = time.time()
    w, n_bytes, preset = case['w'], case['block_bytes'], case['preset']
    wb = w // 8
    n = (n_bytes // wb) & ~1
    blob = random.Random(case['seed']).getrandbits(8 * n * wb).to_bytes(n * wb, 'little')
    words = list(struct.unpack(f'<{n}' + {8: 'B', 16: 'H', 32: 'L', 64: 'Q'}[w], blob))
    second = case['second_start']
    path = Path(tmp) / 'L.fjm'
    o = {'words': n, 'write': 0, 'cls': 9}
    try:
        wr = Writer(path, w, FJMVersion(3), lzma_preset=preset)
        wr.add_segment(0, n, wr.add_data(words), n)
        wr.add_segment(second, n, wr.add_data(words), n)
        wr.write_to_file()
    except BaseException as e:  # noqa
        o['write'] = 1 if isinstance(e, FlipJumpWriteFjmException) else 2
        o['exc'] = exc_name(e) + ': ' + str(e)[:120]
        return o
    o['file_len'] = path.stat().st_size
    o['t_write'] = round(time.time() - t0, 2)
    try:
        r = Reader(path)
    except FlipJumpReadFjmException as e:
        o['cls'], o['msg'] = 1, str(e)[:100]
        return o
    except BaseException as e:  # noqa
        o['cls'], o['msg'] = 2, exc_name(e) + ': ' + str(e)[:100]
        return o
    o['cls'] = 0
    o['segs'] = [[s.segment_start, s.segment_length] for s in r.memory_segments]
    o['zeros'] = [list(z) for z in r.zeros_boundaries]
    mem = r.memory
    ok = len(mem) == 2 * n
    if ok:
        get = mem.get
        ok = all(get(i) == v and get(second + i) == v for i, v in enumerate(words))
    o['words_equal'] = ok
    o['t_total'] = round(time.time() - t0, 2)
    return o


def probe(tmp):
    """the constants of the tree under test, and whether the witnesses of the fixed defects F3-F6 are refused"""
    path = Path(tmp) / 'p.fjm'

    def rejects(f):
        try:
            f()
            return False
        except FlipJumpWriteFjmException:
            return True
        except FlipJumpReadFjmException:
            return True
        except BaseException:  # noqa
            return False

    def f3():
        wr = Writer(path, 64, FJMVersion(1))
        wr.add_segment(0, 4, wr.add_data([1, 2, 3]), 3)

    def f4():
        Writer(path, 8, FJMVersion(1)).add_data([1, 256])

    def f4n():
        Writer(path, 8, FJMVersion(1)).add_data([-1, 2])

    def f5a():
        wr = Writer(path, 64, FJMVersion(1))
        wr.add_segment(0, 4, wr.add_data([1, 2]), 4)

    def f5b():
        wr = Writer(path, 64, FJMVersion(1))
        wr.add_segment(1 << 64, 4, wr.add_data([1, 2]), 2)

    def f5c():
        wr = Writer(path, 64, FJMVersion(1))
        wr.add_data([1, 2, 3, 4])
        wr.add_segment(0, 4, -2, 2)

    def f6(segs):
        def g():
            b = struct.pack('<HHQQ', 0x4a46, 16, 1, len(segs)) + struct.pack('<QL', 0, 0)
            for s in segs:
                b += struct.pack('<QQQQ', *s)
            path.write_bytes(b + struct.pack('<4H', 1, 2, 3, 4))
            Reader(path)
        return g

    f6s = [f6([(0, 2, 0, 4)]), f6([(0, 4, 0, 2), (2, 4, 2, 2)]), f6([(1, 2, 0, 2)]), f6([(0, 3, 0, 2)]), f6([(0, 0, 0, 0)])]
    return {
        'witnesses': {'F3_odd_data_length': rejects(f3), 'F4_word_out_of_range': rejects(f4) and rejects(f4n),
                      'F5_range_or_field': rejects(f5a) and rejects(f5b) and rejects(f5c),
                      'F6_inconsistent_table': all(rejects(g) for g in f6s)},
        'partial': {'words': [rejects(f4), rejects(f4n)], 'ranges': [rejects(f5a), rejects(f5b), rejects(f5c)],
                    'table': [rejects(g) for g in f6s]},
        'consts': [fjm_consts.FJ_MAGIC, fjm_consts._reserved_dict_threshold, fjm_consts._header_base_size,
                   fjm_consts._header_extension_size, fjm_consts._segment_size, max(v.value for v in FJMVersion)],
        'formats': [fjm_consts._header_base_format, fjm_consts._header_extension_format, fjm_consts._segment_format],
        'widths': sorted(fjm_consts.SUPPORTED_MEMORY_WIDTHS),
        'versions': sorted(v.value for v in FJMVersion),
        'native': NATIVE is not None,
    }


def main():
    req = json.loads(Path(sys.argv[1]).read_text())
    with tempfile.TemporaryDirectory(dir=os.getcwd()) as tmp:
        if req['mode'] == 'probe':
            out = probe(tmp)
        elif req['mode'] == 'c06':
            out = [run_c06(c, tmp) for c in req['cases']]
        elif req['mode'] == 'large':
            out = [run_large(c, tmp) for c in req['cases']]
        elif req['mode'] == 'asm':
            out = [run_asm(c, tmp) for c in req['cases']]
        else:
            out = [run_c10(c, tmp) for c in req['cases']]
    Path(sys.argv[2]).write_text(json.dumps(out))


if __name__ == '__main__':
    main()
