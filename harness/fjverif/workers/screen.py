"""C19: drive the REAL InMemoryScreen.  argv: in.json out.json

two kinds of case:
 * kind 'stream': the bytes are fed through write_bit (lsb first); the memory view is a dict-backed DeviceMemory
   (only read_word/write_word are ours - read_data_byte is the real base-class code) or none at all;
 * kind 'run': an engine case (see engine.py) whose program emits the bytes; the screen is the io_device of a real
   fjm_run.run, the memory view is the adapter the engine attaches.
Observed: a snapshot (pixel_indices, palette, last_frame_rgb, width, height) at every present, frame_hashes, the PNG
written per present into frames_dir (decoded back to RGB rows), the final state, the exception class.
"""
import json
import os
import signal
import struct
import sys
import tempfile
import zlib
from pathlib import Path

from fjverif.workers import engine as eng          # installs the freshly built native engine (FJVERIF_FJCORE_SO)

from flipjump.interpreter import fjm_run  # noqa: E402
from flipjump.interpreter.io_devices.ScreenIO import InMemoryScreen  # noqa: E402
from flipjump.interpreter.io_devices.device_memory import DeviceMemory  # noqa: E402
from flipjump.utils.exceptions import IODeviceException  # noqa: E402


class DictMemory(DeviceMemory):
    def __init__(self, w, words):
        self.memory_width = w
        self.words = dict(words)

    def read_word(self, word_address):
        return self.words.get(word_address, 0)

    def write_word(self, word_address, value):
        self.words[word_address] = value & ((1 << self.memory_width) - 1)


class ObservedScreen(InMemoryScreen):
    """InMemoryScreen unchanged; write_bit additionally snapshots the public state after each present"""

    def __init__(self, frames_dir=None):
        super().__init__(frames_dir=frames_dir)
        self.snapshots = []
        self.attached = None

    def attach_memory(self, device_memory):
        self.attached = type(device_memory).__name__
        super().attach_memory(device_memory)

    def write_bit(self, bit):
        before = self.frame_count
        super().write_bit(bit)
        if self.frame_count != before:
            self.snapshots.append([list(self.pixel_indices), [list(c) for c in self.palette],
                                   [(r << 16) | (g << 8) | b for r, g, b in self.last_frame_rgb], self.width, self.height])


def classify(e):
    return 1 if isinstance(e, IODeviceException) else 2


def decode_png(data):
    """the minimal PNGs of ScreenIO.encode_png: returns [width, height, [rgb codes]] or a string describing the problem"""
    if data[:8] != b'\x89PNG\r\n\x1a\n':
        return 'bad signature'
    pos, chunks = 8, []
    while pos < len(data):
        n, = struct.unpack('>I', data[pos:pos + 4])
        typ, body = data[pos + 4:pos + 8], data[pos + 8:pos + 8 + n]
        crc, = struct.unpack('>I', data[pos + 8 + n:pos + 12 + n])
        if zlib.crc32(typ + body) & 0xFFFFFFFF != crc:
            return 'bad crc'
        chunks.append((typ, body))
        pos += 12 + n
    if [c[0] for c in chunks] != [b'IHDR', b'IDAT', b'IEND']:
        return 'chunks ' + repr([c[0] for c in chunks])
    w, h, depth, ctype, comp, flt, inter = struct.unpack('>IIBBBBB', chunks[0][1])
    if (depth, ctype, comp, flt, inter) != (8, 2, 0, 0, 0):
        return 'header'
    raw = zlib.decompress(chunks[1][1])
    if len(raw) != h * (1 + 3 * w):
        return 'size'
    out = []
    for y in range(h):
        row = raw[y * (1 + 3 * w):(y + 1) * (1 + 3 * w)]
        if row[0] != 0:
            return 'filter'
        out += [(row[1 + 3 * x] << 16) | (row[2 + 3 * x] << 8) | row[3 + 3 * x] for x in range(w)]
    return [w, h, out]


def observe(dev, res):
    res['frames'] = dev.snapshots
    res['rgb'] = [(r << 16) | (g << 8) | b for r, g, b in dev.last_frame_rgb]
    pngs = []
    if dev.frames_dir is not None and dev.frames_dir.exists():
        files = sorted(dev.frames_dir.iterdir())
        res['png_names'] = [f.name for f in files]
        for f in files:
            pngs.append(decode_png(f.read_bytes()))
            f.unlink()
    res['pngs'] = pngs
    res['hashes'] = [h for _, h in dev.frame_hashes]
    res['frame_count'] = dev.frame_count
    res['pix'] = list(dev.pixel_indices)
    res['pal'] = [list(c) for c in dev.palette]
    res['geom'] = [dev.width, dev.height, dev.bpp, dev.palette_size]
    res['rgb_len'] = len(dev.last_frame_rgb)
    return res


def stream_case(c, td):
    dev = ObservedScreen(Path(td) / 'frames')
    if c.get('w') is not None:
        dev.attach_memory(DictMemory(c['w'], {int(a): v for a, v in c['words']}))
    res = {'err': 0}
    try:
        for b in c['bytes']:
            for i in range(8):
                dev.write_bit(bool((b >> i) & 1))
    except BaseException as e:  # noqa
        res['err'] = classify(e)
        res['exc'] = type(e).__name__ + ': ' + str(e)[:160]
    return observe(dev, res)


def run_case(c, td):
    path = Path(td) / 's.fjm'
    eng.write_fjm(path, c)
    for k in ('FLIPJUMP_NO_NATIVE', 'FLIPJUMP_NO_FLAT', 'FLIPJUMP_MEASURE_SPECULATION'):
        os.environ.pop(k, None)
    kw = {}
    if c['engine'] == 'featured':
        kw['profile'] = True
    elif c['engine'] == 'fast':
        os.environ['FLIPJUMP_NO_NATIVE'] = '1'
    else:
        assert eng.NATIVE is not None
        if c.get('no_flat'):
            os.environ['FLIPJUMP_NO_FLAT'] = '1'
        if c.get('flat_max_words'):
            kw['flat_max_words'] = c['flat_max_words']
    dev = ObservedScreen(Path(td) / 'frames')
    res = {'err': 0}
    signal.setitimer(signal.ITIMER_REAL, c.get('watchdog', 10.0))
    try:
        st = fjm_run.run(path, io_device=dev, **kw)
        res['cause'] = int(st.termination_cause)
        res['ops'] = st.op_counter
        res['storage'] = st.storage_mode
    except KeyboardInterrupt:
        res['err'] = 2
        res['exc'] = 'KeyboardInterrupt(escaped)'
    except BaseException as e:  # noqa
        res['err'] = classify(e)
        res['exc'] = type(e).__name__ + ': ' + str(e)[:160]
        if e.__cause__ is not None:
            res['exc'] += ' <- ' + type(e.__cause__).__name__ + ': ' + str(e.__cause__)[:120]
    finally:
        signal.setitimer(signal.ITIMER_REAL, 0)
    res['adapter'] = dev.attached
    return observe(dev, res)


def main():
    signal.signal(signal.SIGALRM, eng._alarm)
    cases = json.loads(Path(sys.argv[1]).read_text())
    out = []
    with tempfile.TemporaryDirectory(dir=os.getcwd()) as td:
        for c in cases:
            out.append(stream_case(c, td) if c['kind'] == 'stream' else run_case(c, td))
    Path(sys.argv[2]).write_text(json.dumps(out))


if __name__ == '__main__':
    main()
