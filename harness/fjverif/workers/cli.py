"""C20 worker.

mode "record": for every case run the three routes IN THIS PROCESS with the callees wrapped from outside, and record the
    argument records that actually reach Writer(...), assembler.assemble(...) and flipjump_quickstart.debug(...)
    (-> fjm_run.run): these are compared, inside Coq, with what Model/Cli.v computes from the user's options.
mode "api": one API route in a fresh process (flipjump_quickstart.assemble then .run, or assemble_and_run), program
    output on the real stdout/stdin of this process (the check pipes them) - the black-box counterpart of the
    `fj` subprocesses.

usage: python -m fjverif.workers.cli in.json out.json
"""
import contextlib
import io
import json
import os
import sys
from pathlib import Path


def kwargs_from_options(o, for_run):
    """the keywords an API user passes for the options he specifies (the others are left to the defaults)"""
    from flipjump.fjm.fjm_consts import FJMVersion
    kw = {}
    if not for_run:
        if o.get('width') is not None:
            kw['memory_width'] = o['width']
        if o.get('version') is not None:
            kw['fjm_version'] = FJMVersion(o['version'])
        if o.get('no_stl'):
            kw['use_stl'] = False
        kw['warning_as_errors'] = bool(o.get('werror'))
        if o.get('debug'):
            kw['debugging_file_path'] = Path(o['debug'])
        if o.get('silent'):
            kw['print_time'] = False
        if o.get('max_depth') is not None:
            kw['max_recursion_depth'] = o['max_depth']
        if o.get('stats'):
            kw['show_statistics'] = True
    else:
        if o.get('debug'):
            kw['debugging_file'] = Path(o['debug'])
        if o.get('silent'):
            kw['print_time'] = False
            kw['print_termination'] = False
        if o.get('trace'):
            kw['show_trace'] = True
        if o.get('debug_ops') is not None:
            kw['last_ops_debugging_list_length'] = o['debug_ops']
    return kw


def needs_low_level(o):
    return o.get('flags') is not None or o.get('preset') is not None


def low_level_assemble(files, out, o):
    """-f / --lzma_preset have no flipjump_quickstart.assemble keyword: the API user builds the Writer himself
    (version: the one asked for, else the documented default when an output file is named: 3; width: 64)"""
    from flipjump import flipjump_quickstart as q     # its Writer / assembler attributes are the (possibly recorded) ones
    from flipjump.fjm.fjm_consts import FJMVersion
    from flipjump.utils.functions import get_file_tuples
    wkw = {}
    if o.get('flags') is not None:
        wkw['flags'] = o['flags']
    if o.get('preset') is not None:
        wkw['lzma_preset'] = o['preset']
    width = o['width'] if o.get('width') is not None else 64
    writer = q.Writer(Path(out), width, FJMVersion(o['version'] if o.get('version') is not None else 3), **wkw)
    kw = {'warning_as_errors': bool(o.get('werror'))}
    if o.get('debug'):
        kw['debugging_file_path'] = Path(o['debug'])
    if o.get('silent'):
        kw['print_time'] = False
    if o.get('max_depth') is not None:
        kw['max_recursion_depth'] = o['max_depth']
    q.assembler.assemble(get_file_tuples([str(Path(f).absolute()) for f in files], no_stl=bool(o.get('no_stl'))),
                         width, writer, **kw)


def api_route(case):
    from flipjump import flipjump_quickstart as q
    from flipjump.utils.classes import TerminationCause  # noqa: F401
    o = case['options']
    res = {}
    try:
        if case.get('combined'):
            kw = kwargs_from_options(o, False)
            kw.pop('debugging_file_path', None)
            if o.get('silent'):
                kw['print_termination'] = False
            t = q.assemble_and_run([Path(f) for f in case['files']], **kw)
        else:
            if needs_low_level(o):
                low_level_assemble(case['files'], o['outfile'], o)
            else:
                q.assemble([Path(f) for f in case['files']], Path(o['outfile']), **kwargs_from_options(o, False))
            t = q.run(Path(o['outfile']), **kwargs_from_options(o, True))
        res['termination'] = str(t.termination_cause)
        res['ops'] = t.op_counter
    except SystemExit as e:
        res['exit'] = e.code
    except Exception as e:  # noqa
        res['exc'] = type(e).__name__
        res['msg'] = str(e)[:300]
    sys.stdout.flush()
    return res


# ---- recording ------------------------------------------------------------------------------------------------

def install_recorders(rec):
    """wrap the callees; the effective arguments are obtained by binding the call to the REAL signature (so a keyword
    a route does not pass shows up with the callee's own default)"""
    import inspect
    from flipjump import flipjump_cli, flipjump_quickstart
    from flipjump.assembler import assembler
    from flipjump.fjm import fjm_writer
    from flipjump.interpreter.io_devices.StandardIO import StandardIO

    real_writer = fjm_writer.Writer
    writer_sig = inspect.signature(real_writer.__init__)

    class RecordingWriter(real_writer):
        def __init__(self, *a, **kw):
            b = writer_sig.bind(self, *a, **kw)
            b.apply_defaults()
            v = b.arguments
            rec['writer'] = {'out': str(v['output_file']), 'width': v['memory_width'],
                             'version': v['version'].value if hasattr(v['version'], 'value') else v['version'],
                             'flags': v['flags'], 'preset': v['lzma_preset']}
            super().__init__(*a, **kw)
    flipjump_cli.Writer = RecordingWriter
    flipjump_quickstart.Writer = RecordingWriter

    real_assemble = assembler.assemble
    asm_sig = inspect.signature(real_assemble)

    def assemble_wrapper(*a, **kw):
        b = asm_sig.bind(*a, **kw)
        b.apply_defaults()
        v = b.arguments
        rec['assemble'] = {'files': [[s, str(p)] for s, p in v['input_files']], 'width': v['memory_width'],
                           'werror': v['warning_as_errors'],
                           'debug': None if v['debugging_file_path'] is None else str(v['debugging_file_path']),
                           'stats': v['show_statistics'], 'print_time': v['print_time'],
                           'max_depth': v['max_recursion_depth'],
                           'writer_is_recorded': isinstance(v['fjm_writer'], RecordingWriter)}
        return real_assemble(*a, **kw)
    assembler.assemble = assemble_wrapper

    real_debug = flipjump_quickstart.debug
    dbg_sig = inspect.signature(real_debug)

    def debug_wrapper(*a, **kw):
        b = dbg_sig.bind(*a, **kw)
        b.apply_defaults()
        v = b.arguments
        dev = v['io_device']
        io_name = 'standard' if dev is None or (type(dev) is StandardIO) else type(dev).__name__
        rec['debug'] = {'fjm': str(v['fjm_path']), 'debug': None if v['debugging_file'] is None else str(v['debugging_file']),
                        'bp_addresses': sorted(v['breakpoints_addresses'] or []), 'bp': sorted(v['breakpoints'] or []),
                        'bp_contains': sorted(v['breakpoints_contains'] or []), 'io': io_name, 'trace': v['show_trace'],
                        'print_time': v['print_time'], 'print_termination': v['print_termination'],
                        'last_ops': v['last_ops_debugging_list_length'], 'profile': v['profile'],
                        'flat_max_words': v['flat_max_words']}
        return real_debug(*a, **kw)
    flipjump_quickstart.debug = debug_wrapper

    real_run = flipjump_quickstart.fjm_run.run

    def run_wrapper(fjm_path, **kw):
        rec['fjm_run'] = {'fjm': str(fjm_path), 'has_breakpoint_handler': kw.get('breakpoint_handler') is not None,
                          'keys': sorted(kw)}
        return real_run(fjm_path, **kw)
    flipjump_quickstart.fjm_run.run = run_wrapper


def run_recorded(fn, stdin_bytes):
    """run fn() with stdin/stdout replaced; returns (outcome dict, stdout text, stderr text)"""
    import flipjump.interpreter.io_devices.StandardIO  # noqa: F401 - binds sys.stdin / sys.stdout at import time
    sio = sys.modules['flipjump.interpreter.io_devices.StandardIO']
    out, err = io.StringIO(), io.StringIO()
    old_stdin = sys.stdin
    old_sio = (sio.stdin, sio.stdout)
    sys.stdin = io.TextIOWrapper(io.BytesIO(stdin_bytes), encoding='latin-1', newline='')
    sio.stdin, sio.stdout = sys.stdin, out
    res = {}
    try:
        with contextlib.redirect_stdout(out), contextlib.redirect_stderr(err):
            fn()
        res['status'] = 'ok'
    except SystemExit as e:
        res['status'] = 'exit'
        res['code'] = e.code
    except Exception as e:  # noqa
        res['status'] = 'exc'
        res['exc'] = type(e).__name__
        res['msg'] = str(e)[:300]
    finally:
        sys.stdin = old_stdin
        sio.stdin, sio.stdout = old_sio
    return res, out.getvalue(), err.getvalue()


def record_case(case, rec):
    from flipjump import flipjump_cli, flipjump_quickstart as q
    os.chdir(case['cwd'])
    stdin_bytes = bytes.fromhex(case.get('stdin', ''))
    routes = {}
    for name, argvs in (('onestep', [case['argv_onestep']]), ('twostep', [case['argv_asm'], case['argv_run']])):
        if any(a is None for a in argvs):
            continue
        parts = []
        for argv in argvs:
            rec.clear()
            res, so, se = run_recorded(lambda: flipjump_cli.assemble_run_according_to_cmd_line_args(cmd_line_args=list(argv)),
                                       stdin_bytes)
            parts.append({'res': res, 'stderr_tail': se.strip().splitlines()[-1:] or [''], 'rec': json.loads(json.dumps(rec))})
            if res['status'] != 'ok':
                break
        routes[name] = parts
    if case.get('api'):
        o = case['options']
        parts = []
        rec.clear()
        if case.get('combined'):
            def call():
                kw = kwargs_from_options(o, False)
                kw.pop('debugging_file_path', None)
                if o.get('silent'):
                    kw['print_termination'] = False
                q.assemble_and_run([Path(f) for f in case['files']], **kw)
            res, so, se = run_recorded(call, stdin_bytes)
            parts.append({'res': res, 'rec': json.loads(json.dumps(rec))})
        else:
            res, so, se = run_recorded(lambda: q.assemble([Path(f) for f in case['files']], Path(case['api_out']),
                                                          **kwargs_from_options(o, False)), stdin_bytes)
            parts.append({'res': res, 'rec': json.loads(json.dumps(rec))})
            if res['status'] == 'ok':
                rec.clear()
                res, so, se = run_recorded(lambda: q.run(Path(case['api_out']), **kwargs_from_options(o, True)), stdin_bytes)
                parts.append({'res': res, 'rec': json.loads(json.dumps(rec))})
        routes['api'] = parts
    return routes


def main():
    payload = json.loads(Path(sys.argv[1]).read_text())
    if payload['mode'] == 'api':
        out = api_route(payload['case'])
    else:
        rec = {}
        install_recorders(rec)
        out = [record_case(c, rec) for c in payload['cases']]
    Path(sys.argv[2]).write_text(json.dumps(out))


if __name__ == '__main__':
    main()
