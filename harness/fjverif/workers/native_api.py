"""Drive the native engine (sanitizer build) with adversarial geometry: raw .fjm files through fjm_run.run and
direct _fjcore.Memory call sequences.  Progress is written before each case so that a sanitizer abort can be
attributed to the case that caused it.  argv: in.json out.json progress_file"""
import collections
import ctypes
import gc
import json
import os
import resource
import signal
import struct
import sys
import tempfile
from pathlib import Path

from fjverif.workers._load import load_native

NATIVE = load_native()

from flipjump.interpreter import fjm_run  # noqa: E402
from flipjump.interpreter.io_devices.FixedIO import FixedIO  # noqa: E402
from flipjump.utils.exceptions import IOReadOnEOF, BrokenIOUsed  # noqa: E402

U64 = (1 << 64) - 1


def raw_fjm(path, w, segs, words, version=1):
    """write an .fjm by hand: segs = [(start, length, data_start, data_length)], words = data pool"""
    with open(path, 'wb') as f:
        f.write(struct.pack('<HHQQ', 0x4a46, w, version, len(segs)))
        if version:
            f.write(struct.pack('<QL', 0, 0))
        for s in segs:
            f.write(struct.pack('<QQQQ', *[x & U64 for x in s]))
        fmt = {8: 'B', 16: 'H', 32: 'L', 64: 'Q'}[w]
        f.write(struct.pack(f'<{len(words)}{fmt}', *[x & ((1 << w) - 1) for x in words]))


class Dev(FixedIO):
    def __init__(self, data, script):
        super().__init__(data)
        self.mem = None
        self.script = script      # device memory accesses performed at each IO call
        self.calls = 0
        self.log = []
        self.fail = None
        self.side_calls = {}
        self.oom = collections.Counter()
        self.shadow = {}

    def attach_memory(self, m):
        self.mem = m

    def _poke(self):
        if self.mem is None:
            return
        for op in self.script.get(str(self.calls), []):
            try:
                if op[0] == 'r':
                    self.log.append(self.mem.read_word(op[1]))
                elif op[0] == 'w':
                    self.mem.write_word(op[1], op[2])
                elif op[0] == 'rb':
                    self.log.append(self.mem.read_data_byte(op[1]))
                elif op[0] == 'wb':
                    self.mem.write_data_byte(op[1], op[2])
                elif op[0] == 'ow':
                    # a write of a fresh page while no memory can be had; afterwards the same word is written again and read back
                    failed = False
                    try:
                        with clamped_address_space():
                            self.mem.write_word(op[1], op[2])
                    except MemoryError:
                        failed = True
                    self.oom['refused' if failed else 'served'] += 1
                    before = self.mem.read_word(op[1]) if failed else None
                    if failed and before != self.shadow.get(op[1], 0):
                        self.oom['MISMATCH'] += 1
                        self.log.append(['oom-mismatch', 'after the refused write', op[1], before])
                    self.mem.write_word(op[1], op[2])
                    self.shadow[op[1]] = op[2] & ((1 << self.mem.memory_width) - 1)
                elif op[0] == 'ocheck':
                    for a, v in self.shadow.items():
                        got = self.mem.read_word(a)
                        if got != v:
                            self.oom['MISMATCH'] += 1
                            self.log.append(['oom-mismatch', 'read back', a, got, v])
            except Exception as e:  # noqa
                self.log.append('exc:' + type(e).__name__)
        self.calls += 1

    def _maybe_fail(self, side):
        """fail = {'on': 'read'|'write', 'at': k, 'exc': name}: the device raises at its k-th IO call of that side"""
        f = getattr(self, 'fail', None)
        if f and f.get('on') == side:
            self.side_calls[side] = self.side_calls.get(side, 0) + 1
            if self.side_calls[side] > f.get('at', 0):
                raise _device_exception(f.get('exc'))

    def read_bit(self):
        self._poke()
        self._maybe_fail('read')
        return super().read_bit()

    def write_bit(self, b):
        self._poke()
        self._maybe_fail('write')
        super().write_bit(b)


def _vm_bytes():
    with open('/proc/self/statm') as f:
        return int(f.read().split()[0]) * os.sysconf('SC_PAGE_SIZE')


def setup_memory_pressure():
    """plain (non-sanitizer) build only: make every allocation of >= 64 KB an mmap of its own, so that with RLIMIT_AS clamped
    to the current usage the engine's 128 KB page allocation fails while small allocations keep being served from the heap"""
    global _LIBC
    try:
        _LIBC = ctypes.CDLL(None)
        _LIBC.malloc.restype = ctypes.c_void_p
        _LIBC.malloc.argtypes = [ctypes.c_size_t]
        _LIBC.mallopt(-3, 65536)        # M_MMAP_THRESHOLD (a fixed value also switches the dynamic threshold off)
    except Exception:  # noqa
        _LIBC = None


_LIBC = None


class clamped_address_space:
    """no growth of the address space inside the block (RLIMIT_AS = current usage); restored on exit"""
    def __enter__(self):
        self.old = resource.getrlimit(resource.RLIMIT_AS)
        resource.setrlimit(resource.RLIMIT_AS, (_vm_bytes(), self.old[1]))
        if _LIBC is not None:
            # use up (and keep) the free heap chunks that could still hold a page: what is left serves small requests only
            for _ in range(4096):
                if not _LIBC.malloc(65536):
                    break

    def __exit__(self, *a):
        resource.setrlimit(resource.RLIMIT_AS, self.old)
        return False


def _device_exception(name):
    return {'OSError': OSError('the device is gone'), 'BrokenIOUsed': BrokenIOUsed('library io error'),
            'KeyboardInterrupt': KeyboardInterrupt()}.get(name) or RuntimeError('device failure')


def _probe_last_ops(m):
    """the getter protocol of Memory.last_run_last_ops: every read hands out an owned reference to a list of ints; reading,
    dropping temporaries (what fjm_run's `last_ops.extend(core.last_run_last_ops)` does) and re-reading leaves the content
    and the engine's own reference intact.  returns (content, problem or None)"""
    a = m.last_run_last_ops
    if type(a) is not list:
        return None, {'why': 'not a list', 'type': type(a).__name__}
    rc1 = sys.getrefcount(a)
    b = m.last_run_last_ops
    rc2 = sys.getrefcount(a)
    same = a is b
    content = list(a)
    del b
    rc3 = sys.getrefcount(a)
    collections.deque(maxlen=8).extend(m.last_run_last_ops)      # a temporary reference, consumed and dropped
    [m.last_run_last_ops for _ in range(3)]
    c = m.last_run_last_ops
    rc4 = sys.getrefcount(a)
    content2 = list(c) if type(c) is list else None
    held = 1 if (c is a) else 0
    del c
    problem = None
    if not all(type(x) is int and 0 <= x < (1 << 64) for x in content):
        problem = {'why': 'content is not a list of addresses'}
    elif content2 != content:
        problem = {'why': 'content changed between reads', 'first': content[:8], 'then': (content2 or [])[:8]}
    elif (same and (rc2 != rc1 + 1 or rc3 != rc1)) or (not same and (rc2 != rc1 or rc3 != rc1)) or rc4 != rc1 + held:
        problem = {'why': 'the getter does not hand out an owned reference', 'same_object': same, 'refcounts': [rc1, rc2, rc3, rc4]}
    return content, problem


def _alarm(signum, frame):
    raise KeyboardInterrupt()


def do_file_case(c, td):
    path = Path(td) / 'x.fjm'
    raw_fjm(path, c['w'], c['segs'], c['words'], c.get('version', 1))
    for k in ('FLIPJUMP_NO_FLAT', 'FLIPJUMP_MEASURE_SPECULATION', 'FLIPJUMP_NO_NATIVE', 'FLIPJUMP_FLAT_MAX_WORDS'):
        os.environ.pop(k, None)
    if c.get('no_flat'):
        os.environ['FLIPJUMP_NO_FLAT'] = '1'
    if c.get('measure'):
        os.environ['FLIPJUMP_MEASURE_SPECULATION'] = '1'
    kw = {}
    if c.get('flat_max_words'):
        kw['flat_max_words'] = c['flat_max_words']
    if c.get('last_ops') is not None:
        kw['last_ops_debugging_list_length'] = c['last_ops']
    dev = Dev(bytes.fromhex(c.get('input', '')), c.get('script', {}))
    dev.fail = c.get('dev_fail')
    signal.setitimer(signal.ITIMER_REAL, 3.0)
    try:
        st = fjm_run.run(path, io_device=dev, **kw)
        res = {'cause': int(st.termination_cause), 'ops': st.op_counter, 'fault': st.memory_error_address, 'log': dev.log[:50]}
    except BaseException as e:  # noqa
        res = {'exc': type(e).__name__, 'msg': str(e)[:120], 'inner': type(e.__cause__).__name__ if e.__cause__ else None}
    finally:
        signal.setitimer(signal.ITIMER_REAL, 0)
    if dev.oom or c.get('expect') == 'oom':
        res['oom'] = dict(dev.oom)
        res['oom_log'] = [x for x in dev.log if isinstance(x, list) and x and x[0] == 'oom-mismatch'][:5]
        dev.mem = None
        gc.collect()           # the engine is freed here
    core = getattr(dev.mem, '_core_memory', None)
    if c.get('dev_fail') and core is not None:
        # the engine object outlives the failed run through the device hook: its kept last-ops list must still be owned by it
        content, problem = _probe_last_ops(core)
        res['kept'] = content
        if problem:
            res['leaks'] = [dict(problem, name='last_run_last_ops', call='fjm_run.run')]
        dev.mem = None
        del core
        gc.collect()
    return res


MODES = {None: 0, 'paged': 1, 'hybrid': 2, 'flat': 3}


def _observe(m):
    """the sizes the C object exposes: [allocated_bytes, storage_mode code]"""
    try:
        return [int(m.allocated_bytes), MODES.get(m.storage_mode, 9)]
    except BaseException:  # noqa
        return None


def _refs(objs):
    return [sys.getrefcount(o) for o in objs]


class _BadTruth:
    def __bool__(self):
        raise RuntimeError('no truth value')


def _make_io(spec, data):
    """read_bit / write_bit callables for a run: FixedIO, optionally misbehaving at the k-th call
    spec = {'read': 'raise'|'nonbool'|'badtruth'|'eof', 'write': 'raise', 'at': k}"""
    dev = FixedIO(data)
    spec = spec or {}
    at = spec.get('at', 0)
    state = {'r': 0, 'w': 0}
    base_r, base_w = dev.read_bit, dev.write_bit

    def read_bit():
        k = state['r']
        state['r'] += 1
        how = spec.get('read')
        if how and k >= at:
            if how == 'raise':
                raise _device_exception(spec.get('exc'))
            if how == 'eof':
                raise IOReadOnEOF('eof')
            if how == 'nonbool':
                return 'a string'
            if how == 'badtruth':
                return _BadTruth()
        return base_r()

    def write_bit(b):
        k = state['w']
        state['w'] += 1
        if spec.get('write') == 'raise' and k >= at:
            raise _device_exception(spec.get('exc'))
        return base_w(b)

    return read_bit, write_bit


def _values(v):
    """a values list for set_words; strings of the form 'neg'/'big'/'str'/'none' stand for bad elements"""
    bad = {'neg': -1, 'big': 1 << 64, 'huge': 1 << 200, 'str': 'x', 'none': None, 'float': 1.5}
    return [bad[x] if isinstance(x, str) else x for x in v]


def do_api_case(c):
    """c['calls'] = list of [name, args...] on one Memory object.  Besides the result of every call: the observable
    sizes after it ('obs') and the reference-count deltas of the objects handed to run()/set_words() ('leaks')."""
    out = []
    obs = []
    leaks = []
    m = None
    # the process environment the engine consults at the storage decision / run dispatch: explicit per case
    env = c.get('env', {})
    for k in ('FLIPJUMP_NO_FLAT', 'FLIPJUMP_MEASURE_SPECULATION', 'FLIPJUMP_NO_NATIVE', 'FLIPJUMP_FLAT_MAX_WORDS'):
        os.environ.pop(k, None)
    if env.get('no_flat'):
        os.environ['FLIPJUMP_NO_FLAT'] = '1'
    if env.get('measure'):
        os.environ['FLIPJUMP_MEASURE_SPECULATION'] = '1'
    if env.get('flat_max_env'):
        os.environ['FLIPJUMP_FLAT_MAX_WORDS'] = str(env['flat_max_env'])
    for ci, call in enumerate(c['calls']):
        name, args = call[0], call[1:]
        watched, before = [], []
        try:
            if name == 'new':
                m = NATIVE.Memory(*args[0], **args[1])
                out.append('ok')
            elif name == 'init':
                m.__init__(*args[0], **args[1])
                out.append('ok')
            elif name == 'run':
                kw = dict(args[1])
                rb, wb = _make_io(kw.pop('io', None), bytes.fromhex(args[0]))
                watched = [rb, wb, IOReadOnEOF]
                before = _refs(watched)
                signal.setitimer(signal.ITIMER_REAL, 2.0)
                try:
                    r = m.run(rb, wb, IOReadOnEOF, **kw)
                finally:
                    signal.setitimer(signal.ITIMER_REAL, 0)
                out.append([r[0], r[1], r[2], list(r[3])[:8]])
                del r
            elif name == 'oom':
                inner = args[0]
                if inner[0] == 'run':
                    kw = dict(inner[2])
                    rb, wb = _make_io(kw.pop('io', None), bytes.fromhex(inner[1]))
                    signal.setitimer(signal.ITIMER_REAL, 2.0)
                    try:
                        with clamped_address_space():
                            r = m.run(rb, wb, IOReadOnEOF, **kw)
                    finally:
                        signal.setitimer(signal.ITIMER_REAL, 0)
                    out.append([r[0], r[1], r[2], list(r[3])[:8]])
                    del r
                else:
                    with clamped_address_space():
                        r = getattr(m, inner[0])(*inner[1:])
                    out.append(r if r is None or isinstance(r, int) else str(r)[:40])
            elif name == 'last_ops_probe':
                content, problem = _probe_last_ops(m)
                if problem:
                    leaks.append(dict(problem, call=ci, name='last_run_last_ops'))
                out.append(['lastops', content])
            elif name == 'get':
                out.append(['attr', str(getattr(m, args[0]))[:80]])
            elif name == 'set_words':
                vals = _values(args[1])
                watched = [vals]
                before = _refs(watched)
                r = m.set_words(args[0], vals)
                out.append(r)
            else:
                r = getattr(m, name)(*args)
                out.append(r if r is None or isinstance(r, int) else str(r)[:40])
        except BaseException as e:  # noqa
            out.append('exc:' + type(e).__name__)
        if name == 'run' and m is not None and hasattr(m, 'last_run_last_ops'):
            _, problem = _probe_last_ops(m)
            if problem:
                leaks.append(dict(problem, call=ci, name='last_run_last_ops', result=str(out[-1])[:60]))
        if watched:
            after = _refs(watched)
            if after != before:
                gc.collect()
                after = _refs(watched)
            if after != before:
                leaks.append({'call': ci, 'name': name, 'before': before, 'after': after, 'result': str(out[-1])[:60]})
        obs.append(_observe(m) if m is not None else None)
    del m                      # the engine's dealloc runs inside the case
    gc.collect()
    res = {'results': out, 'obs': obs}
    if leaks:
        res['leaks'] = leaks
    return res


def main():
    signal.signal(signal.SIGALRM, _alarm)
    if os.environ.get('FJVERIF_MEMORY_PRESSURE'):
        setup_memory_pressure()
    cases = json.loads(Path(sys.argv[1]).read_text())
    prog = Path(sys.argv[3])
    out = []
    with tempfile.TemporaryDirectory(dir=os.getcwd()) as td:
        for i, c in enumerate(cases):
            prog.write_text(str(i))
            out.append(do_file_case(c, td) if c['kind'] == 'file' else do_api_case(c))
            Path(sys.argv[2]).write_text(json.dumps(out))
    prog.write_text('done')


if __name__ == '__main__':
    main()
