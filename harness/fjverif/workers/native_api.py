"""Drive the native engine (sanitizer build) with adversarial geometry: raw .fjm files through fjm_run.run and
direct _fjcore.Memory call sequences.  Progress is written before each case so that a sanitizer abort can be
attributed to the case that caused it.  argv: in.json out.json progress_file"""
import json
import os
import signal
import struct
import sys
import tempfile
from pathlib import Path

from fjverif.workers._load import load_native

NATIVE = load_native()

from flipjump.interpreter import fjm_run  # noqa: E402
from flipjump.interpreter.io_devices.FixedIO import FixedIO  # noqa: E402
from flipjump.utils.exceptions import IOReadOnEOF  # noqa: E402

U64 = (1 << 64) - 1


def raw_fjm(path, w, segs, words, version=1):
    """write an .fjm by hand: segs = [(start, length, data_start, data_length)], words = data pool"""
    with open(path, 'wb') as f:
        f.write(struct.pack('<HHQQ', 0x4a46, w, version, len(segs)))
        if version:
            f.write(struct.pack('<QL', 0, 0))
        for s in segs:
            f.write(struct.pack('<QQQQ', *[x & U64 for x in s]))
        fmt = {8: 'B', 16: 'H', 32: 'L', 64: 'Q'}[w]
        f.write(struct.pack(f'<{len(words)}{fmt}', *[x & ((1 << w) - 1) for x in words]))


class Dev(FixedIO):
    def __init__(self, data, script):
        super().__init__(data)
        self.mem = None
        self.script = script      # device memory accesses performed at each IO call
        self.calls = 0
        self.log = []

    def attach_memory(self, m):
        self.mem = m

    def _poke(self):
        if self.mem is None:
            return
        for op in self.script.get(str(self.calls), []):
            try:
                if op[0] == 'r':
                    self.log.append(self.mem.read_word(op[1]))
                elif op[0] == 'w':
                    self.mem.write_word(op[1], op[2])
                elif op[0] == 'rb':
                    self.log.append(self.mem.read_data_byte(op[1]))
                elif op[0] == 'wb':
                    self.mem.write_data_byte(op[1], op[2])
            except Exception as e:  # noqa
                self.log.append('exc:' + type(e).__name__)
        self.calls += 1

    def read_bit(self):
        self._poke()
        return super().read_bit()

    def write_bit(self, b):
        self._poke()
        super().write_bit(b)


def _alarm(signum, frame):
    raise KeyboardInterrupt()


def do_file_case(c, td):
    path = Path(td) / 'x.fjm'
    raw_fjm(path, c['w'], c['segs'], c['words'], c.get('version', 1))
    for k in ('FLIPJUMP_NO_FLAT', 'FLIPJUMP_MEASURE_SPECULATION', 'FLIPJUMP_NO_NATIVE'):
        os.environ.pop(k, None)
    if c.get('no_flat'):
        os.environ['FLIPJUMP_NO_FLAT'] = '1'
    if c.get('measure'):
        os.environ['FLIPJUMP_MEASURE_SPECULATION'] = '1'
    kw = {}
    if c.get('flat_max_words'):
        kw['flat_max_words'] = c['flat_max_words']
    if c.get('last_ops') is not None:
        kw['last_ops_debugging_list_length'] = c['last_ops']
    dev = Dev(bytes.fromhex(c.get('input', '')), c.get('script', {}))
    signal.setitimer(signal.ITIMER_REAL, 3.0)
    try:
        st = fjm_run.run(path, io_device=dev, **kw)
        return {'cause': int(st.termination_cause), 'ops': st.op_counter, 'fault': st.memory_error_address, 'log': dev.log[:50]}
    except BaseException as e:  # noqa
        return {'exc': type(e).__name__, 'msg': str(e)[:120]}
    finally:
        signal.setitimer(signal.ITIMER_REAL, 0)


def do_api_case(c):
    """c['calls'] = list of [name, args...] on one Memory object"""
    out = []
    m = None
    for call in c['calls']:
        name, args = call[0], call[1:]
        try:
            if name == 'new':
                m = NATIVE.Memory(*args[0], **args[1])
                out.append('ok')
            elif name == 'init':
                m.__init__(*args[0], **args[1])
                out.append('ok')
            elif name == 'run':
                dev = FixedIO(bytes.fromhex(args[0]))
                signal.setitimer(signal.ITIMER_REAL, 2.0)
                try:
                    r = m.run(dev.read_bit, dev.write_bit, IOReadOnEOF, **args[1])
                finally:
                    signal.setitimer(signal.ITIMER_REAL, 0)
                out.append([r[0], r[1], r[2], list(r[3])[:8]])
            elif name == 'get':
                out.append(['attr', str(getattr(m, args[0]))[:80]])
            else:
                r = getattr(m, name)(*args)
                out.append(r if r is None or isinstance(r, int) else str(r)[:40])
        except BaseException as e:  # noqa
            out.append('exc:' + type(e).__name__)
    return {'results': out}


def main():
    signal.signal(signal.SIGALRM, _alarm)
    cases = json.loads(Path(sys.argv[1]).read_text())
    prog = Path(sys.argv[3])
    out = []
    with tempfile.TemporaryDirectory(dir=os.getcwd()) as td:
        for i, c in enumerate(cases):
            prog.write_text(str(i))
            out.append(do_file_case(c, td) if c['kind'] == 'file' else do_api_case(c))
            Path(sys.argv[2]).write_text(json.dumps(out))
    prog.write_text('done')


if __name__ == '__main__':
    main()
