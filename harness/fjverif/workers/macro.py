"""Worker for C03: runs the REAL parser, preprocessor and assembler of the repo on PYTHONPATH.
in.json : {"jobs": [{"id", "w", "depth", "variants": {"a": [[short, text], ...], "b": [...], "c": [...]},
                     "dump": ["a", "c"]}]}
out.json: [{"id", "a": {"image": IMG, "tree": TREE?, "resolve": RES?}, "b": {...}, "c": {...}}]
  IMG  = {"ok": true, "hash", "nwords", "nonzero", "segments": [[start, len], ...]} | {"ok": false, "error": ERR}
  TREE = tree JSON of fjverif/dump_tree.py (before resolve_macros runs)
  RES  = {"ok": true, "ops": [LOP...], "labels": [[name, addr], ...]} | {"ok": false, "error": ERR}
  LOP  = ["fj", e, e] | ["wf", e, e, e] | ["pad", n] | ["seg", start, wflip_start] | ["res", addr]   (e = expr JSON)
  ERR  = {"class", "kind", "msg"}
Variants that are textually identical to an earlier one of the same job are not assembled twice."""
import contextlib
import hashlib
import io
import json
import os
import shutil
import sys
from pathlib import Path

sys.set_int_max_str_digits(0)

KINDS = [
    ("is used but isn't defined", 'unknown_macro'),
    ('maximal macro-expansion recursive depth', 'depth'),
    ('label declared twice', 'dup_label'),
    ("Can't evaluate how many times to repeat", 'rep_times'),
    ("Can't evaluate how much to pad", 'pad_eval'),
    ("'pad' must get a positive", 'pad_nonpositive'),
    ("'pad' requires the current address to be op-aligned", 'pad_unaligned'),
    ('padding ops, which exceeds the', 'pad_too_far'),
    ('segment failed', 'segment_eval'),
    ('segment ops must have a w-aligned', 'segment_unaligned'),
    ('reserve must get a non-negative', 'reserve_negative'),
    ('reserve failed', 'reserve_eval'),
    ('reserve ops must have a w-aligned', 'reserve_unaligned'),
    ('Bad label swap', 'bad_label_swap'),
    ("Can't calculate rep arguments", 'rep_args'),
    ('bad math operation', 'eval_new'),
]


def err_info(e):
    msg = str(e)
    kind = 'other'
    for pat, k in KINDS:
        if pat in msg:
            kind = k
            break
    cause = e.__cause__
    return {'class': type(e).__name__, 'kind': kind, 'msg': msg[:400],
            'cause': type(cause).__name__ if cause is not None else None}


def write_files(d, variant):
    d.mkdir(parents=True, exist_ok=True)
    files = []
    for short, text in variant:
        p = d / f'{short}.fj'
        p.write_text(text, encoding='utf-8')
        files.append((short, p))
    return files


def lop_json(op):
    from flipjump.assembler.inner_classes import ops as O
    from fjverif.dump_tree import expr_to_json, DumpError
    t = type(op)
    if t is O.FlipJump:
        return ['fj', expr_to_json(op.flip), expr_to_json(op.jump)]
    if t is O.WordFlip:
        return ['wf', expr_to_json(op.word_address), expr_to_json(op.flip_value), expr_to_json(op.return_address)]
    if t is O.Padding:
        return ['pad', op.ops_count]
    if t is O.NewSegment:
        return ['seg', op.start_address, op.wflip_start_address]
    if t is O.ReserveBits:
        return ['res', op.first_address_after_reserved]
    raise DumpError(f'unknown last-phase op {t.__name__}')


def run_variant(files, w, depth, out_path, dump):
    from flipjump.assembler import assembler
    from flipjump.assembler.fj_parser import parse_macro_tree
    from flipjump.assembler.preprocessor import resolve_macros
    from flipjump.fjm.fjm_consts import FJMVersion
    from flipjump.fjm.fjm_reader import Reader
    from flipjump.fjm.fjm_writer import Writer
    from fjverif import dump_tree
    res = {}
    limit = sys.getrecursionlimit()
    buf = io.StringIO()
    if dump:
        try:
            with contextlib.redirect_stdout(buf):
                macros = parse_macro_tree(files, w, True)
        except Exception as e:
            res['tree'] = None
            res['resolve'] = {'ok': False, 'error': dict(err_info(e), stage='parse')}
        else:
            res['tree'] = dump_tree.tree_to_json(macros, w)
            try:
                with contextlib.redirect_stdout(buf):
                    ops, labels = resolve_macros(w, macros, max_recursion_depth=depth)
                res['resolve'] = {'ok': True, 'ops': [lop_json(o) for o in ops],
                                  'labels': [[k, v] for k, v in labels.items()]}
            except Exception as e:
                res['resolve'] = {'ok': False, 'error': dict(err_info(e), stage='resolve')}
            finally:
                sys.setrecursionlimit(limit)
    try:
        if out_path.exists():
            out_path.unlink()
        with contextlib.redirect_stdout(buf):
            wr = Writer(out_path, w, FJMVersion.NormalVersion)
            assembler.assemble(files, w, wr, print_time=False, max_recursion_depth=depth)
        r = Reader(out_path)
        mem = sorted((int(a), int(v)) for a, v in r.memory.items())
        segs = [[s.segment_start, s.segment_length] for s in r.memory_segments]
        zeros = [list(z) for z in r.zeros_boundaries]
        h = hashlib.sha1(json.dumps([mem, segs, zeros]).encode()).hexdigest()
        res['image'] = {'ok': True, 'hash': h, 'nwords': len(mem), 'nonzero': sum(1 for _, v in mem if v),
                        'segments': segs}
    except Exception as e:
        res['image'] = {'ok': False, 'error': err_info(e)}
    finally:
        sys.setrecursionlimit(limit)
    return res


def run_ns(job, d):
    """{"curr": [ns...], "spelled": str} -> the name the real parser gives to the label `spelled` used inside the
    nested namespaces curr, or None when parsing fails"""
    from flipjump.assembler.fj_parser import parse_macro_tree
    d.mkdir(parents=True, exist_ok=True)
    lines = [f'ns {n} {{' for n in job['curr']] + [f'; {job["spelled"]}'] + ['}' for _ in job['curr']]
    p = d / 'n.fj'
    p.write_text('\n'.join(lines) + '\n')
    buf = io.StringIO()
    try:
        with contextlib.redirect_stdout(buf):
            macros = parse_macro_tree([('f1', p)], 64, True)
    except Exception as e:
        return {'name': None, 'error': type(e).__name__}
    ops = next(iter(macros.values())).ops
    v = ops[0].jump.value
    return {'name': v if isinstance(v, str) else None}


def main():
    inp, outp = sys.argv[1], sys.argv[2]
    payload = json.load(open(inp))
    work = Path(os.getcwd()) / f'macro_{os.getpid()}'
    if 'ns_jobs' in payload:
        res = [run_ns(j, work / f'ns{i}') for i, j in enumerate(payload['ns_jobs'])]
        shutil.rmtree(work, ignore_errors=True)
        with open(outp, 'w') as f:
            json.dump(res, f)
        return
    out = []
    for ji, job in enumerate(payload['jobs']):
        r = {'id': job['id']}
        seen = {}
        for name in ('a', 'b', 'c'):
            v = job['variants'].get(name)
            if v is None:
                continue
            dump = name in job.get('dump', [])
            key = json.dumps(v)
            if key in seen and not dump:
                r[name] = {'image': r[seen[key]]['image'], 'same_text_as': seen[key]}
                continue
            d = work / f'j{ji}_{name}'
            files = write_files(d, v)
            r[name] = run_variant(files, job['w'], job['depth'], d / 'out.fjm', dump)
            seen.setdefault(key, name)
            shutil.rmtree(d, ignore_errors=True)
        out.append(r)
    shutil.rmtree(work, ignore_errors=True)
    with open(outp, 'w') as f:
        json.dump(out, f)


if __name__ == '__main__':
    main()
