"""Assemble stl harness programs with the CURRENT assembler + stl of the repo under test and read the images
back with the real Reader.  argv: in.json out.json

in : {"jobs": [{"name", "fj" (program text), "w", "dir", "temps": [local label names], "want_words": bool}]}
out: [{"name", "ok", "error", "fjm", "segs": [[start, length]], "words": [[start, [w0, w1, ...]]],
       "labels": {top-level label: bit address}, "locals": [[local name, bit address]], "nwords"}]
"""
import io
import json
import sys
import traceback
from contextlib import redirect_stdout
from pathlib import Path

import flipjump
from flipjump.fjm.fjm_reader import Reader
from flipjump.utils.functions import load_debugging_labels


def assemble_one(job):
    d = Path(job['dir'])
    d.mkdir(parents=True, exist_ok=True)
    src = d / (job['name'] + '.fj')
    fjm = d / (job['name'] + '.fjm')
    fjd = d / (job['name'] + '.fjd')
    src.write_text(job['fj'])
    res = {'name': job['name'], 'ok': False, 'fjm': str(fjm)}
    buf = io.StringIO()
    try:
        with redirect_stdout(buf):
            flipjump.assemble([src], fjm, memory_width=job['w'], debugging_file_path=fjd, print_time=False)
        labels = load_debugging_labels(fjd)
        rd = Reader(fjm)
    except BaseException as e:  # noqa  (an assembly failure is data for the check, not a worker crash)
        res['error'] = (type(e).__name__ + ': ' + str(e))[:1500] + ' | ' + buf.getvalue()[-500:]
        res['trace'] = traceback.format_exc()[-1500:]
        return res
    assert rd.memory_width == job['w']
    segs = [[s.segment_start, s.segment_length] for s in rd.memory_segments]
    res['segs'] = segs
    res['nwords'] = sum(l for _, l in segs)
    if job.get('want_words', True):
        res['words'] = [[s, [rd.memory.get(a, 0) for a in range(s, s + l)]] for s, l in segs]
    temps = set(job.get('temps', []))
    res['labels'] = {k: v for k, v in labels.items() if '---' not in k}
    res['locals'] = [[k.rsplit('---', 1)[1], v] for k, v in labels.items()
                     if '---' in k and k.rsplit('---', 1)[1] in temps]
    fjd.unlink()
    res['ok'] = True
    return res


def main():
    payload = json.loads(Path(sys.argv[1]).read_text())
    out = [assemble_one(j) for j in payload['jobs']]
    Path(sys.argv[2]).write_text(json.dumps(out))


if __name__ == '__main__':
    main()
