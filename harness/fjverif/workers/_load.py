"""Install the freshly compiled native engine (FJVERIF_FJCORE_SO) in place of any prebuilt one, before
the flipjump package is imported."""
import importlib.machinery
import importlib.util
import os
import sys


def load_native():
    so = os.environ.get('FJVERIF_FJCORE_SO')
    if not so:
        return None
    name = 'flipjump.interpreter._fjcore'
    loader = importlib.machinery.ExtensionFileLoader(name, so)
    spec = importlib.util.spec_from_file_location(name, so, loader=loader)
    mod = importlib.util.module_from_spec(spec)
    spec.loader.exec_module(mod)
    sys.modules[name] = mod
    import flipjump.interpreter as pkg
    pkg._fjcore = mod
    from flipjump.interpreter import fjm_run
    assert fjm_run._fjcore is mod, 'native engine override failed'
    return mod
