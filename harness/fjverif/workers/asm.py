"""Worker: assemble primitive .fj programs with the REAL assembler (no stl) and report what C02 observes.
in.json : {"jobs": [{"src": "<fj text>", "w": int, "version": 0..3}, ...]}
out.json: per job {"tree": <macro tree JSON, fjverif/dump_tree.py> | "parse_error": {...},
                   "ok": {"segments": [[start, len], ...],         Reader(file).memory_segments, file order
                          "words": [[addr, value], ...],           non-zero words of Reader(file).memory, per segment ascending
                          "labels": [[name, value], ...]}          load_debugging_labels(file), dict order
                 | "error": {"class": str, "message": str, "cause": str|None, "file_left": bool}}
The source is assembled exactly like `fj --asm --no_stl -w W -v V f1.fj`: assembler.assemble([('f1', path)], w, Writer)."""
import contextlib
import io
import json
import os
import shutil
import sys
from pathlib import Path

sys.set_int_max_str_digits(0)


def run_job(job, d):
    from flipjump.assembler import assembler
    from flipjump.assembler.fj_parser import parse_macro_tree
    from flipjump.fjm.fjm_consts import FJMVersion
    from flipjump.fjm.fjm_reader import Reader
    from flipjump.fjm.fjm_writer import Writer
    from flipjump.utils.functions import load_debugging_labels
    from fjverif import dump_tree
    w, ver = job['w'], job['version']
    src = Path('f1.fj')
    src.write_text(job['src'], encoding='utf-8')
    out, dbg = Path('out.fjm'), Path('out.dbg')
    for p in (out, dbg):
        if p.exists():
            p.unlink()
    res = {}
    buf = io.StringIO()
    try:
        with contextlib.redirect_stdout(buf):
            macros = parse_macro_tree([('f1', src)], w, True)
    except Exception as e:
        return {'parse_error': {'class': type(e).__name__, 'message': str(e)[:600]}}
    res['tree'] = dump_tree.tree_to_json(macros, w)
    try:
        with contextlib.redirect_stdout(buf):
            writer = Writer(out, w, FJMVersion(ver))
            assembler.assemble([('f1', src)], w, writer, debugging_file_path=dbg, print_time=False)
    except Exception as e:
        cause = e.__cause__
        res['error'] = {'class': type(e).__name__, 'message': str(e)[:600],
                        'cause': (type(cause).__module__ + '.' + type(cause).__name__) if cause is not None else None,
                        'file_left': out.exists()}
        return res
    try:
        r = Reader(out)
    except Exception as e:
        # the assembler reported success but its output does not load: a mis-assembly, reported by the check
        res['unloadable'] = {'class': type(e).__name__, 'message': str(e)[:600]}
        return res
    segs = [[s.segment_start, s.segment_length] for s in r.memory_segments]
    words = []
    for s, l in segs:
        ks = sorted(k for k in r.memory if s <= k < s + l)
        words += [[k, r.memory[k]] for k in ks if r.memory[k] != 0]
    labels = load_debugging_labels(dbg)
    res['ok'] = {'segments': segs, 'words': words, 'labels': [[k, v] for k, v in labels.items()]}
    return res


def main():
    inp, outp = sys.argv[1], sys.argv[2]
    payload = json.load(open(inp))
    d = Path(os.getcwd()) / f'asm_{os.getpid()}'
    d.mkdir(parents=True, exist_ok=True)
    cwd = os.getcwd()
    os.chdir(d)
    try:
        res = [run_job(j, d) for j in payload['jobs']]
    finally:
        os.chdir(cwd)
        shutil.rmtree(d, ignore_errors=True)
    with open(outp, 'w') as f:
        json.dump(res, f)


if __name__ == '__main__':
    main()
