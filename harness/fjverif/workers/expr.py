"""C12 worker: runs the REAL parser / assembler of the repository under test on generated sources.

usage: python -m fjverif.workers.expr in.json out.json       (cwd = the check's scratch directory)
in : list of jobs  {"mode": "parse"|"asm", "w": int, "src": str, "words": [word addresses]}
out: list of results, same order:
   parse: {"trees": [[flip, jump], ...]}   the FlipJump statements of the main macro, in order;
                                            expression JSON = int | "label" | [op, [args...]]
   asm  : {"words": [values...]}            Reader(output).memory at the requested word addresses
   any  : {"error": {"class", "catchall", "cause", "msg", "file_left"}}
"""
import contextlib
import io
import json
import os
import resource
import shutil
import signal
import sys
from pathlib import Path

# NB: the interpreter's int<->str digit limit is left at its default: it is part of the observed behaviour


class Timeout(Exception):
    pass


def _alarm(signum, frame):
    raise Timeout()


def dump_expr(e, Expr):
    if type(e) is not Expr:
        raise RuntimeError(f'unknown expression node {type(e)}')
    v = e.value
    if isinstance(v, bool):
        raise RuntimeError('bool inside an Expr')
    if isinstance(v, int):
        return str(v)                       # as text: JSON numbers lose nothing in Python, but keep it explicit
    if isinstance(v, str):
        return {'l': v}
    if isinstance(v, tuple) and len(v) == 2 and isinstance(v[0], str) and isinstance(v[1], tuple):
        return {'o': v[0], 'a': [dump_expr(a, Expr) for a in v[1]]}
    raise RuntimeError(f'unknown Expr payload {v!r}')


def describe(exc, out_path):
    c = exc.__cause__
    return {'error': {'class': type(exc).__name__,
                      'catchall': str(exc).startswith('Unknown exception during assembling'),
                      'cause': type(c).__name__ if c is not None else None,
                      'msg': str(exc)[:300],
                      'file_left': bool(out_path and out_path.exists())}}


def main():
    inp, outp = sys.argv[1], sys.argv[2]
    jobs = json.loads(Path(inp).read_text())
    # a wrong implementation may compute something enormous: fail with MemoryError instead of being OOM-killed
    resource.setrlimit(resource.RLIMIT_AS, (4 << 30, 4 << 30))
    import flipjump
    from flipjump.assembler.fj_parser import parse_macro_tree
    from flipjump.assembler.inner_classes.expr import Expr
    from flipjump.assembler.inner_classes.ops import FlipJump, INITIAL_MACRO_NAME
    from flipjump.fjm.fjm_reader import Reader

    work = Path(os.getcwd()) / f'expr_worker_{os.getpid()}'
    work.mkdir()
    signal.signal(signal.SIGALRM, _alarm)
    results = []
    sink = io.StringIO()
    try:
        for k, job in enumerate(jobs):
            src = work / 't.fj'
            out = work / 't.fjm'
            src.write_text(job['src'])
            if out.exists():
                out.unlink()
            sink.seek(0)
            sink.truncate()
            signal.alarm(int(job.get('timeout', 20)))
            try:
                with contextlib.redirect_stdout(sink), contextlib.redirect_stderr(sink):
                    if job['mode'] == 'parse':
                        macros = parse_macro_tree([('t', src)], job['w'], False)
                        ops = macros[INITIAL_MACRO_NAME].ops
                        trees = [[dump_expr(op.flip, Expr), dump_expr(op.jump, Expr)] for op in ops
                                 if isinstance(op, FlipJump)]
                        res = {'trees': trees}
                    else:
                        flipjump.assemble([src], out, memory_width=job['w'], use_stl=False,
                                          warning_as_errors=False, print_time=False)
                        mem = Reader(out).memory
                        res = {'words': [str(mem[a]) if a in mem else None for a in job['words']]}
            except Timeout:
                res = {'error': {'class': 'Timeout', 'catchall': False, 'cause': None, 'msg': '', 'file_left': False}}
            except RecursionError as e:
                res = describe(e, out)
            except Exception as e:           # the observable IS the exception
                res = describe(e, out)
            finally:
                signal.alarm(0)
            results.append(res)
    finally:
        shutil.rmtree(work, ignore_errors=True)
    Path(outp).write_text(json.dumps(results))


if __name__ == '__main__':
    main()
