"""Run engine cases against the real implementation. argv: in.json out.json"""
import json
import os
import signal
import sys
import tempfile
from pathlib import Path

from fjverif.workers._load import load_native

NATIVE = load_native()

from flipjump.fjm.fjm_consts import FJMVersion  # noqa: E402
from flipjump.fjm.fjm_writer import Writer  # noqa: E402
from flipjump.interpreter import fjm_run  # noqa: E402
from flipjump.interpreter.io_devices.FixedIO import FixedIO  # noqa: E402


class Dev(FixedIO):
    def __init__(self, data):
        super().__init__(data)
        self.memview = None
        self.nbits = 0
        self.bits = 0

    def attach_memory(self, device_memory):
        self.memview = device_memory

    def write_bit(self, bit):
        self.bits |= (1 if bit else 0) << self.nbits
        self.nbits += 1
        super().write_bit(bit)


def write_fjm(path, case):
    wr = Writer(path, case['w'], FJMVersion(case.get('version', 1)))
    for start, length, data in case['segs']:
        ds = wr.add_data(list(data))
        wr.add_segment(start, length, ds, len(data))
    wr.write_to_file()


def _alarm(signum, frame):
    raise KeyboardInterrupt()


def run_case(case, tmpdir):
    path = Path(tmpdir) / 'c.fjm'
    write_fjm(path, case)
    engine = case['engine']
    for k in ('FLIPJUMP_NO_NATIVE', 'FLIPJUMP_NO_FLAT', 'FLIPJUMP_MEASURE_SPECULATION'):
        os.environ.pop(k, None)
    kwargs = {}
    if engine == 'featured':
        kwargs['profile'] = True
    elif engine == 'fast':
        os.environ['FLIPJUMP_NO_NATIVE'] = '1'
    else:
        assert NATIVE is not None, 'native engine requested without FJVERIF_FJCORE_SO'
        if case.get('no_flat'):
            os.environ['FLIPJUMP_NO_FLAT'] = '1'
        if case.get('measure'):
            os.environ['FLIPJUMP_MEASURE_SPECULATION'] = '1'
        if case.get('flat_max_words'):
            kwargs['flat_max_words'] = case['flat_max_words']
    if case.get('last_ops') is not None:
        kwargs['last_ops_debugging_list_length'] = case['last_ops']
    dev = Dev(bytes.fromhex(case.get('input', '')))
    res = {}
    signal.setitimer(signal.ITIMER_REAL, case.get('watchdog', 10.0))
    try:
        st = fjm_run.run(path, io_device=dev, **kwargs)
        res['cause'] = int(st.termination_cause)
        res['ops'] = st.op_counter
        res['fault'] = st.memory_error_address
        res['last_ops'] = list(st.last_ops_addresses) if st.last_ops_addresses is not None else None
        res['storage'] = st.storage_mode
    except KeyboardInterrupt:
        res['exc'] = 'KeyboardInterrupt(escaped)'
    except BaseException as e:  # noqa
        res['exc'] = type(e).__name__ + ': ' + str(e)[:200]
    finally:
        signal.setitimer(signal.ITIMER_REAL, 0)
    nfull = dev.nbits // 8
    res['out'] = [dev.nbits, list(dev.bits.to_bytes(nfull + 1, 'little')[:nfull]) if dev.nbits < 400000 else None, dev.bits >> (8 * nfull)]
    res['in_left'] = [len(dev.remaining_input), dev.bits_to_read_in_input_byte]
    if case.get('read_mem') and dev.memview is not None and 'exc' not in res:
        memo = {}
        for a in case['read_mem']:
            try:
                memo[str(a)] = dev.memview.read_word(a)
            except BaseException as e:  # noqa
                memo[str(a)] = 'exc:' + type(e).__name__
        res['mem'] = memo
    return res


def main():
    signal.signal(signal.SIGALRM, _alarm)
    cases = json.loads(Path(sys.argv[1]).read_text())
    out = []
    with tempfile.TemporaryDirectory(dir=os.getcwd()) as td:
        for c in cases:
            out.append(run_case(c, td))
    Path(sys.argv[2]).write_text(json.dumps(out))


if __name__ == '__main__':
    main()
