"""Assemble the harness image of the compositional stl theorems (fjverif/stl_compose.py) with the CURRENT assembler +
stl of the repo under test and read it back with the real Reader.  argv: in.json out.json

Same as workers/stl_asm.py, but it also returns the macro-local labels (full names) inside the requested address
windows - stl_compose.py finds the digit boundaries of a `rep` in them.

in : {"jobs": [{"name", "fj", "w", "dir", "windows": [[top-level label from, top-level label to]], "temps": [names]}]}
out: [{"name", "ok", "error", "fjm", "segs", "words", "labels", "locals", "inner": [[full label name, bit address]], "nwords"}]
"""
import io
import json
import sys
import traceback
from contextlib import redirect_stdout
from pathlib import Path

import flipjump
from flipjump.fjm.fjm_reader import Reader
from flipjump.utils.functions import load_debugging_labels


def assemble_one(job):
    d = Path(job['dir'])
    d.mkdir(parents=True, exist_ok=True)
    src = d / (job['name'] + '.fj')
    fjm = d / (job['name'] + '.fjm')
    fjd = d / (job['name'] + '.fjd')
    src.write_text(job['fj'])
    res = {'name': job['name'], 'ok': False, 'fjm': str(fjm)}
    buf = io.StringIO()
    try:
        with redirect_stdout(buf):
            flipjump.assemble([src], fjm, memory_width=job['w'], debugging_file_path=fjd, print_time=False)
        labels = load_debugging_labels(fjd)
        rd = Reader(fjm)
    except BaseException as e:  # noqa  (an assembly failure is data for the check, not a worker crash)
        res['error'] = (type(e).__name__ + ': ' + str(e))[:1500] + ' | ' + buf.getvalue()[-500:]
        res['trace'] = traceback.format_exc()[-1500:]
        return res
    assert rd.memory_width == job['w']
    segs = [[s.segment_start, s.segment_length] for s in rd.memory_segments]
    res['segs'] = segs
    res['nwords'] = sum(l for _, l in segs)
    res['words'] = [[s, [rd.memory.get(a, 0) for a in range(s, s + l)]] for s, l in segs]
    temps = set(job.get('temps', []))
    top = {k: v for k, v in labels.items() if '---' not in k}
    res['labels'] = top
    res['locals'] = [[k.rsplit('---', 1)[1], v] for k, v in labels.items()
                     if '---' in k and k.rsplit('---', 1)[1] in temps]
    wins = [(top[a], top[b]) for a, b in job.get('windows', []) if a in top and b in top]
    res['inner'] = sorted(([k, v] for k, v in labels.items()
                           if '---' in k and any(lo <= v <= hi for lo, hi in wins)), key=lambda kv: kv[1])
    fjd.unlink()
    res['ok'] = True
    return res


def main():
    payload = json.loads(Path(sys.argv[1]).read_text())
    out = [assemble_one(j) for j in payload['jobs']]
    Path(sys.argv[2]).write_text(json.dumps(out))


if __name__ == '__main__':
    main()
