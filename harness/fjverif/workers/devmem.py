"""C19: run engine cases with a scripted device that reads/writes the interpreter memory through the DeviceMemory
it is handed by attach_memory.  argv: in.json out.json

case = engine.py case + 'attach': [action...], 'script': {call_index: [action...]}, 'read_mem': [word addresses]
action = ['r', a] | ['w', a, v] | ['rb', op_bit_address] | ['wb', op_bit_address, v]
"""
import json
import os
import signal
import sys
import tempfile
from pathlib import Path

from fjverif.workers import engine as eng          # installs the freshly built native engine (FJVERIF_FJCORE_SO)

from flipjump.interpreter import fjm_run  # noqa: E402
from flipjump.interpreter.io_devices.FixedIO import FixedIO  # noqa: E402


class ScriptedDev(FixedIO):
    def __init__(self, data, attach, script):
        super().__init__(data)
        self.memview = None
        self.attach_actions = attach
        self.script = script
        self.calls = 0
        self.log = []
        self.nbits = 0
        self.bits = 0

    def _play(self, actions):
        mem = self.memview
        for act in actions:
            try:
                if act[0] == 'r':
                    self.log.append(mem.read_word(act[1]))
                elif act[0] == 'w':
                    mem.write_word(act[1], act[2])
                elif act[0] == 'rb':
                    self.log.append(mem.read_data_byte(act[1]))
                elif act[0] == 'wb':
                    mem.write_data_byte(act[1], act[2])
            except Exception as e:  # noqa
                self.log.append('exc:' + type(e).__name__)

    def attach_memory(self, device_memory):
        self.memview = device_memory
        self._play(self.attach_actions)

    def _poke(self):
        if self.memview is not None:
            self._play(self.script.get(str(self.calls), []))
        self.calls += 1

    def read_bit(self):
        self._poke()
        return super().read_bit()

    def write_bit(self, bit):
        self._poke()
        self.bits |= (1 if bit else 0) << self.nbits
        self.nbits += 1
        super().write_bit(bit)


def run_case(case, tmpdir):
    path = Path(tmpdir) / 'c.fjm'
    eng.write_fjm(path, case)
    engine = case['engine']
    for k in ('FLIPJUMP_NO_NATIVE', 'FLIPJUMP_NO_FLAT', 'FLIPJUMP_MEASURE_SPECULATION'):
        os.environ.pop(k, None)
    kwargs = {}
    if engine == 'featured':
        kwargs['profile'] = True
    elif engine == 'fast':
        os.environ['FLIPJUMP_NO_NATIVE'] = '1'
    else:
        assert eng.NATIVE is not None, 'native engine requested without FJVERIF_FJCORE_SO'
        if case.get('no_flat'):
            os.environ['FLIPJUMP_NO_FLAT'] = '1'
        if case.get('measure'):
            os.environ['FLIPJUMP_MEASURE_SPECULATION'] = '1'
        if case.get('flat_max_words'):
            kwargs['flat_max_words'] = case['flat_max_words']
    dev = ScriptedDev(bytes.fromhex(case.get('input', '')), case.get('attach', []), case.get('script', {}))
    res = {}
    signal.setitimer(signal.ITIMER_REAL, case.get('watchdog', 10.0))
    try:
        st = fjm_run.run(path, io_device=dev, **kwargs)
        res['cause'] = int(st.termination_cause)
        res['ops'] = st.op_counter
        res['fault'] = st.memory_error_address
        res['storage'] = st.storage_mode
    except KeyboardInterrupt:
        res['exc'] = 'KeyboardInterrupt(escaped)'
    except BaseException as e:  # noqa
        res['exc'] = type(e).__name__ + ': ' + str(e)[:200]
    finally:
        signal.setitimer(signal.ITIMER_REAL, 0)
    nfull = dev.nbits // 8
    res['out'] = [dev.nbits, list(dev.bits.to_bytes(nfull + 1, 'little')[:nfull]) if dev.nbits < 400000 else None,
                  dev.bits >> (8 * nfull)]
    res['calls'] = dev.calls
    res['log'] = dev.log[:100000]
    res['adapter'] = type(dev.memview).__name__ if dev.memview is not None else None
    if dev.memview is not None and 'exc' not in res:
        memo = {}
        for a in case.get('read_mem', []):
            try:
                memo[str(a)] = dev.memview.read_word(a)
            except BaseException as e:  # noqa
                memo[str(a)] = 'exc:' + type(e).__name__
        res['mem'] = memo
    return res


def main():
    signal.signal(signal.SIGALRM, eng._alarm)
    cases = json.loads(Path(sys.argv[1]).read_text())
    out = []
    with tempfile.TemporaryDirectory(dir=os.getcwd()) as td:
        for c in cases:
            out.append(run_case(c, td))
    Path(sys.argv[2]).write_text(json.dumps(out))


if __name__ == '__main__':
    main()
