"""Worker: run the REAL parser (parse_macro_tree of the repo on PYTHONPATH) and dump the macro tree as JSON.
in.json : {"jobs": [{"w": int, "sources": [[short, text], ...] | "files": [[short, path], ...],
                     "warning_as_errors": bool (default true)}, ...]}
out.json: [ {"tree": <tree, see fjverif/dump_tree.py>} | {"error": {"class": str, "message": str}}, ... ]
A DumpError (unknown node shape) is NOT caught: the worker dies and the check reports a broken translator."""
import contextlib
import io
import json
import os
import sys
from pathlib import Path

sys.set_int_max_str_digits(0)


def parse_job(job, workdir, idx):
    from flipjump.assembler.fj_parser import parse_macro_tree
    from fjverif import dump_tree
    w = job['w']
    if 'sources' in job:
        d = workdir / f'job{idx}'
        d.mkdir(parents=True, exist_ok=True)
        files = []
        for short, text in job['sources']:
            p = d / f'{short}.fj'
            p.write_text(text, encoding='utf-8')
            files.append((short, p))
    else:
        files = [(s, Path(p)) for s, p in job['files']]
    buf = io.StringIO()
    try:
        with contextlib.redirect_stdout(buf):
            macros = parse_macro_tree(files, w, job.get('warning_as_errors', True))
    except Exception as e:      # the parser's verdict on the source: reported, not judged here
        return {'error': {'class': type(e).__name__, 'message': str(e)[:2000], 'stdout': buf.getvalue()[:2000]}}
    return {'tree': dump_tree.tree_to_json(macros, w)}


def main():
    inp, outp = sys.argv[1], sys.argv[2]
    payload = json.load(open(inp))
    workdir = Path(os.getcwd()) / f'dump_{os.getpid()}'
    res = [parse_job(j, workdir, i) for i, j in enumerate(payload['jobs'])]
    import shutil
    shutil.rmtree(workdir, ignore_errors=True)
    with open(outp, 'w') as f:
        json.dump(res, f)


if __name__ == '__main__':
    main()
