"""Drive the REAL io devices of the repo under test (FixedIO, StandardIO, KeyboardIO, BrokenIO) through
sequences of read_bit / write_bit / get_output calls and record every answer.  argv: in.json out.json

operation codes: 0 read_bit(), 1 write_bit(False), 2 write_bit(True), 3 get_output(allow_incomplete_output=False),
4 get_output(allow_incomplete_output=True).
answers: 0/1 the bool returned by read_bit, 2 IOReadOnEOF, 3 write_bit returned None, 4 IncompleteOutput,
5 BrokenIOUsed, 7 OverflowError, 8 IndexError, ['b', hex] the bytes returned by get_output,
['x', text] anything else (other exception, wrong return type)."""
import importlib
import io
import json
import sys

from flipjump.interpreter.io_devices.BrokenIO import BrokenIO
from flipjump.interpreter.io_devices.FixedIO import FixedIO
from flipjump.interpreter.io_devices.KeyboardIO import KeyboardIO, KeyEvent, ScriptedKeyEventSource
from flipjump.interpreter.io_devices.StandardIO import StandardIO
from flipjump.utils.exceptions import BrokenIOUsed, IncompleteOutput, IODeviceException, IOReadOnEOF

STD_MODULE = importlib.import_module('flipjump.interpreter.io_devices.StandardIO')
assert hasattr(STD_MODULE, 'stdin') and hasattr(STD_MODULE, 'stdout'), 'StandardIO no longer binds stdin/stdout by name'


def classify_exception(e):
    t = type(e)
    if t is IOReadOnEOF:
        return 2
    if t is IncompleteOutput:
        return 4
    if t is BrokenIOUsed:
        return 5
    if t is OverflowError:
        return 7
    if t is IndexError:
        return 8
    return ['x', f'{t.__name__}: {e}'[:200]]


def do_op(dev, code):
    try:
        if code == 0:
            r = dev.read_bit()
            if r is True:
                return 1
            if r is False:
                return 0
            return ['x', f'read_bit returned {r!r}'[:200]]
        if code in (1, 2):
            r = dev.write_bit(code == 2)
            return 3 if r is None else ['x', f'write_bit returned {r!r}'[:200]]
        r = dev.get_output(allow_incomplete_output=(code == 4))
        if type(r) is bytes:
            return ['b', r.hex()]
        return ['x', f'get_output returned {r!r}'[:200]]
    except Exception as e:  # noqa: every exception is an observation
        return classify_exception(e)


KIND = {'bad scripted-keyboard line ': 1, 'bad down/up value on scripted-keyboard line ': 2,
        'bad number on scripted-keyboard line ': 3, 'keycode on scripted-keyboard line ': 4}


def script_error(e):
    """IODeviceException of from_text -> [line number, message kind]"""
    if type(e) is not IODeviceException:
        return ['x', f'{type(e).__name__}: {e}'[:200]]
    msg = str(e)
    for prefix, kind in KIND.items():
        if msg.startswith(prefix):
            rest = msg[len(prefix):]
            digits = ''
            while rest and rest[0].isdigit():
                digits += rest[0]
                rest = rest[1:]
            if digits and (rest.startswith(': ') or rest.startswith(' is not a byte: ')):
                return [int(digits), kind]
    return ['x', f'IODeviceException with an unknown message: {msg}'[:200]]


def make_device(job):
    """returns (device | None, constructor observation, stdout capture | None)"""
    d = job['dev']
    if d == 'fixed':
        return FixedIO(bytes.fromhex(job.get('input', ''))), 0, None
    if d == 'standard':
        STD_MODULE.stdin = io.StringIO(''.join(chr(c) for c in job.get('stdin', [])))
        cap = io.StringIO()
        STD_MODULE.stdout = cap
        return StandardIO(bool(job.get('verbose'))), 0, cap
    if d == 'kbd':
        evs = [KeyEvent(int(t), bool(dn), int(k)) for t, dn, k in job.get('events', [])]
        return KeyboardIO(ScriptedKeyEventSource(evs)), 0, None
    if d == 'script':
        text = ''.join(chr(c) for c in job['text'])
        try:
            src = ScriptedKeyEventSource.from_text(text)
        except Exception as e:  # noqa
            return None, script_error(e), None
        return KeyboardIO(src), 0, None
    if d == 'broken':
        return BrokenIO(), 0, None
    raise ValueError(d)


def run_trace(job):
    dev, ctor, cap = make_device(job)
    res = {'ctor': ctor, 'obs': []}
    if dev is not None:
        res['obs'] = [do_op(dev, c) for c in job['ops']]
    if cap is not None:
        res['stdout'] = [ord(ch) for ch in cap.getvalue()]
    return res


PACK_DEV = {0: {'dev': 'fixed'}, 1: {'dev': 'standard', 'verbose': False}, 2: {'dev': 'standard', 'verbose': True},
            3: {'dev': 'kbd'}}


def run_pack(dev_code, n, v):
    """write the n low bits of v (bit 0 first), then get_output with both flags"""
    dev, _, _ = make_device(PACK_DEV[dev_code])
    for i in range(n):
        r = do_op(dev, 2 if (v >> i) & 1 else 1)
        if r != 3:
            return [r, r]
    return [do_op(dev, 3), do_op(dev, 4)]


def main():
    jobs = json.load(open(sys.argv[1]))
    out = []
    for job in jobs:
        k = job['kind']
        if k == 'pack_range':      # all values lo <= v < hi of n bits
            out.append([run_pack(job['pdev'], job['n'], v) for v in range(job['lo'], job['hi'])])
        elif k == 'pack':
            out.append(run_pack(job['pdev'], job['n'], int(job['v'], 16)))     # v in hex
        elif k == 'trace':
            out.append(run_trace(job))
        else:
            raise ValueError(k)
    json.dump(out, open(sys.argv[2], 'w'))


if __name__ == '__main__':
    main()
