"""Drive the REAL debugger (fjm_run.run with a BreakpointHandler) with scripted command lines.
argv: in.json out.json.  in: list of cases
  {w, segs, input(hex), version, bps:[addr], labels:{name:addr} (optional), script:[line,...], last_ops, watchdog}
out: per case {'dbg': {...}, 'plain': {...}} where
  dbg   = debugged run of the featured engine: cause, ops, fault, out, last_ops, mem (non-zero words), events (the parsed
          transcript of everything the debugger printed), consumed (lines taken from the script), raw (on a parse problem)
  plain = undebugged run of the same featured engine (profile=True) on the same image and input."""
import builtins
import contextlib
import io
import json
import os
import re
import signal
import sys
import tempfile
from pathlib import Path

from flipjump.fjm.fjm_consts import FJMVersion  # noqa: E402
from flipjump.fjm.fjm_writer import Writer  # noqa: E402
from flipjump.interpreter import fjm_run  # noqa: E402
from flipjump.interpreter.debugging.breakpoints import BreakpointHandler  # noqa: E402
from flipjump.interpreter.io_devices.FixedIO import FixedIO  # noqa: E402


class Dev(FixedIO):
    def __init__(self, data):
        super().__init__(data)
        self.memview = None
        self.nbits = 0
        self.bits = 0

    def attach_memory(self, device_memory):
        self.memview = device_memory

    def write_bit(self, bit):
        self.bits |= (1 if bit else 0) << self.nbits
        self.nbits += 1
        super().write_bit(bit)


def write_fjm(path, case):
    wr = Writer(path, case['w'], FJMVersion(case.get('version', 1)))
    for start, length, data in case['segs']:
        ds = wr.add_data(list(data))
        wr.add_segment(start, length, ds, len(data))
    wr.write_to_file()


class Watchdog(BaseException):
    """not an Exception: fjm_run.run turns every Exception into its catch-all error"""


def _alarm(signum, frame):
    raise Watchdog()


# ---- transcript parser -------------------------------------------------------------------------------
# event codes (the same numbering as event_code in coq/Model/Debug.v)
PAUSE, PAUSE_FAULT, ACT, HELP, USAGE, UNKNOWN, SKIP_NAN, SKIP_NONPOS, RD_WORD, RD_VAR, BAD_ADDR, RD_FAIL, INVALID = range(13)
ACTIONS = {'step': 0, 'skip': 1, 'continue': 2, 'continue_all': 3, 'exit': 4}
HEX = r'(-?0x[0-9a-f]+)'


def _h(s):
    return int(s, 16)


def parse_block(title, body):
    """one show_message(title, body) -> event (list of ints) or None when it is not understood"""
    if title in ('Breakpoint', 'Debug Step'):
        # a word the banner could not read is shown as '(outside the memory segments)' -> -1
        word = r'(-?0x[0-9a-f]+|\(outside the memory segments\))'
        m = re.match(r'Address ' + HEX + r'.*?\.\n\n(\d+) ops executed\.\n\nflip ' + word + r'.*?\.\n\njump ' + word + r'.*\.$',
                     body, re.S)
        if not m:
            return None

        def wv(t):
            return -1 if t.startswith('(') else _h(t)
        return [PAUSE, 1 if title == 'Breakpoint' else 0, _h(m.group(1)), int(m.group(2)), wv(m.group(3)), wv(m.group(4))]
    if title == 'Debugger commands':
        return [HELP] if body.startswith('commands (one per line):') else None
    if title == 'Debugger':
        if body.startswith('usage: read'):
            return [USAGE]
        if body.startswith('skip needs a number'):
            return [SKIP_NAN]
        m = re.match(r'skip needs a positive count, got (-?\d+)\.$', body)
        if m:
            return [SKIP_NONPOS, int(m.group(1))]
        if body.startswith('unknown command '):
            return [UNKNOWN]
        return None
    if title == 'Read Memory':
        m = re.match(r'Reading .*?:\nmemory\[' + HEX + r'\] = (\d+)  \(or ' + HEX + r'\)\.', body, re.S)
        if not m or int(m.group(2)) != _h(m.group(3)):
            return None
        return [RD_WORD, _h(m.group(1)), int(m.group(2))]
    if title == 'Reading FlipJump Variable':
        m = re.match(r'Reading the variable .*?:\nmemory\[' + HEX + ', ' + HEX + r'\) = (\d+)  \(or ' + HEX + r'\)\.', body, re.S)
        if not m or int(m.group(3)) != _h(m.group(4)):
            return None
        return [RD_VAR, _h(m.group(1)), _h(m.group(2)), int(m.group(3))]
    if title == 'Bad memory address':
        m = re.search(r'The requested memory address \((-?\d+)\) must be aligned', body)
        return [BAD_ADDR, int(m.group(1))] if m else None
    if title == 'Read Memory Failure':
        m = re.search(r'Failed to read address (-?\d+), with the error: (.*)\.\nMaybe', body, re.S)
        if not m:
            return None
        g = re.match(r'Reading garbage word at mem\[([0-9a-f]+)\]', m.group(2))
        if g:
            return [RD_FAIL, int(m.group(1)), int(g.group(1), 16)]
        return [RD_FAIL, int(m.group(1)), -1]          # 'Accessed outside of memory (beyond the last bit).'
    if title == 'Invalid memory address.':
        return [INVALID]
    return None


def parse_transcript(text):
    """the stdout of a debugged run -> (events, problem).  Layout printed by the debugger:
         '  program break' [ '\n==== Breakpoint|Debug Step ====\n' body '\n' { '\n==== title ====\n' body '\n' } ': action\n' ]
       a pause marker that is not followed by its banner means the banner raised (PAUSE_FAULT) - the behaviour
       of finding F11, fixed in the repository; kept so that a regression is reported."""
    events = []
    pos = 0
    tok = re.compile(r'  program break|\n==== (.+?) ====\n|: (step|skip|continue_all|continue|exit)\n')
    nxt_re = re.compile(r'\n==== .+? ====\n|: (?:step|skip|continue_all|continue|exit)\n')
    in_pause = False
    while pos < len(text):
        m = tok.match(text, pos)
        if not m:
            return events, f'unparsed text at {pos}: {text[pos:pos + 120]!r}'
        if m.group(0) == '  program break':
            if in_pause:
                return events, 'two program-break markers without an action'
            pos = m.end()
            if re.compile(r'\n==== (Breakpoint|Debug Step) ====\n').match(text, pos):
                in_pause = True
            else:
                events.append([PAUSE_FAULT])
            continue
        if m.group(2):
            if not in_pause:
                return events, 'action without a pause'
            events.append([ACT, ACTIONS[m.group(2)]])
            in_pause = False
            pos = m.end()
            continue
        if not in_pause:
            return events, f'message block outside a pause: {m.group(1)!r}'
        nxt = nxt_re.search(text, m.end())
        end = nxt.start() if nxt else len(text)
        body = text[m.end():end]
        if body.endswith('\n'):
            body = body[:-1]
        ev = parse_block(m.group(1), body)
        if ev is None:
            return events, f'block not understood: {m.group(1)!r} / {body[:200]!r}'
        events.append(ev)
        pos = end
    if in_pause:
        return events, 'pause without an action at the end of the transcript'
    return events, None


class Script:
    def __init__(self, lines):
        self.lines = list(lines)
        self.pos = 0
        self.eof_hits = 0

    def __call__(self, prompt=''):
        sys.stdout.flush()
        if self.pos >= len(self.lines):
            self.eof_hits += 1
            raise EOFError()
        s = self.lines[self.pos]
        self.pos += 1
        return s


def one_run(case, path, debug):
    dev = Dev(bytes.fromhex(case.get('input', '')))
    res = {}
    kwargs = {'last_ops_debugging_list_length': case.get('last_ops', 4)}
    script = Script(case.get('script', []))
    buf = io.StringIO()
    quick = debug and case.get('via') == 'quickstart'
    if quick:
        # the public entry point: flipjump.debug(fjm, debugging_file, breakpoints_addresses=, breakpoints=, breakpoints_contains=)
        from flipjump import flipjump_quickstart
        from flipjump.interpreter.debugging.breakpoints import get_breakpoint_handler
        from flipjump.utils.functions import save_debugging_labels
        fjd = Path(str(path) + '.fjd')
        save_debugging_labels(fjd, dict(case.get('labels') or {}))
        qa = (set(case.get('bps', [])), set(case.get('bp_labels', [])), set(case.get('bp_contains', [])))
        with contextlib.redirect_stdout(io.StringIO()):
            res['resolved_bps'] = sorted(get_breakpoint_handler(fjd, *qa).breakpoints)
    elif debug:
        labels = case.get('labels') or {}
        bps = {int(a): None for a in case.get('bps', [])}
        for name in case.get('bp_labels', []):
            bps[labels[name]] = name
        a2l = {}
        for name, a in labels.items():
            if a in a2l and len(name) >= len(a2l[a]):
                continue
            a2l[a] = name
        kwargs['breakpoint_handler'] = BreakpointHandler(bps, a2l, dict(labels))
    else:
        kwargs['profile'] = True
    real_input = builtins.input
    builtins.input = script
    signal.setitimer(signal.ITIMER_REAL, case.get('watchdog', 10.0))
    try:
        with contextlib.redirect_stdout(buf):
            if quick:
                st = flipjump_quickstart.debug(path, fjd, breakpoints_addresses=qa[0], breakpoints=qa[1],
                                               breakpoints_contains=qa[2], io_device=dev, print_time=False,
                                               print_termination=False,
                                               last_ops_debugging_list_length=kwargs['last_ops_debugging_list_length'])
            else:
                st = fjm_run.run(path, io_device=dev, **kwargs)
        res['cause'] = int(st.termination_cause)
        res['ops'] = st.op_counter
        res['fault'] = st.memory_error_address
        res['last_ops'] = list(st.last_ops_addresses) if st.last_ops_addresses is not None else None
    except Watchdog:
        res['cause'] = 7
        res['ops'] = 0
        res['fault'] = None
    except BaseException as e:  # noqa
        res['exc'] = type(e).__name__ + ': ' + str(e)[:300]
        c = e.__cause__
        if c is not None:
            res['exc'] += ' <- ' + type(c).__name__ + ': ' + str(c)[:200]
    finally:
        signal.setitimer(signal.ITIMER_REAL, 0)
        builtins.input = real_input
    nfull = dev.nbits // 8
    res['out'] = [dev.nbits, list(dev.bits.to_bytes(nfull + 1, 'little')[:nfull]), dev.bits >> (8 * nfull)]
    res['in_left'] = [len(dev.remaining_input), dev.bits_to_read_in_input_byte]
    if dev.memview is not None:
        res['mem'] = sorted([a, v] for a, v in dev.memview._reader.memory.items() if v)
    if debug:
        text = buf.getvalue()
        ev, problem = parse_transcript(text)
        res['events'] = ev
        res['consumed'] = script.pos
        res['eof_hits'] = script.eof_hits
        if problem:
            res['problem'] = problem
            res['raw'] = text[-3000:]
    return res


def run_case(case, tmpdir):
    path = Path(tmpdir) / 'c.fjm'
    write_fjm(path, case)
    plain = one_run(case, path, False)
    if plain.get('cause') == 7:
        return {'skip': 'nonhalting', 'dbg': {}, 'plain': plain}
    return {'dbg': one_run(case, path, True), 'plain': plain}


def main():
    signal.signal(signal.SIGALRM, _alarm)
    os.environ['FLIPJUMP_NO_NATIVE'] = '1'      # the featured loop is selected by the handler / profile=True anyway
    cases = json.loads(Path(sys.argv[1]).read_text())
    out = []
    with tempfile.TemporaryDirectory(dir=os.getcwd()) as td:
        for c in cases:
            out.append(run_case(c, td))
    Path(sys.argv[2]).write_text(json.dumps(out))


if __name__ == '__main__':
    main()
